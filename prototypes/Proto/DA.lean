/-! Prototype: generic many-to-many deferred acceptance, abstract step system. -/

structure DA where
  plist : Nat → List Nat          -- proposer's acceptable receivers, best first
  rrank : Nat → Nat → Option Nat  -- rrank r p : receiver r's rank of proposer p (smaller = better)
  qp : Nat → Nat
  qr : Nat → Nat

structure St where
  ptr : Nat → Nat
  mu : List (Nat × Nat)            -- (proposer, receiver)

def heldBy (mu : List (Nat × Nat)) (r : Nat) : List Nat :=
  (mu.filter (fun e => e.2 == r)).map (·.1)

def matchesOf (mu : List (Nat × Nat)) (p : Nat) : List Nat :=
  (mu.filter (fun e => e.1 == p)).map (·.2)

/-- rank with unacceptable = 0 is never used: callers only rank acceptable proposers -/
def rk (I : DA) (r p : Nat) : Nat := (I.rrank r p).getD 0

/-- the worst (largest rank) element of a list, ties to the later one -/
def worst (I : DA) (r : Nat) : List Nat → Option Nat
  | [] => none
  | p :: ps => match worst I r ps with
    | none => some p
    | some w => if rk I r w < rk I r p then some p else some w

def setPtr (f : Nat → Nat) (p v : Nat) : Nat → Nat := fun x => if x = p then v else f x

def step (I : DA) (st : St) (p : Nat) : St :=
  match (I.plist p)[st.ptr p]? with
  | none => st
  | some r =>
    let ptr' := setPtr st.ptr p (st.ptr p + 1)
    match I.rrank r p with
    | none => { ptr := ptr', mu := st.mu }
    | some _ =>
      let mu1 := (p, r) :: st.mu
      if (heldBy mu1 r).length ≤ I.qr r then { ptr := ptr', mu := mu1 }
      else match worst I r (heldBy mu1 r) with
        | none => { ptr := ptr', mu := mu1 }
        | some w => { ptr := ptr', mu := mu1.erase (w, r) }

theorem worst_mem (I : DA) (r : Nat) (ps : List Nat) (w : Nat) (h : worst I r ps = some w) : w ∈ ps := by
  induction ps generalizing w with
  | nil => simp [worst] at h
  | cons p ps ih =>
    simp only [worst] at h
    split at h
    · simp at h; simp [h]
    · rename_i w' hw'
      split at h
      · simp at h; simp [h]
      · simp at h; subst h; simp [ih w' hw']

theorem worst_ge (I : DA) (r : Nat) (ps : List Nat) (w : Nat) (h : worst I r ps = some w) :
    ∀ q ∈ ps, rk I r q ≤ rk I r w := by
  induction ps generalizing w with
  | nil => simp [worst] at h
  | cons p ps ih =>
    simp only [worst] at h
    intro q hq
    split at h
    · rename_i hn
      simp at h; subst h
      cases ps with
      | nil => simp at hq; simp [hq]
      | cons a as => simp [worst] at hn; split at hn <;> (try split at hn) <;> simp at hn
    · rename_i w' hw'
      have := ih w' hw'
      simp at hq
      split at h
      · simp at h; subst h
        rcases hq with rfl | hq
        · exact Nat.le_refl _
        · have := this q hq; omega
      · simp at h; subst h
        rcases hq with rfl | hq
        · omega
        · exact this q hq

theorem worst_some (I : DA) (r : Nat) (ps : List Nat) (h : ps ≠ []) : ∃ w, worst I r ps = some w := by
  cases ps with
  | nil => exact absurd rfl h
  | cons p ps =>
    simp only [worst]
    split
    · exact ⟨_, rfl⟩
    · split <;> exact ⟨_, rfl⟩
