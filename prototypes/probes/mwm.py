import numpy as np, itertools, random, sys, multiprocessing as mp
from socialchoicekit.deterministic_allocation import MaximumWeightMatching

def worker(V, q):
    try:
        q.put(('ok', MaximumWeightMatching(zero_indexed=True).scf(V).tolist()))
    except Exception as e:
        q.put(('exc', type(e).__name__ + ': ' + str(e)[:60]))

def run(V, timeout=5):
    q = mp.Queue(); p = mp.Process(target=worker, args=(V, q)); p.start(); p.join(timeout)
    if p.is_alive():
        p.terminate(); p.join(); return ('hang', None)
    return q.get()

def brute(V):
    n = V.shape[0]; best = None
    for p in itertools.permutations(range(n)):
        if any(np.isnan(V[i, p[i]]) for i in range(n)): continue
        w = sum(V[i, p[i]] for i in range(n))
        best = w if best is None else max(best, w)
    return best

if __name__ == '__main__':
    rng = random.Random(5)
    kinds = {}
    for t in range(400):
        n = rng.randint(1, 5)
        mode = rng.choice(['intzero', 'float', 'step', 'nan'])
        if mode == 'intzero': V = np.array([[float(rng.randint(0, 3)) for _ in range(n)] for _ in range(n)])
        elif mode == 'float': V = np.array([[rng.random() for _ in range(n)] for _ in range(n)])
        elif mode == 'step':
            V = np.zeros((n, n))
            for i in range(n):
                v = rng.random(); lv = [v, v / n**(1/3), v / n**(2/3), 1e-5]
                for j in range(n): V[i, j] = rng.choice(lv)
        else:
            V = np.array([[rng.choice([np.nan, 1.0, 2.0, 0.5]) for _ in range(n)] for _ in range(n)])
        st, out = run(V)
        b = brute(V)
        if st == 'ok':
            if sorted(out) != list(range(n)): k = 'notperm'
            elif any(np.isnan(V[i, out[i]]) for i in range(n)): k = 'usesnan'
            elif b is None: k = 'returned-but-infeasible'
            elif abs(sum(V[i, out[i]] for i in range(n)) - b) > 1e-9: k = 'subopt'
            else: k = 'ok'
        elif st == 'exc': k = 'exc-feasible' if b is not None else 'exc-infeasible(ok)'
        else: k = 'hang'
        kinds[(mode, k)] = kinds.get((mode, k), 0) + 1
        if k in ('hang', 'subopt', 'exc-feasible', 'usesnan') and kinds[(mode, k)] <= 1: print(mode, k, V.tolist(), out)
    for k in sorted(kinds): print(k, kinds[k])
