import numpy as np, random, math, sys
from socialchoicekit.elicitation_voting import KARV, LambdaPRV
from socialchoicekit.elicitation_allocation import LambdaTSF, MatchTwoQueries
from socialchoicekit.elicitation_matching import DoubleLambdaTSF
from socialchoicekit.elicitation_utils import ValuationProfileElicitor, IntegerValuationProfileElicitor, LambdaElicitor
from socialchoicekit.profile_utils import StrictCompleteProfile, ValuationProfile, IntegerValuationProfile

def gen(rng, n, m, mode):
    P = np.array([rng.sample(range(1, m+1), m) for _ in range(n)])
    V = np.zeros((n, m))
    for i in range(n):
        if mode == 'unit': vals = sorted([rng.random() for _ in range(m)], reverse=True); s = sum(vals); vals = [v/s for v in vals]
        elif mode == 'skew': vals = sorted([rng.random()**8 for _ in range(m)], reverse=True)
        elif mode == 'ties': vals = sorted([rng.choice([0, 0.25, 0.5, 1.0]) for _ in range(m)], reverse=True)
        elif mode == 'int': vals = sorted([rng.randint(0, 20) for _ in range(m)], reverse=True)
        order = np.argsort(P[i])
        for r, j in enumerate(order): V[i, j] = vals[r]
    return P, V

rng = random.Random(8); kinds = {}
def note(k, *info):
    kinds[k] = kinds.get(k, 0) + 1
    if kinds[k] <= 1 and not k.endswith('ok'): print(k, *info)
for t in range(1500):
    n = rng.randint(1, 5); m = rng.randint(2, 12); mode = rng.choice(['unit', 'skew', 'ties'])
    P, V = gen(rng, n, m, mode)
    k = rng.randint(1, m)
    for name, rule in (('karv', KARV(k=k, tie_breaker='accept')), ):
        el = ValuationProfileElicitor(ValuationProfile.of(V))
        asked = []
        vt = rule.get_simulated_cardinal_profile(StrictCompleteProfile.of(P), el)
        vt = np.array(vt)
        order = np.argsort(P, axis=1)
        ok = True
        for i in range(n):
            if vt[i, order[i, 0]] != V[i, order[i, 0]]: ok = False; note('karv fav', P, V, k)
            if np.any(vt[i] > V[i] + 1e-15): ok = False; note('karv exceeds', P.tolist(), V.tolist(), k, vt.tolist())
        maxq = 1 + k * math.ceil(math.log2(m))
        per_agent = {}
        for (a, alt) in el.memoized_values: per_agent[a] = per_agent.get(a, 0) + 1
        if max(per_agent.values()) > maxq: ok = False; note('karv budget', m, k, per_agent)
        if ok: note('karv ok')
for t in range(800):
    n = rng.randint(1, 6); mode = rng.choice(['unit', 'skew', 'ties'])
    P, V = gen(rng, n, n, mode)
    lam = rng.randint(1, n)
    el = ValuationProfileElicitor(ValuationProfile.of(V))
    vt = np.array(LambdaTSF(lambda_=lam).get_simulated_cardinal_profile(StrictCompleteProfile.of(P), el))
    ok = True
    for i in range(n):
        for j in range(n):
            if vt[i, j] > V[i, j] + 1e-15 and vt[i, j] != 1e-5: ok = False; note('tsf exceeds', P.tolist(), V.tolist(), lam, vt.tolist())
    if ok: note('tsf ok')
    el = ValuationProfileElicitor(ValuationProfile.of(V))
    try:
        vt = np.array(MatchTwoQueries().get_simulated_cardinal_profile(StrictCompleteProfile.of(P), el))
        ok = True
        for i in range(n):
            for j in range(n):
                if vt[i, j] > V[i, j] + 1e-15 and vt[i, j] != 1e-5: ok = False; note('m2q exceeds', P.tolist(), V.tolist(), vt.tolist())
        per_agent = {}
        for (a, alt) in el.memoized_values: per_agent[a] = per_agent.get(a, 0) + 1
        if max(per_agent.values()) > 2: ok = False; note('m2q budget')
        if ok: note('m2q ok')
    except Exception as e: note('m2q EXC ' + type(e).__name__ + str(e)[:50], P.dtype)
    try:
        Pf = P.astype(float)
        vt = np.array(MatchTwoQueries().get_simulated_cardinal_profile(StrictCompleteProfile.of(Pf), ValuationProfileElicitor(ValuationProfile.of(V))))
        note('m2q float ok')
    except Exception as e: note('m2q float EXC ' + type(e).__name__ + str(e)[:50])
print(kinds)
