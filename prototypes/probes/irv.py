import numpy as np, itertools, random, sys, traceback
from socialchoicekit.deterministic_matching import Irving
from socialchoicekit.profile_utils import StrictCompleteProfile, IntegerValuationProfile

def stable(P1, P2, perm):
    n = len(perm)
    inv = [0]*n
    for i, j in enumerate(perm): inv[j] = i
    for i in range(n):
        for j in range(n):
            if perm[i] == j: continue
            if P1[i, j] < P1[i, perm[i]] and P2[j, i] < P2[j, inv[j]]:
                return False
    return True

def run(seed, trials, nmax, mode):
    rng = random.Random(seed)
    kinds = {}
    for t in range(trials):
        n = rng.randint(1, nmax)
        P1 = np.array([rng.sample(range(1, n+1), n) for _ in range(n)])
        P2 = np.array([rng.sample(range(1, n+1), n) for _ in range(n)])
        if mode == 'agree':
            V1 = (n + 1 - P1) * rng.randint(1, 3); V2 = (n + 1 - P2) * rng.randint(1, 3)
        elif mode == 'ties':
            V1 = np.array([[rng.randint(0, 3) for _ in range(n)] for _ in range(n)]); V2 = np.array([[rng.randint(0, 3) for _ in range(n)] for _ in range(n)])
        else:
            V1 = np.array([[rng.randint(-5, 20) for _ in range(n)] for _ in range(n)]); V2 = np.array([[rng.randint(-5, 20) for _ in range(n)] for _ in range(n)])
        try:
            out = Irving(zero_indexed=True).scf(IntegerValuationProfile.of(V1), IntegerValuationProfile.of(V2), StrictCompleteProfile.of(P1), StrictCompleteProfile.of(P2))
        except Exception as e:
            k = 'EXC ' + type(e).__name__ + ' ' + str(e)[:50]
            kinds[k] = kinds.get(k, 0) + 1
            if kinds[k] == 1: print(k, 'n=', n, P1.tolist(), P2.tolist(), V1.tolist(), V2.tolist())
            continue
        perm = [None]*n
        for i, j in out: perm[i] = j
        if sorted(perm) != list(range(n)): kinds['notperfect'] = kinds.get('notperfect', 0) + 1; continue
        if not stable(P1, P2, perm): kinds['unstable'] = kinds.get('unstable', 0) + 1; continue
        w = sum(V1[i, perm[i]] + V2[perm[i], i] for i in range(n))
        best = max(sum(V1[i, p[i]] + V2[p[i], i] for i in range(n)) for p in itertools.permutations(range(n)) if stable(P1, P2, p))
        if w != best:
            kinds['subopt'] = kinds.get('subopt', 0) + 1
            if kinds['subopt'] <= 2: print('SUBOPT n=', n, P1.tolist(), P2.tolist(), V1.tolist(), V2.tolist(), out, w, best)
        else: kinds['ok'] = kinds.get('ok', 0) + 1
    print(mode, nmax, kinds)

if __name__ == '__main__':
    for mode in ('agree', 'ties', 'free'):
        run(1, 1500, 5, mode)
        run(2, 300, 7, mode)
