import numpy as np, io, sys
from preflibtools.instances import OrdinalInstance, CategoricalInstance
from socialchoicekit.preflib_utils import *
soc = """# FILE NAME: t.soc
# TITLE: t
# DATA TYPE: soc
# NUMBER ALTERNATIVES: 3
# NUMBER VOTERS: 5
# NUMBER UNIQUE ORDERS: 2
# ALTERNATIVE NAME 1: a
# ALTERNATIVE NAME 2: b
# ALTERNATIVE NAME 3: c
3: 2,1,3
2: 3,1,2
"""
open('t.soc','w').write(soc)
i = OrdinalInstance(); i.parse_file('t.soc'); print(i.data_type, preflib_soc_to_profile(i))
toi = """# FILE NAME: t.toi
# TITLE: t
# DATA TYPE: toi
# NUMBER ALTERNATIVES: 4
# NUMBER VOTERS: 3
# NUMBER UNIQUE ORDERS: 2
# ALTERNATIVE NAME 1: a
# ALTERNATIVE NAME 2: b
# ALTERNATIVE NAME 3: c
# ALTERNATIVE NAME 4: d
2: {2,4},1
1: 3,{1,2}
"""
open('t.toi','w').write(toi)
i = OrdinalInstance(); i.parse_file('t.toi'); print(i.data_type, preflib_toi_to_profile(i, 'accept'), preflib_toi_to_profile(i, 'first'))
try: preflib_soc_to_profile(i)
except Exception as e: print('wrongtype', type(e).__name__, e)
cat = """# FILE NAME: t.cat
# TITLE: t
# DATA TYPE: cat
# NUMBER ALTERNATIVES: 4
# NUMBER VOTERS: 3
# NUMBER UNIQUE PREFERENCES: 2
# NUMBER CATEGORIES: 2
# CATEGORY NAME 1: yes
# CATEGORY NAME 2: no
# ALTERNATIVE NAME 1: a
# ALTERNATIVE NAME 2: b
# ALTERNATIVE NAME 3: c
# ALTERNATIVE NAME 4: d
2: {2,4},{1}
1: {},{1,2,3}
"""
open('t.cat','w').write(cat)
c = CategoricalInstance(); c.parse_file('t.cat'); print(c.preferences, c.multiplicity); print(preflib_categorical_to_profile(c, 'accept'))
