import numpy as np, random, sys, multiprocessing as mp
from multiprocessing.pool import ThreadPool
from mwm import run
def gen(rng, n):
    vs = [rng.choice([0.2, 0.3, 0.25, 1/3, 0.5]) for _ in range(n)]
    lam = rng.randint(1, 3)
    V = np.zeros((n, n))
    for i in range(n):
        levels = [vs[i]] + [vs[i] / n ** (l / (lam + 1)) for l in range(1, lam + 1)] + [1e-5]
        # step: nonincreasing along a random permutation
        perm = rng.sample(range(n), n)
        cuts = sorted(rng.randint(1, n) for _ in range(lam + 1))
        lvl = 0
        for pos, j in enumerate(perm):
            if pos == 0: V[i, j] = vs[i]; continue
            while lvl < len(cuts) and pos >= cuts[lvl]: lvl += 1
            V[i, j] = levels[min(lvl + 1, len(levels) - 1)] if lvl > 0 or pos >= 1 else vs[i]
    return V
def one(seed):
    rng = random.Random(seed); V = gen(rng, 5)
    st, out = run(V, timeout=3)
    return st, V.tolist()
if __name__ == '__main__':
    with ThreadPool(12) as pool:
        res = pool.map(one, range(600))
    kinds = {}
    for st, V in res:
        kinds[st] = kinds.get(st, 0) + 1
        if st == 'hang' and kinds[st] <= 2: print(V)
    print(kinds)
