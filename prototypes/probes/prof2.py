import numpy as np, random
from socialchoicekit.profile_utils import *
from socialchoicekit.data_generation import *
rng = random.Random(1); np.random.seed(1); kinds = {}
for t in range(3000):
    n = rng.randint(1, 3); m = rng.randint(1, 40 if t % 3 == 0 else 8)
    P = np.full((n, m), np.nan)
    for i in range(n):
        acc = [j for j in range(m) if rng.random() < rng.choice([1, 0.7, 0.3])]
        if i == 0 and not acc: acc = [0]
        rng.shuffle(acc)
        for r, j in enumerate(acc): P[i, j] = r + 1
    for gen in (UniformValuationProfileGenerator(high=1, low=0, seed=t), NormalValuationProfileGenerator(mean=0.5, variance=0.2, seed=t)):
        V = np.array(gen.generate(StrictIncompleteProfile.of(P)))
        nanmis = not np.array_equal(np.isnan(V), np.isnan(P))
        c = is_consistent_valuation_profile(ValuationProfile.of(V), StrictIncompleteProfile.of(P))
        nn = int(np.max(np.sum(np.isnan(P), axis=1)))
        zeros = int(np.sum(V == 0))
        k = (gen.__class__.__name__[:4], 'nanmis' if nanmis else '', 'rej' if not c else 'acc', 'm>16' if m > 16 else 'm<=16', 'maxnan>=2' if nn >= 2 else 'maxnan<2', 'zeros' if zeros else 'nozero', 'allnanrow' if np.any(np.all(np.isnan(P), axis=1)) else '')
        kinds[k] = kinds.get(k, 0) + 1
for k in sorted(kinds): print(k, kinds[k])
