import numpy as np, itertools, random, sys, copy
from socialchoicekit.flow import ford_fulkerson, maximum_cardinality_matching_bipartite
sys.setrecursionlimit(10000)
def ek(G, s, t):
    cap = {}
    for u in G:
        for v, c in G[u]: cap[(u, v)] = cap.get((u, v), 0) + c; cap.setdefault((v, u), 0)
    adj = {u: set() for u in G}
    for (u, v) in cap: adj.setdefault(u, set()).add(v)
    val = 0
    while True:
        par = {s: None}; q = [s]
        while q and t not in par:
            u = q.pop(0)
            for v in adj.get(u, ()):
                if v not in par and cap[(u, v)] > 0: par[v] = u; q.append(v)
        if t not in par: return val
        b = float('inf'); v = t
        while par[v] is not None: b = min(b, cap[(par[v], v)]); v = par[v]
        v = t
        while par[v] is not None: cap[(par[v], v)] -= b; cap[(v, par[v])] += b; v = par[v]
        val += b
def checkff(G, s, t):
    G0 = copy.deepcopy(G)
    flow, cut = ford_fulkerson(G, s, t)
    errs = []
    if G != G0: errs.append('mutated')
    capd = {(u, v): c for u in G for v, c in G[u]}
    if set(flow) != set(capd): errs.append('keys')
    for e, f in flow.items():
        if f > capd[e]: errs.append('cap')
        if f < 0 and (e[1], e[0]) not in capd: errs.append('neg')
        if (e[1], e[0]) in capd and flow[(e[1], e[0])] != -f: errs.append('skew')
    def net(v):
        out = 0
        seen = set()
        for (a, b), f in flow.items():
            if frozenset((a, b)) in seen: continue
            if a == v: out += f; seen.add(frozenset((a, b)))
            elif b == v: out -= f; seen.add(frozenset((a, b)))
        return out
    for v in G:
        if v not in (s, t) and net(v) != 0: errs.append('conserve')
    val = net(s)
    if val != ek(G, s, t): errs.append('notmax')
    if s not in cut or t in cut: errs.append('cutst')
    cc = sum(c for u in G for v, c in G[u] if u in cut and v not in cut)
    if cc != val: errs.append('cutcap')
    return errs
if __name__ == '__main__':
    rng = random.Random(3); kinds = {}
    for trial in range(3000):
        nv = rng.randint(2, 7); V = list(range(nv)); s, t = 0, nv - 1
        dens = rng.choice([0.2, 0.5, 0.9])
        G = {u: [] for u in V}
        for u in V:
            for v in V:
                if u != v and rng.random() < dens:
                    G[u].append((v, rng.choice([0, 1, 1, 2, 3, 5, sys.maxsize])))
        try: e = checkff(G, s, t)
        except RecursionError: e = ['recursion']
        except Exception as ex: e = ['EXC ' + type(ex).__name__ + str(ex)[:30]]
        k = tuple(sorted(set(e))); kinds[k] = kinds.get(k, 0) + 1
        if e and kinds[k] <= 1: print(k, G)
    print(kinds)
    # matching
    kinds = {}
    for trial in range(2000):
        a = rng.randint(1, 5); b = rng.randint(1, 5); X = list(range(a)); Y = list(range(a, a + b))
        dens = rng.choice([0.2, 0.5, 0.9]); und = rng.random() < 0.5
        G = {v: [] for v in X + Y}
        for x in X:
            for y in Y:
                if rng.random() < dens:
                    G[x].append(y)
                    if und: G[y].append(x)
        try:
            M = maximum_cardinality_matching_bipartite(G, X, Y)
            # brute max matching
            import networkx  # may not exist
        except ImportError:
            pass
        except Exception as ex:
            k = 'EXC ' + type(ex).__name__ + str(ex)[:40]; kinds[k] = kinds.get(k, 0) + 1; continue
        ok = len(set(x for x, y in M)) == len(M) and len(set(y for x, y in M)) == len(M) and all(y in G[x] for x, y in M)
        # max matching via simple augmenting
        match = {}
        def aug(x, seen):
            for y in G[x]:
                if y in seen: continue
                seen.add(y)
                if y not in match or aug(match[y], seen): match[y] = x; return True
            return False
        sz = sum(aug(x, set()) for x in X)
        k = 'ok' if ok and len(M) == sz else 'bad'
        kinds[k] = kinds.get(k, 0) + 1
    print(kinds)
