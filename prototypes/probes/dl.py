import numpy as np, random, itertools, math
from socialchoicekit.elicitation_matching import DoubleLambdaTSF
from socialchoicekit.elicitation_utils import IntegerValuationProfileElicitor
from socialchoicekit.profile_utils import StrictCompleteProfile, IntegerValuationProfile
from irv import stable
from elic import gen
rng = random.Random(21); kinds = {}
def note(k, *a):
    kinds[k] = kinds.get(k, 0) + 1
    if kinds[k] <= 1 and k != 'ok': print(k, *a)
for t in range(1200):
    n = rng.randint(1, 7)
    P1, V1 = gen(rng, n, n, 'int'); P2, V2 = gen(rng, n, n, 'int')
    V1 = V1.astype(int); V2 = V2.astype(int)
    l1 = rng.randint(1, n); l2 = rng.randint(1, n)
    e1 = IntegerValuationProfileElicitor(IntegerValuationProfile.of(V1)); e2 = IntegerValuationProfileElicitor(IntegerValuationProfile.of(V2))
    rule = DoubleLambdaTSF(l1, l2, zero_indexed=True)
    try:
        vt1, vt2 = rule.get_simulated_cardinal_profiles(StrictCompleteProfile.of(P1), StrictCompleteProfile.of(P2), e1, e2)
        out = rule.scf(StrictCompleteProfile.of(P1), StrictCompleteProfile.of(P2), e1, e2)
    except Exception as e: note('EXC ' + type(e).__name__ + str(e)[:60], P1.tolist(), P2.tolist(), V1.tolist(), V2.tolist(), l1, l2); continue
    vt1 = np.array(vt1); vt2 = np.array(vt2)
    if np.any(vt1 > V1) or np.any(vt2 > V2): note('exceeds'); continue
    perm = [None]*n
    for i, j in out: perm[i] = j
    if sorted(perm) != list(range(n)) or not stable(P1, P2, perm): note('unstable/notperfect'); continue
    w = sum(vt1[i, perm[i]] + vt2[perm[i], i] for i in range(n))
    best = max(sum(vt1[i, p[i]] + vt2[p[i], i] for i in range(n)) for p in itertools.permutations(range(n)) if stable(P1, P2, p))
    if w != best: note('subopt', P1.tolist(), P2.tolist(), V1.tolist(), V2.tolist(), l1, l2, out); continue
    # budget
    for e, lam in ((e1, l1), (e2, l2)):
        per = {}
        for (a, alt) in e.memoized_values: per[a] = per.get(a, 0) + 1
        if max(per.values()) > 1 + lam * math.ceil(math.log2(n)) if n > 1 else max(per.values()) > 1: note('budget', n, lam, per)
    note('ok')
print(kinds)
