import numpy as np, random
from socialchoicekit.profile_utils import *
rng = random.Random(2); np.random.seed(2); kinds = {}
def note(k, *a):
    kinds[k] = kinds.get(k, 0) + 1
    if kinds[k] <= 1 and 'ok' not in k: print(k, *a)
for t in range(3000):
    n = rng.randint(1, 4); m = rng.randint(1, 30 if t % 3 == 0 else 6)
    # weak order with NaN: each row: choose acceptable subset, partition into classes; rank of class = 1 + number of items in better classes (competition ranking) 
    P = np.full((n, m), np.nan)
    for i in range(n):
        acc = [j for j in range(m) if rng.random() < rng.choice([1, 0.7])]
        if i == 0 and not acc: acc = [0]
        rng.shuffle(acc)
        r = 1; idx = 0
        while idx < len(acc):
            sz = rng.randint(1, 3); cls = acc[idx:idx+sz]
            for j in cls: P[i, j] = r
            r += len(cls); idx += sz
    if np.nanmin(P) != 1: continue
    for dt in (float, ):
        for tb in ('first', 'random'):
            try:
                S = np.array(profile_with_ties_to_strict_profile(ProfileWithTies.of(P.copy()), tb))
            except Exception as e: note('ties EXC ' + tb + type(e).__name__ + str(e)[:40], P.tolist()); continue
            ok = np.array_equal(np.isnan(S), np.isnan(P))
            for i in range(n):
                acc = [j for j in range(m) if not np.isnan(P[i, j])]
                if sorted(S[i, acc].tolist()) != list(range(1, len(acc)+1)): ok = False
                for a in acc:
                    for b in acc:
                        if P[i, a] < P[i, b] and not S[i, a] < S[i, b]: ok = False
                        if tb == 'first' and P[i, a] == P[i, b] and a < b and not S[i, a] < S[i, b]: ok = False
            note('ties ok' if ok else 'ties bad ' + tb, P.tolist(), S.tolist())
    # strict incomplete for completion
    Q = np.full((n, m), np.nan)
    for i in range(n):
        acc = [j for j in range(m) if rng.random() < 0.6]
        if i == 0 and not acc: acc = [0]
        rng.shuffle(acc)
        for r, j in enumerate(acc): Q[i, j] = r + 1
    for tb in ('first', 'random', 'accept'):
        try: C = np.array(incomplete_profile_to_complete_profile(StrictIncompleteProfile.of(Q.copy()), tb))
        except Exception as e: note('compl EXC ' + tb + ' ' + type(e).__name__ + str(e)[:40], Q.tolist()); continue
        ok = not np.any(np.isnan(C))
        for i in range(n):
            k = int(np.sum(~np.isnan(Q[i])))
            for j in range(m):
                if not np.isnan(Q[i, j]) and C[i, j] != Q[i, j]: ok = False
                if np.isnan(Q[i, j]) and not C[i, j] > k: ok = False
            if tb != 'accept' and sorted(C[i].tolist()) != list(range(1, m+1)): ok = False
            if tb == 'first':
                nn = [j for j in range(m) if np.isnan(Q[i, j])]
                if [C[i, j] for j in nn] != list(range(k+1, m+1)): ok = False
        note('compl ok' if ok else 'compl bad ' + tb, Q.tolist(), C.tolist())
for k in sorted(kinds): print(k, kinds[k])
