import numpy as np, random, itertools, math
from socialchoicekit.deterministic_scoring import *
from socialchoicekit.deterministic_tournament import Copeland
from socialchoicekit.deterministic_multiround import SingleTransferableVote
from socialchoicekit.randomized_scoring import *
from socialchoicekit.randomized_allocation import *
from socialchoicekit.elicitation_voting import KARV, LambdaPRV
from socialchoicekit.elicitation_allocation import LambdaTSF, MatchTwoQueries
from socialchoicekit.elicitation_utils import ValuationProfileElicitor
from socialchoicekit.distortion import distortion
from socialchoicekit.profile_utils import *
from elic import gen
rng = random.Random(33); kinds = {}
def note(k, *a):
    kinds[k] = kinds.get(k, 0) + 1
    if kinds[k] <= 1 and not k.endswith('ok'): print(k, *a)
for t in range(600):
    n = rng.randint(1, 8); m = rng.randint(2, 6)
    P, V = gen(rng, n, m, rng.choice(['unit', 'skew', 'ties']))
    SP = StrictCompleteProfile.of(P)
    for mk in (lambda **kw: Plurality(**kw), lambda **kw: Borda(**kw), lambda **kw: Veto(**kw), lambda **kw: KApproval(2, **kw), lambda **kw: Harmonic(**kw), lambda **kw: Copeland(**kw)):
        a1 = mk(tie_breaker='accept').scf(SP); a0 = mk(tie_breaker='accept', zero_indexed=True).scf(SP)
        f1 = mk(tie_breaker='first').scf(SP); s1 = mk(tie_breaker='accept').swf(SP); s0 = mk(tie_breaker='accept', zero_indexed=True).swf(SP)
        ok = np.array_equal(a1, a0 + 1) and f1 == a1[0] and list(a1) == sorted(a1)
        np.random.seed(t); r1 = mk(tie_breaker='random').scf(SP); ok = ok and r1 in a1
        ok = ok and np.array_equal(s1[1], s0[1]) and np.array_equal(s1[0], s0[0] + 1)
        note('vote ok' if ok else 'vote bad', type(mk()).__name__)
    for tb in ('first', 'random'):
        np.random.seed(t); w1 = SingleTransferableVote(tb).scf(SP); np.random.seed(t); w0 = SingleTransferableVote(tb, zero_indexed=True).scf(SP)
        note('stv ok' if w1 == w0 + 1 else 'stv bad', P.tolist(), w1, w0)
    # randomized scoring
    for R in (RandomizedPlurality, RandomizedBorda, RandomizedVeto, RandomizedHarmonic):
        try:
            np.random.seed(t); w1 = R().scf(SP); np.random.seed(t); w0 = R(zero_indexed=True).scf(SP)
            sc = R().score(SP)
            note('rand ok' if w1 == w0 + 1 and sc[w0] > 0 else 'rand bad')
        except Exception as e: note('rand EXC ' + R.__name__ + type(e).__name__ + str(e)[:40], P.tolist())
    # elicitation voting + distortion bound
    k = rng.randint(1, m)
    w = KARV(k=k, tie_breaker='accept').scf(SP, ValuationProfileElicitor(ValuationProfile.of(V)))
    sw = V.sum(axis=0)
    if sw.max() > 0:
        worst = min(sw[j - 1] for j in w)
        if worst * 2 * m ** (1/(k+1)) < sw.max() * (1 - 1e-9): note('karv distortion bad', P.tolist(), V.tolist(), k)
        else: note('karv distortion ok')
        d = distortion(w, ValuationProfile.of(V))
        if worst > 0 and abs(d - sw.max()/worst) > 1e-9 * d: note('distortion helper bad')
    # RSD
    for zi in (False, True):
        np.random.seed(t); a = RandomSerialDictatorship(zero_indexed=zi).scf(SP)
        items = [x for x in a if not np.isnan(x)]
        if len(set(items)) != len(items): note('rsd dup')
    np.random.seed(t); a1 = RandomSerialDictatorship().scf(SP); np.random.seed(t); a0 = RandomSerialDictatorship(zero_indexed=True).scf(SP)
    note('rsd ok' if np.array_equal(a1, a0 + 1) else 'rsd shift bad')
for t in range(300):
    n = rng.randint(1, 6)
    P, V = gen(rng, n, n, rng.choice(['unit', 'skew', 'ties']))
    SP = StrictCompleteProfile.of(P)
    lam = rng.randint(1, n)
    a1 = LambdaTSF(lam).scf(SP, ValuationProfileElicitor(ValuationProfile.of(V))); a0 = LambdaTSF(lam, zero_indexed=True).scf(SP, ValuationProfileElicitor(ValuationProfile.of(V)))
    note('tsf shift ok' if np.array_equal(a1, a0 + 1) else 'tsf shift bad')
    opt = max(sum(V[i, p[i]] for i in range(n)) for p in itertools.permutations(range(n)))
    got = sum(V[i, a0[i]] for i in range(n))
    if (got + n * 1e-5) * 2 * n ** (1/(lam+1)) < opt * (1 - 1e-9): note('tsf distortion bad', P.tolist(), V.tolist(), lam)
    else: note('tsf distortion ok')
    try:
        np.random.seed(t); l1 = ProbabilisticSerial().scf(SP); np.random.seed(t); l0 = ProbabilisticSerial(zero_indexed=True).scf(SP)
        X = ProbabilisticSerial().bistochastic(SP)
        ok = np.array_equal(l1, l0 + 1) and sorted(l0) == list(range(n)) and all(X[i, l0[i]] > 0 for i in range(n))
        note('ps lottery ok' if ok else 'ps lottery bad')
    except Exception as e: note('ps lottery EXC ' + type(e).__name__ + str(e)[:50])
for k in sorted(kinds): print(k, kinds[k])
