import numpy as np, itertools, random, sys
from socialchoicekit.deterministic_matching import GaleShapley
from socialchoicekit.profile_utils import StrictProfile
from gs import rand_instance, check

def all_matchings(n, m, c):
    # assignments: each resident -> hospital or None, respecting capacity
    for assign in itertools.product([None] + list(range(m)), repeat=n):
        ok = all(sum(1 for a in assign if a == h) <= c[h] for h in range(m))
        if ok: yield [(r, h) for r, h in enumerate(assign) if h is not None]

rng = random.Random(7)
for oriented in (True, False):
    bad = 0; tot = 0
    for t in range(600):
        n = rng.randint(1, 4); m = rng.randint(1, 3)
        R, H, c = rand_instance(rng, n, m, rng.choice([0, 0.3]))
        if np.all(np.isnan(R)) or np.all(np.isnan(H)): continue
        tot += 1
        match = GaleShapley(resident_oriented=oriented, zero_indexed=True).scf(R.view(StrictProfile), H.view(StrictProfile), c)
        stables = [mm for mm in all_matchings(n, m, c) if not check(R, H, c, mm)]
        assert stables
        mr = dict(match)
        for r in range(n):
            # best/worst over stable matchings; unmatched = rank inf
            ranks = [ (R[r, dict(mm)[r]] if r in dict(mm) else np.inf) for mm in stables]
            mine = R[r, mr[r]] if r in mr else np.inf
            want = min(ranks) if oriented else max(ranks)
            if mine != want:
                bad += 1; break
    print('oriented', oriented, 'tot', tot, 'bad', bad)
