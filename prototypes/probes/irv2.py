import numpy as np, itertools, random, sys
from socialchoicekit.deterministic_matching import Irving
from socialchoicekit.profile_utils import StrictCompleteProfile, IntegerValuationProfile
from irv import stable

def compose(rng, sizes, vmode):
    n = sum(sizes); offs = np.cumsum([0] + sizes)
    P1 = np.zeros((n, n), dtype=int); P2 = np.zeros((n, n), dtype=int)
    blocks = []
    for b, s in enumerate(sizes):
        o = offs[b]
        for P in (P1, P2):
            for i in range(s):
                inb = rng.sample(range(s), s)
                others = [j for j in range(n) if not (o <= j < o + s)]
                rng.shuffle(others)
                order = [o + j for j in inb] + others
                for r, j in enumerate(order): P[o + i, j] = r + 1
    if vmode == 'ties':
        V1 = np.array([[rng.randint(0, 3) for _ in range(n)] for _ in range(n)]); V2 = np.array([[rng.randint(0, 3) for _ in range(n)] for _ in range(n)])
    else:
        V1 = np.array([[rng.randint(-9, 9) for _ in range(n)] for _ in range(n)]); V2 = np.array([[rng.randint(-9, 9) for _ in range(n)] for _ in range(n)])
    return P1, P2, V1, V2, offs

def block_opt(P1, P2, V1, V2, o, s):
    best = None
    for p in itertools.permutations(range(s)):
        # stability inside block only matters
        sub1 = P1[o:o+s, o:o+s]; sub2 = P2[o:o+s, o:o+s]
        if stable(sub1, sub2, p):
            w = sum(V1[o+i, o+p[i]] + V2[o+p[i], o+i] for i in range(s))
            best = w if best is None else max(best, w)
    return best

rng = random.Random(int(sys.argv[1]) if len(sys.argv) > 1 else 3)
kinds = {}
for t in range(300):
    sizes = [rng.randint(2, 5) for _ in range(rng.randint(3, 7))]
    P1, P2, V1, V2, offs = compose(rng, sizes, rng.choice(['ties', 'free']))
    n = P1.shape[0]
    irv = Irving(zero_indexed=True)
    try:
        out = irv.scf(IntegerValuationProfile.of(V1), IntegerValuationProfile.of(V2), StrictCompleteProfile.of(P1), StrictCompleteProfile.of(P2))
    except Exception as e:
        k = 'EXC ' + type(e).__name__ + ' ' + str(e)[:30]; kinds[k] = kinds.get(k, 0) + 1; continue
    perm = [None]*n
    for i, j in out: perm[i] = j
    if sorted(perm) != list(range(n)): kinds['notperfect'] = kinds.get('notperfect', 0) + 1; continue
    if not stable(P1, P2, perm): kinds['unstable'] = kinds.get('unstable', 0) + 1; continue
    w = sum(V1[i, perm[i]] + V2[perm[i], i] for i in range(n))
    best = sum(block_opt(P1, P2, V1, V2, offs[b], s) for b, s in enumerate(sizes))
    k = 'ok' if w == best else 'subopt'
    kinds[k] = kinds.get(k, 0) + 1
print(kinds)
