import numpy as np, random, json, sys
from socialchoicekit.deterministic_matching import Irving
from socialchoicekit.profile_utils import StrictCompleteProfile, IntegerValuationProfile
from irv2 import compose
rng = random.Random(5); out = []
for t in range(150):
    mode = rng.choice(['ties', 'free', 'agree', 'blocks'])
    if mode == 'blocks':
        P1, P2, V1, V2, _ = compose(rng, [rng.randint(2, 4) for _ in range(rng.randint(2, 4))], rng.choice(['ties', 'free']))
    else:
        n = rng.randint(1, 9)
        P1 = np.array([rng.sample(range(1, n+1), n) for _ in range(n)]); P2 = np.array([rng.sample(range(1, n+1), n) for _ in range(n)])
        if mode == 'ties': V1 = np.array([[rng.randint(0, 3) for _ in range(n)] for _ in range(n)]); V2 = np.array([[rng.randint(0, 3) for _ in range(n)] for _ in range(n)])
        elif mode == 'free': V1 = np.array([[rng.randint(-50, 50) for _ in range(n)] for _ in range(n)]); V2 = np.array([[rng.randint(-50, 50) for _ in range(n)] for _ in range(n)])
        else: V1 = (n + 1 - P1) * 3; V2 = (n + 1 - P2) * 2
    mu = Irving(zero_indexed=True).scf(IntegerValuationProfile.of(V1), IntegerValuationProfile.of(V2), StrictCompleteProfile.of(P1), StrictCompleteProfile.of(P2))
    out.append(dict(P1=P1.tolist(), P2=P2.tolist(), V1=V1.tolist(), V2=V2.tolist(), mu=[[int(a), int(b)] for a, b in mu]))
json.dump(out, open('dual_in.json', 'w'))
