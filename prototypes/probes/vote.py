import numpy as np, random, itertools
from fractions import Fraction as F
from socialchoicekit.deterministic_scoring import *
from socialchoicekit.deterministic_tournament import Copeland
from socialchoicekit.deterministic_multiround import SingleTransferableVote
from socialchoicekit.profile_utils import StrictCompleteProfile
rng = random.Random(5); kinds = {}
for t in range(4000):
    n = rng.randint(1, 12); m = rng.randint(2, 6)
    P = np.array([rng.sample(range(1, m+1), m) for _ in range(n)])
    perm = rng.sample(range(n), n)
    for name, rule in (('plur', Plurality('accept')), ('borda', Borda('accept')), ('veto', Veto('accept')), ('kapp', KApproval(rng.randint(1, m), 'accept')), ('harm', Harmonic('accept')), ('cope', Copeland('accept'))):
        a = rule.scf(StrictCompleteProfile.of(P)); b = rule.scf(StrictCompleteProfile.of(P[perm]))
        sa = rule.score(StrictCompleteProfile.of(P)); sb = rule.score(StrictCompleteProfile.of(P[perm]))
        k = (name, 'anon-winner', np.array_equal(a, b), 'score', np.array_equal(sa, sb)); kinds[k] = kinds.get(k, 0) + 1
    # exact harmonic winners
    ex = [sum(F(1, int(P[i, j])) for i in range(n)) for j in range(m)]
    w = [j + 1 for j in range(m) if ex[j] == max(ex)]
    a = Harmonic('accept').scf(StrictCompleteProfile.of(P)).tolist()
    k = ('harm exact winners', a == w); kinds[k] = kinds.get(k, 0) + 1
    # copeland def
    sc = Copeland('accept').score(StrictCompleteProfile.of(P))
    ref = []
    for x in range(m):
        s = 0
        for y in range(m):
            if x == y: continue
            fx = sum(1 for i in range(n) if P[i, x] < P[i, y]); fy = n - fx
            s += (fx > fy) - (fy > fx)
        ref.append(s)
    k = ('cope def', sc.tolist() == ref); kinds[k] = kinds.get(k, 0) + 1
    # stv first
    def stv_ref(P):
        alive = list(range(m))
        while len(alive) > 1:
            cnt = {a: 0 for a in alive}
            for i in range(n):
                top = min(alive, key=lambda a: P[i, a]); cnt[top] += 1
            mn = min(cnt.values()); drop = min(a for a in alive if cnt[a] == mn)
            alive.remove(drop)
        return alive[0] + 1
    got = SingleTransferableVote('first').scf(StrictCompleteProfile.of(P))
    k = ('stv first', got == stv_ref(P)); kinds[k] = kinds.get(k, 0) + 1
for k in sorted(kinds, key=str): print(k, kinds[k])
