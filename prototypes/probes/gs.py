import numpy as np, itertools, random, sys
from socialchoicekit.deterministic_matching import GaleShapley
from socialchoicekit.profile_utils import StrictProfile

def rand_instance(rng, n, m, pnan):
    # residents rank hospitals; ranks 1..k consecutive over acceptable
    def prof(a, b):
        P = np.full((a, b), np.nan)
        for i in range(a):
            acc = [j for j in range(b) if rng.random() > pnan]
            rng.shuffle(acc)
            for r, j in enumerate(acc): P[i, j] = r + 1
        return P
    R = prof(n, m); H = prof(m, n)
    c = np.array([rng.randint(1, 3) for _ in range(m)])
    return R, H, c

def check(R, H, c, match):
    n, m = R.shape
    errs = []
    res = [r for r, h in match]
    if len(set(res)) != len(res): errs.append('resident twice')
    held = {h: [] for h in range(m)}
    mr = {}
    for r, h in match:
        held[h].append(r); mr[r] = h
        if np.isnan(R[r, h]) or np.isnan(H[h, r]): errs.append('unacceptable pair %s' % ((r, h),))
    for h in range(m):
        if len(held[h]) > c[h]: errs.append('over capacity h=%d' % h)
    for r in range(n):
        for h in range(m):
            if np.isnan(R[r, h]) or np.isnan(H[h, r]): continue
            if mr.get(r) == h: continue
            rwants = (r not in mr) or R[r, h] < R[r, mr[r]]
            hwants = len(held[h]) < c[h] or any(H[h, r] < H[h, r2] for r2 in held[h])
            if rwants and hwants: errs.append('blocking %s' % ((r, h),))
    return errs

rng = random.Random(1)
for oriented in (True, False):
    bad = 0; tot = 0; exc = 0; kinds = {}
    for t in range(3000):
        n = rng.randint(1, 4); m = rng.randint(1, 4)
        R, H, c = rand_instance(rng, n, m, rng.choice([0, 0.3, 0.6]))
        if np.all(np.isnan(R)) or np.all(np.isnan(H)): continue
        tot += 1
        try:
            # bypass StrictProfile.of check since nanmin must be 1
            match = GaleShapley(resident_oriented=oriented, zero_indexed=True).scf(R.view(StrictProfile), H.view(StrictProfile), c)
        except Exception as e:
            exc += 1; kinds[type(e).__name__ + str(e)[:40]] = kinds.get(type(e).__name__ + str(e)[:40], 0) + 1; continue
        e = check(R, H, c, match)
        if e:
            bad += 1
            k = e[0].split(' ')[0]
            kinds[k] = kinds.get(k, 0) + 1
    print('resident_oriented', oriented, 'total', tot, 'bad', bad, 'exc', exc, kinds)
