import numpy as np, random, sys, itertools
from socialchoicekit.deterministic_matching import Irving, GaleShapley
from socialchoicekit.profile_utils import StrictCompleteProfile, IntegerValuationProfile
from irv import stable

def latin_blocks(rng, sizes):
    n = sum(sizes); offs = np.cumsum([0] + sizes)
    P1 = np.zeros((n, n), dtype=int); P2 = np.zeros((n, n), dtype=int)
    for b, s in enumerate(sizes):
        o = offs[b]
        others = [j for j in range(n) if not (o <= j < o + s)]
        for i in range(s):
            oth = others[:]; rng.shuffle(oth)
            order1 = [o + (i + k) % s for k in range(s)] + oth
            for r, j in enumerate(order1): P1[o + i, j] = r + 1
            oth = others[:]; rng.shuffle(oth)
            order2 = [o + (i + 1 + k) % s for k in range(s)] + oth
            for r, j in enumerate(order2): P2[o + i, j] = r + 1
    return P1, P2, offs

rng = random.Random(int(sys.argv[1]) if len(sys.argv) > 1 else 0)
kinds = {}; nrots = []
for t in range(60):
    sizes = [rng.randint(3, 5) for _ in range(rng.randint(3, 5))]
    P1, P2, offs = latin_blocks(rng, sizes)
    n = P1.shape[0]
    V1 = np.array([[rng.randint(-9, 9) for _ in range(n)] for _ in range(n)]); V2 = np.array([[rng.randint(-9, 9) for _ in range(n)] for _ in range(n)])
    irv = Irving(zero_indexed=True)
    sm = GaleShapley(True, True).scf(StrictCompleteProfile.of(P1), StrictCompleteProfile.of(P2), np.ones(n, dtype=int))
    l1, l2 = irv.find_initial_preference_lists(sm, P1 - 1, P2 - 1)
    rots, _ = irv.find_all_rotations_and_eliminations({i: np.array(l1[i]) for i in range(n)}, {i: np.array(l2[i]) for i in range(n)})
    nrots.append(len(rots))
    try:
        out = irv.scf(IntegerValuationProfile.of(V1), IntegerValuationProfile.of(V2), StrictCompleteProfile.of(P1), StrictCompleteProfile.of(P2))
        perm = [None]*n
        for i, j in out: perm[i] = j
        ok = sorted(perm) == list(range(n)) and stable(P1, P2, perm)
        # optimum = sum over blocks of best shift
        w = sum(V1[i, perm[i]] + V2[perm[i], i] for i in range(n))
        best = 0
        for b, s in enumerate(sizes):
            o = offs[b]
            best += max(sum(V1[o+i, o+(i+k)%s] + V2[o+(i+k)%s, o+i] for i in range(s)) for k in range(s))
        k = 'ok' if ok and w == best else ('subopt' if ok else 'bad')
    except Exception as e:
        k = 'EXC ' + str(e)[:25]
    kinds[k] = kinds.get(k, 0) + 1
print(kinds, 'rotations min/mean/max', min(nrots), sum(nrots)/len(nrots), max(nrots))
