import numpy as np, random
from bvn import check, kinds
kinds.clear()
rng = random.Random(9); np.random.seed(9)
for scale in (1e2, 1e4, 1e6, 1e8):
    for t in range(150):
        n = rng.randint(2, 6); k = rng.randint(2, 7)
        perms = [np.eye(n)[rng.sample(range(n), n)] for _ in range(k)]
        w = np.random.rand(k) * scale; X = sum(wi * P for wi, P in zip(w, perms))
        check(np.array(X), 'scale%g' % scale)
for k in sorted(kinds, key=str): print(k, kinds[k])
