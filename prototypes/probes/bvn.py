import numpy as np, itertools, random, sys
from socialchoicekit.bistochastic import birkhoff_von_neumann
from socialchoicekit.randomized_allocation import SimultaneousEating
from socialchoicekit.profile_utils import StrictCompleteProfile
rng = random.Random(4); np.random.seed(4)
kinds = {}
def check(X0, tag):
    n = X0.shape[0]; X = X0.copy(); rs = X0.sum(axis=1)[0]
    try:
        dec = birkhoff_von_neumann(X)
    except Exception as e:
        k = (tag, 'EXC ' + type(e).__name__ + str(e)[:40]); kinds[k] = kinds.get(k, 0) + 1
        if kinds[k] == 1: print(k, X0.tolist())
        return
    errs = []
    if len(dec) > n*n: errs.append('toomany')
    S = np.zeros((n, n)); tot = 0
    for z, P in dec:
        if not z > 0: errs.append('nonpos')
        if not (np.all((P == 0) | (P == 1)) and np.all(P.sum(axis=0) == 1) and np.all(P.sum(axis=1) == 1)): errs.append('notperm')
        S += z * P; tot += z
    if np.max(np.abs(S - X0)) > 1e-6: errs.append('recon')
    if abs(tot - rs) > 1e-6: errs.append('coefsum')
    if not np.array_equal(X, X0): errs.append('mutated')
    k = (tag, tuple(sorted(set(errs)))); kinds[k] = kinds.get(k, 0) + 1
    if set(errs) - {'mutated'} and kinds[k] <= 1: print(k, X0.tolist(), [(z, P.tolist()) for z, P in dec][:3])
for t in range(600):
    n = rng.randint(1, 6)
    k = rng.randint(1, 6)
    mode = rng.choice(['dyadic', 'unif', 'float', 'scaled', 'eating'])
    perms = [np.eye(n)[rng.sample(range(n), n)] for _ in range(k)]
    if mode == 'dyadic':
        w = np.array([rng.randint(1, 8) for _ in range(k)], dtype=float); w = w / 64
        X = sum(wi * P for wi, P in zip(w, perms)); 
    elif mode == 'unif':
        X = sum(P for P in perms) / k
    elif mode == 'float':
        w = np.random.rand(k); w /= w.sum(); X = sum(wi * P for wi, P in zip(w, perms))
    elif mode == 'scaled':
        w = np.random.rand(k) * 10; X = sum(wi * P for wi, P in zip(w, perms))
    else:
        P = [rng.sample(range(1, n+1), n) for _ in range(n)]
        X = SimultaneousEating().bistochastic(StrictCompleteProfile.of(np.array(P)), np.array([float(rng.randint(1, 3)) for _ in range(n)]))
    check(np.array(X, dtype=float), mode)
for k in sorted(kinds): print(k, kinds[k])
