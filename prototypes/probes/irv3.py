import numpy as np, itertools, random, sys
from socialchoicekit.deterministic_matching import Irving, GaleShapley
from socialchoicekit.profile_utils import StrictCompleteProfile, IntegerValuationProfile
from irv import stable
from irv2 import compose, block_opt
rng = random.Random(int(sys.argv[1]))
kinds = {}; nrot = []
for t in range(int(sys.argv[2])):
    sizes = [rng.randint(3, 5) for _ in range(rng.randint(6, 10))]
    P1, P2, V1, V2, offs = compose(rng, sizes, rng.choice(['ties', 'free']))
    n = P1.shape[0]
    irv = Irving(zero_indexed=True)
    sm = GaleShapley(True, True).scf(StrictCompleteProfile.of(P1), StrictCompleteProfile.of(P2), np.ones(n, dtype=int))
    l1, l2 = irv.find_initial_preference_lists(sm, P1 - 1, P2 - 1)
    rots, _ = irv.find_all_rotations_and_eliminations({i: np.array(l1[i]) for i in range(n)}, {i: np.array(l2[i]) for i in range(n)})
    nrot.append(len(rots))
    try:
        out = irv.scf(IntegerValuationProfile.of(V1), IntegerValuationProfile.of(V2), StrictCompleteProfile.of(P1), StrictCompleteProfile.of(P2))
    except Exception as e:
        k = 'EXC ' + type(e).__name__ + ' ' + str(e)[:30]; kinds[k] = kinds.get(k, 0) + 1; continue
    perm = [None]*n
    for i, j in out: perm[i] = j
    if sorted(perm) != list(range(n)): kinds['notperfect'] = kinds.get('notperfect', 0) + 1; continue
    if not stable(P1, P2, perm): kinds['unstable'] = kinds.get('unstable', 0) + 1; continue
    w = sum(V1[i, perm[i]] + V2[perm[i], i] for i in range(n))
    best = sum(block_opt(P1, P2, V1, V2, offs[b], s) for b, s in enumerate(sizes))
    k = 'ok' if w == best else 'subopt'
    kinds[k] = kinds.get(k, 0) + 1
print(kinds, 'rotations: min/mean/max', min(nrot), sum(nrot)/len(nrot), max(nrot))
