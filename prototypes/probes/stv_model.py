# python mirror of the Lean model, compared with the real code (model adequacy probe)
import numpy as np, random
from socialchoicekit.deterministic_multiround import SingleTransferableVote
from socialchoicekit.profile_utils import StrictCompleteProfile
def model(P, m, fixer):
    labels = [j + fixer for j in range(m)]
    while len(labels) > 1:
        w = len(labels)
        s = [sum(1 for row in P if row[j] == 1) for j in range(w)]
        mn = min(s); d = [j for j in range(w) if s[j] == mn][0]
        P = [[(r - 1 if row[d] < r else r) for k, r in enumerate(row) if k != d] for row in P]
        labels.pop(d)
    return labels[0]
rng = random.Random(1); bad = 0
for t in range(3000):
    n = rng.randint(1, 9); m = rng.randint(1, 6)
    P = [rng.sample(range(1, m+1), m) for _ in range(n)]
    for fx, zi in ((1, False), (0, True)):
        got = SingleTransferableVote('first', zero_indexed=zi).scf(StrictCompleteProfile.of(np.array(P)))
        if got != model(P, m, fx): bad += 1
print('mismatches', bad)
