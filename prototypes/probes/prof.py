import numpy as np, random
from socialchoicekit.profile_utils import *
from socialchoicekit.data_generation import *
rng = random.Random(1); np.random.seed(1); kinds = {}
def note(k, *a):
    kinds[k] = kinds.get(k, 0) + 1
    if kinds[k] <= 1 and 'ok' not in k: print(k, *a)
for t in range(3000):
    n = rng.randint(1, 4); m = rng.randint(1, 40 if t % 3 == 0 else 8)
    # strict incomplete profile
    P = np.full((n, m), np.nan)
    for i in range(n):
        acc = [j for j in range(m) if rng.random() < rng.choice([1, 0.7, 0.3])]
        if i == 0 and not acc: acc = [0]
        rng.shuffle(acc)
        for r, j in enumerate(acc): P[i, j] = r + 1
    if not np.nanmin(P) == 1: continue
    for gen in (UniformValuationProfileGenerator(high=1, low=0, seed=t), NormalValuationProfileGenerator(mean=0.5, variance=0.2, seed=t)):
        try:
            V = gen.generate(StrictIncompleteProfile.of(P)); V2 = gen.generate(StrictIncompleteProfile.of(P))
        except Exception as e: note('gen EXC ' + type(e).__name__ + str(e)[:40], P.tolist()); continue
        V = np.array(V)
        if not np.array_equal(np.isnan(V), np.isnan(P)): note('nanpattern'); continue
        if np.any(V[~np.isnan(V)] < 0): note('neg'); continue
        ok = True
        for i in range(n):
            acc = [j for j in range(m) if not np.isnan(P[i, j])]
            if not acc: continue
            if abs(np.nansum(V[i]) - 1) > 1e-9: note('sum', gen.__class__.__name__, V[i].tolist()); ok = False
            for a in acc:
                for b in acc:
                    if P[i, a] < P[i, b] and V[i, a] < V[i, b]: note('order'); ok = False
        if not np.array_equal(V, np.array(V2), equal_nan=True): note('repro'); ok = False
        c = is_consistent_valuation_profile(ValuationProfile.of(V), StrictIncompleteProfile.of(P))
        if not c: note('consistent-rejects', gen.__class__.__name__, P.tolist(), V.tolist()); ok = False
        if ok: note('gen ok')
    # compute_ordinal_profile on valuations with ties and nan
    V = np.array([[rng.choice([np.nan, 0.0, 0.5, 1.0, 2.0, rng.random()]) for _ in range(m)] for _ in range(n)])
    if np.all(np.isnan(V)): continue
    try:
        O = np.array(compute_ordinal_profile(ValuationProfile.of(V)))
        ok = np.array_equal(np.isnan(O), np.isnan(V))
        for i in range(n):
            acc = [j for j in range(m) if not np.isnan(V[i, j])]
            if sorted(O[i, acc].tolist()) != list(range(1, len(acc) + 1)): ok = False
            for a in acc:
                for b in acc:
                    if V[i, a] > V[i, b] and not O[i, a] < O[i, b]: ok = False
        note('ordinal ok' if ok else 'ordinal bad', V.tolist(), O.tolist())
    except Exception as e: note('ordinal EXC ' + type(e).__name__ + str(e)[:50], V.tolist())
for k in sorted(kinds): print(k, kinds[k])
