import json, time, z3
for inst in json.load(open('dual_in.json')):
    P1, P2, V1, V2, mu = inst['P1'], inst['P2'], inst['V1'], inst['V2'], inst['mu']
    n = len(P1); t0 = time.time()
    al = [z3.Real('a%d' % i) for i in range(n)]; be = [z3.Real('b%d' % j) for j in range(n)]
    y = [[z3.Real('y%d_%d' % (i, j)) for j in range(n)] for i in range(n)]
    s = z3.Solver()
    for i in range(n):
        for j in range(n): s.add(y[i][j] >= 0)
    # constraint (i,j): x_ij + sum_{j' : P1[i][j'] < P1[i][j]} x_ij' + sum_{i' : P2[j][i'] < P2[j][i]} x_i'j >= 1
    # x_{ab} appears in constraint (i,j) iff (a==i and P1[a][b] <= P1[a][j]) or (b==j and P2[b][a] < P2[b][i])  [count (a,b)=(i,j) once]
    for a in range(n):
        for b in range(n):
            terms = [y[a][j] for j in range(n) if P1[a][b] <= P1[a][j]] + [y[i][b] for i in range(n) if i != a and P2[b][a] < P2[b][i]]
            s.add(V1[a][b] + V2[b][a] <= al[a] + be[b] - z3.Sum(terms))
    W = sum(V1[a][b] + V2[b][a] for a, b in mu)
    s.add(z3.Sum(al) + z3.Sum(be) - z3.Sum([y[i][j] for i in range(n) for j in range(n)]) == W)
    r = s.check()
    print(n, r, 'W=', W, 'time', round(time.time() - t0, 2))
    if r == z3.sat:
        m = s.model(); dens = set()
        for v in al + be + sum(y, []):
            q = m.eval(v, model_completion=True); dens.add(q.denominator_as_long())
        print(' denominators', sorted(dens)[:10])
