import numpy as np, sys, signal
from socialchoicekit.deterministic_allocation import MaximumWeightMatching
Vs = [
 [[0.08944271909999159, 1e-05, 0.2, 0.08944271909999159, 0.1337480609952844], [1e-05, 1e-05, 0.05981395124884883, 0.05981395124884883, 0.2], [1e-05, 1e-05, 0.2, 0.08944271909999159, 1e-05], [0.1671850762441055, 0.1671850762441055, 0.25, 0.11180339887498948, 1e-05], [1e-05, 0.13416407864998736, 0.20062209149292662, 0.13416407864998736, 0.3]],
 [[1e-05, 1e-05, 1e-05, 0.3, 1e-05], [1e-05, 1e-05, 1e-05, 1e-05, 0.3333333333333333], [1e-05, 1e-05, 0.14907119849998596, 0.3333333333333333, 0.14907119849998596], [1e-05, 1e-05, 1e-05, 0.25, 1e-05], [0.3333333333333333, 0.14907119849998596, 1e-05, 0.14907119849998596, 0.14907119849998596]],
]
def h(*a): raise TimeoutError()
signal.signal(signal.SIGALRM, h)
for V in Vs:
    signal.alarm(5)
    try: print('ok', MaximumWeightMatching(zero_indexed=True).scf(np.array(V)))
    except TimeoutError: print('TIMEOUT')
    signal.alarm(0)
