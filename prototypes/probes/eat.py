import numpy as np, itertools, random, sys
from fractions import Fraction as F
from socialchoicekit.randomized_allocation import SimultaneousEating, ProbabilisticSerial
from socialchoicekit.profile_utils import StrictCompleteProfile

def exact_eating(P, speeds):
    n = len(P)
    order = [sorted(range(n), key=lambda j: P[i][j]) for i in range(n)]
    rem = [F(1)]*n; eaten = [F(0)]*n; X = [[F(0)]*n for _ in range(n)]
    while True:
        cur = []
        for i in range(n):
            if eaten[i] >= 1: cur.append(None); continue
            c = next((j for j in order[i] if rem[j] > 0), None)
            cur.append(c)
        if all(c is None for c in cur): break
        tot = [sum(speeds[i] for i in range(n) if cur[i] == j) for j in range(n)]
        t = min([ (1 - eaten[i]) / speeds[i] for i in range(n) if cur[i] is not None] + [rem[j] / tot[j] for j in range(n) if tot[j] > 0])
        for i in range(n):
            if cur[i] is not None:
                X[i][cur[i]] += t * speeds[i]; eaten[i] += t * speeds[i]; rem[cur[i]] -= t * speeds[i]
    return X

rng = random.Random(2)
worst = 0; bad = 0; exc = {}
for t in range(1500):
    n = rng.randint(1, 7)
    P = [rng.sample(range(1, n+1), n) for _ in range(n)]
    mode = rng.choice(['eq', 'int', 'frac'])
    if mode == 'eq': sp = [F(1)]*n
    elif mode == 'int': sp = [F(rng.randint(1, 4)) for _ in range(n)]
    else: sp = [F(rng.randint(1, 5), rng.randint(1, 5)) for _ in range(n)]
    try:
        X = SimultaneousEating().bistochastic(StrictCompleteProfile.of(np.array(P)), np.array([float(s) for s in sp]))
    except Exception as e:
        k = type(e).__name__ + str(e)[:40]; exc[k] = exc.get(k, 0) + 1
        if exc[k] == 1: print('EXC', k, P, sp)
        continue
    E = exact_eating(P, sp)
    d = max(abs(F(float(X[i, j])) - E[i][j]) for i in range(n) for j in range(n))
    worst = max(worst, float(d))
    if d > F(1, 10**7):
        bad += 1
        if bad <= 3: print('BAD', P, sp, X.tolist(), [[str(x) for x in r] for r in E])
print('worst', worst, 'bad', bad, exc)
