# Python mirror of prototypes/Proto/DA.lean + DA8.lean (step / round / gsLoop), compared with the real code
import numpy as np, random
from socialchoicekit.deterministic_matching import GaleShapley
from socialchoicekit.profile_utils import StrictProfile
from gs import rand_instance

def da(plist, rrank, qp, qr, np_):
    ptr = [0] * np_; mu = []
    def held(r): return [p for (p, rr) in mu if rr == r]
    def matches(p): return [r for (pp, r) in mu if pp == p]
    def active(p): return len(matches(p)) < qp[p] and ptr[p] < len(plist[p])
    fuel = sum(len(l) for l in plist) + 1
    for _ in range(fuel):
        snap = [active(p) for p in range(np_)]
        if not any(snap): return mu
        for p in range(np_):
            if not snap[p]: continue
            if ptr[p] >= len(plist[p]): continue
            r = plist[p][ptr[p]]; ptr[p] += 1
            if rrank[r][p] is None: continue
            mu.insert(0, (p, r))
            hb = held(r)
            if len(hb) > qr[r]:
                w = None
                for q in reversed(hb):   # mirror of `worst` (recursion from the tail)
                    if w is None or rrank[r][w] < rrank[r][q]: w = q
                mu.remove((w, r))
    return None

def to_lists(M):
    a, b = M.shape
    plist = [[j for j in sorted((j for j in range(b) if not np.isnan(M[i, j])), key=lambda j: M[i, j])] for i in range(a)]
    rank = [[None if np.isnan(M[i, j]) else int(M[i, j]) for j in range(b)] for i in range(a)]
    return plist, rank

rng = random.Random(3); bad = 0; tot = 0
for t in range(4000):
    n = rng.randint(1, 5); m = rng.randint(1, 5)
    R, H, c = rand_instance(rng, n, m, rng.choice([0, 0.3, 0.6]))
    if np.all(np.isnan(R)) or np.all(np.isnan(H)): continue
    tot += 1
    rl, rr = to_lists(R); hl, hr = to_lists(H)
    # residents propose: proposers = residents (quota 1), receivers = hospitals (quota c); rrank[h][r] = H[h][r]
    mu1 = da(rl, hr, [1]*n, list(c), n)
    got1 = GaleShapley(True, True).scf(R.view(StrictProfile), H.view(StrictProfile), c)
    # hospitals propose: proposers = hospitals (quota c), receivers = residents (quota 1); rrank[r][h] = R[r][h]
    mu2 = da(hl, rr, list(c), [1]*n, m)
    got2 = GaleShapley(False, True).scf(R.view(StrictProfile), H.view(StrictProfile), c)
    if set(mu1) != set(got1) or set((r, h) for (h, r) in mu2) != set(got2): bad += 1
print('instances', tot, 'mismatches', bad)
