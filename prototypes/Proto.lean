import Proto.DA7
import Proto.Flow3
import Proto.BSearch
import Proto.AssignDual
import Proto.SMDual
