import Proto.DA10
import Proto.FlowProof
import Proto.BSearch
import Proto.Eat1
import Proto.Bvn1
import Proto.CertProof
import Proto.AssignDual
import Proto.SMDual
