"""Exact (Fraction) assignment machinery: Hungarian algorithm with dual potentials, feasibility and Hall
violators, brute force; used by C04, C16 and C13."""
import itertools
from fractions import Fraction


def kuhn(acc, n):
    """maximum matching on the acceptable pairs; returns (matchL list, matchR list)"""
    mr = [-1] * n

    def try_(i, seen):
        for j in range(n):
            if acc[i][j] and j not in seen:
                seen.add(j)
                if mr[j] == -1 or try_(mr[j], seen):
                    mr[j] = i
                    return True
        return False
    size = 0
    for i in range(n):
        if try_(i, set()):
            size += 1
    ml = [-1] * n
    for j, i in enumerate(mr):
        if i != -1:
            ml[i] = j
    return size, ml, mr


def hall_violator(acc, n):
    """a set S of rows with |N(S)| < |S| (None if a perfect matching exists)"""
    size, ml, mr = kuhn(acc, n)
    if size == n:
        return None
    S = set(i for i in range(n) if ml[i] == -1)
    T = set()
    frontier = list(S)
    while frontier:
        i = frontier.pop()
        for j in range(n):
            if acc[i][j] and j not in T:
                T.add(j)
                i2 = mr[j]
                if i2 != -1 and i2 not in S:
                    S.add(i2)
                    frontier.append(i2)
    # restrict to one unmatched root's alternating tree: S as built has |N(S)| = |T| = |S| - #unmatched
    return sorted(S)


def hungarian_max(W, n):
    """W[i][j] Fraction or None (forbidden). Returns (sigma, u, v, value) with W[i][j] <= u[i]+v[j] on allowed pairs and
    equality along sigma; None if infeasible."""
    acc = [[W[i][j] is not None for j in range(n)] for i in range(n)]
    if hall_violator(acc, n) is not None:
        return None
    big = sum(abs(x) for row in W for x in row if x is not None) * 2 + 1
    cost = [[(-W[i][j] if W[i][j] is not None else big) for j in range(n)] for i in range(n)]
    INF = None
    u = [Fraction(0)] * (n + 1)
    v = [Fraction(0)] * (n + 1)
    p = [0] * (n + 1)
    way = [0] * (n + 1)
    for i in range(1, n + 1):
        p[0] = i
        j0 = 0
        minv = [INF] * (n + 1)
        used = [False] * (n + 1)
        while True:
            used[j0] = True
            i0 = p[j0]
            delta = INF
            j1 = 0
            for j in range(1, n + 1):
                if not used[j]:
                    cur = cost[i0 - 1][j - 1] - u[i0] - v[j]
                    if minv[j] is None or cur < minv[j]:
                        minv[j] = cur
                        way[j] = j0
                    if delta is None or minv[j] < delta:
                        delta = minv[j]
                        j1 = j
            for j in range(n + 1):
                if used[j]:
                    u[p[j]] += delta
                    v[j] -= delta
                else:
                    minv[j] -= delta
            j0 = j1
            if p[j0] == 0:
                break
        while True:
            j1 = way[j0]
            p[j0] = p[j1]
            j0 = j1
            if j0 == 0:
                break
    sigma = [0] * n
    for j in range(1, n + 1):
        sigma[p[j] - 1] = j - 1
    uu = [-u[i + 1] for i in range(n)]
    vv = [-v[j + 1] for j in range(n)]
    value = sum(W[i][sigma[i]] for i in range(n))
    return sigma, uu, vv, value


def brute_max(W, n):
    best = None
    for perm in itertools.permutations(range(n)):
        if any(W[i][perm[i]] is None for i in range(n)):
            continue
        val = sum(W[i][perm[i]] for i in range(n))
        if best is None or val > best[0]:
            best = (val, list(perm))
    return best
