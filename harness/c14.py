"""C14 - simulated valuations are sound lower bounds of the true valuations."""
import json
from fractions import Fraction
import numpy as np
from harness import votelib as V, eliclib as E
from harness.common import pmap, lean_query, guard, fr, safe_judge, persist, persist_rule
from harness.c01 import chunks

LEVEL = "proof"
ENTRY = "socialchoicekit.elicitation_* get_simulated_cardinal_profile"
REL = Fraction(1, 10 ** 12)
KINDS = ["unit_sum", "skewed", "tie_heavy", "zeros", "integer", "one_rich", "near_threshold", "tiny", "huge"]


@guard
def impl_batch(case):
    out = []
    cache = {}      # rule objects are reused across elections of different sizes, as a caller would
    for it in case["items"]:
        try:
            res = {}
            for rule in it["rules"]:
                res[rule] = E.run_rule(rule, it["P"], it["vals"], it["k"], cache=cache, integer=(it["kind"] == "integer"),
                                       el_zero=it.get("el_zero", True), share=it.get("share", False), history=it.get("history"))
            if "dtsf" in it:
                from harness import c17
                d = it["dtsf"]
                r = c17.impl_one.__wrapped__(d) if hasattr(c17.impl_one, "__wrapped__") else c17.impl_one(d)
                res["dtsf"] = {"S1": r.get("S1"), "S2": r.get("S2"), "exc": r.get("exc")}
            out.append(res)
        except Exception as e:  # noqa
            out.append({"exc": type(e).__name__, "msg": str(e)[:200]})
    return {"results": out}


def close(a, b):
    a, b = Fraction(a), Fraction(b)
    return abs(a - b) <= REL * max(1, abs(a), abs(b))


@safe_judge
def judge(R, it, res, lean):
    P, vals, k = it["P"], it["vals"], it["k"]
    n, m = len(P), len(P[0])
    inp = {"P": P, "vals": vals, "k_or_lambda": k}
    if "exc" in res or "hang" in res:
        R.violation("property_violation", "total on a consistent (profile, valuation) pair", ENTRY, inp, impl_output=res, oracle="raised/hang")
        return
    lams = E.thresholds(m, k)
    for rule in it["rules"]:
        r = res[rule]
        sim = [[Fraction(x) for x in row] for row in r["sim"]]
        floor = Fraction(0) if rule == "karv" else Fraction(E.EPS)
        for i in range(n):
            order = E.ranked(P, i)
            tv = [Fraction(vals[i][j]) for j in order]          # true values along the ranking
            sv = [sim[i][j] for j in order]
            errs = []
            if sv[0] != tv[0]:
                errs.append("simulated value at the favourite differs from the true value")
            for q in range(1, m):
                if sv[q] > tv[q] and not (rule != "karv" and sv[q] == floor):
                    errs.append(f"simulated value exceeds the true value at ranking position {q}")
                    break
            if rule in ("karv", "tsf") and not errs:
                v0 = tv[0]
                for q in range(1, m):
                    # which set? the first threshold whose float test the true value passes
                    l_in = None
                    for l, lam in enumerate(lams):
                        thr = Fraction(float(v0) / float(lam))
                        if tv[q] >= thr:
                            l_in = l
                            break
                    if l_in is None:
                        if sv[q] != floor:
                            errs.append(f"position {q} is outside all sets (true value below v/lambda_k) but got a value")
                    else:
                        thr = Fraction(float(v0) / float(lams[l_in]))
                        if sv[q] != thr:
                            errs.append(f"position {q} belongs to set {l_in + 1} but its simulated value is not v/lambda_l")
                    if errs:
                        break
            if rule == "m2q" and not errs:
                # representative item p: positions strictly between favourite and p carry the value of p
                pass
            if errs:
                R.violation("property_violation", f"{rule}: simulated values are sound lower bounds with the documented set structure", ENTRY,
                            dict(inp, agent=i), impl_output=[fr(x) for x in sv], oracle=errs[:3], config={"rule": rule})
                return
            ans = lean[(rule, i)]
            if rule in ("karv", "tsf"):
                if E.near(tv, lams):
                    R.ambiguous += 1
                    continue
                t = ans.split()
                if t[0] != "ok" or any(not close(x, y) for x, y in zip(t[1:1 + m], sv)):
                    R.corr_break(f"{rule}: simulated row = model simulate (positions along the ranking, thresholds from the specification)", ENTRY,
                                 dict(inp, agent=i), [fr(x) for x in sv], ans, {"rule": rule})
            elif rule == "m2q":
                t = ans.split()
                if t[0] != "ok" or [Fraction(x) for x in t[1:1 + m]] != sv:
                    R.corr_break("m2q: simulated row = model m2qAgent with the model's representative item", ENTRY, dict(inp, agent=i), [fr(x) for x in sv], ans,
                                 {"rule": rule})
    R.case(nontrivial_key=json.dumps([P, vals, k]) if m >= 3 else None,
           sample={"P": P, "vals": vals, "k": k, "karv_sim": res.get("karv", {}).get("sim")} if m >= 3 and n >= 2 else None)
    R.count(it["kind"])
    R.count(f"m={m}")


def run_items(R, items):
    cases = [{"items": ch} for ch in chunks(items, 20)]
    results = pmap("c14", "impl_batch", cases, deadline=120.0)
    flat = []
    for case, res in zip(cases, results):
        flat += res["results"] if "results" in res else [{"hang": True}] * len(case["items"])
    lines, where = [], []
    for idx, (it, res) in enumerate(zip(items, flat)):
        if "exc" in res or "hang" in res:
            continue
        P, vals, k = it["P"], it["vals"], it["k"]
        n, m = len(P), len(P[0])
        lams = E.thresholds(m, k)
        if "m2q" in it["rules"]:
            lines.append(" ".join(["rootnsd", str(n), str(m)] + [str(v) for row in P for v in row])); where.append((idx, "rootnsd", 0))
    ans0 = lean_query(lines)
    reps = {w[0]: a for w, a in zip(where, ans0)}
    lines, where = [], []
    for idx, (it, res) in enumerate(zip(items, flat)):
        if "exc" in res or "hang" in res:
            continue
        P, vals, k = it["P"], it["vals"], it["k"]
        n, m = len(P), len(P[0])
        lams = E.thresholds(m, k)
        for i in range(n):
            order = E.ranked(P, i)
            tv = [vals[i][j] for j in order]
            for rule in it["rules"]:
                if rule == "karv":
                    lines.append(E.simq_line(0, tv, lams))
                elif rule == "tsf":
                    lines.append(E.simq_line(Fraction(E.EPS), tv, lams))
                elif rule == "m2q":
                    a = reps[idx].split()[1 + i]
                    p = order.index(int(a)) if a != "x" else 0
                    lines.append(" ".join(["m2q", fr(Fraction(E.EPS)), str(m)] + [fr(v) for v in tv] + [str(p)]))
                where.append((idx, rule, i))
    from harness import c17
    for idx, (it, res) in enumerate(zip(items, flat)):
        if "dtsf" in it and "dtsf" in res and res["dtsf"].get("S1") is not None:
            d = it["dtsf"]
            for side, P_, V_, lam in (("d1", d["P1"], d["V1"], d["lam1"]), ("d2", d["P2"], d["V2"], d["lam2"])):
                for i, l in enumerate(c17.sim2_lines(P_, V_, lam)):
                    lines.append(l); where.append((idx, side, i))
    ans = lean_query(lines)
    per = {}
    for (idx, rule, i), a in zip(where, ans):
        per.setdefault(idx, {})[(rule, i)] = a
    for idx, (it, res) in enumerate(zip(items, flat)):
        judge(R, it, res, per.get(idx, {}))
        judge_dtsf(R, it, res, per.get(idx, {}))


@safe_judge
def judge_dtsf(R, it, res, lean):
    """two-sided rule: simulated integer profiles vs the model's two-sided fill + the property's clauses"""
    if "dtsf" not in it or "dtsf" not in res:
        return
    from harness import c17
    d = it["dtsf"]
    r = res["dtsf"]
    inp = {"P1": d["P1"], "P2": d["P2"], "V1": d["V1"], "V2": d["V2"], "lambda_1": d["lam1"], "lambda_2": d["lam2"]}
    if r.get("exc") or r.get("S1") is None:
        R.violation("property_violation", "two-sided rule: total on consistent integer valuations", ENTRY + " (DoubleLambdaTSF)", inp, impl_output=r, oracle="raised")
        return
    n = len(d["P1"])
    for side, P_, V_, S_, lam in (("d1", d["P1"], d["V1"], r["S1"], d["lam1"]), ("d2", d["P2"], d["V2"], r["S2"], d["lam2"])):
        lams = c17.thresholds(n, lam)
        for i in range(n):
            order = sorted(range(n), key=lambda j: P_[i][j])
            tv = [Fraction(V_[i][j]) for j in order]
            sv = [Fraction(S_[i][j]) for j in order]
            errs = []
            if sv[0] != tv[0]:
                errs.append("favourite value not kept")
            if any(sv[q] > tv[q] for q in range(n)):
                errs.append("simulated value exceeds the true value")
            # set structure: the first threshold the true value passes (float test as specified)
            for q in range(1, n):
                l_in = None
                for l, lm in enumerate(lams):
                    if tv[q] >= Fraction(float(tv[0]) / float(lm)):
                        l_in = l
                        break
                if l_in is None and sv[q] != 0:
                    errs.append(f"position {q} lies outside all sets but got a value")
                if l_in is not None and sv[q] == 0 and tv[q] != 0:
                    errs.append(f"position {q} belongs to set {l_in + 1} but got no value")
            if errs:
                R.violation("property_violation", "two-sided rule: favourite kept, simulated <= true, set structure w.r.t. n^(l/(lambda+1))",
                            ENTRY + " (DoubleLambdaTSF)", dict(inp, agent=i, side=side), impl_output=[str(x) for x in sv], oracle=errs[:3])
                return
            if c17.near_threshold(P_, V_, lam):
                R.ambiguous += 1
                continue
            a = lean.get((side, i), "err")
            t = a.split()
            if t[0] != "ok" or [Fraction(x) for x in t[1:1 + n]] != sv:
                R.corr_break("two-sided rule: simulated row = model simulate2", ENTRY + " (DoubleLambdaTSF)", dict(inp, agent=i, side=side), [str(x) for x in sv], a)
                return
    R.count("two_sided")


def gen_items(R, count):
    items = []
    for t in range(count):
        m = R.rng.choice([2, 3, 4, 5, 6, 7, 8, 9, 12])
        kind = R.rng.choice(KINDS)
        k = R.rng.randint(1, m)
        square = R.rng.random() < 0.5
        n = m if square else R.rng.randint(1, 6)
        P = V.rand_profile(R.rng, n, m)
        if square and R.rng.random() < 0.4:
            # near-unanimous rankings: the serial-dictatorship step of Match-TwoQueries pushes agents far down their lists, so the
            # representative item is a low-ranked one and the copy-upwards loop runs over several positions
            base = P[0]
            P = [base[:] if R.rng.random() < 0.8 else P[i] for i in range(n)]
            R.count("near_unanimous_profile")
        vals = E.gen_near_threshold(R.rng, P, m, k) if kind == "near_threshold" else E.gen_vals(R.rng, P, m, kind)
        rules = ["karv"] + (["tsf", "m2q"] if square else [])
        it = {"P": P, "vals": vals, "k": k, "rules": rules, "kind": kind, "el_zero": R.rng.random() < 0.6, "share": R.rng.random() < 0.5}
        if R.rng.random() < 0.3:
            it["history"] = [[R.rng.randrange(n), R.rng.randrange(m)] for _ in range(R.rng.randint(1, 4))]
        if square and m <= 8 and R.rng.random() < 0.5:
            from harness import smlib as S_
            P2 = V.rand_profile(R.rng, m, m)
            it["dtsf"] = {"P1": P, "P2": P2, "V1": S_.vals_agreeing(R.rng, P, 0, R.rng.choice([3, 9, 60])), "V2": S_.vals_agreeing(R.rng, P2, 0, R.rng.choice([3, 9, 60])),
                          "lam1": R.rng.randint(1, m), "lam2": R.rng.randint(1, m), "zero": True}
        items.append(it)
    return items


def run(R):
    R.rule = ("consistent (profile, valuation) pairs: unit-sum, skewed (x^8), tie-heavy, zero-containing, integer, one-rich-agent and adversarial "
              "near-threshold valuations (exactly at / one ulp or 1e-6 around each threshold); m in {2..9, 12}, k / lambda in 1..m; k-ARV on n x m, "
              "lambda-TSF and Match-TwoQueries on square profiles (the two-sided rule is covered in C17's check with the same model). "
              "Ambiguous = a value between the exact threshold and its float rounding. Non-trivial = m>=3.")
    R.assumptions = ["thresholds are the exact rationals of float(m ** (l/(k+1))) computed from the specification's formula",
                     "simulated values compared at relative 1e-12 (v/lambda is rounded once in floats)"]
    run_items(R, gen_items(R, 6000 if R.thorough else 500))


def replay(R, rep):
    i = rep["input"]
    P = i["P"]
    square = len(P) == len(P[0])
    run_items(R, [{"P": P, "vals": i["vals"], "k": i["k_or_lambda"], "rules": ["karv"] + (["tsf", "m2q"] if square else []), "kind": "replay"}])
