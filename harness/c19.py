"""C19 - PrefLib instances are converted faithfully (instances written in PrefLib file syntax, parsed locally by
preflibtools, converted by the real code and compared with the Lean model fed the abstract instance)."""
import json
import numpy as np
from harness.common import pmap, lean_query, guard, optn, safe_judge
from harness.c01 import chunks

LEVEL = "proof"
ENTRY = "socialchoicekit.preflib_utils"
KINDS = ["soc", "soi", "toc", "toi", "cat"]


def file_text(inst):
    kind, m, orders = inst["kind"], inst["m"], inst["orders"]
    nv = sum(mult for _, mult in orders)
    lines = [f"# FILE NAME: t.{kind}", "# TITLE: generated", f"# DATA TYPE: {kind}", f"# NUMBER ALTERNATIVES: {m}"]
    if not inst.get("no_voter_header"):
        # the voter count is redundant metadata (it is the sum of the multiplicities); some files are written without it
        lines.append(f"# NUMBER VOTERS: {nv}")
    if kind == "cat":
        ncat = inst["ncat"]
        lines += [f"# NUMBER UNIQUE PREFERENCES: {len(orders)}", f"# NUMBER CATEGORIES: {ncat}"]
        lines += [f"# CATEGORY NAME {c + 1}: cat{c + 1}" for c in range(ncat)]
    else:
        lines += [f"# NUMBER UNIQUE ORDERS: {len(orders)}"]
    lines += [f"# ALTERNATIVE NAME {a}: alt{a}" for a in range(1, m + 1)]
    for classes, mult in orders:
        parts = []
        for cls in classes:
            if len(cls) == 1 and kind != "cat":
                parts.append(str(cls[0]))
            else:
                parts.append("{" + ",".join(str(a) for a in cls) + "}")
        lines.append(f"{mult}: " + ",".join(parts))
    return "\n".join(lines) + "\n"


def parse(inst):
    from preflibtools.instances import OrdinalInstance, CategoricalInstance
    if inst["kind"] == "cat":
        c = CategoricalInstance()
        c.parse_str(file_text(inst), "cat")
        return c
    o = OrdinalInstance()
    o.parse_str(file_text(inst), inst["kind"])
    return o


def converter(kind):
    from socialchoicekit import preflib_utils as pu
    return {"soc": pu.preflib_soc_to_profile, "soi": pu.preflib_soi_to_profile, "toc": pu.preflib_toc_to_profile,
            "toi": pu.preflib_toi_to_profile, "cat": pu.preflib_categorical_to_profile}[kind]


@guard
def impl_batch(case):
    import warnings
    warnings.filterwarnings("ignore")
    out = []
    for it in case["items"]:
        try:
            inst = it["inst"]
            pi = parse(inst)
            res = {"parsed_type": pi.data_type, "runs": {}}
            f = converter(inst["kind"])

            def convert_all():
                runs = {}
                for tb in (["none"] if inst["kind"] in ("soc", "soi") else ["accept", "first", "random"]):
                    np.random.seed(it["seed"])
                    r = f(pi) if tb == "none" else f(pi, tie_breaker=tb)
                    arr = np.asarray(r)
                    runs[tb] = {"rows": [[None if (isinstance(x, float) and np.isnan(x)) else int(x) for x in row.tolist()] for row in arr],
                                "type": type(r).__name__}
                return runs
            res["runs"] = convert_all()
            if it.get("then"):
                apply_then(pi, inst["kind"], it["then"])
                if pi.data_type == inst["kind"]:
                    res["runs2"] = convert_all()
                pi = parse(inst)
            # wrong data type must be rejected
            wrong = {}
            for k2 in KINDS:
                if k2 == inst["kind"]:
                    continue
                try:
                    g = converter(k2)
                    g(pi) if k2 in ("soc", "soi") else g(pi, tie_breaker="first")
                    wrong[k2] = "accepted"
                except Exception as e:  # noqa
                    wrong[k2] = type(e).__name__
            res["wrong"] = wrong
            out.append(res)
        except Exception as e:  # noqa
            import traceback
            out.append({"exc": type(e).__name__, "msg": str(e)[:200], "tb": traceback.format_exc()[-400:]})
    return {"results": out}


def gen_order(R, kind, m, ncat):
    alts = list(range(1, m + 1))
    R.rng.shuffle(alts)
    if kind in ("soi", "toi"):
        alts = alts[:R.rng.randint(1, m)]
    if kind in ("soc", "soi"):
        classes = [[a] for a in alts]
    elif kind in ("toc", "toi"):
        classes = []
        i = 0
        while i < len(alts):
            s = R.rng.randint(1, min(3, len(alts) - i))
            classes.append(sorted(alts[i:i + s]) if R.rng.random() < 0.5 else alts[i:i + s])
            i += s
    else:
        sub = alts[:R.rng.randint(0, m)]
        classes = [[] for _ in range(ncat)]
        for a in sub:
            classes[R.rng.randrange(ncat)].append(a)
        if not any(classes) and R.rng.random() < 0.5:
            # half of the ballots that came out empty stay empty: a voter who placed no alternative in any category is a row of NaN
            classes[0].append(alts[0])
    return classes


def gen_instance(R, big=False):
    kind = R.rng.choice(KINDS)
    m = R.rng.randint(1, 9)
    norders = R.rng.randint(1, 5)
    if big:
        # PrefLib has elections with hundreds of alternatives: positions beyond 255 must survive whatever storage the converter uses
        kind = R.rng.choice(["soc", "soi", "toc", "toi"])
        m = R.rng.choice([255, 256, 257, 300])
        norders = R.rng.randint(1, 2)
    orders, seen = [], set()
    ncat = R.rng.randint(1, 4)
    tries = 0
    while len(orders) < norders and tries < 50:
        tries += 1
        classes = gen_order(R, kind, m, ncat)
        key = json.dumps(classes)
        if key in seen:
            continue
        seen.add(key)
        orders.append([classes, R.rng.randint(1, 3)])
    if kind == "cat" and not any(c for cl, _ in orders for c in cl):
        # an election in which nobody placed anything has no profile in this library (every profile type needs a rank 1 somewhere:
        # utils.check_profile), so at least one ballot lists an alternative
        orders[0][0][0].append(1)
    inst = {"kind": kind, "m": m, "orders": orders}
    if kind == "cat":
        inst["ncat"] = ncat
    if R.rng.random() < 0.15:
        inst["no_voter_header"] = True
    return inst


def gen_then(R, inst):
    """ballots added to the SAME parsed instance object after it has been converted once (preflibtools' own append_vote_map; for a
    categorical instance its preferences/multiplicity tables): one that raises the multiplicity of an existing order and up to two more"""
    kind, m = inst["kind"], inst["m"]
    extra = [[json.loads(json.dumps(R.rng.choice(inst["orders"])[0])), R.rng.randint(1, 2)]]
    for _ in range(R.rng.randint(0, 2)):
        extra.append([gen_order(R, kind, m, inst.get("ncat", 1)), R.rng.randint(1, 2)])
    return extra


def merged(inst, then):
    out = json.loads(json.dumps(inst))
    for classes, mult in then:
        for o in out["orders"]:
            if o[0] == classes:
                o[1] += mult
                break
        else:
            out["orders"].append([json.loads(json.dumps(classes)), mult])
    return out


def apply_then(pi, kind, then):
    for classes, mult in then:
        key = tuple(tuple(c) for c in classes)
        if kind == "cat":
            if key in pi.multiplicity:
                pi.multiplicity[key] += mult
            else:
                pi.preferences.append(key)
                pi.multiplicity[key] = mult
            pi.num_voters += mult
            pi.num_unique_preferences = len(pi.preferences)
        else:
            pi.append_vote_map({key: mult})


def expected_rows(inst, mode):
    """independent oracle: position of each alternative (accept: first position of its class; first: by alternative number)"""
    rows = []
    for classes, mult in inst["orders"]:
        init = 0 if inst["kind"] in ("soc", "toc") else None
        row = [init] * inst["m"]
        cur = 1
        for cls in classes:
            if not cls:
                continue
            arr = sorted(cls) if mode == "first" else list(cls)
            for t, a in enumerate(arr):
                row[a - 1] = cur if mode == "accept" else cur + t
            cur += len(cls)
        rows += [row] * mult
    return rows


def lean_lines(inst, res):
    kind, m = inst["kind"], inst["m"]
    L = []
    otoks = [str(len(inst["orders"]))]
    for classes, mult in inst["orders"]:
        otoks.append(str(len(classes)))
        for cls in classes:
            otoks += [str(len(cls))] + [str(a) for a in cls]
        otoks.append(str(mult))
    for mode in ("accept", "first"):
        L.append(("conv", mode, " ".join(["preflib", kind, mode, str(m), kind] + otoks)))
    L.append(("wrong", None, " ".join(["preflib", "toc" if kind != "toc" else "soc", "first", str(m), kind] + otoks)))
    if "runs" in res and "random" in res["runs"]:
        rows = res["runs"]["random"]["rows"]
        k = 0
        for classes, mult in inst["orders"]:
            listed = [c for c in classes if c] if kind == "cat" else classes
            for _ in range(mult):
                if k < len(rows):
                    ct = [str(len(listed))]
                    for cls in listed:
                        ct += [str(len(cls))] + [str(a) for a in cls]
                    L.append(("row", k, " ".join(["prefrow", str(m), "2"] + ct + [optn(x) for x in rows[k]])))
                k += 1
    return L


@safe_judge
def judge(R, it, res, answers):
    inst = it["inst"]
    kind = inst["kind"]
    cfg = {"kind": kind, "seed": it["seed"]}
    if it.get("seq"):
        cfg["seq"] = it["seq"]
        R.count("second_conversion_after_ballots_were_added")
    if "exc" in res or "hang" in res:
        R.violation("property_violation", "conversion of a well-formed instance succeeds", f"{ENTRY}.preflib_{kind}_to_profile", inst, impl_output=res,
                    oracle="raised/hang", config=cfg)
        return
    R.count(kind)
    errs = []
    for tb, run in res["runs"].items():
        rows = run["rows"]
        if tb in ("none", "first"):
            want = expected_rows(inst, "first")
        elif tb == "accept":
            want = expected_rows(inst, "accept")
        else:
            want = None
        if want is not None and rows != want:
            errs.append(f"tie_breaker={tb}: rows differ from the positions in the voters' orders")
        if want is None:
            acc = expected_rows(inst, "accept")
            if len(rows) != len(acc):
                errs.append("random: wrong number of rows")
            else:
                k = 0
                for classes, mult in inst["orders"]:
                    for _ in range(mult):
                        cur = 1
                        for cls in classes:
                            if not cls:
                                continue
                            got = sorted(rows[k][a - 1] for a in cls if rows[k][a - 1] is not None)
                            if got != list(range(cur, cur + len(cls))):
                                errs.append("random: a class is not ranked bijectively onto its block of positions")
                            cur += len(cls)
                        listed = set(a for cls in classes for a in cls)
                        if any(rows[k][j] is not None and (j + 1) not in listed for j in range(inst["m"])) and kind not in ("soc", "toc"):
                            errs.append("random: an unlisted alternative got a rank")
                        k += 1
    for k2, v in res["wrong"].items():
        if v == "accepted":
            errs.append(f"an instance of type {kind} was accepted by the {k2} converter")
    if errs:
        R.violation("property_violation", "one row per voter, entries = positions, unlisted = NaN, ties per tie-breaker, wrong type rejected",
                    f"{ENTRY}.preflib_{kind}_to_profile", inst, impl_output=res, oracle=sorted(set(errs))[:4], config=cfg)
        return
    for (what, key, _), a in answers:
        if what == "conv":
            tb = key if kind not in ("soc", "soi") else "none"
            rows = res["runs"][tb]["rows"]
            flat = [optn(x) for r in rows for x in r]
            exp = " ".join(["ok", str(len(rows))] + flat)
            if a != exp:
                R.corr_break(f"rows = model convRows ({key})", f"{ENTRY}.preflib_{kind}_to_profile", inst, rows, a, dict(cfg, tie_breaker=key))
        elif what == "wrong":
            if not a.startswith("err"):
                R.corr_break("model rejects a wrong data type", ENTRY, inst, res["wrong"], a, cfg)
        else:
            if a != "ok 1 1":
                R.corr_break("prefRowOkB accepts every row of the random tie-breaker", f"{ENTRY}.preflib_{kind}_to_profile", inst,
                             res["runs"]["random"]["rows"][key], a, dict(cfg, tie_breaker="random"))
    ties = any(len(c) > 1 for cl, _ in inst["orders"] for c in cl)
    R.case(nontrivial_key=json.dumps(inst, sort_keys=True) if inst["m"] >= 2 else None,
           sample={"instance": inst, "file": file_text(inst), "impl": res["runs"]} if ties and R.hist.get("_s" + kind) is None else None)
    if ties:
        R.hist["_s" + kind] = 1


def run_items(R, items):
    cases = [{"items": ch} for ch in chunks(items, 25)]
    results = pmap("c19", "impl_batch", cases, deadline=120.0)
    flat = []
    for case, res in zip(cases, results):
        flat += res["results"] if "results" in res else [{"hang": True}] * len(case["items"])
    items = list(items)
    for it, res in list(zip(items, flat)):
        if "runs2" in res:
            # the second conversion of the same instance object, after ballots were added, is judged as the conversion of the merged instance
            items.append({"inst": merged(it["inst"], it["then"]), "seed": it["seed"], "seq": {"first": it["inst"], "then": it["then"]}})
            flat.append({"parsed_type": res["parsed_type"], "runs": res["runs2"], "wrong": {}})
    allL, spans = [], []
    for it, res in zip(items, flat):
        L = lean_lines(it["inst"], res) if "runs" in res else []
        spans.append((len(allL), len(allL) + len(L)))
        allL += L
    ans = lean_query([l[2] for l in allL])
    for it, res, (a, b) in zip(items, flat, spans):
        judge(R, it, res, list(zip(allL[a:b], ans[a:b])))
    for k in list(R.hist):
        if k.startswith("_s"):
            del R.hist[k]


def run(R):
    R.rule = ("random abstract instances of the five kinds (soc, soi, toc, toi, categorical): 1-9 alternatives, 1-5 distinct orders with multiplicities "
              "1-3, indifference classes of size 1-3, empty categories and ballots with nothing but empty categories; one instance in a hundred has "
              "255-300 alternatives; a quarter of the instances are converted, given further ballots through preflibtools (same object) and converted "
              "again, the second result being judged as the conversion of the merged instance; written in PrefLib file syntax, parsed by preflibtools, converted with every "
              "tie-breaker (random under a seed) and offered to all four other converters (must be rejected). Non-trivial = >= 2 alternatives.")
    R.assumptions = ["preflibtools' parser is trusted", "the final Profile.of validation is outside the model"]
    items = [{"inst": gen_instance(R, big=(t % 100 == 50)), "seed": R.rng.randrange(10 ** 6)} for t in range(10000 if R.thorough else 700)]
    for t, it in enumerate(items):
        if t % 4 == 1:
            it["then"] = gen_then(R, it["inst"])
    run_items(R, items)


def replay(R, rep):
    cfg = rep.get("config", {})
    if cfg.get("seq"):
        run_items(R, [{"inst": cfg["seq"]["first"], "then": cfg["seq"]["then"], "seed": cfg.get("seed", 0)}])
    else:
        run_items(R, [{"inst": rep["input"], "seed": cfg.get("seed", 0)}])
