"""Helper functions of flow.py / bistochastic.py against the Lean model `Sck/Model/FlowHelpers.lean` (ops `fh_*`, theorems in
`Sck/Props/C08Helpers.lean`, `C09Helpers.lean`): reachable_vertices, flow_across_network, capacity_across_cut,
convert_bipartite_graph_to_flow_network, positivity_graph.  Generated from the validation script of Lean package L2
(tools/validate/L2_flowhelpers_validate.py).  `build_cases` runs on the implementation side (worker process) and returns
(tag, op line, real answer).  These functions are outside the statements of the properties, so the comparison is reported as
model coverage (glue), not as a verdict."""
import random, copy
from fractions import Fraction
import numpy as np

# ---------------------------------------------------------------------------------------------------
# op-line builders (Python value -> op line) and expected-answer builders (Python result -> answer line)
# ---------------------------------------------------------------------------------------------------
def graph_tokens(G):
    """{u: [(v, c), ...]} in dict order"""
    toks = [str(len(G))]
    for u, l in G.items():
        toks += [str(int(u)), str(len(l))]
        for v, c in l:
            toks += [str(int(v)), str(int(c))]
    return toks


def bgraph_tokens(G):
    """{u: [v, ...]} in dict order"""
    toks = [str(len(G))]
    for u, l in G.items():
        toks += [str(int(u)), str(len(l))] + [str(int(v)) for v in l]
    return toks


def ints_tokens(xs):
    xs = list(xs)
    return [str(len(xs))] + [str(int(x)) for x in xs]


def lean_fh_reachable_line(G, s):
    return " ".join(["fh_reachable"] + graph_tokens(G) + [str(int(s))])


def fh_reachable_expected(call):
    """call() -> set of vertices, or raises"""
    try:
        S = call()
    except KeyError:
        return "err KeyError"
    S = sorted(int(x) for x in S)
    return " ".join(["ok", str(len(S))] + [str(x) for x in S])


def lean_fh_flowacross_line(flow, s):
    toks = ["fh_flowacross", str(len(flow))]
    for (i, j), f in flow.items():
        toks += [str(int(i)), str(int(j)), str(int(f))]
    return " ".join(toks + [str(int(s))])


def fh_flowacross_expected(call):
    try:
        v = call()
    except ValueError:
        return "err ValueError"
    return f"ok {int(v)}"


def lean_fh_capcut_line(G, cut):
    return " ".join(["fh_capcut"] + graph_tokens(G) + ints_tokens(sorted(cut)))


def fh_capcut_expected(v):
    return f"ok {int(v)}"


def lean_fh_convert_line(G, X, Y, raw=False):
    return " ".join(["fh_convertraw" if raw else "fh_convert"] + ints_tokens(X) + ints_tokens(Y) + bgraph_tokens(G))


def fh_convert_expected(net, raw=False):
    """net = the dict returned by convert_bipartite_graph_to_flow_network"""
    if raw:
        items = [(int(u), [(int(v), int(c)) for v, c in l]) for u, l in net.items()]
    else:
        items = sorted((int(u), sorted((int(v), int(c)) for v, c in l)) for u, l in net.items())
    toks = ["ok", str(len(items))]
    for u, l in items:
        toks += [str(u), str(len(l))]
        for v, c in l:
            toks += [str(v), str(c)]
    return " ".join(toks)


def rat_token(x):
    fr = Fraction(x)  # exact, also for floats / numpy floats
    return str(fr.numerator) if fr.denominator == 1 else f"{fr.numerator}/{fr.denominator}"


def lean_fh_positivity_line(X, raw=False):
    """X: 2-dimensional np.ndarray with finite entries"""
    X = np.asarray(X)
    rows, cols = X.shape
    toks = ["fh_positivityraw" if raw else "fh_positivity", str(rows), str(cols)]
    for i in range(rows):
        for j in range(cols):
            toks.append(rat_token(X[i, j].item()))
    return " ".join(toks)


def fh_positivity_expected(call, raw=False):
    try:
        g = call()
    except IndexError:
        return "err IndexError"
    if raw:
        items = [(int(u), [int(v) for v in l]) for u, l in g.items()]
    else:
        items = sorted((int(u), sorted(int(v) for v in l)) for u, l in g.items())
    toks = ["ok", str(len(items))]
    for u, l in items:
        toks += [str(u), str(len(l))] + [str(v) for v in l]
    return " ".join(toks)


# ---------------------------------------------------------------------------------------------------
# generators
# ---------------------------------------------------------------------------------------------------
def rand_labels(rng, n):
    mode = rng.random()
    if mode < 0.4:
        return list(range(n))
    if mode < 0.7:
        return rng.sample(range(-6, 12), n)
    return rng.sample([-1, -2] + list(range(0, 10)), n)


def rand_graph(rng, allow_bad=True):
    n = rng.randint(1, 8)
    labels = rand_labels(rng, n)
    rng.shuffle(labels)
    dens = rng.choice([0.1, 0.25, 0.5, 0.8])
    caps = rng.choice([[0, 1], [0, 0, 1, 2, 3], [1, 2, 5, 9], [0, 1, -1, 4], [0, 3, 2 ** 63 - 1, 10 ** 30]])
    outside = [x for x in range(-8, 16) if x not in labels]
    G = {}
    for u in labels:
        l = []
        for v in labels:
            if (u != v or rng.random() < 0.3) and rng.random() < dens:
                l.append((v, rng.choice(caps)))
                if rng.random() < 0.05:  # parallel entry
                    l.append((v, rng.choice(caps)))
        if allow_bad and rng.random() < 0.06:
            l.append((rng.choice(outside), rng.choice(caps)))
        rng.shuffle(l)
        G[u] = l
    # isolated vertices happen naturally with low density
    return G, labels, outside


def rand_net(rng):
    """well-formed network in the harness format"""
    n = rng.randint(2, 7)
    labels = rand_labels(rng, n)
    s, t = labels[0], labels[-1]
    dens = rng.choice([0.2, 0.4, 0.7])
    caps = rng.choice([[0, 1], [0, 1, 2, 3], [1, 2, 5, 9]])
    into_s = rng.random() < 0.4
    edges = []
    for u in labels:
        for v in labels:
            if u == v and rng.random() > 0.05:
                continue
            if v == s and not into_s:
                continue
            if rng.random() < dens:
                edges.append((u, v, rng.choice(caps)))
    rng.shuffle(edges)
    vs = labels[:]
    rng.shuffle(vs)
    G = {v: [] for v in vs}
    for u, v, c in edges:
        G[u].append((v, c))
    return G, s, t


def rand_bip(rng):
    nx, ny = rng.randint(0, 5), rng.randint(0, 5)
    mode = rng.random()
    if mode < 0.5:
        X = list(range(nx)); Y = list(range(nx, nx + ny))
    else:
        pool = rng.sample(range(0, 30), nx + ny)
        X, Y = pool[:nx], pool[nx:]
    dens = rng.choice([0.0, 0.2, 0.5, 0.9])
    adj = {x: [y for y in Y if rng.random() < dens] for x in X}
    for x in X:
        rng.shuffle(adj[x])
    undirected = rng.random() < 0.5
    G = {}
    order = X + Y
    if rng.random() < 0.3:
        rng.shuffle(order)
    for v in order:
        if v in adj and (v in X):
            G[v] = list(adj[v])
        else:
            G[v] = [x for x in X if v in adj[x]] if undirected else []
    # malformed / unusual variants
    r = rng.random()
    if r < 0.10 and X:      # a left vertex missing from the dict (G.get default)
        del G[rng.choice(X)]
    elif r < 0.15 and Y:    # a right vertex missing from the dict
        G.pop(rng.choice(Y), None)
    elif r < 0.20 and X:    # repeated left vertex
        X = X + [rng.choice(X)]
    elif r < 0.25 and Y:    # repeated right vertex
        Y = Y + [rng.choice(Y)]
    elif r < 0.30 and X and Y:  # overlap
        Y = Y + [rng.choice(X)]
    elif r < 0.34:          # reserved names used as vertices
        X = X + [-1]; G[-1] = list(Y[:1])
    elif r < 0.38:
        Y = Y + [-2]
    elif r < 0.42:
        X = X + [-2]; G[-2] = list(Y[:2])
    elif r < 0.46:
        Y = Y + [-1]
    elif r < 0.50 and X:    # an edge to a vertex outside Y, a repeated neighbour
        x = rng.choice(X)
        if x in G:
            G[x] = G[x] + [rng.choice([77, x] + Y)]
    return G, X, Y


TINY = [0.0, 0.0, 0.0, 1e-12, 1e-9, 1e-10, 5e-324, 1e-300, -1e-12, -0.0, 0.25, 0.5, 1.0, 1 / 3, 0.1, -0.5, 2.0]


def rand_matrix(rng):
    n = rng.randint(0, 5)
    r = rng.random()
    m = n
    if r < 0.12:
        m = max(0, n - rng.randint(1, 2))
    elif r < 0.24:
        m = n + rng.randint(1, 2)
    kind = rng.random()
    if kind < 0.25:
        X = np.array([[rng.choice([0, 0, 1, 2, -1]) for _ in range(m)] for _ in range(n)], dtype=int).reshape(n, m)
    elif kind < 0.5 and n == m and n > 0:
        # bistochastic: average of permutation matrices (exact zeros guaranteed elsewhere)
        k = rng.randint(1, 3)
        X = np.zeros((n, n))
        ws = [rng.random() for _ in range(k)]
        for w in ws:
            p = list(range(n)); rng.shuffle(p)
            for i in range(n):
                X[i, p[i]] += w / sum(ws)
    else:
        X = np.array([[rng.choice(TINY) if rng.random() < 0.8 else rng.random() for _ in range(m)] for _ in range(n)],
                     dtype=float).reshape(n, m)
    return X


# ---------------------------------------------------------------------------------------------------
def build_cases(seed, which, count):
    """which: "flow" (reachable / flow_across / capacity_across_cut) or "bip" (convert / positivity)"""
    import socialchoicekit.flow as fl
    import socialchoicekit.bistochastic as bs
    rng = random.Random(seed)
    lines, expected, tags = [], [], []

    def add(tag, line, exp):
        tags.append(tag); lines.append(line); expected.append(exp)

    # --- reachable_vertices on random dict graphs -------------------------------------------------
    for _ in range(count if which == "flow" else 0):
        G, labels, outside = rand_graph(rng)
        s = rng.choice(labels) if rng.random() < 0.95 else rng.choice(outside)
        add("reach", lean_fh_reachable_line(G, s),
            fh_reachable_expected(lambda: fl.reachable_vertices(copy.deepcopy(G), s)))

    # --- runs of the real ford_fulkerson: residual graph handed to reachable_vertices, final flow, cut
    captured = []
    orig = fl.reachable_vertices

    def wrapped(Gf, s):
        r = orig(Gf, s)
        captured.append((copy.deepcopy(Gf), s, set(r)))
        return r

    for _ in range(count if which == "flow" else 0):
        G, s, t = rand_net(rng)
        fl.reachable_vertices = wrapped
        try:
            flow, cut = fl.ford_fulkerson(copy.deepcopy(G), s, t)
        finally:
            fl.reachable_vertices = orig
        Gf, s_, S = captured.pop()
        assert s_ == s and S == set(cut)
        add("reach-resid", lean_fh_reachable_line(Gf, s), fh_reachable_expected(lambda: S))
        add("flowacross-ff", lean_fh_flowacross_line(flow, s),
            fh_flowacross_expected(lambda: fl.flow_across_network(flow, s)))
        # also "across" other vertices (sink, random vertex): the function is generic
        w = rng.choice(list(G.keys()))
        add("flowacross-ff-other", lean_fh_flowacross_line(flow, w),
            fh_flowacross_expected(lambda: fl.flow_across_network(flow, w)))
        add("capcut-ff", lean_fh_capcut_line(G, cut), fh_capcut_expected(fl.capacity_across_cut(G, set(cut))))

    # --- flow_across_network on arbitrary dicts ---------------------------------------------------
    for _ in range(count // 2 if which == "flow" else 0):
        n = rng.randint(0, 6)
        verts = list(range(-2, 5))
        flow = {}
        for _k in range(n):
            flow[(rng.choice(verts), rng.choice(verts))] = rng.choice([0, 0, 1, 2, -1, -3, 7, 10 ** 25])
        s = rng.choice(verts)
        add("flowacross", lean_fh_flowacross_line(flow, s),
            fh_flowacross_expected(lambda: fl.flow_across_network(flow, s)))

    # --- capacity_across_cut on random graphs and random cuts --------------------------------------
    for _ in range(count if which == "flow" else 0):
        G, labels, outside = rand_graph(rng)
        pool = labels + (outside[:2] if rng.random() < 0.2 else [])
        cut = set(x for x in pool if rng.random() < rng.choice([0.2, 0.5, 0.8]))
        add("capcut", lean_fh_capcut_line(G, cut), fh_capcut_expected(fl.capacity_across_cut(G, cut)))

    # --- convert_bipartite_graph_to_flow_network ---------------------------------------------------
    for _ in range(count if which == "bip" else 0):
        G, X, Y = rand_bip(rng)
        net = fl.convert_bipartite_graph_to_flow_network(copy.deepcopy(G), list(X), list(Y))
        add("convert", lean_fh_convert_line(G, X, Y), fh_convert_expected(net))
        add("convert-raw", lean_fh_convert_line(G, X, Y, raw=True), fh_convert_expected(net, raw=True))

    # --- positivity_graph ----------------------------------------------------------------------------
    for _ in range(count if which == "bip" else 0):
        X = rand_matrix(rng)
        add("positivity", lean_fh_positivity_line(X), fh_positivity_expected(lambda: bs.positivity_graph(X)))
        add("positivity-raw", lean_fh_positivity_line(X, raw=True),
            fh_positivity_expected(lambda: bs.positivity_graph(X), raw=True))

    return [{"tag": t, "line": l, "real": e} for t, l, e in zip(tags, lines, expected)]
