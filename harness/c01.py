"""C01 - Gale-Shapley returns a feasible matching with no blocking pair (both orientations)."""
import itertools, json, os
from harness import gslib
from harness.common import pmap, lean_query, guard, VERIF, safe_judge, pmap_singles

LEVEL = "proof"
ENTRY = "socialchoicekit.deterministic_matching.GaleShapley.scf"


@guard
def impl_batch(case):
    out = []
    ctx = gslib.new_ctx(len(case["insts"]))
    for inst in case["insts"]:
        try:
            out.append({"pairs": gslib.call_gs(inst, case["oriented"], case["zero_indexed"], ctx=ctx)})
        except Exception as e:  # noqa
            out.append({"exc": type(e).__name__, "msg": str(e)[:200]})
    return {"results": out}


def gen_random(R, count, nmax):
    insts = []
    for t in range(count):
        shape = R.rng.random()
        if shape < 0.15:            # marriage instance: square, unit capacities, complete
            n = m = R.rng.randint(1, nmax)
            I = gslib.rand_instance(R.rng, n, m, 0.0, 0.0, cmax=1)
        else:
            n = R.rng.randint(1, nmax)
            m = R.rng.randint(1, nmax)
            pr = R.rng.choice([0, 0, 0.3, 0.6])
            ph = R.rng.choice([0, 0, 0.3, 0.6])
            I = gslib.rand_instance(R.rng, n, m, pr, ph)
            if R.rng.random() < 0.1 and n > 1:      # an all-NaN row on one side
                I["R"][R.rng.randrange(n)] = [None] * m
        if R.rng.random() < 0.05:
            # "unlimited" capacity: the largest 64-bit integer (sys.maxsize)
            I["c"][R.rng.randrange(len(I["c"]))] = 2 ** 63 - 1
        if gslib.constructible(I):
            insts.append(I)
    # a market with more than 256 residents in which nearly everybody applies to the same small hospital first
    insts.append(gslib.popular_market(R.rng, R.rng.randint(258, 400), R.rng.randint(2, 3)))
    for t in range(max(1, count // 400)):      # large markets: a hospital with >= 128 seats and more applicants than that
        n = R.rng.randint(135, 170)
        I = gslib.rand_instance(R.rng, n, 2, 0.0, 0.0)
        I["c"] = [R.rng.randint(128, 140), R.rng.randint(1, 5)]
        insts.append(I)
    return insts


def gen_exhaustive():
    for (n, m) in [(2, 2), (3, 2), (2, 3)]:
        rr = gslib.all_rows(m)
        hh = gslib.all_rows(n)
        for Rm in itertools.product(rr, repeat=n):
            for Hm in itertools.product(hh, repeat=m):
                for c in itertools.product([1, 2], repeat=m):
                    I = {"n": n, "m": m, "R": [list(r) for r in Rm], "H": [list(h) for h in Hm], "c": list(c)}
                    if gslib.constructible(I):
                        yield I


def chunks(it, size):
    buf = []
    for x in it:
        buf.append(x)
        if len(buf) == size:
            yield buf
            buf = []
    if buf:
        yield buf


def corpus():
    path = os.path.join(VERIF, "corpus", "C01.jsonl")
    out = []
    if os.path.exists(path):
        for line in open(path):
            line = line.strip()
            if line:
                out.append(json.loads(line))
    return out


@safe_judge
def judge(R, inst, oriented, zero, res, lean_ans, tag):
    fixer = 0 if zero else 1
    cfg = {"resident_oriented": oriented, "zero_indexed": zero}
    if "hang" in res:
        R.violation("property_violation", "termination", ENTRY, inst, impl_output="no result within deadline", config=cfg,
                    oracle="non-termination")
        return
    if "exc" in res:
        R.violation("property_violation", "total (no exception on a valid instance)", ENTRY, inst,
                    impl_output=res, config=cfg, oracle="raised " + res["exc"])
        return
    pairs = res["pairs"]
    match = [(a - fixer, b - fixer) for a, b in pairs]
    errs = gslib.check_matching(inst, match)
    model = gslib.parse_pairs(lean_ans) if lean_ans is not None else None
    nontriv = gslib.has_rejection(inst, match)
    R.case(nontrivial_key=(json.dumps(inst), oriented) if nontriv else None,
           sample={"instance": inst, "config": cfg, "impl_pairs": pairs, "model": lean_ans} if nontriv else None)
    R.count(f"{tag}:n={inst['n']},m={inst['m']}")
    R.count("oriented" if oriented else "hospital_oriented")
    if any(v is None for row in inst["R"] for v in row) or any(v is None for row in inst["H"] for v in row):
        R.count("with_NaN")
    if errs:
        def fails(I2):
            r2 = gslib.call_gs(I2, oriented, True)
            return bool(gslib.check_matching(I2, [(a, b) for a, b in r2]))
        small = gslib.shrink(inst, fails) if inst["n"] * inst["m"] <= 400 else inst
        try:
            out_small = gslib.call_gs(small, oriented, zero)
        except Exception as e:  # noqa
            out_small = repr(e)
        R.violation("property_violation", "feasible and no blocking pair", ENTRY, small, impl_output=out_small,
                    model_output=lean_ans, oracle=errs, config=cfg, minimised_from=inst)
        return
    if lean_ans is None:
        R.count("judged_by_the_direct_oracle_only(instance_too_large_for_the_compiled_model)")
        return
    if model is None or sorted(pairs) != model:
        R.corr_break("gs pair set = model pair set (galeShapley)", ENTRY, inst, pairs, lean_ans, cfg)


def run_batch(R, insts, oriented, zero, tag, deadline):
    cases = [{"insts": ch, "oriented": oriented, "zero_indexed": zero} for ch in chunks(insts, 200)]
    results = pmap("c01", "impl_batch", cases, deadline=deadline)
    fixer = 0 if zero else 1
    big = [I["n"] * I["m"] > gslib.MODEL_MAX_CELLS for I in insts]
    lines = [gslib.lean_line(I, oriented, fixer) if not b else "gs 1 0 1 1 1 1 1" for I, b in zip(insts, big)]
    # the faithful mirror of the branch (same state variables, CPython's heapq, same output ORDER): C01_gs*Mirror_refines.
    # Large markets are skipped (the mirror is not tuned for them); the order of the returned pairs is not part of the property,
    # so this comparison is model coverage (glue), while the pair SET against the proved model is the verdict above.
    mlines = [gslib.mirror_line(I, oriented) if I["n"] <= 12 and I["m"] <= 12 else None for I in insts]
    allans = lean_query(lines + [l for l in mlines if l is not None])
    answers = allans[:len(lines)]
    it_m = iter(allans[len(lines):])
    mirror_ans = [next(it_m) if l is not None else None for l in mlines]
    k = 0
    for case, res in zip(cases, results):
        if "hang" in res or "exc" in res or "crash" in res:
            # re-run this chunk one instance at a time to find the culprit
            singles = pmap_singles("c01", "impl_batch", [{"insts": [I], "oriented": oriented, "zero_indexed": zero} for I in case["insts"]],
                           deadline=10.0, R=R)
            rs = [(s["results"][0] if "results" in s else ({"skipped": True} if "skipped" in s else {"hang": True} if "hang" in s else {"exc": s.get("exc", "crash"), "msg": s.get("msg", "")})) for s in singles]
        else:
            rs = res["results"]
        for I, r in zip(case["insts"], rs):
            judge(R, I, oriented, zero, r, answers[k] if not big[k] else None, tag)
            if mirror_ans[k] is not None and isinstance(r, dict) and "pairs" in r:
                exp = " ".join(["ok", str(len(r["pairs"]))] + [str(x - fixer) for p in r["pairs"] for x in p])
                R.glue("mirror:GaleShapley.scf ordered pair list (" + ("resident" if oriented else "hospital") + "-oriented)", exp == mirror_ans[k],
                       {"instance": I, "real": r["pairs"], "model": mirror_ans[k]})
            k += 1


def run(R):
    R.rule = ("random strict HR instances (n,m<=6 quick / <=12 thorough; NaN density 0/.3/.6 per side, all-NaN rows, "
              "capacities 1..3, square unit-capacity marriage instances) x orientation x index convention; thorough adds "
              "ALL instances with (n,m) in {(2,2),(3,2),(2,3)} and capacities in {1,2}. Non-trivial = some resident is not "
              "matched to its first choice (a rejection happened); distinct by (instance, orientation).")
    R.assumptions = ["numpy argsort on a strict row = positions sorted by rank (modelled by plistOfRow)",
                     "heapq behaves as a multiset with remove-max (modelled by `worst`)"]
    cp = corpus()
    for c in cp:
        run_batch(R, [c["inst"]], c["oriented"], c.get("zero_indexed", True), "corpus", 10.0)
    nmax = 12 if R.thorough else 6
    count = 6000 if R.thorough else 700
    for oriented in (True, False):
        for zero in (True, False):
            insts = gen_random(R, count, nmax)
            run_batch(R, insts, oriented, zero, "random", 60.0)
        # one run of more than ten thousand rounds
        run_batch(R, [gslib.long_run(R.rng.randint(10500, 12500), oriented)[0]], oriented, True, "long_run", 120.0)
    if R.thorough:
        R.exhaustive = True
        for oriented in (True, False):
            for ch in chunks(gen_exhaustive(), 40000):
                run_batch(R, ch, oriented, True, "exhaustive", 120.0)
    if R.corr_breaks and not R.violations:
        search(R)


def search(R):
    """correspondence broke but the oracle passed on those outputs: look for a failing input nearby"""
    budget = 4000
    for cb in R.corr_breaks[:5]:
        inst = cb["input"]
        for oriented in (True, False):
            for t in range(budget // 10):
                I = json.loads(json.dumps(inst))
                # mutate: re-draw one row or change a capacity
                if R.rng.random() < 0.5:
                    r = R.rng.randrange(I["n"])
                    I["R"][r] = gslib.rand_profile(R.rng, 1, I["m"], R.rng.choice([0, .3]))[0]
                else:
                    h = R.rng.randrange(I["m"])
                    I["H"][h] = gslib.rand_profile(R.rng, 1, I["n"], R.rng.choice([0, .3]))[0]
                I["c"] = [R.rng.randint(1, 3) for _ in range(I["m"])]
                if not gslib.constructible(I):
                    continue
                try:
                    out = gslib.call_gs(I, oriented, True)
                except Exception as e:  # noqa
                    R.violation("property_violation", "total", ENTRY, I, impl_output=repr(e), config={"resident_oriented": oriented, "zero_indexed": True}, oracle="raised")
                    return
                errs = gslib.check_matching(I, [(a, b) for a, b in out])
                if errs:
                    R.violation("property_violation", "feasible and no blocking pair", ENTRY, I, impl_output=out, oracle=errs,
                                config={"resident_oriented": oriented, "zero_indexed": True}, minimised_from=inst)
                    return


def replay(R, rep):
    inst = rep["input"]
    cfg = rep.get("config", {})
    oriented = cfg.get("resident_oriented", True)
    zero = cfg.get("zero_indexed", True)
    run_batch(R, [inst], oriented, zero, "replay", 10.0)
