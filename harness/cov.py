"""Optional line/branch coverage of the implementation under test (socialchoicekit in VERIF_REPO) while a check runs.
Enabled by VERIF_COVERAGE_DIR=<dir>: the check process and every worker process write a coverage data file there;
`tools/coverage_report.py` combines them. Used to find implementation lines that no correspondence run reaches
(blind spots of the generators); never part of a verdict."""
import os, atexit

_cov = None


def start():
    global _cov
    d = os.environ.get("VERIF_COVERAGE_DIR")
    if not d or _cov is not None:
        return
    try:
        import coverage
    except ImportError:
        return
    os.makedirs(d, exist_ok=True)
    repo = os.environ.get("VERIF_REPO", "/repo")
    _cov = coverage.Coverage(data_file=os.path.join(d, ".coverage"), data_suffix=True, branch=True,
                             include=[os.path.join(repo, "socialchoicekit", "*")])
    _cov.start()

    def stop():
        try:
            _cov.stop()
            _cov.save()
        except Exception:
            pass
    atexit.register(stop)
