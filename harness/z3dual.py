"""Runs under python3-vt (z3 5.x): finds exact rational LP-dual certificates for max-weight stable matchings.
stdin: one JSON instance per line {"P1","P2","V1","V2","mu"}; stdout: one JSON line per instance:
{"alpha": [...], "beta": [...], "y": [[...]]} (strings p/q) or {"none": true} when no certificate with dual value =
weight(mu) exists (then mu is not optimal, the polytope being integral), or {"timeout": true}.
z3's answer is never trusted: the Lean checker smCertOk re-checks every certificate."""
import sys, json
import z3


def q(m, v):
    r = m.eval(v, model_completion=True)
    n, d = r.numerator_as_long(), r.denominator_as_long()
    return str(n) if d == 1 else f"{n}/{d}"


def solve(inst, timeout_ms):
    P1, P2, V1, V2, mu = inst["P1"], inst["P2"], inst["V1"], inst["V2"], inst["mu"]
    n = len(P1)
    al = [z3.Real(f"a{i}") for i in range(n)]
    be = [z3.Real(f"b{j}") for j in range(n)]
    y = [[z3.Real(f"y{i}_{j}") for j in range(n)] for i in range(n)]
    s = z3.Solver()
    s.set("timeout", timeout_ms)
    for i in range(n):
        for j in range(n):
            s.add(y[i][j] >= 0)
    for a in range(n):
        for b in range(n):
            terms = [y[a][j] for j in range(n) if P1[a][b] <= P1[a][j]] + [y[i][b] for i in range(n) if i != a and P2[b][a] < P2[b][i]]
            s.add(V1[a][b] + V2[b][a] <= al[a] + be[b] - z3.Sum(terms))
    W = sum(V1[a][mu[a]] + V2[mu[a]][a] for a in range(n))
    s.add(z3.Sum(al) + z3.Sum(be) - z3.Sum([y[i][j] for i in range(n) for j in range(n)]) == W)
    r = s.check()
    if r == z3.sat:
        m = s.model()
        return {"alpha": [q(m, v) for v in al], "beta": [q(m, v) for v in be], "y": [[q(m, v) for v in row] for row in y]}
    if r == z3.unsat:
        return {"none": True}
    return {"timeout": True}


def main():
    timeout_ms = int(sys.argv[1]) if len(sys.argv) > 1 else 20000
    for line in sys.stdin:
        line = line.strip()
        if not line:
            continue
        try:
            out = solve(json.loads(line), timeout_ms)
        except Exception as e:  # noqa
            out = {"error": repr(e)[:200]}
        sys.stdout.write(json.dumps(out) + "\n")
        sys.stdout.flush()


if __name__ == "__main__":
    main()
