"""C10 - scoring rules compute their textbook scores and pick the maximisers; ranking output is valid."""
import json
from fractions import Fraction
import numpy as np
from harness import votelib as V
from harness.common import pmap, lean_query, guard, fr, jmat, to_np, safe_judge, persist, persist_rule
from harness.c01 import chunks

LEVEL = "proof"
ENTRY = "socialchoicekit.deterministic_scoring"
TOL = Fraction(1, 10 ** 12)
NEAR = Fraction(1, 10 ** 9)


def rule_list(m):
    return [("plurality", 0), ("borda", 0), ("veto", 0), ("harmonic", 0)] + [("kapproval", k) for k in range(1, m + 2)]


@guard
def impl_batch(case):
    out = []
    for it in case["items"]:
        res = {}
        try:
            if "P" in it:
                P, m, zero = it["P"], it["m"], it["zero"]
                prof = V.profile_obj(P)
                for name, k in rule_list(m):
                    rule = V.make_rule(name, k, "accept", zero)
                    sc = rule.score(prof)
                    w = rule.scf(prof)
                    sw = rule.swf(prof)
                    res[f"{name}:{k}"] = {"score": [fr(V.fscore(x)) for x in sc], "winners": [int(x) for x in np.atleast_1d(w)],
                                          "swf": [[int(a), fr(V.fscore(s))] for a, s in zip(sw[0], sw[1])]}
            else:
                from socialchoicekit.deterministic_scoring import SocialWelfare
                from socialchoicekit.profile_utils import ValuationProfile
                vp = persist("vals", to_np(it["vals"]), ValuationProfile.of)
                rule = persist_rule(("sw", "accept", it["zero"]), lambda: SocialWelfare(tie_breaker="accept", zero_indexed=it["zero"]))
                sc = rule.score(vp)
                w = rule.scf(vp)
                res["util"] = {"score": [fr(Fraction(float(x))) for x in sc], "winners": [int(x) for x in np.atleast_1d(w)]}
        except Exception as e:  # noqa
            res = {"exc": type(e).__name__, "msg": str(e)[:200]}
        out.append(res)
    return {"results": out}


@safe_judge
def judge_rule(R, it, key, name, k, r, lean_ans, swf_ans):
    P, m, zero = it["P"], it["m"], it["zero"]
    fixer = 0 if zero else 1
    cfg = {"rule": name, "k": k, "zero_indexed": zero, "tie_breaker": "accept"}
    exact = V.exact_scores(name, k, P, m)
    sc = [Fraction(x) for x in r["score"]]
    integer = name != "harmonic"
    # direct oracle 1: textbook score
    bad = [j for j in range(m) if (sc[j] != exact[j] if integer else not V.rel_close(sc[j], exact[j], TOL))]
    if len(sc) != m or bad:
        R.violation("property_violation", f"{name} score = textbook score", f"{ENTRY}.{name}.score", {"P": P}, impl_output=r["score"],
                    oracle={"exact": [fr(x) for x in exact], "differs_at": bad}, config=cfg)
        return
    # direct oracle 1b: exact ties that no rounding can excuse -- alternatives with the same multiset of ranks
    if not integer:
        hist = [tuple(sorted(row[j] for row in P)) for j in range(m)]
        for a_ in range(m):
            for b_ in range(a_ + 1, m):
                if hist[a_] == hist[b_] and sc[a_] != sc[b_]:
                    emx_ = max(exact)
                    R.violation("property_violation",
                                "alternatives with the same multiset of ranks get the same score (so both are winners when maximal)",
                                f"{ENTRY}.{name}.score", {"P": P}, impl_output={"score": r["score"], "winners": r["winners"]},
                                oracle={"alternatives": [a_ + fixer, b_ + fixer], "exact_scores_equal": fr(exact[a_]),
                                        "both_maximal": exact[a_] == emx_}, config=cfg)
                    return
    # direct oracle 2: winners are exactly the maximisers of the returned scores, ascending
    mx = max(sc)
    want = [j + fixer for j in range(m) if sc[j] == mx]
    if r["winners"] != want:
        R.violation("property_violation", "winners = alternatives of maximal score, ascending", f"{ENTRY}.{name}.scf", {"P": P},
                    impl_output=r["winners"], oracle={"maximisers_of_returned_scores": want}, config=cfg)
        return
    emx = max(exact)
    near = [j + fixer for j in range(m) if emx - exact[j] <= NEAR * max(1, abs(emx))]
    if not set(r["winners"]) <= set(near):
        R.violation("property_violation", "winners are maximal for the exact scores (within 1e-9)", f"{ENTRY}.{name}.scf", {"P": P},
                    impl_output=r["winners"], oracle={"near_maximal": near}, config=cfg)
        return
    # direct oracle 3: ranking output
    sw = r["swf"]
    alts = sorted(a for a, _ in sw)
    ok = alts == [j + fixer for j in range(m)] and all(Fraction(s) == sc[a - fixer] for a, s in sw) and \
        all(Fraction(sw[t + 1][1]) <= Fraction(sw[t][1]) for t in range(len(sw) - 1))
    if not ok:
        R.violation("property_violation", "ranking lists every alternative once with its score, non-increasing", f"{ENTRY}.{name}.swf",
                    {"P": P}, impl_output=sw, oracle="invalid ranking", config=cfg)
        return
    # correspondence with the Lean model
    parsed = V.parse_score(lean_ans)
    if parsed is None:
        R.corr_break("model score defined", f"{ENTRY}.{name}", {"P": P}, r, lean_ans, cfg)
        return
    msc, mw = parsed
    if integer:
        if msc != sc or [w + fixer for w in mw] != r["winners"]:
            R.corr_break(f"{name}: scores and winners equal the model's", f"{ENTRY}.{name}", {"P": P}, r, lean_ans, cfg)
    else:
        sep = sorted(set(msc), reverse=True)
        separated = len(sep) == 1 or (sep[0] - sep[1]) > NEAR * max(1, abs(sep[0]))
        # exact ties between alternatives with DIFFERENT rank multisets (e.g. 1/2+1/3+1/6 = 3*(1/3)) may legitimately be
        # separated by float rounding; only ties forced by equal rank multisets must show up as ties (oracle 1b above)
        top_hists = set(tuple(sorted(row[j] for row in P)) for j in mw)
        if len(top_hists) > 1:
            separated = False
            R.ambiguous += 1
        if any(not V.rel_close(a, b, TOL) for a, b in zip(msc, sc)) or (separated and [w + fixer for w in mw] != r["winners"]):
            R.corr_break("harmonic: scores within 1e-12 of the exact model, winners equal when the top is separated", f"{ENTRY}.harmonic",
                         {"P": P}, r, lean_ans, cfg)
    if swf_ans != "ok":
        R.corr_break("validRanking accepts the implementation's ranking", f"{ENTRY}.{name}.swf", {"P": P}, sw, swf_ans, cfg)


def run_items(R, items, tag):
    items.sort(key=lambda it: (it.get("m", 0), len(it["P"]) if "P" in it else len(it.get("vals", []))))      # same-shaped elections adjacent
    cases = [{"items": ch} for ch in chunks(items, 50)]
    results = pmap("c10", "impl_batch", cases, deadline=120.0)
    flat = []
    for case, res in zip(cases, results):
        flat += res["results"] if "results" in res else [{"hang": True}] * len(case["items"])
    lines, where = [], []
    for i, (it, res) in enumerate(zip(items, flat)):
        if "exc" in res or "hang" in res:
            continue
        if "P" in it:
            fixer = 0 if it["zero"] else 1
            for name, k in rule_list(it["m"]):
                r = res[f"{name}:{k}"]
                lines.append(V.lean_score_line(name, k, it["P"], it["m"]))
                where.append((i, name, k, "score"))
                sc = r["score"]
                op = "swfq" if name == "harmonic" else "swfi"
                lines.append(" ".join([op, str(fixer), str(len(sc))] + sc + [str(len(r["swf"]))] + [f"{a} {s}" for a, s in r["swf"]]))
                where.append((i, name, k, "swf"))
        else:
            n, m = len(it["vals"]), it["m"]
            lines.append(" ".join(["util", str(n), str(m)] + [fr(v) for row in it["vals"] for v in row]))
            where.append((i, "util", 0, "score"))
    answers = lean_query(lines)
    amap = {w: a for w, a in zip(where, answers)}
    for i, (it, res) in enumerate(zip(items, flat)):
        if "exc" in res or "hang" in res:
            R.violation("property_violation", "total on a valid profile", ENTRY, it, impl_output=res, oracle="raised/hang")
            continue
        if "P" in it:
            P, m = it["P"], it["m"]
            tied = False
            for name, k in rule_list(m):
                r = res[f"{name}:{k}"]
                tied = tied or len(r["winners"]) > 1
                judge_rule(R, it, f"{name}:{k}", name, k, r, amap[(i, name, k, "score")], amap[(i, name, k, "swf")])
            R.case(nontrivial_key=json.dumps(P) if len(P) >= 2 and m >= 2 else None,
                   sample={"P": P, "zero_indexed": it["zero"], "impl": {k: res[k] for k in list(res)[:2]}} if tied else None)
            R.count(f"{tag}:n={min(len(P), 9)}{'+' if len(P) > 9 else ''},m={m}")
        else:
            judge_util(R, it, res["util"], amap[(i, "util", 0, "score")])
            R.case(nontrivial_key=json.dumps(it["vals"]))
            R.count("utilitarian")


@safe_judge
def judge_util(R, it, r, lean_ans):
    vals, m, zero = it["vals"], it["m"], it["zero"]
    fixer = 0 if zero else 1
    cfg = {"rule": "utilitarian", "zero_indexed": zero}
    cols = [sum(Fraction(row[j]) for row in vals if row[j] is not None) for j in range(m)]
    tot = sum(cols)
    exact = [c / tot for c in cols]
    sc = [Fraction(x) for x in r["score"]]
    if any(not V.rel_close(a, b, TOL) for a, b in zip(sc, exact)):
        R.violation("property_violation", "utilitarian score = share of total utility", ENTRY + ".SocialWelfare.score", {"vals": vals},
                    impl_output=r["score"], oracle=[fr(x) for x in exact], config=cfg)
        return
    mx = max(sc)
    if r["winners"] != [j + fixer for j in range(m) if sc[j] == mx]:
        R.violation("property_violation", "winners = maximisers", ENTRY + ".SocialWelfare.scf", {"vals": vals}, impl_output=r["winners"],
                    oracle="not the maximisers of the returned scores", config=cfg)
        return
    parsed = V.parse_score(lean_ans)
    if parsed is None or any(not V.rel_close(a, b, TOL) for a, b in zip(parsed[0], sc)):
        R.corr_break("utilitarian shares within 1e-12 of the exact model", ENTRY + ".SocialWelfare", {"vals": vals}, r, lean_ans, cfg)


def gen_vals(R, n, m):
    kind = R.rng.randrange(4)
    if kind == 3 and m >= 2:
        # near ties: two alternatives whose total utility differs by a relative 1e-6 .. 1e-8 (distinct, so exactly one wins)
        rows = [[R.rng.choice([0.5, 1.0, 2.0, 3.0]) for _ in range(m)] for _ in range(n)]
        a, b = R.rng.sample(range(m), 2)
        for row in rows:
            row[b] = row[a]
        rows[R.rng.randrange(n)][b] *= (1 + R.rng.choice([1e-6, 1e-7, 1e-8]))
        top = max(sum(r[j] for r in rows) for j in range(m))
        for row in rows:      # make the near-tied pair the leaders
            for j in range(m):
                if j not in (a, b):
                    row[j] = min(row[j], row[a] * 0.5)
        return rows
    rows = []
    for _ in range(n):
        if kind == 0:
            row = [R.rng.randint(0, 5) for _ in range(m)]
        elif kind == 1:
            row = [R.rng.random() for _ in range(m)]
        else:
            row = [R.rng.choice([0.0, 0.25, 0.5, 1.0]) for _ in range(m)]
        row = [None if R.rng.random() < 0.25 else v for v in row]
        rows.append(row)
    if all(v is None or v == 0 for row in rows for v in row):
        rows[0][0] = 1.0
    return rows


def run(R):
    R.rule = ("complete strict profiles: random (n<=60, m<=12), structured tie-heavy (cyclic, reversed pairs, two-ballot), m=2, k>=m; "
              "every rule (Plurality, Borda, Veto, Harmonic, k-approval for all k<=m+1), both index conventions; valuation profiles with "
              "NaN for the utilitarian rule; thorough adds ALL profiles with n,m<=4 up to voter order. Non-trivial = n>=2 and m>=2.")
    R.assumptions = ["float Harmonic/utilitarian scores are compared with the exact value at relative 1e-12"]
    import os
    from harness.common import VERIF
    cp = os.path.join(VERIF, "corpus", "C10.jsonl")
    if os.path.exists(cp):
        run_items(R, [{"P": c["P"], "m": c["m"], "zero": c["zero"]} for c in map(json.loads, filter(str.strip, open(cp)))], "corpus")
    items = []
    cnt = 4000 if R.thorough else 500
    for t in range(cnt):
        m = R.rng.choice([1, 2, 2, 3, 3, 4, 5, 6, 8, 12])
        n = R.rng.choice([1, 2, 3, 4, 5, 7, 10, 20, 60])
        P = V.structured_profile(R.rng, n, m) if R.rng.random() < 0.4 else V.rand_profile(R.rng, n, m)
        items.append({"P": P, "m": m, "zero": R.rng.random() < 0.5})
    for t in range(cnt // 3):
        m = R.rng.randint(1, 6)
        n = R.rng.randint(1, 8)
        items.append({"vals": gen_vals(R, n, m), "m": m, "zero": R.rng.random() < 0.5})
    run_items(R, items, "random")
    if R.thorough:
        R.exhaustive = True
        ex = []
        for n in (1, 2, 3, 4):
            for m in (1, 2, 3, 4):
                for P in V.all_profiles(n, m):
                    ex.append({"P": P, "m": m, "zero": (len(ex) % 2 == 0)})
        for ch in chunks(ex, 5000):
            run_items(R, ch, "exhaustive")


def replay(R, rep):
    inp = rep["input"]
    cfg = rep.get("config", {})
    if "P" in inp:
        run_items(R, [{"P": inp["P"], "m": len(inp["P"][0]), "zero": cfg.get("zero_indexed", False)}], "replay")
    else:
        run_items(R, [{"vals": inp["vals"], "m": len(inp["vals"][0]), "zero": cfg.get("zero_indexed", False)}], "replay")
