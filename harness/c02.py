"""C02 - Gale-Shapley is optimal (resident-oriented) / pessimal (hospital-oriented) for residents among all
stable matchings, hence a function of the instance alone (relabelling equivariance)."""
import json
from harness import gslib, c01
from harness.common import pmap, lean_query, guard, safe_judge, pmap_singles

LEVEL = "proof"
ENTRY = "socialchoicekit.deterministic_matching.GaleShapley.scf"


def relabel(inst, sig, tau):
    """new resident sig[r] = old resident r; new hospital tau[h] = old hospital h"""
    n, m = inst["n"], inst["m"]
    R = [[None] * m for _ in range(n)]
    H = [[None] * n for _ in range(m)]
    c = [0] * m
    for r in range(n):
        for h in range(m):
            R[sig[r]][tau[h]] = inst["R"][r][h]
            H[tau[h]][sig[r]] = inst["H"][h][r]
    for h in range(m):
        c[tau[h]] = inst["c"][h]
    return {"n": n, "m": m, "R": R, "H": H, "c": c}


@guard
def impl_batch(case):
    out = []
    ctx = gslib.new_ctx(len(case["items"]))
    for item in case["items"]:
        try:
            inst = item["inst"]
            a = gslib.call_gs(inst, case["oriented"], True, ctx=ctx)
            r = {"pairs": a}
            if "sig" in item:
                b = gslib.call_gs(relabel(inst, item["sig"], item["tau"]), case["oriented"], True, ctx=ctx)
                r["relabelled_pairs"] = b
            out.append(r)
        except Exception as e:  # noqa
            out.append({"exc": type(e).__name__, "msg": str(e)[:200]})
    return {"results": out}


def rank_of(inst, match, r):
    mr = dict(match)
    if r not in mr:
        return 10 ** 9
    v = inst["R"][r][mr[r]]
    return 10 ** 9 if v is None else v


@safe_judge
def judge(R, item, oriented, res, lean_ans):
    inst = item["inst"]
    cfg = {"resident_oriented": oriented, "zero_indexed": True}
    if "exc" in res or "hang" in res:
        R.violation("property_violation", "total", ENTRY, inst, impl_output=res, config=cfg, oracle="raised/hang")
        return
    match = [tuple(p) for p in res["pairs"]]
    model = gslib.parse_pairs(lean_ans) if lean_ans is not None else None
    if lean_ans is None:
        R.count("judged_by_the_direct_oracle_only(instance_too_large_for_the_compiled_model)")
    elif model is None or sorted(res["pairs"]) != model:
        R.corr_break("gs pair set = model pair set (galeShapley)", ENTRY, inst, res["pairs"], lean_ans, cfg)
    nontriv = None
    if item.get("unique") is not None:
        # an instance with exactly one stable matching (one seat, acceptability leaves a single pair): best and worst coincide
        R.count("long_run_unique_stable_matching")
        if sorted(res["pairs"]) != sorted(item["unique"]):
            R.violation("property_violation", "the only stable matching of the instance", ENTRY, {"long_run_n": max(inst["n"], inst["m"])},
                        impl_output=res["pairs"][:10], oracle={"the_unique_stable_matching": item["unique"]}, config=cfg)
            return
    if item.get("brute"):
        stables = gslib.all_stable(inst)
        R.count(f"stable_matchings={min(len(stables), 5)}{'+' if len(stables) > 5 else ''}")
        if len(stables) >= 2:
            nontriv = (json.dumps(inst), oriented)
        if sorted(match) not in [sorted(s) for s in stables]:
            R.violation("property_violation", "output is a stable matching", ENTRY, inst, impl_output=res["pairs"],
                        model_output=lean_ans, oracle="output not among the brute-force stable matchings", config=cfg)
            return
        for r in range(inst["n"]):
            ranks = [rank_of(inst, s, r) for s in stables]
            mine = rank_of(inst, match, r)
            want = min(ranks) if oriented else max(ranks)
            if mine != want:
                def fails(I2):
                    out2 = [tuple(p) for p in gslib.call_gs(I2, oriented, True)]
                    st2 = gslib.all_stable(I2)
                    for rr in range(I2["n"]):
                        rk = [rank_of(I2, s, rr) for s in st2]
                        if rank_of(I2, out2, rr) != (min(rk) if oriented else max(rk)):
                            return True
                    return False
                small = gslib.shrink(inst, fails)
                R.violation("property_violation",
                            "resident-optimal among all stable matchings" if oriented else "resident-pessimal among all stable matchings",
                            ENTRY, small, impl_output=gslib.call_gs(small, oriented, True), model_output=lean_ans,
                            oracle={"resident": r, "rank_in_output": mine, "best_or_worst_over_stable": want},
                            config=cfg, minimised_from=inst)
                return
    if "sig" in item:
        sig, tau = item["sig"], item["tau"]
        want = sorted([sig[a], tau[b]] for a, b in res["pairs"])
        got = sorted(res["relabelled_pairs"])
        nontriv = nontriv or ((json.dumps(inst), oriented, "relabel") if gslib.has_rejection(inst, match) else None)
        if want != got:
            R.violation("property_violation", "relabelling residents/hospitals relabels the returned pairs", ENTRY,
                        {"inst": inst, "sig": sig, "tau": tau}, impl_output={"original": res["pairs"], "relabelled": res["relabelled_pairs"]},
                        oracle="pair sets do not correspond", config=cfg)
            return
    R.case(nontrivial_key=nontriv, sample={"instance": inst, "config": cfg, "impl_pairs": res["pairs"], "model": lean_ans,
                                            "relabel": [item.get("sig"), item.get("tau")]} if nontriv else None)


def run_items(R, items, oriented, deadline=120.0):
    cases = [{"items": ch, "oriented": oriented} for ch in c01.chunks(items, 100)]
    results = pmap("c02", "impl_batch", cases, deadline=deadline)
    answers = lean_query([gslib.lean_line(it["inst"], oriented, 0) if it["inst"]["n"] * it["inst"]["m"] <= gslib.MODEL_MAX_CELLS else "gs 1 0 1 1 1 1 1" for it in items])
    answers = [a if it["inst"]["n"] * it["inst"]["m"] <= gslib.MODEL_MAX_CELLS else None for a, it in zip(answers, items)]
    k = 0
    for case, res in zip(cases, results):
        if "results" not in res:
            singles = pmap_singles("c02", "impl_batch", [{"items": [it], "oriented": oriented} for it in case["items"]], deadline=10.0, R=R)
            rs = [s["results"][0] if "results" in s else ({"skipped": True} if "skipped" in s else {"hang": True}) for s in singles]
        else:
            rs = res["results"]
        for it, r in zip(case["items"], rs):
            judge(R, it, oriented, r, answers[k])
            k += 1


def run(R):
    R.rule = ("(a) small instances (n<=4, m<=3, capacities<=2; thorough n<=5) with ALL stable matchings enumerated by brute force: the "
              "output must be the resident-best (resident-oriented) / resident-worst (hospital-oriented) stable matching; "
              "(b) larger instances (n,m<=7 / <=12) run twice, once relabelled by random permutations of residents and hospitals: "
              "pair sets must correspond; (c) every output equals the Lean model's. Non-trivial = at least two stable matchings "
              "(a) or some rejection happened (b).")
    R.assumptions = ["numpy argsort on a strict row = positions sorted by rank", "brute-force enumeration is the reference for 'all stable matchings'"]
    nbrute = 6000 if R.thorough else 250
    nrel = 12000 if R.thorough else 400
    for oriented in (True, False):
        items = []
        for t in range(nbrute):
            n = R.rng.randint(1, 5 if R.thorough else 4)
            m = R.rng.randint(1, 3)
            I = gslib.rand_instance(R.rng, n, m, R.rng.choice([0, 0, .3]), R.rng.choice([0, 0, .3]), cmax=2)
            if m >= 2 and R.rng.random() < 0.08:
                # a hospital without seats: outside C01's "positive capacities" (and the theorems' WF), but the set of stable
                # matchings is still well defined and the pinned code and the model agree on it, so it is compared as well
                I["c"][R.rng.randrange(m)] = 0
                R.count("brute:some_capacity_0")
            if gslib.constructible(I):
                items.append({"inst": I, "brute": True})
        # marriage instances have the richest lattices
        for t in range(nbrute // 3):
            n = R.rng.randint(2, 4)
            I = gslib.rand_instance(R.rng, n, n, 0, 0, cmax=1)
            items.append({"inst": I, "brute": True})
        nmax = 12 if R.thorough else 7
        for t in range(nrel):
            n = R.rng.randint(1, nmax)
            m = R.rng.randint(1, nmax)
            I = gslib.rand_instance(R.rng, n, m, R.rng.choice([0, .3, .6]), R.rng.choice([0, .3, .6]))
            if R.rng.random() < 0.08:
                I["c"][R.rng.randrange(m)] = 2 ** 63 - 1      # "unlimited" capacity: the largest 64-bit integer (sys.maxsize)
                R.count("relabel:some_capacity_maxsize")
            if not gslib.constructible(I):
                continue
            sig = list(range(n)); R.rng.shuffle(sig)
            tau = list(range(m)); R.rng.shuffle(tau)
            items.append({"inst": I, "sig": sig, "tau": tau})
        lr, uniq = gslib.long_run(R.rng.randint(10500, 12500), oriented)
        items.append({"inst": lr, "unique": uniq})       # more than ten thousand rounds of deferred acceptance
        run_items(R, items, oriented)


def replay(R, rep):
    inp = rep["input"]
    oriented = rep.get("config", {}).get("resident_oriented", True)
    if "long_run_n" in inp:
        lr, uniq = gslib.long_run(inp["long_run_n"], oriented)
        item = {"inst": lr, "unique": uniq}
    elif "inst" in inp:
        item = {"inst": inp["inst"], "sig": inp["sig"], "tau": inp["tau"]}
    else:
        item = {"inst": inp, "brute": inp["n"] <= 5 and inp["m"] <= 3}
    run_items(R, [item], oriented)
