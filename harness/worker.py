"""Implementation-side worker: `python -m harness.worker <module> <func>`.
Reads one JSON case per line, runs harness.<module>.<func>(case) against /repo's working tree and
answers one JSON line. Runs in its own process so that a non-terminating call can be killed by the
supervising check (a hang inside a C extension cannot be interrupted by a signal handler)."""
import sys, json, importlib, traceback, os, warnings


def die_with_parent():
    """a worker stuck inside a non-terminating implementation call must not outlive the check that started it (e.g. when the check
    itself is killed by a timeout): ask the kernel to SIGKILL this process when its parent goes away"""
    try:
        import ctypes, signal
        ctypes.CDLL("libc.so.6", use_errno=True).prctl(1, signal.SIGKILL)      # PR_SET_PDEATHSIG
        if os.getppid() == 1:
            os._exit(0)
    except Exception:  # noqa
        pass


def main():
    die_with_parent()
    warnings.filterwarnings("ignore")
    from harness import cov
    cov.start()
    from harness.common import install_flag_variation
    install_flag_variation()
    mod = importlib.import_module("harness." + sys.argv[1])
    fn = getattr(mod, sys.argv[2])
    from harness.common import _json_default
    out = sys.stdout
    # keep stray prints of the implementation away from the protocol stream
    proto = os.fdopen(os.dup(1), "w")
    os.dup2(2, 1)
    devnull = open(os.devnull, "w")
    sys.stdout = devnull
    for line in sys.stdin:
        line = line.strip()
        if not line:
            continue
        case = json.loads(line)
        try:
            res = fn(case)
        except BaseException as e:  # harness-level failure inside the worker
            res = {"worker_error": type(e).__name__ + ": " + str(e), "tb": traceback.format_exc()[-1500:]}
        proto.write(json.dumps(res, default=_json_default) + "\n")
        proto.flush()


if __name__ == "__main__":
    main()
