"""Stable-marriage instances with valuations: generators (random, Latin-square blocks, compositions), stability and
brute-force oracles, z3 dual certificates (via python3-vt), Lean op lines (C03, C17)."""
import itertools, json, os, shutil, subprocess, threading
from harness.common import VERIF, Infra


def rand_ranks(rng, n):
    P = []
    for _ in range(n):
        p = list(range(1, n + 1))
        rng.shuffle(p)
        P.append(p)
    return P


def opposed_ranks(rng, n, noise):
    """opposed interests: woman j likes man i the more, the lower she stands in HIS list (plus noise). Such instances have many
    stable matchings and many rotations (about n of them for n = 8), and rotations that move a man past several women at once"""
    P1 = rand_ranks(rng, n)
    P2 = []
    for j in range(n):
        order = [i for _, i in sorted((-(P1[i][j]) + rng.random() * noise, i) for i in range(n))]
        r = [0] * n
        for k, i in enumerate(order):
            r[i] = k + 1
        P2.append(r)
    return P1, P2


def vals_agreeing(rng, P, lo=0, hi=9, ties=True):
    """integer valuations weakly (ties) or strictly decreasing along each ranking"""
    n = len(P)
    V = []
    for row in P:
        if ties:
            xs = sorted((rng.randint(lo, hi) for _ in range(n)), reverse=True)
        else:
            xs = sorted(rng.sample(range(lo, lo + 3 * n + 5), n), reverse=True)
        V.append([xs[row[j] - 1] for j in range(n)])
    return V


def vals_free(rng, n, lo=-9, hi=9):
    return [[rng.randint(lo, hi) for _ in range(n)] for _ in range(n)]


def induced_ranks(V):
    """ranks induced by distinct valuations (higher value = better)"""
    P = []
    for row in V:
        order = sorted(range(len(row)), key=lambda j: -row[j])
        r = [0] * len(row)
        for k, j in enumerate(order):
            r[j] = k + 1
        P.append(r)
    return P


def latin_blocks(rng, sizes):
    """block composition: inside a block of size s the s cyclic shifts are exactly the stable matchings; partners outside
    the block are ranked after all in-block ones, so the stable matchings are products (s1*s2*... of them)"""
    n = sum(sizes)
    offs = [0]
    for s in sizes:
        offs.append(offs[-1] + s)
    P1 = [[0] * n for _ in range(n)]
    P2 = [[0] * n for _ in range(n)]
    for b, s in enumerate(sizes):
        o = offs[b]
        others = [j for j in range(n) if not (o <= j < o + s)]
        for i in range(s):
            oth = others[:]
            rng.shuffle(oth)
            for r, j in enumerate([o + (i + k) % s for k in range(s)] + oth):
                P1[o + i][j] = r + 1
            oth = others[:]
            rng.shuffle(oth)
            for r, j in enumerate([o + (i + 1 + k) % s for k in range(s)] + oth):
                P2[o + i][j] = r + 1
    return P1, P2, offs


def random_blocks(rng, sizes):
    """composition of arbitrary random marriage instances (cross-block partners ranked last)"""
    n = sum(sizes)
    offs = [0]
    for s in sizes:
        offs.append(offs[-1] + s)
    P1 = [[0] * n for _ in range(n)]
    P2 = [[0] * n for _ in range(n)]
    for b, s in enumerate(sizes):
        o = offs[b]
        others = [j for j in range(n) if not (o <= j < o + s)]
        for side in (P1, P2):
            for i in range(s):
                inb = list(range(o, o + s))
                rng.shuffle(inb)
                oth = others[:]
                rng.shuffle(oth)
                for r, j in enumerate(inb + oth):
                    side[o + i][j] = r + 1
    return P1, P2, offs


def is_stable(P1, P2, mu):
    n = len(P1)
    inv = [0] * n
    for a, b in enumerate(mu):
        inv[b] = a
    for a in range(n):
        for b in range(n):
            if P1[a][b] < P1[a][mu[a]] and P2[b][a] < P2[b][inv[b]]:
                return False
    return True


def weight(V1, V2, mu):
    return sum(V1[a][mu[a]] + V2[mu[a]][a] for a in range(len(mu)))


def all_stable(P1, P2):
    n = len(P1)
    return [list(p) for p in itertools.permutations(range(n)) if is_stable(P1, P2, list(p))]


def best_stable_by_blocks(P1, P2, V1, V2, offs):
    """optimum of a block composition = product of per-block optima (brute force inside each block)"""
    mu = [None] * len(P1)
    for b in range(len(offs) - 1):
        o, e = offs[b], offs[b + 1]
        s = e - o
        sub1 = [[sorted(P1[o + i][o:e]).index(P1[o + i][o + j]) + 1 for j in range(s)] for i in range(s)]
        sub2 = [[sorted(P2[o + i][o:e]).index(P2[o + i][o + j]) + 1 for j in range(s)] for i in range(s)]
        best = None
        for p in itertools.permutations(range(s)):
            if is_stable(sub1, sub2, list(p)):
                w = sum(V1[o + a][o + p[a]] + V2[o + p[a]][o + a] for a in range(s))
                if best is None or w > best[0]:
                    best = (w, list(p))
        for a in range(s):
            mu[o + a] = o + best[1][a]
    return mu


def call_irving(P1, P2, V1, V2, zero=True, with_profiles=True, rank_dtype=None):
    import numpy as np
    rank_dtype = rank_dtype or np.int64
    from socialchoicekit.deterministic_matching import Irving
    from socialchoicekit.profile_utils import StrictCompleteProfile, IntegerValuationProfile
    from harness.common import persist, persist_rule
    v1 = persist("smV1", np.array(V1, dtype=np.int64), IntegerValuationProfile.of)
    v2 = persist("smV2", np.array(V2, dtype=np.int64), IntegerValuationProfile.of)
    rule = persist_rule(("irving", zero), lambda: Irving(zero_indexed=zero))
    if with_profiles:
        p1o = persist("smP1", np.array(P1, dtype=rank_dtype), StrictCompleteProfile.of)
        p2o = persist("smP2", np.array(P2, dtype=rank_dtype), StrictCompleteProfile.of)
        import hashlib
        h = int(hashlib.sha256(repr((P1, P2)).encode()).hexdigest()[:2], 16) % 5
        if h == 0:
            # profiles obtained by INDEXING a profile (all rows, in order): still profiles of the same class
            p1o, p2o = p1o[np.arange(len(P1))], p2o[list(range(len(P2)))]
        elif h == 1:
            p1o, p2o = p1o[:, :], p2o[::1]
        out = rule.scf(v1, v2, p1o, p2o)
    else:
        out = rule.scf(v1, v2)
    return [[int(a), int(b)] for a, b in out]


def count_rotations(P1, P2):
    import numpy as np
    from socialchoicekit.deterministic_matching import Irving, GaleShapley
    from socialchoicekit.profile_utils import StrictCompleteProfile
    n = len(P1)
    a1 = np.array(P1, dtype=np.int64); a2 = np.array(P2, dtype=np.int64)
    sm = GaleShapley(True, True).scf(StrictCompleteProfile.of(a1), StrictCompleteProfile.of(a2), np.ones(n, dtype=int))
    irv = Irving(zero_indexed=True)
    l1, l2 = irv.find_initial_preference_lists(sm, a1 - 1, a2 - 1)
    rots, _ = irv.find_all_rotations_and_eliminations({i: np.array(l1[i]) for i in range(n)}, {i: np.array(l2[i]) for i in range(n)})
    return len(rots)


# ---- z3 certificates (python3-vt) ----------------------------------------------------------------------
def z3_python():
    for c in ("python3-vt", "/opt/veriftools/pyvenv/bin/python"):
        p = shutil.which(c) if not c.startswith("/") else (c if os.path.exists(c) else None)
        if p:
            return p
    return None


def z3_certificates(instances, timeout_ms=20000, procs=8):
    """instances: list of {"P1","P2","V1","V2","mu"} -> list of certificate dicts (same order)"""
    py = z3_python()
    if py is None:
        raise Infra("python3-vt (z3) not found")
    n = len(instances)
    out = [None] * n
    if n == 0:
        return out
    procs = max(1, min(procs, n))
    buckets = [list(range(k, n, procs)) for k in range(procs)]

    def work(idx):
        data = "".join(json.dumps(instances[i]) + "\n" for i in idx)
        p = subprocess.run([py, os.path.join(VERIF, "harness", "z3dual.py"), str(timeout_ms)], input=data, capture_output=True, text=True)
        lines = [l for l in p.stdout.split("\n") if l.strip()]
        for i, l in zip(idx, lines):
            out[i] = json.loads(l)
    ths = [threading.Thread(target=work, args=(b,)) for b in buckets if b]
    for t in ths:
        t.start()
    for t in ths:
        t.join()
    return [o if o is not None else {"error": "no answer"} for o in out]


def smcert_line(P1, P2, V1, V2, mu, cert):
    n = len(P1)
    toks = ["smcert", str(n)]
    for M in (P1, P2, V1, V2):
        toks += [str(v) for row in M for v in row]
    toks += [str(x) for x in mu] + cert["alpha"] + cert["beta"] + [v for row in cert["y"] for v in row]
    return " ".join(toks)


def stable_line(P1, P2, mu):
    n = len(P1)
    return " ".join(["stable", str(n)] + [str(v) for M in (P1, P2) for row in M for v in row] + [str(x) for x in mu])


# ---- stage-by-stage observation of Irving.scf (compared with the Lean mirror `IrvingAlgo`) ---------------------------
def irving_stages(P1, P2, V1, V2):
    """canonical answer lines of the driver ops irv_mo / irv_shortlists / irv_rotations / irv_poset / irv_closed, computed by
    calling the real code's public stage functions in the order `Irving.scf` calls them (zero-indexed)"""
    import numpy as np
    from socialchoicekit.deterministic_matching import Irving, GaleShapley
    from socialchoicekit.profile_utils import StrictCompleteProfile, IntegerValuationProfile
    n = len(P1)
    irv = Irving(zero_indexed=True)
    op1 = np.array(P1, dtype=np.int64)
    op2 = np.array(P2, dtype=np.int64)
    v1 = IntegerValuationProfile.of(np.array(V1, dtype=np.int64))
    v2 = IntegerValuationProfile.of(np.array(V2, dtype=np.int64))
    sm = GaleShapley(resident_oriented=True, zero_indexed=True).scf(StrictCompleteProfile.of(op1), StrictCompleteProfile.of(op2), np.ones(n, dtype=int))
    out = {}
    out["irv_mo"] = "ok %d %s" % (len(sm), " ".join("%d %d" % (i, j) for i, j in sm))
    pl1, pl2 = Irving.find_initial_preference_lists(sm, op1 - 1, op2 - 1)
    out["irv_shortlists"] = "ok " + " ".join(
        [" ".join([str(len(pl1[i]))] + [str(int(x)) for x in pl1[i]]) for i in range(n)] +
        [" ".join([str(len(pl2[i]))] + [str(int(x)) for x in pl2[i]]) for i in range(n)])
    c1 = {i: np.array(pl1[i]) for i in range(n)}
    c2 = {i: np.array(pl2[i]) for i in range(n)}
    rots, elim = irv.find_all_rotations_and_eliminations(c1, c2)
    el = sorted(((int(m), int(w)), int(r)) for (m, w), r in elim.items())
    out["irv_rotations"] = " ".join(["ok", str(len(rots))] +
                                    [" ".join([str(len(r))] + ["%d %d" % (int(m), int(w)) for m, w in r]) for r in rots] +
                                    [str(len(el))] + ["%d %d %d" % (m, w, r) for (m, w), r in el])
    Pp = irv.construct_sparse_rotation_poset_graph(rots, pl1, elim)
    edges = sorted((int(a), int(b)) for a in Pp for b in Pp[a])
    out["irv_poset"] = " ".join(["ok", str(len(rots)), str(len(edges))] + ["%d %d" % e for e in edges])
    ws = [int(Irving.rotation_weight(r, v1, v2)) for r in rots]
    C = irv.find_maximum_weight_closed_subset(Pp, rots, v1, v2)
    Cs = sorted(int(x) for x in C)
    out["irv_closed"] = " ".join(["ok", str(len(rots))] + [str(w) for w in ws] + [str(len(Cs))] + [str(x) for x in Cs])
    return out, len(rots)


def irv_lines(P1, P2, V1, V2, ops):
    n = len(P1)
    r = "%d %s %s" % (n, " ".join(str(x) for row in P1 for x in row), " ".join(str(x) for row in P2 for x in row))
    v = "%s %s" % (" ".join(str(x) for row in V1 for x in row), " ".join(str(x) for row in V2 for x in row))
    return [("%s %s" % (op, r)) if op in ("irv_mo", "irv_shortlists", "irv_rotations", "irv_poset") else ("%s %s %s" % (op, r, v)) for op in ops]
