"""C16 - elicitation rules meet their distortion guarantee (end-to-end on the real code with exact rational welfare)."""
import itertools, json
from fractions import Fraction
import numpy as np
from harness import votelib as V, eliclib as E, assignlib as A
from harness.common import pmap, lean_query, guard, fr, to_np, safe_judge, persist, persist_rule
from harness.c01 import chunks

LEVEL = "proof"
ENTRY = "socialchoicekit.elicitation_voting.KARV / elicitation_allocation.LambdaTSF / distortion.distortion"
SLACK = Fraction(1, 10 ** 9)


@guard
def impl_batch(case):
    from socialchoicekit.distortion import distortion
    from socialchoicekit.elicitation_voting import KARV
    from socialchoicekit.elicitation_allocation import LambdaTSF
    from socialchoicekit.elicitation_utils import ValuationProfileElicitor
    from socialchoicekit.profile_utils import ValuationProfile
    out = []
    for it in case["items"]:
        try:
            P, vals, k = it["P"], it["vals"], it["k"]
            prof = E.profile_of(P)
            vp = persist("vals", to_np(vals), ValuationProfile.of)
            res = {"karv": {}}
            for tb in ("accept", "first", "random"):
                np.random.seed(it["seed"])
                w = persist_rule(("karv", k, tb, False), lambda: KARV(k=k, tie_breaker=tb, zero_indexed=False)).scf(prof, ValuationProfileElicitor(vp))
                res["karv"][tb] = [int(x) for x in np.atleast_1d(w)]
            wa = np.array(res["karv"]["accept"])
            res["dist_many"] = float(distortion(wa, vp))
            res["dist_one"] = float(distortion(int(wa[0]), vp))
            arr = to_np(vals)
            if np.all(arr == np.round(arr)) and arr.max() <= 120 and arr.min() >= 0:
                # integer valuations in a compact storage type (sums over the agents exceed what the storage type itself can hold)
                from socialchoicekit.profile_utils import IntegerValuationProfile
                res["dist_int"] = {}
                for dt in ("int8", "uint8", "int16", "int32", "int64"):
                    res["dist_int"][dt] = float(distortion(wa, IntegerValuationProfile.of(arr.astype(dt))))
            if it.get("tsf"):
                a = persist_rule(("tsf", k, True), lambda: LambdaTSF(lambda_=k, zero_indexed=True)).scf(prof, ValuationProfileElicitor(vp))
                res["tsf"] = [int(x) for x in a]
                # the simulated matrix the allocation was computed from (hypothesis of C16_tsf: A maximises the SIMULATED weight)
                sim = persist_rule(("tsf", k, True), lambda: LambdaTSF(lambda_=k, zero_indexed=True)).get_simulated_cardinal_profile(prof, ValuationProfileElicitor(vp))
                res["tsf_sim"] = [[fr(Fraction(float(x))) for x in row] for row in np.asarray(sim)]
            if it.get("nanvals"):
                vpn = ValuationProfile.of(to_np(it["nanvals"]))
                res["dist_nan"] = float(distortion(int(it["nan_choice"]), vpn))
            out.append(res)
        except Exception as e:  # noqa
            out.append({"exc": type(e).__name__, "msg": str(e)[:200]})
    return {"results": out}


@safe_judge
def judge(R, it, res, lean):
    P, vals, k = it["P"], it["vals"], it["k"]
    n, m = len(P), len(P[0])
    inp = {"P": P, "vals": vals, "k_or_lambda": k, "seed": it["seed"]}
    if "exc" in res or "hang" in res:
        R.violation("property_violation", "total", ENTRY, inp, impl_output=res, oracle="raised/hang")
        return
    F = [[Fraction(x) for x in row] for row in vals]
    sw = [sum(F[i][j] for i in range(n)) for j in range(m)]
    opt = max(sw)
    rho = Fraction(float(m ** (1 / (k + 1))))
    for tb, ws in res["karv"].items():
        worst = min(sw[w - 1] for w in ws)
        if 2 * rho * worst < opt * (1 - SLACK):
            R.violation("property_violation", "k-ARV winner's welfare >= optimal welfare / (2 m^(1/(k+1)))", ENTRY + " KARV.scf", inp, impl_output=ws,
                        oracle={"welfare_of_worst_winner": fr(worst), "optimal_welfare": fr(opt), "bound_2*m^(1/(k+1))": float(2 * rho)},
                        config={"tie_breaker": tb})
            return
    ratio = (opt / min(sw[w - 1] for w in res["karv"]["accept"])) if min(sw[w - 1] for w in res["karv"]["accept"]) > 0 else None
    if ratio is not None:
        R.extra["worst_karv_ratio_over_bound"] = max(R.extra.get("worst_karv_ratio_over_bound", 0.0), float(ratio / (2 * rho)))
    # distortion helper
    tot = sum(sw)
    share = [s / tot for s in sw]
    wa = res["karv"]["accept"]
    want_many = max(share) / min(share[w - 1] for w in wa)
    want_one = max(share) / share[wa[0] - 1]
    for got, want, what in ((res["dist_many"], want_many, "several choices (worst chosen)"), (res["dist_one"], want_one, "single choice")):
        if abs(Fraction(got) - want) > Fraction(1, 10 ** 9) * max(1, want) or got < 1 - 1e-12:
            R.violation("property_violation", "distortion helper = max welfare / welfare of the (worst) chosen alternative, never below 1",
                        ENTRY + " distortion", inp, impl_output=got, oracle={"expected": float(want), "case": what})
            return
    for dt, got in (res.get("dist_int") or {}).items():
        R.count("distortion_integer_storage")
        if abs(Fraction(got) - want_many) > Fraction(1, 10 ** 9) * max(1, want_many):
            R.violation("property_violation", "distortion helper = max welfare / welfare of the (worst) chosen alternative, whatever the integer storage type",
                        ENTRY + " distortion", dict(inp, storage=dt), impl_output=got, oracle={"expected": float(want_many)})
            return
    t = lean["dist"].split()
    if t[0] != "ok" or abs(Fraction(t[1]) - Fraction(res["dist_many"])) > Fraction(1, 10 ** 9) * max(1, Fraction(t[1])):
        R.corr_break("distortion helper = model distortionOf", ENTRY + " distortion", inp, res["dist_many"], lean["dist"])
    if "dist_nan" in res:
        Fn = [[Fraction(0) if x is None else Fraction(x) for x in row] for row in it["nanvals"]]
        swn = [sum(Fn[i][j] for i in range(n)) for j in range(m)]
        wantn = max(swn) / swn[it["nan_choice"] - 1]
        if abs(Fraction(res["dist_nan"]) - wantn) > Fraction(1, 10 ** 9) * max(1, wantn):
            R.violation("property_violation", "distortion helper treats unknown (NaN) utilities as 0", ENTRY + " distortion", dict(inp, nanvals=it["nanvals"]),
                        impl_output=res["dist_nan"], oracle={"expected": float(wantn)})
            return
    if "tsf" in res:
        a = res["tsf"]
        if sorted(a) != list(range(n)):
            R.violation("property_violation", "lambda-TSF returns an allocation", ENTRY + " LambdaTSF.scf", inp, impl_output=a, oracle="not a permutation")
            return
        swA = sum(F[i][a[i]] for i in range(n))
        best = A.hungarian_max([[F[i][j] for j in range(n)] for i in range(n)], n)
        swO = best[3]
        rho_n = Fraction(float(n ** (1 / (k + 1))))
        if 2 * rho_n * (swA + n * Fraction(E.EPS)) < swO * (1 - SLACK):
            R.violation("property_violation", "lambda-TSF welfare + n*1e-5 >= optimal welfare / (2 n^(1/(lambda+1)))", ENTRY + " LambdaTSF.scf", inp,
                        impl_output=a, oracle={"welfare": fr(swA), "optimal": fr(swO), "optimal_allocation": best[0], "bound": float(2 * rho_n)})
            return
        if swA + n * Fraction(E.EPS) > 0:
            R.extra["worst_tsf_ratio_over_bound"] = max(R.extra.get("worst_tsf_ratio_over_bound", 0.0),
                                                        float(swO / (swA + n * Fraction(E.EPS)) / (2 * rho_n)))
    R.case(nontrivial_key=json.dumps([P, vals, k]) if m >= 3 and n >= 2 else None,
           sample={"P": P, "vals": vals, "k": k, "karv_winners": res["karv"], "distortion": res["dist_many"], "tsf": res.get("tsf")} if m >= 3 and n >= 2 else None)
    R.count(it["kind"])


def run_items(R, items):
    cases = [{"items": ch} for ch in chunks(items, 20)]
    results = pmap("c16", "impl_batch", cases, deadline=180.0)
    flat = []
    for case, res in zip(cases, results):
        flat += res["results"] if "results" in res else [{"hang": True}] * len(case["items"])
    lines, idx = [], []
    for i, (it, res) in enumerate(zip(items, flat)):
        if "karv" not in res:
            continue
        n, m = len(it["P"]), len(it["P"][0])
        F = [[Fraction(x) for x in row] for row in it["vals"]]
        sw = [sum(F[a][j] for a in range(n)) for j in range(m)]
        tot = sum(sw)
        wa = res["karv"]["accept"]
        lines.append(" ".join(["distortion", str(m)] + [fr(s / tot) for s in sw] + [str(len(wa))] + [str(w - 1) for w in wa]))
        idx.append(i)
    # hypothesis of C16_tsf on the real code: the returned allocation maximises the simulated weight (model's brute force optAssign, n <= 7)
    hl, hidx = [], []
    for i, (it, res) in enumerate(zip(items, flat)):
        if isinstance(res, dict) and "tsf" in res and "tsf_sim" in res and len(it["P"]) <= 7 and sorted(res["tsf"]) == list(range(len(it["P"]))):
            n = len(it["P"])
            wt = [x for row in res["tsf_sim"] for x in row]
            hl.append(" ".join(["assignopt", str(n)] + wt))
            hl.append(" ".join(["assignval", str(n)] + wt + [str(c) for c in res["tsf"]]))
            hidx.append(i)
    allans = lean_query(lines + hl)
    ans = dict(zip(idx, allans[:len(lines)]))
    hans = allans[len(lines):]
    for k2, i in enumerate(hidx):
        opt, val = hans[2 * k2], hans[2 * k2 + 1]
        R.count("tsf_allocation_vs_optimum_of_the_simulated_matrix")
        ok = opt.startswith("ok ") and val.startswith("ok ")
        if ok:
            o, v = Fraction(opt.split()[1]), Fraction(val.split()[1])
            ok = o - v <= Fraction(1, 10 ** 9) * max(1, abs(o))
        if not ok:
            R.corr_break("hypothesis of C16_tsf: the lambda-TSF allocation is a maximum-weight assignment of the simulated valuations (model's optAssign)",
                         ENTRY + " LambdaTSF.scf", {"P": items[i]["P"], "vals": items[i]["vals"], "k_or_lambda": items[i]["k"], "seed": items[i]["seed"]},
                         {"allocation": flat[i]["tsf"], "its_simulated_weight": val}, {"optimum_of_the_simulated_matrix": opt})
    for i, (it, res) in enumerate(zip(items, flat)):
        judge(R, it, res, {"dist": ans.get(i, "err")})


def gen_items(R, count):
    items = []
    kinds = ["unit_sum", "skewed", "tie_heavy", "zeros", "integer", "one_rich", "near_threshold", "tiny", "huge"]
    for t in range(count):
        tsf = R.rng.random() < 0.5
        if tsf:
            n = m = R.rng.randint(2, 7)
        else:
            m = R.rng.choice([2, 3, 4, 5, 6, 8, 12])
            n = R.rng.randint(1, 7)
        kind = R.rng.choice(kinds)
        k = R.rng.randint(1, m)
        P = V.rand_profile(R.rng, n, m)
        vals = E.gen_near_threshold(R.rng, P, m, k) if kind == "near_threshold" else E.gen_vals(R.rng, P, m, kind)
        if all(x == 0 for row in vals for x in row) or any(sum(row[j] for row in vals) == 0 for j in range(m)):
            # the helper divides by the chosen alternative's welfare; keep every column positive
            for j in range(m):
                i = R.rng.randrange(n)
                # keep consistency: raise the whole prefix of i's ranking up to j
                for j2 in range(m):
                    if P[i][j2] <= P[i][j]:
                        vals[i][j2] = max(vals[i][j2], 1.0 if kind == "integer" else (0.25e-10 if kind == "tiny" else 0.25))
        it = {"P": P, "vals": vals, "k": k, "tsf": tsf, "kind": kind, "seed": R.rng.randrange(10 ** 6)}
        if R.rng.random() < 0.3:
            nv = [[None if R.rng.random() < 0.3 else x for x in row] for row in vals]
            cols = [j for j in range(m) if sum(0 if r[j] is None else r[j] for r in nv) > 0]
            if cols:
                it["nanvals"] = nv
                it["nan_choice"] = R.rng.choice(cols) + 1
        items.append(it)
    return items


def run(R):
    R.rule = ("consistent (profile, valuation) pairs incl. adversarially skewed ones (one agent holding almost all value, values at / just around "
              "each threshold), all k / lambda in 1..m, every tie-breaker for k-ARV, square instances for lambda-TSF (optimum by exact Hungarian), "
              "welfare in exact rational arithmetic; the helper's value against the exact ratio and the Lean distortionOf. Non-trivial = m>=3, n>=2.")
    R.assumptions = ["the bound uses the float m^(1/(k+1)) with a 1e-9 relative slack", "every alternative has positive welfare (the helper divides by it)"]
    items = gen_items(R, 6000 if R.thorough else 500)
    run_items(R, items)
    # the theorems C16_karv / C16_tsf assume that the simulated values are what `simulate` returns: check that hypothesis on
    # the real code too (same comparison as C14's check, incl. rule objects reused across elections and integer elicitors)
    from harness import c14
    sub = [{"P": it["P"], "vals": it["vals"], "k": it["k"], "rules": ["karv"] + (["tsf"] if it["tsf"] else []), "kind": it["kind"]}
           for it in items[:len(items) // 2]]
    c14.run_items(R, sub)


def replay(R, rep):
    i = rep["input"]
    P = i["P"]
    it = {"P": P, "vals": i["vals"], "k": i["k_or_lambda"], "tsf": len(P) == len(P[0]), "kind": "replay", "seed": i.get("seed", 0)}
    if "nanvals" in i:
        it["nanvals"] = i["nanvals"]; it["nan_choice"] = 1
    run_items(R, [it])
