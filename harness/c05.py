"""C05 - simultaneous eating returns the outcome of the eating process (exact event model in Lean)."""
import itertools, json
from fractions import Fraction
import numpy as np
from harness import votelib as V
from harness.common import pmap, lean_query, guard, fr, safe_judge, persist, persist_rule, pmap_singles
from harness.c01 import chunks

LEVEL = "proof"
ENTRY = "socialchoicekit.randomized_allocation.SimultaneousEating.bistochastic"
TOL = Fraction(1, 10 ** 7)


@guard
def impl_batch(case):
    from socialchoicekit.randomized_allocation import SimultaneousEating, ProbabilisticSerial
    from socialchoicekit.profile_utils import StrictCompleteProfile
    out = []
    shared = {}     # rule objects are reused across calls, as a caller would
    for it in case["items"]:
        try:
            prof = persist("eatP", np.array(it["P"], dtype=np.int64), StrictCompleteProfile.of)
            z = it.get("zero", False)
            if it.get("ps"):
                rule = shared.setdefault(("ps", z), ProbabilisticSerial(zero_indexed=z))
                X = rule.bistochastic(prof)
            else:
                rule = shared.setdefault(("se", z), SimultaneousEating(zero_indexed=z))
                if it.get("pre_speeds"):
                    rule.bistochastic(prof, np.array([float(Fraction(s)) for s in it["pre_speeds"]]))
                sp = np.array([float(Fraction(s)) for s in it["speeds"]])
                if it.get("speed_dtype"):
                    sp = sp.astype(it["speed_dtype"])       # integer speeds stored in an integer array (possibly a narrow one)
                X = rule.bistochastic(prof, sp)
            out.append({"X": [[fr(Fraction(float(x))) for x in row] for row in X]})
        except Exception as e:  # noqa
            out.append({"exc": type(e).__name__, "msg": str(e)[:200]})
    return {"results": out}


def lean_line(it):
    n = len(it["P"])
    return " ".join(["eat", str(n)] + [str(v) for row in it["P"] for v in row] + [str(s) for s in it["speeds"]])


@safe_judge
def judge(R, it, res, ans):
    P, speeds = it["P"], it["speeds"]
    n = len(P)
    inp = {"P": P, "speeds": speeds, "probabilistic_serial": bool(it.get("ps")), "pre_speeds": it.get("pre_speeds"), "speed_dtype": it.get("speed_dtype"),
           "zero_indexed": bool(it.get("zero"))}
    if "exc" in res or "hang" in res:
        R.violation("property_violation", "terminates without raising", ENTRY, inp, impl_output=res, oracle="raised/hang")
        return
    X = [[Fraction(x) for x in row] for row in res["X"]]
    t = ans.split()
    if t[0] != "ok":
        R.corr_break("exact model produces a matrix (eat_terminates)", ENTRY, inp, res["X"], ans)
        return
    M = [[Fraction(t[1 + i * n + j]) for j in range(n)] for i in range(n)]
    worst = max(abs(X[i][j] - M[i][j]) for i in range(n) for j in range(n))
    R.extra["max_abs_error_vs_exact"] = max(R.extra.get("max_abs_error_vs_exact", 0.0), float(worst))
    errs = []
    if worst > TOL:
        errs.append(f"entry differs from the exact eating process by {float(worst):.3g} > 1e-7")
    for i in range(n):
        if abs(sum(X[i]) - 1) > n * TOL:
            errs.append(f"row {i} sums to {float(sum(X[i]))}")
        if abs(sum(X[k][i] for k in range(n)) - 1) > n * TOL:
            errs.append(f"column {i} sums to {float(sum(X[k][i] for k in range(n)))}")
        if any(X[i][j] < -TOL for j in range(n)):
            errs.append("negative entry")
    if len(set(speeds)) == 1:
        # sd-envy-freeness: every prefix of i's ranking
        for i in range(n):
            order = sorted(range(n), key=lambda j: P[i][j])
            for k in range(n):
                for pre in range(1, n + 1):
                    a = sum(X[i][j] for j in order[:pre])
                    b = sum(X[k][j] for j in order[:pre])
                    if b > a + n * TOL:
                        errs.append(f"agent {k}'s row stochastically dominates agent {i}'s row on a prefix of {i}'s ranking")
                        break
    if errs:
        R.violation("property_violation", "matrix = outcome of the eating process (1e-7), bistochastic, sd-envy-free for equal speeds", ENTRY, inp,
                    impl_output=[[float(x) for x in row] for row in X], model_output=[[fr(x) for x in row] for row in M], oracle=errs[:4])
        return
    events = len(set(M[i][j] for i in range(n) for j in range(n))) > 2
    R.case(nontrivial_key=json.dumps([P, speeds]) if n >= 2 and events else None,
           sample={"P": P, "speeds": speeds, "impl": [[float(x) for x in row] for row in X], "exact_model": [[fr(x) for x in row] for row in M]} if n >= 3 else None)
    R.count(f"n={n}")
    R.count("equal_speeds" if len(set(speeds)) == 1 else "unequal_speeds")


def run_items(R, items):
    cases = [{"items": ch} for ch in chunks(items, 40)]
    results = pmap("c05", "impl_batch", cases, deadline=120.0)
    flat = []
    for case, res in zip(cases, results):
        if "results" in res:
            flat += res["results"]
        else:
            singles = pmap_singles("c05", "impl_batch", [{"items": [it]} for it in case["items"]], deadline=10.0, R=R)
            flat += [s["results"][0] if "results" in s else ({"skipped": True} if "skipped" in s else {"hang": True}) for s in singles]
    ans = lean_query([lean_line(it) for it in items])
    for it, r, a in zip(items, flat, ans):
        judge(R, it, r, a)


SPEEDS = ["1", "2", "1/2", "3/2", "3", "1/3", "5/4"]


def run(R):
    R.rule = ("strict complete n x n profiles with rational speed vectors (equal, integer multiples, fractions): random n<=8, ProbabilisticSerial "
              "against unit speeds; thorough adds ALL profiles for n<=3 x ALL speed vectors over {1, 2, 1/2, 3/2}. Reference = exact rational "
              "event model (Lean `Eat.eat`). Non-trivial = n>=2 and more than two distinct matrix entries.")
    R.assumptions = ["numpy float rounding and the two 1e-9 clamps are covered by the property's own 1e-7 tolerance"]
    items = []
    cnt = 8000 if R.thorough else 800
    for t in range(cnt):
        n = R.rng.randint(1, 8)
        P = V.rand_profile(R.rng, n, n) if R.rng.random() < 0.7 else V.structured_profile(R.rng, n, n)
        mode = R.rng.randrange(4)
        if mode == 0:
            speeds = ["1"] * n
            items.append({"P": P, "speeds": speeds, "ps": True, "zero": R.rng.random() < 0.4})
            continue
        if mode == 1:
            s = R.rng.choice(SPEEDS)
            speeds = [s] * n
        elif mode == 2:
            hi = R.rng.choice([4, 4, 60, 120])
            speeds = [str(R.rng.randint(1, hi)) for _ in range(n)]
        else:
            speeds = [R.rng.choice(SPEEDS) for _ in range(n)]
        if R.rng.random() < 0.15:
            # nearly equal speeds: agents become full (and items run out) at times that differ by 1e-5 .. 1e-7
            speeds = [R.rng.choice(["1", "99999/100000", "100001/100000", "999999/1000000", "9999999/10000000"]) for _ in range(n)]
            mode = 4
            R.count("nearly_equal_speeds")
        # zero_indexed only changes how scf numbers its output; the bistochastic outcome must not depend on it
        it = {"P": P, "speeds": speeds, "zero": R.rng.random() < 0.4}
        if mode == 2 and R.rng.random() < 0.6:
            it["speed_dtype"] = R.rng.choice(["int8", "int16", "int32", "int64"])
            R.count("integer_speed_array:" + it["speed_dtype"])
        if R.rng.random() < 0.3:      # the same rule object is first used with other speeds on the same profile
            it["pre_speeds"] = [R.rng.choice(SPEEDS) for _ in range(n)]
        items.append(it)
    run_items(R, items)
    if R.thorough:
        R.exhaustive = True
        ex = []
        for n in (1, 2, 3):
            perms = list(itertools.permutations(range(1, n + 1)))
            for P in itertools.product(perms, repeat=n):
                for sp in itertools.product(["1", "2", "1/2", "3/2"], repeat=n):
                    ex.append({"P": [list(r) for r in P], "speeds": list(sp)})
        run_items(R, ex)


def replay(R, rep):
    inp = rep["input"]
    run_items(R, [{"P": inp["P"], "speeds": inp["speeds"], "ps": inp.get("probabilistic_serial", False), "pre_speeds": inp.get("pre_speeds"),
                   "speed_dtype": inp.get("speed_dtype"), "zero": inp.get("zero_indexed", False)}])
