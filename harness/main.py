import sys, os, argparse, importlib, traceback, warnings
warnings.filterwarnings("ignore")
from harness import common
from harness.common import Run, Infra


def main():
    ap = argparse.ArgumentParser()
    ap.add_argument("prop")
    ap.add_argument("--tier", default=os.environ.get("VERIF_TIER", "quick"))
    ap.add_argument("--replay", default=None)
    ap.add_argument("--seed", type=int, default=None)
    a = ap.parse_args()
    tier = a.tier if a.tier in ("quick", "thorough") else "quick"
    seed = a.seed if a.seed is not None else int(os.environ.get("VERIF_SEED", "0") or 0)
    prop = a.prop.upper()
    from harness import cov
    cov.start()
    try:
        mod = importlib.import_module("harness." + prop.lower())
        R = Run(prop, tier, seed, mod.LEVEL)
        common.lean_build()
        R.audit = common.proof_audit(prop, thorough=(tier == "thorough"))
        if a.replay:
            import json
            rep = json.load(open(a.replay))
            R.is_replay = True
            mod.replay(R, rep)
        else:
            mod.run(R)
            if R.corr_breaks and not R.violations:
                # the correspondence broke but no generated case violated the property's direct oracle: widen the
                # failing-input search with fresh seeds before reporting `no-failing-input-found`
                for extra in (1, 2, 3):
                    R2 = Run(prop, tier, seed + 7919 * extra, mod.LEVEL)
                    R2.audit = None
                    try:
                        mod.run(R2)
                    except Infra:
                        break
                    R.extra["failing_input_search_extra_cases"] = R.extra.get("failing_input_search_extra_cases", 0) + R2.evaluations
                    if R2.violations:
                        for v in R2.violations:
                            v["found_by"] = "widened failing-input search (seed %d)" % R2.seed
                        R.violations.extend(R2.violations)
                        break
        sys.exit(R.finish())
    except Infra as e:
        print(f"INFRASTRUCTURE-ERROR property={prop}: {e}", file=sys.stderr)
        sys.exit(2)
    except Exception:
        traceback.print_exc()
        print(f"INFRASTRUCTURE-ERROR property={prop}: harness exception", file=sys.stderr)
        sys.exit(2)


if __name__ == "__main__":
    main()
