"""Hospital/residents instances: generators, the direct stability oracle, brute-force enumeration,
implementation call and Lean op lines (shared by C01, C02, C13, C20)."""
import itertools, math
import numpy as np
from harness.common import optn, guard, to_np


# ---- generators (instances are JSON-able: None = NaN) -------------------------------------------
def rand_profile(rng, a, b, pnan):
    P = [[None] * b for _ in range(a)]
    for i in range(a):
        acc = [j for j in range(b) if rng.random() >= pnan]
        rng.shuffle(acc)
        for r, j in enumerate(acc):
            P[i][j] = r + 1
    return P


def rand_instance(rng, n, m, pr, ph, cmax=3):
    return {"n": n, "m": m, "R": rand_profile(rng, n, m, pr), "H": rand_profile(rng, m, n, ph),
            "c": [rng.randint(1, cmax) for _ in range(m)]}


def constructible(inst):
    """StrictProfile.of needs nanmin == 1, i.e. at least one non-NaN entry in each matrix"""
    return any(v is not None for row in inst["R"] for v in row) and any(v is not None for row in inst["H"] for v in row)


def all_rows(b, allow_nan=True):
    """every strict rank row of length b (ranks 1..k over the acceptable positions)"""
    rows = []
    idx = list(range(b))
    for k in range(0 if allow_nan else b, b + 1):
        for acc in itertools.combinations(idx, k):
            for perm in itertools.permutations(range(1, k + 1)):
                row = [None] * b
                for p, j in zip(perm, acc):
                    row[j] = p
                rows.append(row)
    return rows


# ---- oracle ---------------------------------------------------------------------------------------
def check_matching(inst, match):
    """list of violated clauses of C01 for `match` (0-indexed (r,h) pairs); [] = feasible and stable"""
    n, m, R, H, c = inst["n"], inst["m"], inst["R"], inst["H"], inst["c"]
    errs = []
    res = [r for r, h in match]
    if len(set(res)) != len(res):
        errs.append("resident_twice")
    held = {h: [] for h in range(m)}
    mr = {}
    for r, h in match:
        if not (0 <= r < n and 0 <= h < m):
            errs.append("label_out_of_range")
            return errs
        held[h].append(r)
        mr[r] = h
        if R[r][h] is None or H[h][r] is None:
            errs.append("unacceptable_pair")
    for h in range(m):
        if len(held[h]) > c[h]:
            errs.append("over_capacity")
    for r in range(n):
        for h in range(m):
            if R[r][h] is None or H[h][r] is None:
                continue
            if mr.get(r) == h:
                continue
            rwants = (r not in mr) or (R[r][mr[r]] is not None and R[r][h] < R[r][mr[r]]) or R[r][mr[r]] is None
            hwants = len(held[h]) < c[h] or any(H[h][r2] is None or H[h][r] < H[h][r2] for r2 in held[h])
            if rwants and hwants:
                errs.append("blocking_pair")
                return errs
    return errs


def all_stable(inst):
    n, m, c = inst["n"], inst["m"], inst["c"]
    out = []
    for assign in itertools.product([None] + list(range(m)), repeat=n):
        if any(sum(1 for a in assign if a == h) > c[h] for h in range(m)):
            continue
        mm = [(r, h) for r, h in enumerate(assign) if h is not None]
        if not check_matching(inst, mm):
            out.append(mm)
    return out


# ---- implementation -------------------------------------------------------------------------------
def call_gs(inst, oriented, zero_indexed, dtype=None, ctx=None):
    """`ctx` (optional, one per worker batch): {"bufs": Buffers, "rules": {}, "rng": random.Random} -- rule objects and argument
    buffers are then reused across calls and integer dtypes / capacity dtypes vary (none of this may change the answer)"""
    from socialchoicekit.deterministic_matching import GaleShapley
    from socialchoicekit.profile_utils import StrictProfile
    R = to_np(inst["R"])
    H = to_np(inst["H"])
    cdt = int
    if dtype is not None:
        R = R.astype(dtype)
        H = H.astype(dtype)
    elif ctx is not None:
        complete = not (np.isnan(R).any() or np.isnan(H).any())
        if complete and ctx["rng"].random() < 0.5:
            from harness.common import pick_int_dtype
            d = pick_int_dtype(ctx["rng"], max(inst["n"], inst["m"]))
            R = R.astype(d)
            H = H.astype(d)
        cdt = ctx["rng"].choice([d for d in ["int64", "int64", "int32", "uint8", "uint16", "uint64"] if max(inst["c"]) <= np.iinfo(d).max])
    c = np.array(inst["c"], dtype=cdt)
    if ctx is not None:
        R = ctx["bufs"].get("R", R)
        H = ctx["bufs"].get("H", H)
        c = ctx["bufs"].get("c", c)
        key = (oriented, zero_indexed)
        if key not in ctx["rules"]:
            ctx["rules"][key] = GaleShapley(resident_oriented=oriented, zero_indexed=zero_indexed)
        rule = ctx["rules"][key]
    else:
        rule = GaleShapley(resident_oriented=oriented, zero_indexed=zero_indexed)
    pr, ph = StrictProfile.of(R), StrictProfile.of(H)
    if ctx is not None:
        # the profile VIEW objects persist as well (a later case refills the same buffers and passes the same view objects)
        views = ctx.setdefault("views", {})
        pr = views.setdefault(("R", id(R)), pr)
        ph = views.setdefault(("H", id(H)), ph)
    if ctx is not None and ctx["rng"].random() < 0.3:
        # the very same argument objects are first handed to a call in the OTHER orientation: what an earlier call did with
        # its arguments must not leak into a later one
        try:
            GaleShapley(resident_oriented=not oriented, zero_indexed=zero_indexed).scf(pr, ph, c)
        except Exception:  # noqa
            pass
    if ctx is not None and ctx["rng"].random() < 0.25:
        # the same rule object is first asked about the same profiles with OTHER capacities
        try:
            c0 = np.array([int(x) % 3 + 1 for x in range(len(c))], dtype=c.dtype)
            if not np.array_equal(c0, c):
                rule.scf(pr, ph, c0)
        except Exception:  # noqa
            pass
    out = rule.scf(pr, ph, c)
    return [[int(a), int(b)] for a, b in out]


def popular_market(rng, n, m):
    """a large market in which (almost) everybody prefers the same small hospital: most applications bounce straight away"""
    R = []
    for i in range(n):
        rest = list(range(1, m))
        rng.shuffle(rest)
        order = [0] + rest if rng.random() < 0.9 else rest + [0]
        row = [0] * m
        for k, h in enumerate(order):
            row[h] = k + 1
        R.append(row)
    H = []
    for h in range(m):
        order = list(range(n))
        if rng.random() < 0.5:
            rng.shuffle(order)
        row = [0] * n
        for k, r in enumerate(order):
            row[r] = k + 1
        H.append(row)
    c = [rng.randint(1, 3)] + [rng.randint(1, n) for _ in range(m - 2)] + [n]
    return {"n": n, "m": m, "R": R, "H": H, "c": c[:m] if m > 1 else [rng.randint(1, 3)]}


def long_run(n, oriented):
    """deferred acceptance needs about n rounds: hospital-oriented, ONE hospital (one seat) whose first n-1 listed residents find it
    unacceptable; resident-oriented, ONE resident whose first n-1 listed hospitals find him unacceptable. The stable matching is
    unique: the last pair. Returns (instance, that matching)"""
    if not oriented:
        return {"n": n, "m": 1, "R": [[None]] * (n - 1) + [[1]], "H": [[i + 1 for i in range(n)]], "c": [1]}, [[n - 1, 0]]
    return {"n": 1, "m": n, "R": [[j + 1 for j in range(n)]], "H": [[None]] * (n - 1) + [[1]], "c": [1] * n}, [[0, n - 1]]


MODEL_MAX_CELLS = 4000      # the compiled model is not tuned for very large instances; beyond this only the direct oracles judge


def new_ctx(seed=0):
    import random
    from harness.common import Buffers
    return {"bufs": Buffers(), "rules": {}, "rng": random.Random(seed)}


@guard
def impl_gs(case):
    """worker entry: returns pairs as reported (index convention applied)"""
    return {"pairs": call_gs(case["inst"], case["oriented"], case["zero_indexed"])}


def lean_line(inst, oriented, fixer):
    n, m = inst["n"], inst["m"]
    toks = ["gs", "1" if oriented else "0", str(fixer), str(n), str(m)]
    toks += [optn(v) for row in inst["R"] for v in row]
    toks += [optn(v) for row in inst["H"] for v in row]
    toks += [str(x) for x in inst["c"]]
    return " ".join(toks)


def mirror_line(inst, oriented):
    toks = ["gsmirror", "1" if oriented else "0", str(inst["n"]), str(inst["m"])]
    toks += [optn(v) for row in inst["R"] for v in row]
    toks += [optn(v) for row in inst["H"] for v in row]
    toks += [str(x) for x in inst["c"]]
    return " ".join(toks)


def parse_pairs(ans):
    t = ans.split()
    if t[0] != "ok":
        return None
    k = int(t[1])
    v = [int(x) for x in t[2:]]
    return sorted([v[2 * i], v[2 * i + 1]] for i in range(k))


def has_rejection(inst, match):
    """non-triviality: some resident is not with its first acceptable choice, or is unmatched although it
    finds some hospital acceptable"""
    mr = dict((r, h) for r, h in match)
    for r in range(inst["n"]):
        acc = [v for v in inst["R"][r] if v is not None]
        if not acc:
            continue
        if r not in mr or inst["R"][r][mr[r]] != 1:
            return True
    return False


def shrink(inst, fails):
    """greedy shrinking: drop residents / hospitals (renormalising ranks), lower capacities"""
    def drop_res(I, r):
        R = [row[:] for i, row in enumerate(I["R"]) if i != r]
        H = [renorm([v for j, v in enumerate(row) if j != r]) for row in I["H"]]
        return {"n": I["n"] - 1, "m": I["m"], "R": R, "H": H, "c": I["c"][:]}

    def drop_hos(I, h):
        H = [row[:] for i, row in enumerate(I["H"]) if i != h]
        R = [renorm([v for j, v in enumerate(row) if j != h]) for row in I["R"]]
        return {"n": I["n"], "m": I["m"] - 1, "R": R, "H": H, "c": [x for i, x in enumerate(I["c"]) if i != h]}

    def renorm(row):
        order = sorted(v for v in row if v is not None)
        pos = {v: i + 1 for i, v in enumerate(order)}
        return [None if v is None else pos[v] for v in row]

    cur = inst
    changed = True
    while changed:
        changed = False
        cands = []
        if cur["n"] > 1:
            cands += [drop_res(cur, r) for r in range(cur["n"])]
        if cur["m"] > 1:
            cands += [drop_hos(cur, h) for h in range(cur["m"])]
        for h in range(cur["m"]):
            if cur["c"][h] > cur["n"] + 1:
                # an "unlimited" capacity (sys.maxsize) is first brought down to just above the number of residents in one step
                c2 = cur["c"][:]
                c2[h] = cur["n"] + 1
                cands.append(dict(cur, c=c2))
            elif cur["c"][h] > 1:
                c2 = cur["c"][:]
                c2[h] -= 1
                cands.append(dict(cur, c=c2))
        for cnd in cands:
            if not constructible(cnd):
                continue
            try:
                if fails(cnd):
                    cur = cnd
                    changed = True
                    break
            except Exception:
                continue
    return cur
