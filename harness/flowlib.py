"""Flow networks and bipartite graphs: generators, independent oracles (Edmonds-Karp, augmenting-path
matching, Koenig cover), implementation calls, Lean op lines (C08, C09, C06)."""
import sys, itertools, collections
from harness.common import guard

MAXSIZE = sys.maxsize


# ---- networks: {"verts": [...], "edges": [[u, v, c], ...], "s": s, "t": t} ---------------------------
def to_graph(net):
    G = {v: [] for v in net["verts"]}
    for u, v, c in net["edges"]:
        G[u].append((v, c))
    return G


def rand_net(rng, nv, density, caps, labels=None, opp_bias=0.0):
    verts = labels if labels is not None else list(range(nv))
    s, t = verts[0], verts[-1]
    edges = []
    have = set()
    for u in verts:
        for v in verts:
            if u == v:
                continue
            p = density
            if (v, u) in have:
                p = max(p, opp_bias)
            if rng.random() < p:
                edges.append([u, v, rng.choice(caps)])
                have.add((u, v))
    rng.shuffle(edges)
    vs = verts[:]
    rng.shuffle(vs)
    return {"verts": vs, "edges": edges, "s": s, "t": t}


def maxsize_backflow(rng):
    """structured family: a pair of opposite edges u->v (small) / v->u (sys.maxsize) inside two unbounded source-sink routes plus a finite
    one, so that later augmentations have to push MORE than sys.maxsize units back along an edge that first carried sys.maxsize units;
    vertices relabelled, finite capacities and edge order random, a few extra random edges"""
    M = MAXSIZE
    small = lambda: rng.choice([1, 1, 2, 3])
    base = [(0, 2, M), (0, 1, M), (0, 3, small()), (1, 5, M), (1, 2, small()), (2, 1, M), (2, 5, M), (2, 4, small()), (3, 1, small()), (4, 5, small())]
    nv = 6 + rng.choice([0, 0, 1])
    lab = rng.sample(range(-3, 12), nv)
    edges = [[lab[u], lab[v], c] for u, v, c in base]
    have = {(e[0], e[1]) for e in edges}
    for _ in range(rng.randint(0, 3)):
        u, v = rng.sample(range(nv), 2)
        if (lab[u], lab[v]) not in have and lab[v] != lab[0] and lab[u] != lab[5]:
            edges.append([lab[u], lab[v], rng.choice([0, 1, 2, M])])
            have.add((lab[u], lab[v]))
    rng.shuffle(edges)
    vs = lab[:]
    rng.shuffle(vs)
    return {"verts": vs, "edges": edges, "s": lab[0], "t": lab[5]}


def int32_large(rng, nv):
    """capacities of the order 1e9 stored as numpy int32 scalars (sums of two of them do not fit 32 bits), no opposite pairs"""
    net = rand_net(rng, nv, rng.choice([0.3, 0.6]), [1500000000, 1000000000, 500000000, 1])
    have, E = set(), []
    for u, v, c in net["edges"]:
        if (v, u) in have:
            continue
        have.add((u, v))
        E.append([u, v, c])
    net["edges"] = E
    net["np32"] = True
    return net


def poset_shaped(rng, k):
    """the network Irving builds: s=-1, t=-2, 'infinite' arcs between rotations, weights to s/t"""
    verts = [-1, -2] + list(range(k))
    edges = []
    for a in range(k):
        for b in range(a + 1, k):
            if rng.random() < 0.35:
                edges.append([b, a, MAXSIZE] if rng.random() < 0.5 else [a, b, MAXSIZE])
    for a in range(k):
        w = rng.randint(-4, 4)
        if w > 0:
            edges.append([a, -2, w])
        elif w < 0:
            edges.append([-1, a, -w])
    return {"verts": verts, "edges": edges, "s": -1, "t": -2}


def max_flow_value(net):
    """independent Edmonds-Karp on a capacity matrix"""
    idx = {v: i for i, v in enumerate(net["verts"])}
    n = len(idx)
    cap = [[0] * n for _ in range(n)]
    for u, v, c in net["edges"]:
        cap[idx[u]][idx[v]] += c
    s, t = idx[net["s"]], idx[net["t"]]
    flow = 0
    while True:
        par = [-1] * n
        par[s] = s
        dq = collections.deque([s])
        while dq and par[t] == -1:
            u = dq.popleft()
            for v in range(n):
                if par[v] == -1 and cap[u][v] > 0:
                    par[v] = u
                    dq.append(v)
        if par[t] == -1:
            # minimal min cut = reachable set
            reach = sorted(net["verts"][i] for i in range(n) if par[i] != -1)
            return flow, reach
        b = None
        v = t
        while v != s:
            u = par[v]
            b = cap[u][v] if b is None else min(b, cap[u][v])
            v = u
        v = t
        while v != s:
            u = par[v]
            cap[u][v] -= b
            cap[v][u] += b
            v = u
        flow += b


def check_flow(net, flow_items, cut):
    """C08's clauses on the implementation output; returns list of violated clauses"""
    errs = []
    edges = {(u, v): c for u, v, c in net["edges"]}
    fl = {}
    for u, v, f in flow_items:
        fl[(u, v)] = f
    if set(fl.keys()) != set(edges.keys()):
        errs.append("flow_keys_differ_from_edges")
        return errs

    def f(u, v):
        if (u, v) in fl:
            return fl[(u, v)]
        if (v, u) in fl:
            return -fl[(v, u)]
        return 0
    for (u, v), c in edges.items():
        if fl[(u, v)] > c:
            errs.append("capacity_exceeded")
            break
        if (v, u) in edges:
            if fl[(u, v)] != -fl[(v, u)]:
                errs.append("opposite_pair_not_net")
                break
        elif fl[(u, v)] < 0:
            errs.append("negative_flow_on_single_edge")
            break
    for v in net["verts"]:
        if v in (net["s"], net["t"]):
            continue
        if sum(f(v, w) for w in net["verts"]) != 0:
            errs.append("conservation_violated")
            break
    value = sum(f(net["s"], w) for w in net["verts"])
    want, _ = max_flow_value(net)
    if value != want:
        errs.append(f"value_{value}_not_max_{want}")
    cs = set(cut)
    if net["s"] not in cs:
        errs.append("cut_without_source")
    if net["t"] in cs:
        errs.append("cut_contains_sink")
    if not cs <= set(net["verts"]):
        errs.append("cut_not_subset_of_vertices")
    cc = sum(c for (u, v), c in edges.items() if u in cs and v not in cs)
    if cc != value:
        errs.append(f"cut_capacity_{cc}_differs_from_value_{value}")
    return errs


def numpy_ints(net, G):
    """a network as it comes out of numpy code: vertex labels and capacities are numpy integer scalars (only when all capacities are small:
    numpy integers are fixed-width, so sys.maxsize capacities are Python ints by necessity). Chosen deterministically from the content."""
    import hashlib
    import numpy as np
    if net.get("np32"):
        # large capacities that still fit a 32-bit integer, no opposite edge pairs (so no residual capacity exceeds the width either)
        return {u: [(v, np.int32(c)) for v, c in l] for u, l in G.items()}
    h = int(hashlib.sha256(repr((net["edges"], net["s"], net["t"])).encode()).hexdigest()[:4], 16) % 4
    if h == 1:
        # a collections.defaultdict(list) network in which vertices without outgoing edges (typically the sink) have no explicit key
        from collections import defaultdict
        D = defaultdict(list)
        for u, l in G.items():
            if l or u == net["s"]:
                D[u] = list(l)
        return D
    if any(c > 1000 for _, _, c in net["edges"]):
        return G
    if h != 0:
        return G
    ct = np.int64 if len(net["edges"]) % 2 == 0 else np.int32
    return {(np.int64(u) if i % 2 == 0 else u): [(np.int32(v) if j % 3 == 0 else v, ct(c)) for j, (v, c) in enumerate(l)] for i, (u, l) in enumerate(G.items())}


def call_ff(net, record_paths=False):
    import socialchoicekit.flow as fl
    G = numpy_ints(net, to_graph(net))
    paths = []
    if record_paths:
        orig = fl.dfs_path
        depth = [0]

        def wrapped(Gf, current, sink, visited):
            depth[0] += 1
            try:
                r = orig(Gf, current, sink, visited)
            finally:
                depth[0] -= 1
            if depth[0] == 0 and r is not None:
                paths.append([[int(v) for v in r[0]], int(r[1])])
            return r
        fl.dfs_path = wrapped
        try:
            flow, cut = fl.ford_fulkerson(G, net["s"], net["t"])
        finally:
            fl.dfs_path = orig
    else:
        flow, cut = fl.ford_fulkerson(G, net["s"], net["t"])
    out = {"flow": [[int(u), int(v), int(f)] for (u, v), f in flow.items()], "cut": sorted(int(x) for x in cut)}
    if record_paths:
        out["paths"] = paths
    return out


def lean_ffdfs_line(net):
    finite = sum(c for u, v, c in net["edges"] if c < MAXSIZE // 4)
    rounds = finite + len(net["edges"]) + 2
    return " ".join(["ffdfs"] + net_tokens(net) + [str(rounds)])


def ffdfs_expected(net, res):
    """the answer line the mirror must give for this implementation run"""
    value = 0
    fl_ = {(u, v): f for u, v, f in res["flow"]}
    for w in net["verts"]:
        if (net["s"], w) in fl_:
            value += fl_[(net["s"], w)]
        elif (w, net["s"]) in fl_:
            value -= fl_[(w, net["s"])]
    toks = ["ok", str(value), str(len(res["paths"]))]
    for pth, c in res["paths"]:
        toks += [str(len(pth))] + [str(v) for v in pth] + [str(c)]
    toks += [str(len(res["flow"]))]
    for u, v, f in res["flow"]:
        toks += [str(u), str(v), str(f)]
    toks += [str(len(res["cut"]))] + [str(x) for x in sorted(res["cut"])]
    return " ".join(toks)


def net_tokens(net):
    toks = [str(len(net["verts"]))] + [str(v) for v in net["verts"]] + [str(len(net["edges"]))]
    for u, v, c in net["edges"]:
        toks += [str(u), str(v), str(c)]
    toks += [str(net["s"]), str(net["t"])]
    return toks


def lean_ff_line(net):
    # `ffauto` runs the model with the fuel `ffFuel N` for which totality is proved (C08_ff_total)
    return " ".join(["ffauto"] + net_tokens(net))


def lean_flowcut_line(net, flow_items, cut):
    toks = ["flowcert"] + net_tokens(net) + [str(len(flow_items))]
    for u, v, f in flow_items:
        toks += [str(u), str(v), str(f)]
    toks += [str(len(cut))] + [str(x) for x in cut]
    return " ".join(toks)


# ---- bipartite graphs: {"X": [...], "Y": [...], "adj": {x: [y...]}, "undirected": bool} ---------------
def rand_bip(rng, nx, ny, density, undirected, labels="plain"):
    if labels == "plain":
        X = list(range(nx))
        Y = list(range(nx, nx + ny))
    else:
        pool = rng.sample(range(0, 40), nx + ny)
        X, Y = pool[:nx], pool[nx:]
    adj = {x: [y for y in Y if rng.random() < density] for x in X}
    for x in X:
        rng.shuffle(adj[x])
    return {"X": X, "Y": Y, "adj": {str(x): adj[x] for x in X}, "undirected": undirected}


def bip_graph(b):
    G = {}
    for x in b["X"]:
        G[x] = list(b["adj"][str(x)])
    for y in b["Y"]:
        G[y] = [x for x in b["X"] if y in b["adj"][str(x)]] if b["undirected"] else []
    return G


def max_matching_size(b):
    """independent augmenting-path (Kuhn) matcher; returns (size, matchY)"""
    matchY = {}

    def try_x(x, seen):
        for y in b["adj"][str(x)]:
            if y in seen:
                continue
            seen.add(y)
            if y not in matchY or try_x(matchY[y], seen):
                matchY[y] = x
                return True
        return False
    size = 0
    for x in b["X"]:
        if try_x(x, set()):
            size += 1
    return size, matchY


def koenig_cover(b, matching):
    """vertex cover of size |matching| from a MAXIMUM matching (Koenig); None if the matching is not maximum"""
    mx = {x: y for x, y in matching}
    my = {y: x for x, y in matching}
    # alternating BFS from unmatched left vertices
    Zx = set(x for x in b["X"] if x not in mx)
    Zy = set()
    frontier = list(Zx)
    while frontier:
        x = frontier.pop()
        for y in b["adj"][str(x)]:
            if y in Zy:
                continue
            if mx.get(x) == y:
                continue
            Zy.add(y)
            if y in my:
                x2 = my[y]
                if x2 not in Zx:
                    Zx.add(x2)
                    frontier.append(x2)
            else:
                return None  # augmenting path: matching not maximum
    cover = [x for x in b["X"] if x not in Zx] + [y for y in b["Y"] if y in Zy]
    return cover


def check_matching(b, M):
    errs = []
    xs = [x for x, y in M]
    ys = [y for x, y in M]
    if len(set(xs)) != len(xs) or len(set(ys)) != len(ys):
        errs.append("vertex_twice")
    for x, y in M:
        if x not in b["X"] or y not in b["adj"].get(str(x), []):
            errs.append("not_an_edge")
            break
    size, _ = max_matching_size(b)
    if len(M) != size:
        errs.append(f"size_{len(M)}_not_maximum_{size}")
    return errs


def call_mcm(b):
    from socialchoicekit.flow import maximum_cardinality_matching_bipartite
    G = bip_graph(b)
    X, Y = list(b["X"]), list(b["Y"])
    import hashlib
    if int(hashlib.sha256(repr(sorted(G.items())).encode()).hexdigest()[:2], 16) % 3 == 0:
        # a third of the graphs: the very same argument objects (dict, lists) are handed over twice; the second answer counts
        try:
            maximum_cardinality_matching_bipartite(G, X, Y)
        except Exception:  # noqa
            pass
    M = maximum_cardinality_matching_bipartite(G, X, Y)
    return [[int(x), int(y)] for x, y in M]


def bip_tokens(b):
    """<|X|> X... <|Y|> Y... <k> (key <len> nbrs...)*k  -- the dict G as passed to the implementation"""
    G = bip_graph(b)
    toks = [str(len(b["X"]))] + [str(x) for x in b["X"]] + [str(len(b["Y"]))] + [str(y) for y in b["Y"]]
    toks.append(str(len(G)))
    for k, nb in G.items():
        toks += [str(k), str(len(nb))] + [str(v) for v in nb]
    return toks


def lean_mcm_line(b):
    return " ".join(["mcm"] + bip_tokens(b))


def lean_mcmcert_line(b, M, C):
    toks = ["mcmcert"] + bip_tokens(b) + [str(len(M))]
    for x, y in M:
        toks += [str(x), str(y)]
    toks += [str(len(C))] + [str(v) for v in C]
    return " ".join(toks)
