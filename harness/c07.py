"""C07 - random allocation rules return valid, explainable allocations (RSD replayed through the Lean model for the
recorded picking order; eating lottery checked against the exact eating process)."""
import json
from fractions import Fraction
import numpy as np
from harness import votelib as V, gslib
from harness.common import pmap, lean_query, guard, fr, to_np, optn, safe_judge, persist, persist_rule
from harness.c01 import chunks

LEVEL = "proof"
ENTRY_RSD = "socialchoicekit.randomized_allocation.RandomSerialDictatorship.scf"
ENTRY_EAT = "socialchoicekit.randomized_allocation.SimultaneousEating.scf"
ENTRY_BIS = "SimultaneousEating.bistochastic"


@guard
def impl_rsd(case):
    import numpy.random as npr
    from socialchoicekit.randomized_allocation import RandomSerialDictatorship
    from socialchoicekit.profile_utils import StrictProfile
    out = []
    for it in case["items"]:
        orders = []
        orig = npr.shuffle

        def rec(x, *a, **k):
            r = orig(x, *a, **k)
            orders.append([int(v) for v in x])
            return r
        try:
            P = to_np(it["P"])
            if it["dtype"] != "float64":
                P = P.astype(it["dtype"])
            np.random.seed(it["seed"])
            np.random.shuffle = rec
            try:
                a = persist_rule(("rsd", it["zero"]), lambda: RandomSerialDictatorship(zero_indexed=it["zero"])).scf(persist("rsdP", P, StrictProfile.of))
            finally:
                np.random.shuffle = orig
            out.append({"alloc": [None if np.isnan(x) else int(x) for x in a], "orders": orders})
        except Exception as e:  # noqa
            np.random.shuffle = orig
            out.append({"exc": type(e).__name__, "msg": str(e)[:200]})
    return {"results": out}


@guard
def impl_eat(case):
    import numpy.random as npr
    from socialchoicekit.randomized_allocation import SimultaneousEating, ProbabilisticSerial
    from socialchoicekit.bistochastic import birkhoff_von_neumann
    from socialchoicekit.profile_utils import StrictProfile
    out = []
    rules = {}     # rule objects live as long as the worker batch: an outcome must not depend on what the object was used for before

    def rule(ps, zero):
        if (ps, zero) not in rules:
            rules[(ps, zero)] = ProbabilisticSerial(zero_indexed=zero) if ps else SimultaneousEating(zero_indexed=zero)
        return rules[(ps, zero)]
    for it in case["items"]:
        orig = npr.choice
        try:
            P = to_np(it["P"])
            if it["dtype"] != "float64":
                P = P.astype(it["dtype"])
            prof = persist("eatP", P, StrictProfile.of)
            speeds = np.array([float(Fraction(s)) for s in it["speeds"]])
            se = rule(False, it["zero"])
            if it.get("pre_speeds") and not it["ps"]:
                # the same rule object first draws a lottery for the SAME profile eaten at other speeds
                try:
                    se.scf(prof, np.array([float(Fraction(s)) for s in it["pre_speeds"]]))
                except Exception:  # noqa
                    pass
            X = se.bistochastic(prof, speeds) if not it["ps"] else rule(True, it["zero"]).bistochastic(prof)
            res = {"X": [[fr(Fraction(float(x))) for x in row] for row in X]}
            log = []

            def rec(a, *args, **kw):
                r = orig(a, *args, **kw)
                p = kw.get("p")
                log.append({"a": int(a) if np.isscalar(a) else [int(v) for v in a], "p": None if p is None else [float(x) for x in p],
                            "r": [int(v) for v in np.atleast_1d(r)]})
                return r
            np.random.seed(it["seed"])
            np.random.choice = rec
            try:
                try:
                    a = rule(True, it["zero"]).scf(prof) if it["ps"] else se.scf(prof, speeds)
                    res["alloc"] = [int(x) for x in a]
                except Exception as e:  # noqa
                    res["scf_exc"] = type(e).__name__ + ": " + str(e)[:160]
            finally:
                np.random.choice = orig
            res["choice"] = log
            dec = birkhoff_von_neumann(np.array(X, dtype=float))
            res["dec_z"] = [float(z) for z, _ in dec]
            res["dec_perm"] = [[int(v) for v in np.argmax(Pm, axis=1)] for _, Pm in dec]
            out.append(res)
        except Exception as e:  # noqa
            np.random.choice = orig
            out.append({"exc": type(e).__name__, "msg": str(e)[:200]})
    return {"results": out}


@safe_judge
def judge_rsd(R, it, res, ans):
    P = it["P"]
    n, m = len(P), len(P[0])
    fixer = 0 if it["zero"] else 1
    cfg = {"zero_indexed": it["zero"], "dtype": it["dtype"], "seed": it["seed"]}
    inp = {"P": P}
    if "exc" in res or "hang" in res:
        R.violation("property_violation", "returns without error", ENTRY_RSD, inp, impl_output=res, oracle="raised/hang", config=cfg)
        return
    alloc = [None if a is None else a - fixer for a in res["alloc"]]
    errs = []
    items = [a for a in alloc if a is not None]
    if len(set(items)) != len(items):
        errs.append("an item is given to two agents")
    if any(a is not None and (not 0 <= a < m or P[i][a] is None) for i, a in enumerate(alloc)):
        errs.append("an agent received an item it marked unacceptable")
    order = res["orders"][0] if len(res["orders"]) == 1 else None
    if order is None:
        # the picking order was not observable: reconstruct one from the precedence 'owners of better items come first'
        order = reconstruct_order(P, alloc)
        if order is None:
            errs.append("no picking order explains the allocation")
    if not errs:
        want = serial(P, order)
        if want != alloc:
            errs.append("allocation is not the serial-dictatorship outcome for the drawn picking order")
    if errs:
        R.violation("property_violation", "valid allocation explained by a picking order", ENTRY_RSD, inp, impl_output={"alloc": res["alloc"], "order": order},
                    oracle=errs, config=cfg)
        return
    exp = "ok " + " ".join("x" if a is None else str(a) for a in alloc)
    if ans != exp:
        R.corr_break("allocation = model rsd(P, recorded order)", ENTRY_RSD, inp, {"alloc": res["alloc"], "order": order}, ans, cfg)
    contested = any(P[i][alloc[i]] != 1 for i in range(n) if alloc[i] is not None) or any(a is None for a in alloc)
    R.case(nontrivial_key=json.dumps([P, order]) if contested else None,
           sample={"P": P, "order": order, "impl_alloc": res["alloc"], "config": cfg, "model": ans} if contested else None)
    R.count(f"rsd:{it['dtype']}")
    R.count("rsd:incomplete" if any(v is None for row in P for v in row) else "rsd:complete")


def serial(P, order):
    n, m = len(P), len(P[0])
    taken = set()
    alloc = [None] * n
    for a in order:
        best = None
        for j in range(m):
            if P[a][j] is not None and j not in taken and (best is None or P[a][j] < P[a][best]):
                best = j
        if best is not None:
            alloc[a] = best
            taken.add(best)
    return alloc


def reconstruct_order(P, alloc):
    import itertools
    n = len(P)
    if n > 7:
        return None
    for order in itertools.permutations(range(n)):
        if serial(P, list(order)) == alloc:
            return list(order)
    return None


@safe_judge
def judge_eat(R, it, res, ans):
    P = it["P"]
    n = len(P)
    fixer = 0 if it["zero"] else 1
    cfg = {"zero_indexed": it["zero"], "dtype": it["dtype"], "seed": it["seed"], "probabilistic_serial": it["ps"]}
    inp = {"P": P, "speeds": it["speeds"]}
    if it.get("pre_speeds"):
        inp["pre_speeds"] = it["pre_speeds"]
    incomplete = any(v is None for row in P for v in row)
    if "exc" in res or "hang" in res:
        R.violation("property_violation", "returns without error", ENTRY_EAT, inp, impl_output=res, oracle="raised/hang", config=cfg)
        return
    X = [[Fraction(x) for x in row] for row in res["X"]]
    # eating matrix must not give share of an unacceptable item  (known finding when the profile has NaN)
    bad_share = [(i, j) for i in range(n) for j in range(n) if P[i][j] is None and X[i][j] > Fraction(1, 10 ** 12)]
    if bad_share:
        R.violation("property_violation", "no share of an item the agent marked unacceptable", ENTRY_EAT, inp, impl_output=[[float(x) for x in r] for r in X],
                    oracle={"agent_item_with_positive_share": bad_share[:3]}, config=cfg, call_site=ENTRY_BIS,
                    failure_kind="unacceptable_item_positive_share", condition_holds=incomplete)
    if "scf_exc" in res:
        R.violation("property_violation", "the lottery returns without error", ENTRY_EAT, inp, impl_output=res["scf_exc"], oracle="raised", config=cfg)
        return
    alloc = [a - fixer for a in res["alloc"]]
    errs = []
    if sorted(alloc) != list(range(n)):
        errs.append("an item is given to two agents / not an allocation of the n items")
    unacc = [(i, alloc[i]) for i in range(n) if 0 <= alloc[i] < n and P[i][alloc[i]] is None]
    if unacc:
        R.violation("property_violation", "no agent receives an item it marked unacceptable", ENTRY_EAT, inp, impl_output=res["alloc"],
                    oracle={"agent_item": unacc[:3]}, config=cfg, call_site=ENTRY_EAT, failure_kind="unacceptable_item_allocated",
                    condition_holds=incomplete)
        if not incomplete:
            return
    if not errs and any(X[i][alloc[i]] <= 0 for i in range(n)):
        errs.append("an agent received an item with zero probability in the implementation's own eating matrix")
    # exact eating process (Lean model): `eat` for complete profiles, the mirror `eatInc` (what the code really does when it walks
    # into NaN-ranked items; C07_eatInc_eq_complete, C07_incomplete_counterexample) for incomplete ones
    if not errs:
        t = ans.split()
        if t[0] == "ok":
            M = [[Fraction(t[1 + i * n + j]) for j in range(n)] for i in range(n)]
            zero_prob = [(i, alloc[i]) for i in range(n) if M[i][alloc[i]] == 0]
            if zero_prob:
                errs.append(f"agent/item {zero_prob[:2]} has probability exactly 0 in the eating process")
            if incomplete:
                R.count("eat:incomplete_profile_vs_mirror_eatInc")
                worst = max(abs(X[i][j] - M[i][j]) for i in range(n) for j in range(n))
                model_bad = sorted((i, j) for i in range(n) for j in range(n) if P[i][j] is None and M[i][j] > 0)
                if worst > Fraction(1, 10 ** 7) or model_bad != sorted(bad_share):
                    # the recorded known finding has exactly the shape the mirror predicts; anything else is new
                    R.corr_break("bistochastic on an incomplete profile = the mirror Eat.eatInc (entrywise 1e-7; unacceptable shares exactly where the mirror has them)",
                                 ENTRY_BIS, inp, [[float(x) for x in r] for r in X], ans, cfg)
        else:
            R.corr_break("exact eating model defined", ENTRY_EAT, inp, None, ans, cfg)
    # the draw: probabilities proportional to the decomposition coefficients, returned allocation = drawn permutation
    ch = res["choice"]
    if not errs:
        if len(ch) != 1 or ch[0]["p"] is None:
            R.corr_break("exactly one draw with an explicit probability vector is observed", ENTRY_EAT, inp, ch, None, cfg)
        else:
            z = res["dec_z"]
            p = ch[0]["p"]
            tot = sum(z)
            if len(p) != len(z) or any(abs(a - b / tot) > 1e-9 for a, b in zip(p, z)):
                errs.append("draw probabilities are not proportional to the decomposition coefficients")
            else:
                k = ch[0]["r"][0]
                if not (0 <= k < len(z)) or res["dec_perm"][k] != alloc:
                    errs.append("returned allocation is not the drawn permutation")
    if errs:
        R.violation("property_violation", "lottery returns a permutation inside the support of the eating matrix, drawn with the decomposition's probabilities",
                    ENTRY_EAT, inp, impl_output={"alloc": res.get("alloc"), "choice": ch[:1]}, oracle=errs, config=cfg)
        return
    R.case(nontrivial_key=json.dumps([P, it["speeds"], it["seed"]]) if len(res["dec_z"]) >= 2 else None,
           sample={"P": P, "speeds": it["speeds"], "impl_alloc": res["alloc"], "draw": ch[:1], "config": cfg} if len(res["dec_z"]) >= 2 else None)
    R.count("lottery:ps" if it["ps"] else "lottery:se")
    R.count("lottery:incomplete_profile" if incomplete else "lottery:complete_profile")


def run(R):
    R.rule = ("RSD: strict profiles n x m (n != m allowed), complete and incomplete, int32/int64/float64, both index conventions, several seeds; the "
              "shuffled picking order is recorded by wrapping numpy.random.shuffle and replayed through the Lean model. Lottery: PS / simultaneous "
              "eating on complete n x n profiles (plus incomplete ones, which hit the recorded known finding), numpy.random.choice wrapped; the "
              "allocation must be a permutation with positive exact eating probability. Non-trivial = contested RSD instance / decomposition "
              "with >= 2 permutations.")
    R.assumptions = ["random draws are observed by seeding and wrapping numpy.random.shuffle / choice"]
    rsd_items = []
    cnt = 8000 if R.thorough else 300
    for t in range(cnt):
        n = R.rng.randint(1, 7)
        m = R.rng.randint(1, 7)
        pn = R.rng.choice([0, 0, .3, .6])
        P = gslib.rand_profile(R.rng, n, m, pn)
        if all(v is None for row in P for v in row):
            continue
        complete = all(v is not None for row in P for v in row)
        dtype = R.rng.choice(["int32", "int64", "float64"]) if complete else "float64"
        rsd_items.append({"P": P, "dtype": dtype, "zero": R.rng.random() < 0.5, "seed": R.rng.randrange(10 ** 6)})
    cases = [{"items": ch} for ch in chunks(rsd_items, 40)]
    results = pmap("c07", "impl_rsd", cases, deadline=60.0)
    flat = []
    for case, res in zip(cases, results):
        flat += res["results"] if "results" in res else [{"hang": True}] * len(case["items"])
    lines, idx = [], []
    for i, (it, r) in enumerate(zip(rsd_items, flat)):
        if "orders" in r and len(r["orders"]) == 1:
            P = it["P"]
            lines.append(" ".join(["rsd", str(len(P)), str(len(P[0]))] + [optn(v) for row in P for v in row] + [str(len(r["orders"][0]))] + [str(x) for x in r["orders"][0]]))
            idx.append(i)
    ans = dict(zip(idx, lean_query(lines)))
    for i, (it, r) in enumerate(zip(rsd_items, flat)):
        judge_rsd(R, it, r, ans.get(i, "err no-order"))
    eat_items = []
    cnt2 = 3000 if R.thorough else 400
    for t in range(cnt2):
        n = R.rng.randint(1, 6)
        big = (t % 4 == 2)
        if big:
            n = R.rng.randint(7, 8)     # more eating steps: the rounding residue of the repeated subtractions grows with the number of agents
            R.count("eat:7_or_8_agents")
        if R.rng.random() < 0.2 and n >= 2 and not big:
            P = gslib.rand_profile(R.rng, n, n, 0.3)
            if all(v is None for row in P for v in row):
                continue
            dtype = "float64"
        else:
            P = V.rand_profile(R.rng, n, n)
            dtype = R.rng.choice(["int64", "float64", "int32"])
        ps = R.rng.random() < 0.5
        speeds = ["1"] * n if ps else [R.rng.choice(["1", "2", "1/2", "3"]) for _ in range(n)]
        item = {"P": P, "dtype": dtype, "zero": R.rng.random() < 0.5, "seed": R.rng.randrange(10 ** 6), "ps": ps, "speeds": speeds}
        if not ps and n >= 2 and R.rng.random() < 0.4:
            item["pre_speeds"] = [R.rng.choice(["1", "2", "1/2", "3", "5"]) for _ in range(n)]
            R.count("eat:same_object_same_profile_other_speeds_first")
        eat_items.append(item)
    cases = [{"items": ch} for ch in chunks(eat_items, 10)]
    results = pmap("c07", "impl_eat", cases, deadline=120.0)
    flat = []
    for case, res in zip(cases, results):
        flat += res["results"] if "results" in res else [{"hang": True}] * len(case["items"])
    lines, idx = [], []
    for i, it in enumerate(eat_items):
        n = len(it["P"])
        if all(v is not None for row in it["P"] for v in row):
            lines.append(" ".join(["eat", str(n)] + [str(v) for row in it["P"] for v in row] + it["speeds"]))
        else:
            lines.append(" ".join(["eatinc", str(n)] + [optn(v) for row in it["P"] for v in row] + it["speeds"]))
        idx.append(i)
    ans = dict(zip(idx, lean_query(lines)))
    for i, (it, r) in enumerate(zip(eat_items, flat)):
        judge_eat(R, it, r, ans.get(i, "err incomplete"))


def replay(R, rep):
    inp, cfg = rep["input"], rep.get("config", {})
    if rep["entry_point"] == ENTRY_RSD:
        it = {"P": inp["P"], "dtype": cfg.get("dtype", "float64"), "zero": cfg.get("zero_indexed", False), "seed": cfg.get("seed", 0)}
        r = pmap("c07", "impl_rsd", [{"items": [it]}], deadline=30.0)[0]["results"][0]
        P = it["P"]
        a = "err no-order"
        if "orders" in r and len(r["orders"]) == 1:
            a = lean_query([" ".join(["rsd", str(len(P)), str(len(P[0]))] + [optn(v) for row in P for v in row] + [str(len(r["orders"][0]))] + [str(x) for x in r["orders"][0]])])[0]
        judge_rsd(R, it, r, a)
    else:
        it = {"P": inp["P"], "dtype": cfg.get("dtype", "float64"), "zero": cfg.get("zero_indexed", False), "seed": cfg.get("seed", 0),
              "ps": cfg.get("probabilistic_serial", False), "speeds": inp["speeds"], "pre_speeds": inp.get("pre_speeds")}
        r = pmap("c07", "impl_eat", [{"items": [it]}], deadline=60.0)[0]["results"][0]
        n = len(it["P"])
        a = "err incomplete"
        if all(v is not None for row in it["P"] for v in row):
            a = lean_query([" ".join(["eat", str(n)] + [str(v) for row in it["P"] for v in row] + it["speeds"])])[0]
        else:
            a = lean_query([" ".join(["eatinc", str(n)] + [optn(v) for row in it["P"] for v in row] + it["speeds"])])[0]
        judge_eat(R, it, r, a)
