"""Input-validation ("glue") correspondence: the library's own validators and parameter checks against the Lean model
`Sck/Model/Validate.lean` (ops `v_*`, theorems `C20_*` in `Sck/Props/C20Validate.lean`).

Generated from the validation script of Lean package L1 (tools/validate/L1_validate_validate.py): the builders of op lines, the map
from exception messages to the model's error tokens, and the generators of valid and malformed arguments.  `build_cases` runs
on the implementation side (inside a worker process: the op lines are built from the very numpy arrays handed to the code) and
returns, per case, the op line, the real verdict, and -- for arrays -- the group of encodings (int32 / int64 / float64) that
hold the same numbers, which is what property C20 compares."""
import sys, random, warnings, math
from fractions import Fraction
import numpy as np

# ----------------------------------------------------------------------------------------------------------------
# (f) the functions that build op lines from Python values and map exceptions to tokens  (move these to the harness)
# ----------------------------------------------------------------------------------------------------------------

MESSAGE_TOKEN = {
    "Profile is not in a recognized data format": "format",
    "Profile must be a two-dimensional array": "dim",
    "Profile cannot contain NaN values": "nan",
    "Profile must contain exactly integers from 1 to M": "range",
    "Valuation profile cannot contain NaN values": "vnan",
    "The input array must have integer values": "notint",
    "Matrix is not in a recognized data format": "mformat",
    "Matrix must be a two-dimensional array": "mdim",
    "Matrix must be square": "notsquare",
    "Graph is not in a recognized data format": "gformat",
    "Graph must contain integers as keys": "keys",
    "Graph must contain lists as values": "values",
    "Vertices can only be linked to other vertices": "link",
    "Graph is not bipartite": "notbip",
    "Supplied X and/or Y are not consistent with the keys of the dictionary": "xykeys",
    "Tie breaker is not recognized": "tiebreaker",
    "Invalid lambda": "lambda",
    "Invalid k": "k",
    "k must be greater than 0": "kpos",
    "The resident profile and hospital profile dimensions do not match.": "dims",
    "Invalid high and/or low value(s).": "highlow",
    "Profile must be a StrictProfile for now": "notstrict",
}

def exc_token(e):
    """exception -> error token of the Lean model (None = an exception the model does not know)"""
    if isinstance(e, AssertionError):
        return "assert"
    if isinstance(e, KeyError):
        return "keyerror"
    if isinstance(e, ValueError):
        msg = str(e)
        if msg in MESSAGE_TOKEN:
            return MESSAGE_TOKEN[msg]
        if msg.startswith("zero-size array to reduction operation"):
            return "empty"
    return None

def verdict(f, *args, **kw):
    """run f, return the answer line the driver is expected to print"""
    try:
        with warnings.catch_warnings():
            warnings.simplefilter("ignore")      # RuntimeWarning: All-NaN slice encountered
            f(*args, **kw)
        return "ok"
    except Exception as e:                       # noqa
        t = exc_token(e)
        return f"err {t}" if t is not None else f"UNMAPPED {type(e).__name__}: {e}"

def entry_token(v):
    """one array entry -> exact rational token, NaN -> x.  Infinite entries are outside the model (ValueError)."""
    if isinstance(v, (float, np.floating)):
        if math.isnan(v):
            return "x"
        if math.isinf(v):
            raise ValueError("infinite entry: outside the domain of the Lean model")
        fr = Fraction(float(v))
    else:
        fr = Fraction(int(v))
    return str(fr.numerator) if fr.denominator == 1 else f"{fr.numerator}/{fr.denominator}"

def arg_tokens(a):
    """ARG of the v_* ops: 'x' | '<ndim>' | '2 rows cols entries…'"""
    if not isinstance(a, np.ndarray):
        return "x"
    if a.ndim != 2:
        return str(a.ndim)
    toks = ["2", str(a.shape[0]), str(a.shape[1])]
    toks += [entry_token(v) for v in np.asarray(a).reshape(-1).tolist()]
    return " ".join(toks)

def isint_token(a):
    return "1" if isinstance(a, np.ndarray) and np.issubdtype(a.dtype, np.integer) else "0"

def b(x):
    return "1" if x else "0"

def line_v_check(a, is_complete, is_strict):
    return f"v_check {b(is_complete)} {b(is_strict)} {arg_tokens(a)}"

def line_v_profile(cls, a):
    """cls = one of the 13 classes of profile_utils (the class object)"""
    return f"v_profile {cls.__name__} {isint_token(a)} {arg_tokens(a)}"

def line_v_valuation(a, is_complete):
    return f"v_valuation {b(is_complete)} {arg_tokens(a)}"

def line_v_square(a):
    return f"v_square {arg_tokens(a)}"

def garg_tokens(G):
    """GARG: 'x' | '<nitems> (KEY VAL)*'; KEY = int | x ; VAL = x | '<len> ints…'
    (list elements must be ints -- or floats/bools equal to ints)"""
    if not isinstance(G, dict):
        return "x"
    toks = [str(len(G))]
    for k, v in G.items():
        toks.append(str(int(k)) if isinstance(k, int) else "x")
        if isinstance(v, list):
            toks.append(str(len(v)))
            toks += [str(int(i)) for i in v]
        else:
            toks.append("x")
    return " ".join(toks)

def ints_tokens(l):
    return " ".join([str(len(l))] + [str(int(i)) for i in l])

def line_v_graph(G):
    return f"v_graph {garg_tokens(G)}"

def line_v_bipartite(G, X, Y):
    return f"v_bipartite {garg_tokens(G)} {ints_tokens(X)} {ints_tokens(Y)}"

def line_v_tiebreaker(tb, include_accept):
    """tb must be a non-empty string without blanks"""
    return f"v_tiebreaker {tb} {b(include_accept)}"

def opt_float_token(x):
    return entry_token(float(x))

def staged(ctor, call=None):
    """expected answer of v_param: run the constructor thunk, then the call thunk on its result"""
    try:
        obj = ctor()
    except Exception as e:                       # noqa
        t = exc_token(e)
        return f"err {t} ctor" if t else f"UNMAPPED ctor {type(e).__name__}: {e}"
    if call is None:
        return "ok"
    try:
        with warnings.catch_warnings():
            warnings.simplefilter("ignore")
            call(obj)
    except Exception as e:                       # noqa
        t = exc_token(e)
        return f"err {t} call" if t else f"UNMAPPED call {type(e).__name__}: {e}"
    return "ok"

def line_v_param_prv(tb, lam, m):          return f"v_param prv {tb} {lam} {m}"
def line_v_param_karv(tb, k, m):           return f"v_param karv {tb} {k} {m}"
def line_v_param_tsf(lam, m, is_strict):   return f"v_param tsf {lam} {m} {b(is_strict)}"
def line_v_param_dtsf(l1, l2, s1, s2):     return f"v_param dtsf {l1} {l2} {s1[0]} {s1[1]} {s2[0]} {s2[1]}"
def line_v_param_kapproval(k, tb):         return f"v_param kapproval {k} {tb}"
def line_v_param_gs(rshape, hshape):       return f"v_param gs {rshape[0]} {rshape[1]} {hshape[0]} {hshape[1]}"
def line_v_param_uniform(high, low):       return f"v_param uniform {opt_float_token(high)} {opt_float_token(low)}"

# ----------------------------------------------------------------------------------------------------------------
# random inputs
# ----------------------------------------------------------------------------------------------------------------

def profile_classes():
    from socialchoicekit import profile_utils as pu
    return [pu.Profile, pu.StrictProfile, pu.ProfileWithTies, pu.CompleteProfile, pu.IncompleteProfile,
                   pu.StrictCompleteProfile, pu.StrictIncompleteProfile, pu.CompleteProfileWithTies,
                   pu.IncompleteProfileWithTies, pu.ValuationProfile, pu.CompleteValuationProfile,
                   pu.IncompleteValuationProfile, pu.IntegerValuationProfile]

def random_abstract(rng):
    """abstract 2-D array: (rows, cols, list of rows of Fraction | None)"""
    rows = rng.choice([0, 1, 1, 2, 2, 3, 3, 4, 5])
    cols = rng.choice([0, 1, 1, 2, 2, 3, 3, 4, 5])
    mode = rng.choice(["perm", "perm", "ints", "ints", "nan", "frac", "allnan", "incomplete", "neg", "big", "ties",
                       "perm1", "permk"])
    data = []
    for _ in range(rows):
        if mode == "perm":
            row = list(range(1, cols + 1)); rng.shuffle(row)
        elif mode == "perm1":          # a permutation with one entry damaged
            row = list(range(1, cols + 1)); rng.shuffle(row)
            if cols and rng.random() < 0.4:
                row[rng.randrange(cols)] = rng.choice([0, 1, cols, cols + 1, 2])
        elif mode == "permk":          # permutation of k..k+cols-1
            k = rng.choice([0, 1, 2])
            row = list(range(k, cols + k)); rng.shuffle(row)
        elif mode == "ints":
            row = [rng.randint(0, cols + 1) for _ in range(cols)]
        elif mode == "ties":
            row = [rng.randint(1, max(1, cols)) for _ in range(cols)]
        elif mode == "nan":
            row = [None if rng.random() < 0.3 else rng.randint(1, cols + 1) for _ in range(cols)]
        elif mode == "frac":
            row = [Fraction(rng.randint(0, 2 * cols + 2), rng.choice([1, 2, 4])) for _ in range(cols)]
        elif mode == "allnan":
            row = [None] * cols
        elif mode == "incomplete":     # well-formed strict incomplete row
            k = rng.randint(0, cols)
            pos = rng.sample(range(cols), k)
            row = [None] * cols
            for r, p in enumerate(pos):
                row[p] = r + 1
        elif mode == "neg":
            row = [rng.randint(-3, cols) for _ in range(cols)]
        else:                          # big
            row = [rng.choice([1, cols, 10 ** 6, 2 ** 31 - 1, 2 ** 40]) for _ in range(cols)]
        data.append([None if v is None else Fraction(v) for v in row])
    return rows, cols, data

def encodings(rows, cols, data):
    """all of int32 / int64 / float64 that can hold the abstract array exactly"""
    flat = [v for r in data for v in r]
    out = []
    is_int = all(v is not None and v.denominator == 1 for v in flat)
    if is_int:
        if all(-2 ** 31 <= v < 2 ** 31 for v in flat):
            out.append(("int32", np.array([[int(v) for v in r] for r in data], dtype=np.int32).reshape(rows, cols)))
        out.append(("int64", np.array([[int(v) for v in r] for r in data], dtype=np.int64).reshape(rows, cols)))
    if all(v is None or Fraction(float(v)) == v for v in flat):
        out.append(("float64", np.array([[np.nan if v is None else float(v) for v in r] for r in data],
                                        dtype=np.float64).reshape(rows, cols)))
    return out

def random_graph(rng):
    r = rng.random()
    if r < 0.05:
        return rng.choice([None, [], [(1, [2])], "graph", 7])
    n = rng.choice([0, 1, 2, 3, 3, 4, 5])
    verts = rng.sample(range(0, 8), n)
    G = {}
    for v in verts:
        key = v
        q = rng.random()
        if q < 0.04:
            key = rng.choice([str(v), float(v) + 0.5, np.int64(v), (v,)])
        elif q < 0.08:
            key = bool(v % 2)
        k = rng.randint(0, 3)
        pool = verts if rng.random() < 0.8 else list(range(0, 9))
        val = [rng.choice(pool) for _ in range(k)] if pool else []
        if rng.random() < 0.05:
            val = rng.choice([tuple(val), None, "ab", 3])
        G[key] = val
    return G

def random_xy(rng, G):
    keys = [k for k in G.keys() if isinstance(k, int)] if isinstance(G, dict) else []
    keys = [int(k) for k in keys]
    mode = rng.random()
    if mode < 0.6:
        # a partition of the keys, in random order
        ks = keys[:]; rng.shuffle(ks)
        cut = rng.randint(0, len(ks))
        X, Y = ks[:cut], ks[cut:]
        if rng.random() < 0.2 and X:
            Y = Y + [rng.choice(X)]
        if rng.random() < 0.2 and ks:
            X = X + [rng.choice(ks)]
    elif mode < 0.8:
        # try a real bipartition: BFS colouring
        X = [k for k in keys if k % 2 == 0]; Y = [k for k in keys if k % 2 == 1]
    else:
        X = [rng.randint(0, 8) for _ in range(rng.randint(0, 3))]
        Y = [rng.randint(0, 8) for _ in range(rng.randint(0, 3))]
    return X, Y

def cyc_profile(n, m, dtype=np.int64):
    """a valid strict complete n x m profile"""
    return np.array([[(i + j) % m + 1 for j in range(m)] for i in range(n)], dtype=dtype).reshape(n, m)

def build_cases(seed, n_arrays=150, n_graphs=150, n_params=60):
    from socialchoicekit import utils, profile_utils as pu
    from socialchoicekit.elicitation_voting import LambdaPRV, KARV
    from socialchoicekit.elicitation_allocation import LambdaTSF
    from socialchoicekit.elicitation_matching import DoubleLambdaTSF
    from socialchoicekit.elicitation_utils import ValuationProfileElicitor, IntegerValuationProfileElicitor
    from socialchoicekit.deterministic_scoring import KApproval
    from socialchoicekit.deterministic_matching import GaleShapley
    from socialchoicekit.data_generation import UniformValuationProfileGenerator
    PROFILE_CLASSES = profile_classes()
    rng = random.Random(seed)
    np.random.seed(seed % (2 ** 32))
    cases = []   # (line, expected, group-key, encoding)

    def add(line, expected, key=None, enc=None):
        cases.append((line, expected, key, enc))

    def array_ops(a, key, enc):
        for c in (True, False):
            for s in (True, False):
                add(line_v_check(a, c, s), verdict(utils.check_profile, a, c, s), (key, "check", c, s), enc)
            add(line_v_valuation(a, c), verdict(utils.check_valuation_profile, a, c), (key, "val", c), enc)
        add(line_v_square(a), verdict(utils.check_square_matrix, a), (key, "sq"), enc)
        for cls in PROFILE_CLASSES:
            # IntegerValuationProfile.of depends on the dtype BY DESIGN: not part of the int-vs-float comparison
            k = None if cls is pu.IntegerValuationProfile else (key, "of", cls.__name__)
            add(line_v_profile(cls, a), verdict(cls.of, a), k, enc)

    # --- arrays -------------------------------------------------------------------------------------------------
    for idx in range(n_arrays):
        rows, cols, data = random_abstract(rng)
        for enc, a in encodings(rows, cols, data):
            array_ops(a, ("arr", idx), enc)
    # not arrays / wrong ndim
    others = [None, [[1, 2], [2, 1]], [], (1, 2), "profile", 3, 2.5,
              np.array(1), np.array(1.0), np.array([1, 2, 3]), np.array([1.0, np.nan]), np.zeros((0,)),
              np.ones((1, 1, 1)), np.ones((2, 2, 2), dtype=np.int32), np.zeros((0, 2, 2)), np.ones((1, 1, 1, 1))]
    for j, a in enumerate(others):
        array_ops(a, ("other", j), "n/a")

    # --- graphs -------------------------------------------------------------------------------------------------
    for _ in range(n_graphs):
        G = random_graph(rng)
        add(line_v_graph(G), verdict(utils.check_graph, G))
        X, Y = random_xy(rng, G)
        add(line_v_bipartite(G, X, Y), verdict(utils.check_bipartite_graph, G, X, Y))
    # the documented accepted non-bipartite graph (triangle)
    K3 = {1: [2, 3], 2: [1, 3], 3: [1, 2]}
    add(line_v_bipartite(K3, [1], [2, 3]), verdict(utils.check_bipartite_graph, K3, [1], [2, 3]))
    add(line_v_graph({}), verdict(utils.check_graph, {}))

    # --- tie breakers -------------------------------------------------------------------------------------------
    for tb in ["random", "first", "accept", "Accept", "firs", "random_", "none", "x", "0", "lexicographic"]:
        for ia in (True, False):
            add(line_v_tiebreaker(tb, ia), verdict(utils.check_tie_breaker, tb, ia))

    # --- parameters ---------------------------------------------------------------------------------------------
    tbs = ["first", "first", "accept", "random", "bogus"]
    for _ in range(n_params):
        tb = rng.choice(tbs); lam = rng.randint(-2, 6); n = rng.randint(1, 4); m = rng.randint(1, 5)
        P = pu.StrictCompleteProfile.of(cyc_profile(n, m))
        V = pu.ValuationProfile.of((m + 1 - cyc_profile(n, m)).astype(float))
        add(line_v_param_prv(tb, lam, m),
            staged(lambda: LambdaPRV(lam, tb), lambda o: o.score(P, ValuationProfileElicitor(V))))
        add(line_v_param_karv(tb, lam, m),
            staged(lambda: KARV(lam, tb), lambda o: o.get_simulated_cardinal_profile(P, ValuationProfileElicitor(V))))
        strict = rng.random() < 0.7
        Pt = pu.StrictProfile.of(cyc_profile(n, m).astype(float)) if strict else \
            rng.choice([pu.CompleteProfile.of, pu.Profile.of, lambda a: a])(cyc_profile(n, m).astype(float))
        add(line_v_param_tsf(lam, m, strict),
            staged(lambda: LambdaTSF(lam), lambda o: o.get_simulated_cardinal_profile(Pt, ValuationProfileElicitor(V))))
        add(line_v_param_kapproval(lam, tb), staged(lambda: KApproval(lam, tb)))
        # DoubleLambdaTSF
        l2 = rng.randint(-1, 5)
        if rng.random() < 0.6:
            s1 = (n, n); s2 = (n, n)
        else:
            s1 = (n, rng.randint(1, 4)); s2 = (rng.randint(1, 4), rng.randint(1, 4))
        P1 = pu.StrictCompleteProfile.of(cyc_profile(*s1)); P2 = pu.StrictCompleteProfile.of(cyc_profile(*s2))
        V1 = pu.IntegerValuationProfile.of((10 * (s1[1] + 1 - cyc_profile(*s1))).astype(np.int64))
        V2 = pu.IntegerValuationProfile.of((10 * (s2[1] + 1 - cyc_profile(*s2))).astype(np.int64))
        add(line_v_param_dtsf(lam, l2, s1, s2),
            staged(lambda: DoubleLambdaTSF(lam, l2),
                   lambda o: o.get_simulated_cardinal_profiles(P1, P2, IntegerValuationProfileElicitor(V1),
                                                               IntegerValuationProfileElicitor(V2))))
        # GaleShapley dims
        if rng.random() < 0.5:
            rs = (n, m); hs = (m, n)
        else:
            rs = (n, m); hs = (rng.randint(1, 5), rng.randint(1, 4))
        R = pu.StrictProfile.of(cyc_profile(*rs).astype(float)); H = pu.StrictProfile.of(cyc_profile(*hs).astype(float))
        add(line_v_param_gs(rs, hs), staged(lambda: GaleShapley(), lambda o: o.scf(R, H, np.ones(rs[1], dtype=int))))
        # uniform generator
        hi = rng.choice([0.0, 0.5, 1.0, 2.0, -1.0, float("nan"), 1.0]); lo = rng.choice([0.0, 0.5, 1.0, -0.5, float("nan"), 0.0])
        add(line_v_param_uniform(hi, lo), staged(lambda: UniformValuationProfileGenerator(hi, lo)))

    return [{"line": l, "real": e, "key": (None if k is None else repr(k)), "enc": enc,
             "arr": bool(k is not None and k[0][0] == "arr")} for (l, e, k, enc) in cases]
