"""C17 - two-sided lambda-TSF returns a stable matching that is optimal for the simulated values."""
import json
from fractions import Fraction
from harness import smlib as S
from harness.common import pmap, lean_query, guard, fr, safe_judge, persist, persist_rule
from harness.c01 import chunks

LEVEL = "proof"
ENTRY = "socialchoicekit.elicitation_matching.DoubleLambdaTSF.scf"


def thresholds(n, lam):
    """exact rationals of the floats the specification's formula n ** (l/(lambda+1)) evaluates to"""
    return [Fraction(float(n ** (l / (lam + 1)))) for l in range(1, lam + 1)]


@guard
def impl_one(case):
    import numpy as np
    from socialchoicekit.elicitation_matching import DoubleLambdaTSF
    from socialchoicekit.elicitation_utils import IntegerValuationProfileElicitor
    from socialchoicekit.profile_utils import StrictCompleteProfile, IntegerValuationProfile
    dt = np.float64 if case.get("float_ranks") else np.int64
    from harness.common import relayout
    P1 = persist("dtsfP1", relayout(np.array(case["P1"], dtype=dt)), StrictCompleteProfile.of)
    P2 = persist("dtsfP2", relayout(np.array(case["P2"], dtype=dt)), StrictCompleteProfile.of)
    mk = lambda V: IntegerValuationProfileElicitor(IntegerValuationProfile.of(np.array(V, dtype=np.int64)))
    rule = persist_rule(("dtsf", case["lam1"], case["lam2"], case["zero"]), lambda: DoubleLambdaTSF(case["lam1"], case["lam2"], zero_indexed=case["zero"]))
    sim = rule.get_simulated_cardinal_profiles(P1, P2, mk(case["V1"]), mk(case["V2"]))
    out = rule.scf(P1, P2, mk(case["V1"]), mk(case["V2"]))
    res = {"pairs": [[int(a), int(b)] for a, b in out], "S1": [[int(x) for x in row] for row in sim[0]], "S2": [[int(x) for x in row] for row in sim[1]]}
    if case.get("stages"):
        # the internal stages of the stable-matching step (Irving on the simulated values), for the stage-by-stage comparison with the Lean mirror
        try:
            res["stages"], _ = S.irving_stages(case["P1"], case["P2"], res["S1"], res["S2"])
        except Exception as e:  # noqa
            res["stages_exc"] = type(e).__name__ + ": " + str(e)[:150]
    return res


def sim2_lines(P, V, lam):
    n = len(P)
    lams = thresholds(n, lam)
    lines = []
    for i in range(n):
        order = sorted(range(n), key=lambda j: P[i][j])
        vals = [V[i][j] for j in order]
        lines.append(" ".join(["sim2", str(n)] + [str(v) for v in vals] + [str(len(lams))] + [fr(x) for x in lams]))
    return lines


def near_threshold(P, V, lam):
    """is some compared value within 1e-9 relative of a float threshold? (ambiguous for the exact model)"""
    n = len(P)
    for i in range(n):
        v0 = max(V[i])
        for l in thresholds(n, lam):
            thr = Fraction(v0) / l
            for x in V[i]:
                if x != 0 and abs(Fraction(x) - thr) <= Fraction(1, 10 ** 9) * max(1, abs(thr)) and Fraction(x) != thr:
                    return True
    return False


@safe_judge
def judge(R, it, res, cert, lean_cert, sim_ans):
    P1, P2, V1, V2 = it["P1"], it["P2"], it["V1"], it["V2"]
    n = len(P1)
    fixer = 0 if it["zero"] else 1
    inp = {"P1": P1, "P2": P2, "V1": V1, "V2": V2, "lambda_1": it["lam1"], "lambda_2": it["lam2"]}
    cfg = {"zero_indexed": it["zero"], "float_ranks": bool(it.get("float_ranks"))}
    R.count(it["tag"])
    if it.get("float_ranks"):
        R.count("ranks_stored_as_float64")
    if "hang" in res or "exc" in res:
        R.violation("property_violation", "terminates without raising", ENTRY, inp, impl_output=res, oracle="raised/hang", config=cfg)
        return
    mu = [None] * n
    try:
        for a, b in res["pairs"]:
            mu[a - fixer] = b - fixer
    except Exception:
        mu = [None] * n
    if any(x is None for x in mu) or sorted(mu) != list(range(n)):
        R.violation("property_violation", "returns a perfect matching", ENTRY, inp, impl_output=res["pairs"], oracle="not a perfect matching", config=cfg)
        return
    if not S.is_stable(P1, P2, mu):
        R.violation("property_violation", "stable with respect to the two ordinal profiles", ENTRY, inp, impl_output=res["pairs"], oracle="blocking pair", config=cfg)
        return
    S1, S2 = res["S1"], res["S2"]
    w = S.weight(S1, S2, mu)
    better = None
    nst = None
    if n <= 6:
        st = S.all_stable(P1, P2)
        nst = len(st)
        if max(S.weight(S1, S2, s) for s in st) > w:
            better = max(st, key=lambda s: S.weight(S1, S2, s))
    elif cert is not None and cert.get("none") and n <= 8:
        for s in S.all_stable(P1, P2):
            if S.weight(S1, S2, s) > w:
                better = s
                break
    if better is not None:
        R.violation("property_violation", "total simulated value maximal among all stable matchings", ENTRY, inp, impl_output={"pairs": res["pairs"], "S1": S1, "S2": S2},
                    oracle={"impl_value": w, "better_stable_matching": [[a + fixer, b + fixer] for a, b in enumerate(better)], "its_value": S.weight(S1, S2, better)}, config=cfg)
        return
    R.case(nontrivial_key=json.dumps(inp) if (nst or 2) >= 2 and n >= 2 else None,
           sample={"instance": inp, "impl_pairs": res["pairs"], "simulated": [S1, S2], "simulated_value": w, "stable_matchings": nst} if n >= 3 and (nst or 0) >= 2 else None)
    if cert is not None and "alpha" in cert:
        if lean_cert != "ok":
            R.corr_break("smCertOk accepts (instance with simulated values, output, dual certificate)", ENTRY, inp, res["pairs"], lean_cert, cfg)
        else:
            R.count("certified_optimal_by_lean_checker")
    elif cert is not None and cert.get("none"):
        R.corr_break("an LP-dual optimality certificate exists for the output", ENTRY, inp, res["pairs"], "z3: none", cfg)
    # simulated profiles = two-sided model (exact thresholds of the float formula); ambiguous near a threshold
    for side, P, V, Sx, lam, answers in (("1", P1, V1, S1, it["lam1"], sim_ans[0]), ("2", P2, V2, S2, it["lam2"], sim_ans[1])):
        if near_threshold(P, V, lam):
            R.ambiguous += 1
            continue
        for i in range(n):
            order = sorted(range(n), key=lambda j: P[i][j])
            t = answers[i].split()
            if t[0] != "ok" or [Fraction(x) for x in t[1:1 + n]] != [Fraction(Sx[i][j]) for j in order]:
                R.corr_break(f"simulated profile {side} = model simulate2 (positions along the ranking)", ENTRY, inp, Sx[i], answers[i], cfg)
                break


def gen(R, nmax, count):
    items = []
    for t in range(count):
        n = R.rng.randint(1, nmax)
        P1, P2 = S.rand_ranks(R.rng, n), S.rand_ranks(R.rng, n)
        kind = R.rng.choice(["ties_0_3", "wide", "zeros", "strict"])
        if t % 3 == 1 and n >= 3:
            # opposed interests: many rotations, dense rotation posets (uniformly random profiles have one or two rotations)
            P1, P2 = S.opposed_ranks(R.rng, n, R.rng.choice([0.0, 2.0, 4.0]))
            R.count("opposed_interests")
        if t % 6 == 4:
            kind = "huge"
        if kind == "huge":
            # values of the order of 10^9 (every value and every difference fits 32 bits, sums of a few of them do not); one side may be indifferent
            V1 = S.vals_agreeing(R.rng, P1, 0, 2 * 10 ** 9)
            V2 = S.vals_agreeing(R.rng, P2, 0, R.rng.choice([0, 1, 2 * 10 ** 9]))
            if R.rng.random() < 0.5:
                V1, V2 = V2, V1
                V1, V2 = S.vals_agreeing(R.rng, P1, 0, max(max(r) for r in V1)), S.vals_agreeing(R.rng, P2, 0, max(max(r) for r in V2))
        elif kind == "ties_0_3":
            V1, V2 = S.vals_agreeing(R.rng, P1, 0, 3), S.vals_agreeing(R.rng, P2, 0, 3)
        elif kind == "wide":
            V1, V2 = S.vals_agreeing(R.rng, P1, 0, 60), S.vals_agreeing(R.rng, P2, 0, 60)
        elif kind == "zeros":
            V1, V2 = S.vals_agreeing(R.rng, P1, 0, 1), S.vals_agreeing(R.rng, P2, 0, 2)
        else:
            V1, V2 = S.vals_agreeing(R.rng, P1, ties=False), S.vals_agreeing(R.rng, P2, ties=False)
        items.append({"P1": P1, "P2": P2, "V1": V1, "V2": V2, "lam1": R.rng.randint(1, n), "lam2": R.rng.randint(1, n), "zero": R.rng.random() < 0.5, "tag": kind, "float_ranks": R.rng.random() < 0.4})
    return items


def gen_blocks(R, count):
    items = []
    for t in range(count):
        sizes = [R.rng.randint(3, 4) for _ in range(R.rng.randint(3, 4))]
        P1, P2, offs = S.latin_blocks(R.rng, sizes)
        n = len(P1)
        items.append({"P1": P1, "P2": P2, "V1": S.vals_agreeing(R.rng, P1, 0, 9), "V2": S.vals_agreeing(R.rng, P2, 0, 9),
                      "lam1": R.rng.randint(1, n), "lam2": R.rng.randint(1, n), "zero": True, "tag": "latin_blocks"})
    return items


def run_items(R, items):
    for it in items:
        it["stages"] = len(it["P1"]) <= 8 or bool(R.thorough)
    results = pmap("c17", "impl_one", items, deadline=60.0, workers=12)
    # the model's own brute-force optimum over all stable matchings, for the simulated values (which are compared with the
    # model's `simulate2` below): C03_optStable_spec / C17_brute_optimal
    from harness import c03
    bitems, bres = [], []
    for it, r in zip(items, results):
        if isinstance(r, dict) and "pairs" in r and "S1" in r and len(it["P1"]) <= c03.BRUTE_N:
            try:
                bitems.append(dict(it, V1=[[int(x) for x in row] for row in r["S1"]], V2=[[int(x) for x in row] for row in r["S2"]]))
                bres.append(r)
            except Exception:  # noqa
                pass
    c03.brute_compare(R, bitems, bres, entry=ENTRY)
    # the matching step is Irving's algorithm on the simulated values: final answer and every internal stage against the Lean mirror
    mitems, mres = [], []
    for it, r in zip(items, results):
        if isinstance(r, dict) and "pairs" in r and "S1" in r:
            mitems.append(dict(it, V1=r["S1"], V2=r["S2"]))
            mres.append(r)
    c03.mirror_compare(R, mitems, mres, entry=ENTRY)
    need, idx = [], []
    for i, (it, r) in enumerate(zip(items, results)):
        if "pairs" in r:
            n = len(it["P1"])
            fixer = 0 if it["zero"] else 1
            mu = [None] * n
            try:
                for a, b in r["pairs"]:
                    mu[a - fixer] = b - fixer
            except Exception:
                continue
            if all(x is not None for x in mu) and sorted(mu) == list(range(n)) and S.is_stable(it["P1"], it["P2"], mu):
                need.append({"P1": it["P1"], "P2": it["P2"], "V1": r["S1"], "V2": r["S2"], "mu": mu})
                idx.append(i)
    certs = dict(zip(idx, S.z3_certificates(need, timeout_ms=15000)))
    lines, where = [], []
    for i, (it, r) in enumerate(zip(items, results)):
        if "pairs" not in r:
            continue
        c = certs.get(i)
        if c is not None and "alpha" in c:
            nd = need[idx.index(i)]
            lines.append(S.smcert_line(nd["P1"], nd["P2"], nd["V1"], nd["V2"], nd["mu"], c)); where.append((i, "cert"))
        n_ = len(it["P1"])
        l1, l2 = thresholds(n_, it["lam1"]), thresholds(n_, it["lam2"])
        lines.append(" ".join(["dtsf", str(n_)] + [str(v) for M_ in (it["P1"], it["P2"], it["V1"], it["V2"]) for row in M_ for v in row] +
                              [str(len(l1))] + [fr(x) for x in l1] + [str(len(l2))] + [fr(x) for x in l2]))
        where.append((i, "dtsf"))
        for l in sim2_lines(it["P1"], it["V1"], it["lam1"]):
            lines.append(l); where.append((i, "s1"))
        for l in sim2_lines(it["P2"], it["V2"], it["lam2"]):
            lines.append(l); where.append((i, "s2"))
    ans = lean_query(lines)
    per = {}
    for (i, k), a in zip(where, ans):
        per.setdefault(i, {}).setdefault(k, []).append(a)
    for i, (it, r) in enumerate(zip(items, results)):
        p = per.get(i, {})
        judge(R, it, r, certs.get(i), (p.get("cert") or [None])[0], (p.get("s1", []), p.get("s2", [])))
        if "pairs" in r and p.get("dtsf") and not (near_threshold(it["P1"], it["V1"], it["lam1"]) or near_threshold(it["P2"], it["V2"], it["lam2"])):
            fixer = 0 if it["zero"] else 1
            try:
                mine = sorted((a - fixer, b - fixer) for a, b in r["pairs"])
                exp = " ".join(["ok", str(len(mine))] + ["%d %d" % e for e in mine])
            except Exception:
                exp = "uninterpretable"
            if p["dtsf"][0] != exp:
                R.corr_break("DoubleLambdaTSF.scf answer = end-to-end Lean model (two-sided fill + Irving mirror)", ENTRY,
                             {"P1": it["P1"], "P2": it["P2"], "V1": it["V1"], "V2": it["V2"], "lambda_1": it["lam1"], "lambda_2": it["lam2"]},
                             r["pairs"], p["dtsf"][0], {"zero_indexed": it["zero"]})
            else:
                R.count("end_to_end_model_answer_equal")


def run(R):
    R.rule = ("pairs of strict complete n x n profiles with consistent non-negative integer valuations (tie-heavy 0..3, 0/1 with zeros, wide, "
              "strictly decreasing), all (lambda_1, lambda_2) in 1..n drawn uniformly, n<=6 quick / <=8 thorough plus Latin-block compositions; "
              "stability by direct check, optimality for the simulated values by brute force (n<=6) and by a z3 dual certificate checked by the "
              "Lean smCertOk; simulated profiles compared with the Lean two-sided fill. Ambiguous = a value within 1e-9 of a float threshold.")
    R.rule += (" A third of the random instances have opposed interests (many rotations), a sixth have values up to 2e9; the corpus (past failing inputs) runs first; "
               "the final answer and, for n <= 8 (always in the thorough tier), every internal stage of the Irving step on the simulated values are compared with the Lean mirror.")
    R.assumptions = ["thresholds are the exact rationals of float(n ** (l/(lambda+1)))",
                     "the z3 dual certificate is only a certificate producer: it is checked by the Lean smCertOk"]
    import os
    from harness.common import VERIF
    path = os.path.join(VERIF, "corpus", "C17.jsonl")
    items = [dict(json.loads(l), tag="corpus") for l in open(path) if l.strip()] if os.path.exists(path) else []
    for it in items:
        it.pop("note", None)
    items += gen(R, 8 if R.thorough else 6, 3000 if R.thorough else 600)
    items += gen_blocks(R, 200 if R.thorough else 16)
    # the maximum-weight-closed-subset stage of the pipeline, driven directly on random rotation posets (as in C03's check)
    from harness import c03
    c03.run_closed(R, [c03.gen_poset(R) for _ in range(2000 if R.thorough else 250)])
    run_items(R, items)


def replay(R, rep):
    i = rep["input"]
    run_items(R, [{"P1": i["P1"], "P2": i["P2"], "V1": i["V1"], "V2": i["V2"], "lam1": i["lambda_1"], "lam2": i["lambda_2"],
                   "zero": rep.get("config", {}).get("zero_indexed", True), "float_ranks": rep.get("config", {}).get("float_ranks", False), "tag": "replay"}])
