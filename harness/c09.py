"""C09 - the bipartite matching routine returns a maximum matching."""
import itertools, json, os
from harness import flowlib
from harness.common import pmap, lean_query, guard, VERIF, safe_judge, pmap_singles
from harness.c01 import chunks

LEVEL = "proof"
ENTRY = "socialchoicekit.flow.maximum_cardinality_matching_bipartite"


@guard
def impl_batch(case):
    out = []
    for b in case["graphs"]:
        try:
            out.append({"M": flowlib.call_mcm(b)})
        except Exception as e:  # noqa
            out.append({"exc": type(e).__name__, "msg": str(e)[:200]})
    return {"results": out}


@guard
def impl_bulk(case):
    """volume stage: many sparse near-square graphs (left degrees 1..3), where a maximum matching needs long augmenting paths through
    vertices that earlier searches explored and abandoned; the worker compares with the independent Kuhn matcher and returns ONLY the
    graphs on which the implementation's answer is not a matching of that size - those are then judged (Lean model included) like any
    other case, so this stage can add cases to the judged set but never a verdict of its own"""
    import random
    rng = random.Random(case["seed"])
    sus, sizes = [], {}
    for _ in range(case["count"]):
        n = rng.randint(case["lo"], case["hi"])
        g = flowlib.rand_bip(rng, n, max(1, n + rng.choice([-1, 0, 0, 1])), .5, rng.random() < 0.5, labels="plain" if rng.random() < 0.8 else "random")
        Y = g["Y"]
        for x in g["X"]:
            g["adj"][str(x)] = rng.sample(Y, min(len(Y), rng.randint(1, 3)))
        sizes[n] = sizes.get(n, 0) + 1
        try:
            M = [tuple(p) for p in flowlib.call_mcm(g)]
            ok = not flowlib.check_matching(g, M)
        except Exception:
            ok = False
        if not ok and len(sus) < 5:
            sus.append(g)
    return {"suspects": sus, "sizes": sizes}


def run_bulk(R, total, lo, hi, jobs=16):
    js = [{"seed": R.rng.randrange(10 ** 9), "count": total // jobs, "lo": lo, "hi": hi} for _ in range(jobs)]
    rs = pmap("c09", "impl_bulk", js, deadline=120.0)
    sus = []
    for j, r in zip(js, rs):
        if isinstance(r, dict) and "suspects" in r:
            sus += r["suspects"]
            for n, c in r["sizes"].items():
                R.count(f"bulk_prefilter:{n}", c)
        else:
            R.count("bulk_prefilter_worker_lost")
    if sus:
        run_batch(R, sus[:12], "bulk", 60.0)


def gen_random(R, count, nmax):
    gs = []
    for t in range(count):
        nx = R.rng.randint(1, nmax)
        ny = R.rng.randint(1, nmax)
        if t % 50 == 17:
            nx = 0 if R.rng.random() < 0.5 else nx       # one side may be empty (only isolated vertices on the other): the matching is empty
            ny = 0 if nx else ny
        if t % 3 == 0:
            nx, ny = R.rng.randint(max(1, nmax - 3), nmax), R.rng.randint(max(1, nmax - 3), nmax)      # the larger graphs more often
        dens = R.rng.choice([0.1, 0.3, 0.6, 0.9])
        g = flowlib.rand_bip(R.rng, nx, ny, dens, R.rng.random() < 0.5, labels="plain" if R.rng.random() < 0.7 else "random")
        if t % 4 == 3 and len(g["Y"]) >= 2:
            # every left vertex has exactly two neighbours and the sides are (nearly) equal: maximum matchings need augmenting paths that
            # cancel earlier choices (an edge is used, given back and possibly used again)
            Y = g["Y"]
            for x in g["X"]:
                g["adj"][str(x)] = R.rng.sample(Y, 2)
        gs.append(g)
    return gs


def gen_exhaustive():
    for nx in (1, 2, 3):
        for ny in (1, 2, 3):
            X = list(range(nx))
            Y = list(range(nx, nx + ny))
            pairs = [(x, y) for x in X for y in Y]
            for mask in range(1 << len(pairs)):
                adj = {str(x): [] for x in X}
                for k, (x, y) in enumerate(pairs):
                    if mask >> k & 1:
                        adj[str(x)].append(y)
                for und in (False, True):
                    yield {"X": X, "Y": Y, "adj": adj, "undirected": und}


@safe_judge
def judge(R, b, res, mcm_ans, cert_ans, tag):
    if "hang" in res:
        R.violation("property_violation", "termination", ENTRY, b, impl_output="no result within deadline", oracle="non-termination")
        return
    if "exc" in res:
        small = shrink(b, lambda g: _raises(g))
        R.violation("property_violation", "total (no exception on a valid bipartite graph)", ENTRY, small, impl_output=res,
                    oracle="raised " + res["exc"], minimised_from=b)
        return
    M = [tuple(p) for p in res["M"]]
    errs = flowlib.check_matching(b, M)
    size, _ = flowlib.max_matching_size(b)
    isolated = any(len(b["adj"][str(x)]) == 0 for x in b["X"])
    nontriv = size >= 2 or isolated
    R.case(nontrivial_key=json.dumps(b, sort_keys=True) if nontriv else None,
           sample={"graph": b, "impl_matching": res["M"], "model": mcm_ans} if nontriv and size >= 2 else None)
    R.count(f"{tag}:{len(b['X'])}+{len(b['Y'])}")
    R.count("undirected" if b["undirected"] else "directed")
    if isolated:
        R.count("isolated_left_vertex")
    if errs:
        small = shrink(b, lambda g: bool(flowlib.check_matching(g, [tuple(p) for p in flowlib.call_mcm(g)])))
        R.violation("property_violation", "a matching of the graph of maximum size", ENTRY, small,
                    impl_output=_safe(small), model_output=mcm_ans, oracle=errs, minimised_from=b)
        return
    t = mcm_ans.split()
    if t[0] != "ok" or int(t[1]) != len(M):
        R.corr_break("matching size = model's mcm size", ENTRY, b, res["M"], mcm_ans)
    if cert_ans is not None and cert_ans != "ok":
        R.corr_break("koenigCertOk accepts (implementation matching, Koenig cover derived from it)", ENTRY, b, res["M"], cert_ans)


def _raises(g):
    try:
        flowlib.call_mcm(g)
        return False
    except Exception:
        return True


def _safe(g):
    try:
        return flowlib.call_mcm(g)
    except Exception as e:  # noqa
        return repr(e)


def shrink(b, fails):
    cur = json.loads(json.dumps(b))
    changed = True
    while changed:
        changed = False
        cands = []
        for x in cur["X"]:
            for y in cur["adj"][str(x)]:
                c = json.loads(json.dumps(cur))
                c["adj"][str(x)].remove(y)
                cands.append(c)
        if len(cur["X"]) > 1:
            for x in cur["X"]:
                c = json.loads(json.dumps(cur))
                c["X"].remove(x)
                del c["adj"][str(x)]
                cands.append(c)
        if len(cur["Y"]) > 1:
            for y in cur["Y"]:
                if all(y not in cur["adj"][str(x)] for x in cur["X"]):
                    c = json.loads(json.dumps(cur))
                    c["Y"].remove(y)
                    cands.append(c)
        for c in cands:
            try:
                if fails(c):
                    cur = c
                    changed = True
                    break
            except Exception:
                continue
    return cur


def run_batch(R, graphs, tag, deadline):
    cases = [{"graphs": ch} for ch in chunks(graphs, 200)]
    results = pmap("c09", "impl_batch", cases, deadline=deadline)
    flat = []
    for case, res in zip(cases, results):
        if "results" not in res:
            singles = pmap_singles("c09", "impl_batch", [{"graphs": [g]} for g in case["graphs"]], deadline=10.0, R=R)
            flat += [s["results"][0] if "results" in s else ({"skipped": True} if "skipped" in s else {"hang": True}) for s in singles]
        else:
            flat += res["results"]
    mcm_ans = lean_query([flowlib.lean_mcm_line(g) for g in graphs])
    cert_lines, idx = [], []
    for i, (g, r) in enumerate(zip(graphs, flat)):
        if "M" in r:
            M = [tuple(p) for p in r["M"]]
            if not flowlib.check_matching(g, M):
                C = flowlib.koenig_cover(g, M)
                if C is not None:
                    cert_lines.append(flowlib.lean_mcmcert_line(g, M, C))
                    idx.append(i)
    cert_ans = dict(zip(idx, lean_query(cert_lines))) if cert_lines else {}
    for i, (g, r) in enumerate(zip(graphs, flat)):
        judge(R, g, r, mcm_ans[i], cert_ans.get(i), tag)
    # the faithful mirror (conversion, the mirrored Ford-Fulkerson Dfs.ffDfs, the read-out loop: C09_mcmMirror_correct) returns the SAME
    # pairs in the same order as the code; WHICH maximum matching is returned is not part of the property, so this is model coverage
    mir = lean_query([" ".join(["mcmmirror"] + flowlib.bip_tokens(g)) for g in graphs])
    for g, r, a in zip(graphs, flat, mir):
        if "M" in r:
            exp = " ".join(["ok", str(len(r["M"]))] + [str(int(v)) for p in r["M"] for v in p])
            R.glue("mirror:maximum_cardinality_matching_bipartite ordered pair list", exp == a, {"graph": g, "real": r["M"], "model": a})


def corpus():
    path = os.path.join(VERIF, "corpus", "C09.jsonl")
    return [json.loads(l) for l in open(path) if l.strip()] if os.path.exists(path) else []


@guard
def impl_helpers(case):
    from harness import helperlib
    return {"cases": helperlib.build_cases(case["seed"], case["which"], case["count"])}


def run_helper_glue(R, which, count, jobs=4):
    """the helper functions around the core (reachable_vertices, flow_across_network, capacity_across_cut / convert_bipartite_graph_to_flow_network,
    positivity_graph) against their Lean mirrors: model coverage outside the property statement, reported as glue (never a verdict)"""
    from harness.common import lean_query
    js = [{"seed": R.rng.randrange(10 ** 6), "which": which, "count": count} for _ in range(jobs)]
    rs = pmap(__name__.split(".")[-1], "impl_helpers", js, deadline=300.0)
    allc = []
    for r in rs:
        if isinstance(r, dict) and "cases" in r:
            allc += r["cases"]
        else:
            R.glue("helpers:" + which, False, {"worker": r})
    for c, a in zip(allc, lean_query([c["line"] for c in allc])):
        R.glue("helpers:" + c["tag"], c["real"] == a, {"line": c["line"][:300], "real": c["real"][:200], "model": a[:200]})


def run(R):
    R.rule = ("random bipartite graphs up to 7+7 (quick) / 10+10 (thorough) vertices at densities .1/.3/.6/.9, directed-from-left and "
              "undirected encodings, isolated vertices on both sides, unequal sides, plain and arbitrary labels; thorough adds ALL graphs "
              "with up to 3+3 vertices in both encodings. A volume stage (48000 / 160000 sparse near-square graphs with 5..12 vertices a side, "
              "left degrees 1..3) is pre-filtered in the workers with the independent Kuhn matcher; only graphs whose answer is not a matching of "
              "that size join the judged set (counted as bulk_prefilter:<n>, not as cases). Non-trivial = maximum matching size >= 2 or an isolated left vertex.")
    R.assumptions = ["independent augmenting-path (Kuhn) matcher is the reference for the maximum size",
                     "Koenig cover computed by the harness from the implementation's matching is only a certificate: it is checked by the Lean koenigCertOk"]
    for c in corpus():
        run_batch(R, [c["graph"]], "corpus", 10.0)
    run_batch(R, gen_random(R, 5000 if R.thorough else 1600, 10 if R.thorough else 7), "random", 120.0)
    run_bulk(R, 160000 if R.thorough else 48000, 5, 12)
    if R.thorough:
        R.exhaustive = True
        run_batch(R, list(gen_exhaustive()), "exhaustive", 300.0)
    run_helper_glue(R, "bip", 600 if R.thorough else 60)


def replay(R, rep):
    run_batch(R, [rep["input"]], "replay", 10.0)
