"""C20 - rules do not modify their inputs and do not depend on the rank dtype.

A pure functional model cannot mutate and has no dtypes, so this property is decided by the correspondence harness alone
(level `other`): every public entry point (enumerated from the modules, so a new one is noticed) is called on random valid
arguments with a bit-exact before/after comparison of all arguments, and every rule that takes a complete profile is run on
the int32 / int64 / float64 encodings of the same profile (identical results, identical exception classes)."""
import copy, inspect, importlib, json, pkgutil
import numpy as np
from harness import votelib as V, gslib, smlib as S, flowlib, eliclib as E
from harness.common import pmap, guard, to_np, fr
from harness.c01 import chunks

LEVEL = "other"
ENTRY = "socialchoicekit (every public entry point)"
MODULES = ["bistochastic", "data_generation", "deterministic_allocation", "deterministic_matching", "deterministic_multiround",
           "deterministic_scoring", "deterministic_tournament", "distortion", "elicitation_allocation", "elicitation_matching",
           "elicitation_utils", "elicitation_voting", "flow", "preflib_utils", "profile_utils", "randomized_allocation",
           "randomized_scoring", "utils"]
# public names that are not rules/utilities on arrays, profiles or graphs (documented exceptions)
EXEMPT = {
    "flow.dfs_path": "internal search step; its `visited` dict is an in/out parameter by contract",
    "deterministic_matching.Irving.find_all_rotations_and_eliminations": "internal step documented to consume its (copied) preference-list dicts",
    "elicitation_utils.SynchronousStdInElicitor": "reads stdin", "elicitation_utils.IntegerSynchronousStdInElicitor": "reads stdin",
    "elicitation_utils.Elicitor": "abstract base", "elicitation_utils.IntegerElicitor": "abstract base",
    "data_generation.BaseValuationProfileGenerator": "abstract base",
    "deterministic_scoring.BaseScoring": "base class (covered through its subclasses)",
    "deterministic_tournament.BaseTournament": "base class (covered through Copeland)",
    "elicitation_voting.BaseElicitationVoting": "base class (covered through KARV / LambdaPRV)",
    "randomized_scoring.BaseRandomizedScoring": "base class (covered through its subclasses)",
}


def public_entry_points():
    """module.function / module.Class.method for everything public that is defined in socialchoicekit"""
    eps = []
    for m in MODULES:
        mod = importlib.import_module("socialchoicekit." + m)
        for name, obj in vars(mod).items():
            if name.startswith("_") or getattr(obj, "__module__", None) != mod.__name__:
                continue
            if inspect.isfunction(obj):
                eps.append(f"{m}.{name}")
            elif inspect.isclass(obj):
                if f"{m}.{name}" in EXEMPT:
                    continue
                for mn, mo in vars(obj).items():
                    if mn.startswith("_"):
                        continue
                    if inspect.isfunction(mo) or isinstance(mo, (staticmethod, classmethod)):
                        eps.append(f"{m}.{name}.{mn}")
    return sorted(set(eps))


# ---- snapshots -------------------------------------------------------------------------------------------
def snap(x):
    """bit-exact, structure-preserving snapshot (arrays together with the arrays they are views of)"""
    if isinstance(x, np.ndarray):
        base = x.base if isinstance(x.base, np.ndarray) else None
        return ("nd", str(x.dtype), x.shape, np.ascontiguousarray(x).view(np.ndarray).tobytes(), snap(base) if base is not None else None)
    if isinstance(x, dict):
        return ("dict", tuple((repr(k), snap(v)) for k, v in x.items()))
    if isinstance(x, (list, tuple)):
        return (type(x).__name__, tuple(snap(v) for v in x))
    if isinstance(x, set):
        return ("set", tuple(sorted(repr(v) for v in x)))
    if isinstance(x, (int, float, str, bool, type(None), np.generic)):
        return ("v", repr(x))
    return ("obj", type(x).__name__)


def canon(x):
    """canonical, dtype-free form of a result for the int/float comparison"""
    if isinstance(x, np.ndarray):
        return ["nd", list(x.shape), [canon(v) for v in x.ravel().tolist()]]
    if isinstance(x, (list, tuple)):
        return [canon(v) for v in x]
    if isinstance(x, dict):
        return {repr(k): canon(v) for k, v in sorted(x.items(), key=lambda kv: repr(kv[0]))}
    if isinstance(x, set):
        return sorted(canon(v) for v in x)
    if isinstance(x, (np.generic,)):
        x = x.item()
    if isinstance(x, float):
        if np.isnan(x):
            return "nan"
        return int(x) if x.is_integer() else x
    if isinstance(x, (int, bool, str, type(None))):
        return x
    return repr(x)


# ---- argument builders (one per registered entry point) ------------------------------------------------------
def build_calls(d, dtype):
    """returns {entry point: (callable, args)} for the instance data `d`; profiles of ranks are stored with `dtype`"""
    from socialchoicekit import (bistochastic as bi, data_generation as dg, deterministic_allocation as da, deterministic_matching as dm,
                                 deterministic_multiround as mr, deterministic_scoring as ds, deterministic_tournament as dt, distortion as di,
                                 elicitation_allocation as ea, elicitation_matching as em, elicitation_utils as eu, elicitation_voting as ev, flow as fl,
                                 profile_utils as pu, randomized_allocation as ra, randomized_scoring as rs, utils as ut)
    n = d["n"]
    P = np.array(d["P"], dtype=dtype)            # square complete strict profile
    P2 = np.array(d["P2"], dtype=dtype)
    Pv = np.array(d["Pv"], dtype=dtype)          # n x m complete strict profile (voting)
    m = Pv.shape[1]
    scp = lambda a: pu.StrictCompleteProfile.of(a)
    vals = np.array(d["vals"], dtype=float)      # consistent with P (square)
    valsv = np.array(d["valsv"], dtype=float)    # consistent with Pv
    V1 = np.array(d["V1"], dtype=np.int64); V2 = np.array(d["V2"], dtype=np.int64)
    ivp = pu.IntegerValuationProfile.of
    vp = lambda a: pu.ValuationProfile.of(a)
    cap = np.ones(n, dtype=int)
    Pinc = to_np(d["Pinc"])
    calls = {}
    seed = d["seed"]

    def seeded(f):
        def g(*a):
            np.random.seed(seed)
            return f(*a)
        return g
    for name, cls, kw in [("Plurality", ds.Plurality, {}), ("Borda", ds.Borda, {}), ("Veto", ds.Veto, {}), ("Harmonic", ds.Harmonic, {}),
                          ("KApproval", ds.KApproval, {"k": d["k"]})]:
        for meth in ("score", "scf", "swf"):
            calls[f"deterministic_scoring.{name}.{meth}"] = (seeded(getattr(cls(tie_breaker="first", **kw), meth)), [scp(Pv)])
    if d.get("bigk"):
        # a large, nearly tied electorate (scores of the order 1e5, leader one point ahead): results must not depend on the rank dtype
        kk, mb = d["bigk"], d["bigm"]
        first = list(range(1, mb + 1))
        second = [2, 1] + list(range(3, mb + 1))
        Pb = np.array([first] * (kk + 1) + [second] * kk, dtype=dtype)
        for name, cls, kw in [("Plurality", ds.Plurality, {}), ("Borda", ds.Borda, {}), ("Veto", ds.Veto, {}), ("KApproval", ds.KApproval, {"k": 1})]:
            for tb in ("accept", "first"):
                calls[f"deterministic_scoring.{name}.scf[large_near_tie,{tb}]"] = (getattr(cls(tie_breaker=tb, **kw), "scf"), [scp(Pb)])
            calls[f"deterministic_scoring.{name}.score[large_near_tie]"] = (getattr(cls(tie_breaker="first", **kw), "score"), [scp(Pb)])
        calls["deterministic_tournament.Copeland.scf[large_near_tie]"] = (dt.Copeland(tie_breaker="accept").scf, [scp(Pb)])
    for meth in ("score", "scf"):
        calls[f"deterministic_scoring.SocialWelfare.{meth}"] = (getattr(ds.SocialWelfare(tie_breaker="accept"), meth), [vp(valsv)])
    for meth in ("score", "scf", "swf"):
        calls[f"deterministic_tournament.Copeland.{meth}"] = (getattr(dt.Copeland(tie_breaker="accept"), meth), [scp(Pv)])
    calls["deterministic_multiround.SingleTransferableVote.scf"] = (mr.SingleTransferableVote(tie_breaker="first").scf, [pu.CompleteProfile.of(Pv)])
    for name, mk in [("RandomizedPlurality", lambda: rs.RandomizedPlurality()), ("RandomizedBorda", lambda: rs.RandomizedBorda()),
                     ("RandomizedVeto", lambda: rs.RandomizedVeto()), ("RandomizedHarmonic", lambda: rs.RandomizedHarmonic()),
                     ("RandomizedKApproval", lambda: rs.RandomizedKApproval(k=d["k"]))]:
        calls[f"randomized_scoring.{name}.scf"] = (seeded(mk().scf), [scp(Pv)])
        calls[f"randomized_scoring.{name}.score"] = (mk().score, [scp(Pv)])
    el = lambda: eu.ValuationProfileElicitor(vp(valsv))
    elq = lambda: eu.ValuationProfileElicitor(vp(vals))
    for meth in ("score", "scf", "get_simulated_cardinal_profile"):
        calls[f"elicitation_voting.KARV.{meth}"] = (getattr(ev.KARV(k=d["k"], tie_breaker="first"), meth), [scp(Pv), el()])
    for meth in ("score", "scf"):
        calls[f"elicitation_voting.LambdaPRV.{meth}"] = (getattr(ev.LambdaPRV(lambda_=d["k"], tie_breaker="first"), meth), [scp(Pv), el()])
    lam = d["lam"]
    Pbig = np.array(d["Pbig"], dtype=dtype)
    valsbig = np.array(d["valsbig"], dtype=float)
    elb = lambda: eu.ValuationProfileElicitor(vp(valsbig))
    for meth in ("scf", "get_simulated_cardinal_profile"):
        calls[f"elicitation_allocation.LambdaTSF.{meth}"] = (getattr(ea.LambdaTSF(lambda_=d["lambig"]), meth), [scp(Pbig), elb()])
        calls[f"elicitation_allocation.MatchTwoQueries.{meth}"] = (getattr(ea.MatchTwoQueries(), meth), [scp(Pbig), elb()])
    ie = lambda Vm: eu.IntegerValuationProfileElicitor(ivp(Vm))
    calls["elicitation_matching.DoubleLambdaTSF.scf"] = (em.DoubleLambdaTSF(lam, d["lam2"]).scf, [scp(P), scp(P2), ie(V1), ie(V2)])
    calls["elicitation_matching.DoubleLambdaTSF.get_simulated_cardinal_profiles"] = (em.DoubleLambdaTSF(lam, d["lam2"]).get_simulated_cardinal_profiles,
                                                                                    [scp(P), scp(P2), ie(V1), ie(V2)])
    calls["deterministic_allocation.MaximumWeightMatching.scf"] = (da.MaximumWeightMatching().scf, [vp(vals)])
    calls["deterministic_allocation.root_n_serial_dictatorship"] = (da.root_n_serial_dictatorship, [scp(Pbig)])
    calls["randomized_allocation.RandomSerialDictatorship.scf"] = (seeded(ra.RandomSerialDictatorship().scf), [scp(P)])
    # rectangular complete profile: more agents than items (the surplus agents get nothing) or fewer
    calls["randomized_allocation.RandomSerialDictatorship.scf[rect]"] = (seeded(ra.RandomSerialDictatorship(zero_indexed=True).scf), [scp(Pv)])
    calls["randomized_allocation.RandomSerialDictatorship.scf[rect,transposed]"] = (seeded(ra.RandomSerialDictatorship().scf), [scp(np.array(d["PvT"], dtype=dtype))])
    speeds = np.array(d["speeds"], dtype=float)
    calls["randomized_allocation.SimultaneousEating.bistochastic"] = (ra.SimultaneousEating().bistochastic, [scp(P), speeds])
    calls["randomized_allocation.SimultaneousEating.scf"] = (seeded(ra.SimultaneousEating().scf), [scp(P), speeds])
    calls["randomized_allocation.ProbabilisticSerial.bistochastic"] = (ra.ProbabilisticSerial().bistochastic, [scp(P)])
    calls["randomized_allocation.ProbabilisticSerial.scf"] = (seeded(ra.ProbabilisticSerial().scf), [scp(P)])
    for ro in (True, False):
        calls[f"deterministic_matching.GaleShapley.scf[{'res' if ro else 'hosp'}]"] = (dm.GaleShapley(resident_oriented=ro).scf, [scp(P), scp(P2), cap])
    irv = dm.Irving(zero_indexed=True)
    calls["deterministic_matching.Irving.scf"] = (irv.scf, [ivp(V1), ivp(V2), scp(P), scp(P2)])
    # Irving's public helper steps on data derived from the same instance
    try:
        sm = dm.GaleShapley(True, True).scf(scp(np.array(d["P"], dtype=np.int64)), scp(np.array(d["P2"], dtype=np.int64)), cap)
        calls["deterministic_matching.Irving.find_initial_preference_lists"] = (dm.Irving.find_initial_preference_lists, [list(sm), P - 1, P2 - 1])
        l1, l2 = dm.Irving.find_initial_preference_lists(sm, np.array(d["P"], dtype=np.int64) - 1, np.array(d["P2"], dtype=np.int64) - 1)
        calls["deterministic_matching.Irving.find_rotations"] = (irv.find_rotations, [dict(l1), dict(l2)])
        rots, elim = irv.find_all_rotations_and_eliminations({i: np.array(l1[i]) for i in range(n)}, {i: np.array(l2[i]) for i in range(n)})
        calls["deterministic_matching.Irving.construct_sparse_rotation_poset_graph"] = (irv.construct_sparse_rotation_poset_graph, [list(rots), dict(l1), dict(elim)])
        Pp = irv.construct_sparse_rotation_poset_graph(rots, l1, elim)
        calls["deterministic_matching.Irving.find_maximum_weight_closed_subset"] = (irv.find_maximum_weight_closed_subset, [Pp, list(rots), ivp(V1), ivp(V2)])
        if rots:
            calls["deterministic_matching.Irving.rotation_weight"] = (dm.Irving.rotation_weight, [list(rots[0]), ivp(V1), ivp(V2)])
            calls["deterministic_matching.Irving.eliminate_rotations"] = (irv.eliminate_rotations, [list(sm), [rots[0]]])
        calls["deterministic_matching.Irving.stable_matching_value"] = (dm.Irving.stable_matching_value, [list(sm), ivp(V1), ivp(V2)])
    except Exception:
        pass
    X = np.array(d["X"], dtype=float)
    calls["bistochastic.birkhoff_von_neumann"] = (bi.birkhoff_von_neumann, [X])
    # the same matrix as an ndarray SUBCLASS (a valuation profile view) and as a Fortran-ordered array
    calls["bistochastic.birkhoff_von_neumann[subclass]"] = (bi.birkhoff_von_neumann, [pu.ValuationProfile.of(np.array(X))])
    calls["bistochastic.birkhoff_von_neumann[fortran]"] = (bi.birkhoff_von_neumann, [np.asfortranarray(np.array(X))])
    calls["bistochastic.positivity_graph"] = (bi.positivity_graph, [X])
    Xres = np.array(X, dtype=float)
    Xres[0, 0] += 1e-17
    Xres[-1, -1] = Xres[-1, -1] if Xres[-1, -1] != 0 else -0.0
    Xres[0, -1] = Xres[0, -1] if Xres[0, -1] != 0 else 3e-17          # rounding residues as a decomposition loop leaves them behind
    for k, (i, j) in enumerate(zip(*np.nonzero(Xres == 0))):
        Xres[i, j] = (-0.0, 3e-17, 0.0)[k % 3]
    calls["bistochastic.positivity_graph[residues]"] = (bi.positivity_graph, [Xres])
    # the same residues (an entry below every tolerance, a negative zero) in the matrix handed to the decomposition: whatever it does with
    # them, the caller's matrix keeps its bits
    calls["bistochastic.birkhoff_von_neumann[residues]"] = (bi.birkhoff_von_neumann, [np.array(Xres)])
    G = {int(k): [tuple(e) for e in v] for k, v in d["net"].items()}
    calls["flow.ford_fulkerson"] = (fl.ford_fulkerson, [G, d["s"], d["t"]])
    calls["flow.reachable_vertices"] = (fl.reachable_vertices, [G, d["s"]])
    calls["flow.capacity_across_cut"] = (fl.capacity_across_cut, [G, {d["s"]}])
    try:
        flow0, _ = fl.ford_fulkerson(copy.deepcopy(G), d["s"], d["t"])
        calls["flow.flow_across_network"] = (fl.flow_across_network, [flow0, -99])
    except Exception:
        pass
    bg = {int(k): list(v) for k, v in d["bip"].items()}
    calls["flow.convert_bipartite_graph_to_flow_network"] = (fl.convert_bipartite_graph_to_flow_network, [bg, list(d["X_"]), list(d["Y_"])])
    calls["flow.maximum_cardinality_matching_bipartite"] = (fl.maximum_cardinality_matching_bipartite, [bg, list(d["X_"]), list(d["Y_"])])
    # vertex lists in decreasing order (the lists belong to the graph argument as much as the dictionary does)
    calls["flow.maximum_cardinality_matching_bipartite[unsorted]"] = (fl.maximum_cardinality_matching_bipartite, [bg, sorted(d["X_"], reverse=True), sorted(d["Y_"], reverse=True)])
    calls["flow.convert_bipartite_graph_to_flow_network[unsorted]"] = (fl.convert_bipartite_graph_to_flow_network, [bg, sorted(d["X_"], reverse=True), sorted(d["Y_"], reverse=True)])
    calls["utils.check_graph"] = (ut.check_graph, [bg])
    calls["utils.check_bipartite_graph"] = (ut.check_bipartite_graph, [bg, list(d["X_"]), list(d["Y_"])])
    calls["utils.check_profile"] = (ut.check_profile, [Pv])
    calls["utils.check_valuation_profile"] = (ut.check_valuation_profile, [valsv])
    calls["utils.check_square_matrix"] = (ut.check_square_matrix, [X])
    calls["utils.check_tie_breaker"] = (ut.check_tie_breaker, ["first"])
    calls["utils.break_tie"] = (seeded(ut.break_tie), [np.array([1, 3, 4]), "random"])
    calls["utils.break_tie[first,unsorted]"] = (ut.break_tie, [np.array([4, 1, 3]), "first"])
    calls["utils.break_tie[accept,unsorted]"] = (ut.break_tie, [np.array([4, 1, 3]), "accept"])
    calls["distortion.distortion"] = (di.distortion, [np.array([1, 2]) if m >= 2 else 1, vp(valsv + 0.5)])
    calls["profile_utils.compute_ordinal_profile"] = (pu.compute_ordinal_profile, [pu.CompleteValuationProfile.of(np.array(d["distinct"], dtype=float))])
    calls["profile_utils.is_consistent_valuation_profile"] = (pu.is_consistent_valuation_profile, [vp(valsv), pu.Profile.of(Pv)])
    calls["profile_utils.incomplete_valuation_profile_to_complete_valuation_profile"] = (pu.incomplete_valuation_profile_to_complete_valuation_profile, [vp(to_np(d["valsnan"]))])
    calls["profile_utils.incomplete_profile_to_complete_profile"] = (seeded(pu.incomplete_profile_to_complete_profile), [pu.StrictIncompleteProfile.of(Pinc), "random"])
    calls["profile_utils.profile_with_ties_to_strict_profile"] = (seeded(pu.profile_with_ties_to_strict_profile), [pu.ProfileWithTies.of(to_np(d["Pties"])), "random"])
    for cname in ["Profile", "StrictProfile", "ProfileWithTies", "CompleteProfile", "IncompleteProfile", "StrictCompleteProfile", "StrictIncompleteProfile",
                  "CompleteProfileWithTies", "IncompleteProfileWithTies"]:
        calls[f"profile_utils.{cname}.of"] = (getattr(pu, cname).of, [Pv])
    # "raises in exactly the same cases": arrays that are NOT valid complete strict profiles (ranks shifted by one; largest rank
    # missing) must be rejected / accepted alike in every storage type
    for tag, bad in (("shifted", np.array(d["Pv"], dtype=dtype) + 1), ("no_top_rank", np.minimum(np.array(d["Pv"], dtype=dtype), max(1, m - 1)))):
        for cname in ["Profile", "StrictProfile", "CompleteProfile", "StrictCompleteProfile"]:
            calls[f"profile_utils.{cname}.of[invalid:{tag}]"] = (getattr(pu, cname).of, [bad])
        calls[f"utils.check_profile[invalid:{tag}]"] = (lambda a: ut.check_profile(a, is_complete=True, is_strict=True), [bad])
    for cname in ["ValuationProfile", "CompleteValuationProfile", "IncompleteValuationProfile"]:
        calls[f"profile_utils.{cname}.of"] = (getattr(pu, cname).of, [valsv])
    calls["profile_utils.IntegerValuationProfile.of"] = (pu.IntegerValuationProfile.of, [V1])
    calls["data_generation.UniformValuationProfileGenerator.generate"] = (dg.UniformValuationProfileGenerator(high=1, low=0, seed=seed).generate, [pu.StrictProfile.of(Pinc)])
    calls["data_generation.NormalValuationProfileGenerator.generate"] = (dg.NormalValuationProfileGenerator(mean=1, variance=1, seed=seed).generate, [pu.StrictProfile.of(Pinc)])
    for cname, mk in [("ValuationProfileElicitor", lambda: eu.ValuationProfileElicitor(vp(vals))),
                      ("IntegerValuationProfileElicitor", lambda: eu.IntegerValuationProfileElicitor(ivp(V1))),
                      ("LambdaElicitor", lambda: eu.LambdaElicitor(lambda a, j: 1.0)), ("IntegerLambdaElicitor", lambda: eu.IntegerLambdaElicitor(lambda a, j: 1.0))]:
        calls[f"elicitation_utils.{cname}.elicit"] = (mk().elicit, [0, 0])
        calls[f"elicitation_utils.{cname}.elicit_multiple"] = (mk().elicit_multiple, [np.arange(n), np.zeros(n, dtype=int)])
    # PrefLib converters
    try:
        from harness import c19
        for kind in c19.KINDS:
            inst = d["pref"][kind]
            calls[f"preflib_utils.preflib_{'categorical' if kind == 'cat' else kind}_to_profile"] = (
                (lambda f, k: (lambda pi: f(pi) if k in ("soc", "soi") else f(pi, tie_breaker="first")))(c19.converter(kind), kind), [c19.parse(inst)])
    except Exception:
        pass
    return calls


# rules whose results must not depend on the rank dtype (complete profiles)
DTYPE_RULES = None


def covered_name(ep):
    return ep.split("[")[0]


@guard
def impl_one(case):
    import warnings
    warnings.filterwarnings("ignore")
    d = case["d"]
    report = {"mutations": [], "dtype": [], "covered": [], "errors": {}}
    base = {}
    for dtype in ("int64", "int32", "float64"):
        calls = build_calls(d, getattr(np, dtype))
        for ep, (f, args) in calls.items():
            before = [snap(a) for a in args]
            try:
                out = ("ok", canon(f(*args)))
            except Exception as e:  # noqa
                out = ("exc", type(e).__name__)
            after = [snap(a) for a in args]
            if dtype == "int64":
                report["covered"].append(covered_name(ep))
                if out[0] == "exc":
                    report["errors"][ep] = out[1]
            for i, (b, a) in enumerate(zip(before, after)):
                if b != a and not (ep.endswith(".elicit") or ep.endswith(".elicit_multiple")):
                    report["mutations"].append({"entry_point": ep, "argument_index": i, "dtype": dtype})
            if dtype == "int64":
                base[ep] = out
            elif base.get(ep) != out:
                report["dtype"].append({"entry_point": ep, "int64": json.dumps(base.get(ep), default=str)[:300], dtype: json.dumps(out, default=str)[:300]})
    report["public"] = public_entry_points()
    return report


def gen_data(R):
    n = R.rng.randint(2, 7)
    m = R.rng.randint(2, 6)
    P = V.rand_profile(R.rng, n, n)
    nb = R.rng.randint(2, 11)
    Pbig = V.rand_profile(R.rng, nb, nb)
    if R.rng.random() < 0.6:
        # near-unanimous rankings: serial-dictatorship style rules push agents far down their lists
        Pbig = [Pbig[0][:] if R.rng.random() < 0.8 else Pbig[i] for i in range(nb)]
    P2 = V.rand_profile(R.rng, n, n)
    Pv = V.rand_profile(R.rng, R.rng.randint(1, 6), m)
    vals = E.gen_vals(R.rng, P, n, R.rng.choice(["unit_sum", "tie_heavy", "integer"]))
    valsv = E.gen_vals(R.rng, Pv, m, R.rng.choice(["unit_sum", "tie_heavy"]))
    for row in valsv:
        row[row.index(max(row))] = max(row) + 0.25
    perms = [list(range(n)) for _ in range(3)]
    for p in perms:
        R.rng.shuffle(p)
    X = [[0.0] * n for _ in range(n)]
    for w, p in zip([0.5, 0.25, 0.25], perms):
        for i in range(n):
            X[i][p[i]] += w
    net = flowlib.rand_net(R.rng, R.rng.randint(2, 6), 0.5, [0, 1, 2, 3])
    G = {str(v): [] for v in net["verts"]}
    for u, v, c in net["edges"]:
        G[str(u)].append([v, c])
    b = flowlib.rand_bip(R.rng, R.rng.randint(1, 4), R.rng.randint(1, 4), 0.5, True)
    bg = flowlib.bip_graph(b)
    Pinc = gslib.rand_profile(R.rng, n, n, 0.3)
    if all(v is None for row in Pinc for v in row):
        Pinc[0][0] = 1
    from harness import c18, c19
    Pties = [c18.rand_ties_row(R.rng, m, 0.2) for _ in range(3)]
    if all(v is None for row in Pties for v in row):
        Pties[0][0] = 1
    pref = {}
    for kind in c19.KINDS:
        while True:
            inst = c19.gen_instance(R)
            if inst["kind"] == kind:
                pref[kind] = inst
                break
    big = {"bigk": R.rng.choice([50000, 100000, 100001]), "bigm": R.rng.choice([2, 2, 3])} if R.rng.random() < 0.15 else {}
    return {**big, "n": n, "P": P, "P2": P2, "Pv": Pv, "PvT": V.rand_profile(R.rng, len(Pv[0]), len(Pv)), "vals": vals, "valsv": valsv, "V1": S.vals_agreeing(R.rng, P, 0, 9), "V2": S.vals_agreeing(R.rng, P2, 0, 9),
            "k": R.rng.randint(1, m), "lam": R.rng.randint(1, n), "lam2": R.rng.randint(1, n), "speeds": [R.rng.choice([1.0, 2.0, 0.5]) for _ in range(n)],
            "X": X, "net": G, "s": net["s"], "t": net["t"], "bip": {str(k): v for k, v in bg.items()}, "X_": b["X"], "Y_": b["Y"], "Pinc": Pinc,
            "Pties": Pties, "distinct": [R.rng.sample(range(100), n) for _ in range(n)],
            "Pbig": Pbig, "valsbig": E.gen_vals(R.rng, Pbig, nb, "unit_sum"), "lambig": R.rng.randint(1, nb),
            "valsnan": [[None if R.rng.random() < 0.3 else x for x in row] for row in vals], "seed": R.rng.randrange(10 ** 6), "pref": pref}


@guard
def impl_validate(case):
    """valid and malformed arguments through the library's validators, in every storage type that can hold them"""
    import warnings
    warnings.filterwarnings("ignore")
    from harness import validatelib
    return {"cases": validatelib.build_cases(case["seed"], case["arrays"], case["graphs"], case["params"])}


def run_validation(R, seeds, arrays, graphs, params):
    """(a) PROPERTY: the verdict of every validator (accept / which error) must be the same for the int32, int64 and float64 encodings of
    the same numbers ("raises in exactly the same cases"); (b) model coverage: the verdict equals the Lean model's (Validate.lean,
    theorems C20_* in Props/C20Validate.lean) -- reported, not a verdict, because a stricter validator would be a harmless change"""
    from harness.common import lean_query
    jobs = [{"seed": s, "arrays": arrays, "graphs": graphs, "params": params} for s in seeds]
    results = pmap("c20", "impl_validate", jobs, deadline=300.0, workers=12)
    allc = []
    for j, r in zip(jobs, results):
        if "cases" not in r:
            R.violation("property_violation", "validators terminate on malformed arguments", ENTRY, j, impl_output=r, oracle="validation stream raised/hang")
            continue
        allc += [dict(c, seed=j["seed"]) for c in r["cases"]]
    answers = lean_query([c["line"] for c in allc])
    groups = {}
    for c, a in zip(allc, answers):
        op = c["line"].split()[0]
        if c["real"].startswith("UNMAPPED"):
            # an exception the model does not know (a new message / class): model coverage, not a verdict
            R.glue("validators:" + op, False, {"line": c["line"][:300], "real": c["real"], "model": a})
        else:
            R.glue("validators:" + op, c["real"] == a, {"line": c["line"][:300], "real": c["real"], "model": a})
        R.count("validation_verdict:" + c["real"].split(" ctor")[0].split(" call")[0][:40])
        if c["arr"] and c["key"] is not None:
            groups.setdefault((c["seed"], c["key"]), {})[c["enc"]] = (c["real"], c["line"])
    multi = 0
    for (seed, key), g in groups.items():
        if len(g) < 2:
            continue
        multi += 1
        verdicts = {enc: v[0] for enc, v in g.items()}
        if len(set(verdicts.values())) > 1:
            R.violation("property_violation", "a validator raises in exactly the same cases whether the numbers are stored as integers or as floating-point numbers",
                        "socialchoicekit.utils / profile_utils validators", {"check": key, "op_lines": {enc: v[1][:400] for enc, v in g.items()}},
                        impl_output=verdicts, oracle="verdict depends on the storage type")
    R.extra["validation_stream"] = {"op_lines": len(allc), "array_checks_in_more_than_one_storage_type": multi}
    R.evaluations += multi


def run(R):
    R.rule = ("random valid arguments for every public entry point of every module (enumerated from the modules' public names; a public name without "
              "a registered caller is reported); bit-exact snapshots of all arguments (arrays, profile views together with their base arrays, graph "
              "dicts, lists) before and after each call; every entry point is run on the int64 / int32 / float64 encodings of the same complete "
              "profiles and must return identical results or raise the same exception class. One 'case' = one instance bundle exercising all entry points.")
    R.assumptions = ["exempted public names (documented in-out helpers, stdin elicitors, abstract bases) are listed in harness/c20.py EXEMPT",
                     "no Lean content: a pure functional model cannot mutate and has no dtypes (level 'other')"]
    cases = [{"d": gen_data(R)} for _ in range(1200 if R.thorough else 72)]
    results = pmap("c20", "impl_one", cases, deadline=180.0, workers=12)
    covered = set()
    public = None
    calls_made = 0
    for c, r in zip(cases, results):
        if "hang" in r or "exc" in r:
            R.violation("property_violation", "total", ENTRY, c["d"], impl_output=r, oracle="harness bundle raised/hang")
            continue
        public = r["public"]
        covered |= set(r["covered"])
        calls_made += 3 * len(r["covered"])
        for mu in r["mutations"]:
            R.violation("property_violation", "no public rule or utility changes the arrays, profiles or graphs passed to it", mu["entry_point"], c["d"],
                        impl_output=mu, oracle=f"argument {mu['argument_index']} differs bit-wise after the call", config={"dtype": mu["dtype"]})
        for dv in r["dtype"]:
            R.violation("property_violation", "identical results / identical exceptions for int and float rank dtypes", dv["entry_point"], c["d"],
                        impl_output=dv, oracle="results differ between rank dtypes")
        for ep, ex in r["errors"].items():
            R.count(f"raises_on_valid_input:{ep}:{ex}")
        R.case(nontrivial_key=json.dumps(c["d"], sort_keys=True)[:2000], sample=None)
    if public is not None:
        missing = [ep for ep in public if ep not in covered and ep not in EXEMPT and not any(ep.startswith(x + ".") for x in EXEMPT)]
        R.extra["entry_points_public"] = len(public)
        R.extra["entry_points_exercised"] = len(covered)
        R.extra["calls_made"] = calls_made
        R.extra["exempt"] = EXEMPT
        if missing:
            R.corr_break("every public entry point has a registered caller", ENTRY, {"unregistered": missing}, None, None)
        R.samples.append({"entry_points_exercised": sorted(covered)[:200]})
    run_validation(R, [R.rng.randrange(10 ** 6) for _ in range(24 if R.thorough else 6)], 120 if R.thorough else 60, 150, 60)
    R.extra["explanation"] = ("Correspondence check: %d public entry points enumerated, %d exercised on %d instance bundles x 3 rank dtypes with bit-exact "
                              "before/after comparison of every argument (a pure model cannot mutate and has no dtypes, so no theorem speaks about that part). "
                              "The 'raises in exactly the same cases' clause additionally has a Lean model: the validators and parameter checks "
                              "(Sck/Model/Validate.lean, 58 theorems C20_* incl. acceptance characterisations and the bridge to the theorems' well-formedness "
                              "hypotheses); the stream of valid and malformed arguments is run in every storage type that can hold the numbers (verdicts must "
                              "coincide: the property) and compared with the model's verdict (model coverage, reported as glue correspondence)."
                              % (len(public or []), len(covered), len(cases)))


def replay(R, rep):
    r = pmap("c20", "impl_one", [{"d": rep["input"]}], deadline=120.0)[0]
    for mu in r.get("mutations", []):
        R.violation("property_violation", "no input mutation", mu["entry_point"], rep["input"], impl_output=mu, oracle="argument changed")
    for dv in r.get("dtype", []):
        R.violation("property_violation", "dtype independence", dv["entry_point"], rep["input"], impl_output=dv, oracle="results differ")
    R.case(nontrivial_key="replay")
    R.extra["explanation"] = "replay of one instance bundle"
