"""C12 - Copeland and STV follow their definitions."""
import json
from fractions import Fraction
import numpy as np
from harness import votelib as V
from harness.common import pmap, lean_query, guard, fr, safe_judge, persist, persist_rule
from harness.c01 import chunks

LEVEL = "proof"
ENTRY = "socialchoicekit.deterministic_tournament.Copeland / deterministic_multiround.SingleTransferableVote"


@guard
def impl_batch(case):
    import numpy.random as npr
    from socialchoicekit.deterministic_multiround import SingleTransferableVote
    from socialchoicekit.profile_utils import CompleteProfile
    out = []
    for it in case["items"]:
        try:
            P, m, zero = it["P"], it["m"], it["zero"]
            prof = V.profile_obj(P)
            cop = V.make_rule("copeland", 0, "accept", zero)
            sc = cop.score(prof)
            res = {"copeland": [fr(V.fscore(x)) for x in sc], "copeland_winners": [int(x) for x in np.atleast_1d(cop.scf(prof))]}
            cp = persist("stvP", np.array(P, dtype=np.int64), CompleteProfile.of)
            res["stv_first"] = int(persist_rule(("stv", "first", zero), lambda: SingleTransferableVote(tie_breaker="first", zero_indexed=zero)).scf(cp))
            # random tie-breaker: record what np.random.choice was offered and what it returned
            runs = []
            orig = npr.choice
            for s in it["seeds"]:
                log = []

                def rec(a, *args, **kw):
                    r = orig(a, *args, **kw)
                    log.append([[int(x) for x in np.atleast_1d(a)], int(r)])
                    return r
                np.random.seed(s)
                np.random.choice = rec
                try:
                    w = int(persist_rule(("stv", "random", zero), lambda: SingleTransferableVote(tie_breaker="random", zero_indexed=zero)).scf(cp))
                finally:
                    np.random.choice = orig
                runs.append({"seed": s, "winner": w, "choices": log})
            res["stv_random"] = runs
            out.append(res)
        except Exception as e:  # noqa
            out.append({"exc": type(e).__name__, "msg": str(e)[:200]})
    return {"results": out}


@safe_judge
def judge(R, it, res, cop_ans, first_ans, rand_ans):
    P, m, zero = it["P"], it["m"], it["zero"]
    fixer = 0 if zero else 1
    cfg = {"zero_indexed": zero}
    if "exc" in res or "hang" in res:
        R.violation("property_violation", "total on a valid profile", ENTRY, {"P": P}, impl_output=res, oracle="raised/hang", config=cfg)
        return
    n = len(P)
    # --- Copeland: definition, Condorcet winner
    exact = V.exact_scores("copeland", 0, P, m)
    sc = [Fraction(x) for x in res["copeland"]]
    if sum(sc) != 0 or any(abs(x) > max(m - 1, 0) for x in sc):
        # C12_copeland_zero_sum: holds for every profile; a one-sided comparison or a skipped pair breaks it on even splits
        R.violation("property_violation", "Copeland scores sum to zero and lie within [-(m-1), m-1] (C12_copeland_zero_sum, C12_copeland_score_bounds)",
                    ENTRY + " Copeland.score", {"P": P}, impl_output=res["copeland"], oracle={"sum": fr(sum(sc)), "textbook": [fr(x) for x in exact]}, config=cfg)
        return
    if sc != exact:
        R.violation("property_violation", "Copeland score = #beaten - #beating in strict pairwise majorities", ENTRY + " Copeland.score",
                    {"P": P}, impl_output=res["copeland"], oracle=[fr(x) for x in exact], config=cfg)
        return
    cond = [a for a in range(m) if all(sum(1 for row in P if row[a] < row[b]) * 2 > n for b in range(m) if b != a)]
    if cond and m > 1 and res["copeland_winners"] != [cond[0] + fixer]:
        R.violation("property_violation", "a Condorcet winner is the unique Copeland winner", ENTRY + " Copeland.scf", {"P": P},
                    impl_output=res["copeland_winners"], oracle={"condorcet_winner": cond[0] + fixer}, config=cfg)
        return
    parsed = V.parse_score(cop_ans)
    if parsed is None or parsed[0] != sc or [w + fixer for w in parsed[1]] != res["copeland_winners"]:
        R.corr_break("Copeland scores and winners equal the model's", ENTRY + " Copeland", {"P": P}, res["copeland"], cop_ans, cfg)
    # --- STV first
    want_first = V.stv_possible_winners(P, m, True)
    if want_first is not None and res["stv_first"] - fixer not in want_first:
        R.violation("property_violation", "STV('first') = survivor of repeated elimination of the lowest-numbered alternative with fewest first places",
                    ENTRY + " STV.scf", {"P": P}, impl_output=res["stv_first"], oracle={"textbook": sorted(x + fixer for x in want_first)}, config=cfg)
        return
    maj = [a for a in range(m) if sum(1 for row in P if row[a] == 1) * 2 > n]
    if first_ans != f"ok {res['stv_first']}":
        R.corr_break("STV('first') winner equals the model's stvLoop", ENTRY + " STV", {"P": P}, res["stv_first"], first_ans, cfg)
    # --- STV random
    legal = V.stv_possible_winners(P, m, False)
    for run, ans in zip(res["stv_random"], rand_ans):
        w = run["winner"] - fixer
        bad = None
        if legal is not None and w not in legal:
            bad = "winner is not reachable by any legal elimination sequence"
        if maj and w != maj[0]:
            bad = "an alternative ranked first by a strict majority did not win"
        for offered, chosen in run["choices"]:
            if chosen not in offered:
                bad = "drawn alternative was not among the offered ones"
        if bad:
            R.violation("property_violation", "STV('random') eliminates some alternative with fewest first places each round", ENTRY + " STV.scf",
                        {"P": P, "seed": run["seed"]}, impl_output=run, oracle=bad, config=cfg)
            return
        if ans != f"ok {run['winner']}":
            R.corr_break("the recorded elimination sequence is legal in the model (stvReplay) and yields the same winner", ENTRY + " STV",
                         {"P": P, "seed": run["seed"]}, run, ans, cfg)
    if maj and res["stv_first"] - fixer != maj[0]:
        R.violation("property_violation", "a strict-majority favourite wins STV", ENTRY + " STV.scf", {"P": P}, impl_output=res["stv_first"],
                    oracle={"majority_favourite": maj[0] + fixer}, config=cfg)
        return
    ties = V.stv_has_tie(P, m)
    R.case(nontrivial_key=json.dumps(P) if m >= 3 and n >= 2 else None,
           sample={"P": P, "zero_indexed": zero, "copeland": res["copeland"], "stv_first": res["stv_first"], "stv_random": res["stv_random"][:1]}
           if ties and m >= 3 else None)
    R.count(f"n={min(n, 9)}{'+' if n > 9 else ''},m={m}")
    if ties:
        R.count("stv_elimination_tie")
    if cond:
        R.count("has_condorcet_winner")
    if maj:
        R.count("has_majority_favourite")


def run_items(R, items):
    # same-shaped elections next to each other, so that the persistent profile objects are refilled in place between consecutive calls
    items.sort(key=lambda it: (it["m"], len(it["P"])))
    cases = [{"items": ch} for ch in chunks(items, 40)]
    results = pmap("c12", "impl_batch", cases, deadline=120.0)
    flat = []
    for case, res in zip(cases, results):
        flat += res["results"] if "results" in res else [{"hang": True}] * len(case["items"])
    lines, where = [], []
    for i, (it, res) in enumerate(zip(items, flat)):
        P, m = it["P"], it["m"]
        fixer = 0 if it["zero"] else 1
        n = len(P)
        body = [str(fixer), str(n), str(m)] + [str(v) for row in P for v in row]
        lines.append(V.lean_score_line("copeland", 0, P, m)); where.append((i, "cop"))
        lines.append(" ".join(["stv"] + body + ["first"])); where.append((i, "first"))
        if "stv_random" in res:
            for r_i, run in enumerate(res["stv_random"]):
                # positions (in the current candidate list order) of the eliminated alternatives
                ch = [c for _, c in run["choices"]]
                lines.append(" ".join(["stv"] + body + ["replay", str(len(ch))] + [str(c) for c in ch])); where.append((i, "rand", r_i))
    ans = lean_query(lines)
    per = {}
    for w, a in zip(where, ans):
        per.setdefault(w[0], {}).setdefault(w[1], []).append(a)
    for i, (it, res) in enumerate(zip(items, flat)):
        judge(R, it, res, per[i]["cop"][0], per[i]["first"][0], per[i].get("rand", []))


def run(R):
    R.rule = ("complete strict profiles: random (n<=40, m<=8), structured (cyclic = Condorcet cycles, two-block even splits), both index "
              "conventions; STV('random') under several seeds with numpy.random.choice wrapped to record every elimination; thorough adds ALL "
              "profiles with n,m<=4 up to voter order. Non-trivial = m>=3 and n>=2.")
    R.assumptions = ["numpy.random.choice is only observed (wrapped), never replaced"]
    items = []
    cnt = 6000 if R.thorough else 600
    for t in range(cnt):
        m = R.rng.choice([1, 2, 3, 3, 4, 5, 6, 8])
        n = R.rng.choice([1, 2, 3, 4, 5, 6, 8, 12, 40, 65, 100, 129])
        if t % 40 == 39:          # many alternatives and a large electorate
            m, n = R.rng.choice([14, 25, 40]), R.rng.choice([50, 120])
        if t in (5, 105):         # more alternatives than a byte can count (ranks up to 300), a handful of voters
            m, n = R.rng.choice([257, 300]), R.rng.choice([3, 5])
        P = V.structured_profile(R.rng, n, m) if R.rng.random() < 0.5 else V.rand_profile(R.rng, n, m)
        items.append({"P": P, "m": m, "zero": R.rng.random() < 0.5, "seeds": [R.rng.randrange(10 ** 6) for _ in range(3)]})
    run_items(R, items)
    if R.thorough:
        R.exhaustive = True
        ex = []
        for n in (1, 2, 3, 4):
            for m in (1, 2, 3, 4):
                for P in V.all_profiles(n, m):
                    ex.append({"P": P, "m": m, "zero": len(ex) % 2 == 0, "seeds": [len(ex), len(ex) + 7]})
        for ch in chunks(ex, 4000):
            run_items(R, ch)


def replay(R, rep):
    P = rep["input"]["P"]
    seeds = [rep["input"]["seed"]] if "seed" in rep["input"] else [0, 1, 2]
    run_items(R, [{"P": P, "m": len(P[0]), "zero": rep.get("config", {}).get("zero_indexed", False), "seeds": seeds}])
