"""C13 - tie-breaking, indexing and randomised selection follow the documented contract."""
import json
from fractions import Fraction
import numpy as np
from harness import votelib as V, gslib
from harness.c11 import consistent_vals
from harness.common import pmap, lean_query, guard, fr, to_np, safe_judge, persist, persist_rule
from harness.c01 import chunks

LEVEL = "proof"
ENTRY = "socialchoicekit (all rules)"


def _wrap_choice(log):
    import numpy.random as npr
    orig = npr.choice

    def rec(a, *args, **kw):
        r = orig(a, *args, **kw)
        p = kw.get("p")
        log.append({"a": [int(x) for x in np.atleast_1d(a)] if not np.isscalar(a) else int(a),
                    "p": None if p is None else [fr(Fraction(float(x))) for x in p], "r": [int(x) for x in np.atleast_1d(r)]})
        return r
    return orig, rec


def voting_rules(m, k, lam, vp, kapp=None):
    kapp = k if kapp is None else kapp      # k-approval accepts any k >= 1 (k > m approves everybody); k-ARV needs k <= m
    """name -> factory(tie_breaker, zero_indexed) -> (score_fn, scf_fn)"""
    from socialchoicekit import deterministic_scoring as ds, deterministic_tournament as dt, elicitation_voting as ev
    from socialchoicekit.elicitation_utils import ValuationProfileElicitor
    out = {}
    for name, cls, args in [("plurality", ds.Plurality, {}), ("borda", ds.Borda, {}), ("veto", ds.Veto, {}), ("harmonic", ds.Harmonic, {}),
                            ("kapproval", ds.KApproval, {"k": kapp}), ("copeland", dt.Copeland, {})]:
        out[name] = (lambda tb, z, cls=cls, args=args: cls(tie_breaker=tb, zero_indexed=z, **args), "profile")
    out["utilitarian"] = (lambda tb, z: ds.SocialWelfare(tie_breaker=tb, zero_indexed=z), "vals")
    out["karv"] = (lambda tb, z: ev.KARV(k=k, tie_breaker=tb, zero_indexed=z), "elicit")
    out["prv"] = (lambda tb, z: ev.LambdaPRV(lambda_=lam, tie_breaker=tb, zero_indexed=z), "elicit")
    return out


@guard
def impl_vote(case):
    """tie-breakers x index conventions for the voting rules; randomized scoring rules"""
    from socialchoicekit.elicitation_utils import ValuationProfileElicitor
    from socialchoicekit.profile_utils import ValuationProfile
    from socialchoicekit import randomized_scoring as rs
    from socialchoicekit.deterministic_multiround import SingleTransferableVote
    from socialchoicekit.profile_utils import CompleteProfile
    out = []
    for it in case["items"]:
        try:
            P, m, vals, k, lam, seed = it["P"], it["m"], it["vals"], it["k"], it["lam"], it["seed"]
            kapp = it.get("kapp") or k
            prof = V.profile_obj(P)
            vp = persist("vals", to_np(vals), ValuationProfile.of)
            # the utilitarian rule may get its own valuation matrix (near ties between the two leaders need not be consistent with P)
            vpu = persist("valsu", to_np(it["vals_util"]), ValuationProfile.of) if it.get("vals_util") else vp
            res = {}
            for name, (mk, kind) in voting_rules(m, k, lam, vp, kapp).items():
                r = {}
                for zero in (True, False):
                    for tb in ("accept", "first", "random"):
                        rule = persist_rule(("c13", name, kapp if name == "kapproval" else k if name == "karv" else lam if name == "prv" else 0, tb, zero), lambda: mk(tb, zero))
                        log = []
                        orig, rec = _wrap_choice(log)
                        np.random.seed(seed)
                        np.random.choice = rec
                        try:
                            if kind == "profile":
                                sc = rule.score(prof); w = rule.scf(prof)
                            elif kind == "vals":
                                sc = rule.score(vpu); w = rule.scf(vpu)
                            else:
                                sc = rule.score(prof, ValuationProfileElicitor(vp)); w = rule.scf(prof, ValuationProfileElicitor(vp))
                        finally:
                            np.random.choice = orig
                        r[f"{tb}:{int(zero)}"] = {"score": [fr(Fraction(float(x))) for x in sc], "out": [int(x) for x in np.atleast_1d(w)],
                                                  "scalar": bool(np.ndim(w) == 0), "choice": log}
                    if hasattr(rule, "swf") and kind == "profile":
                        sw = persist_rule(("c13", name, kapp if name == "kapproval" else k if name == "karv" else lam if name == "prv" else 0, "accept", zero), lambda: mk("accept", zero)).swf(prof)
                        r[f"swf:{int(zero)}"] = [[int(a), fr(Fraction(float(s)))] for a, s in zip(sw[0], sw[1])]
                res[name] = r
            # STV in both conventions
            cp = persist("stvP", np.array(P, dtype=np.int64), CompleteProfile.of)
            res["stv"] = {}
            for zero in (True, False):
                np.random.seed(seed)
                res["stv"][f"first:{int(zero)}"] = int(SingleTransferableVote("first", zero).scf(cp))
                np.random.seed(seed)
                res["stv"][f"random:{int(zero)}"] = int(SingleTransferableVote("random", zero).scf(cp))
            # randomized scoring rules
            res["rand"] = {}
            for name, mk in [("plurality", lambda z: rs.RandomizedPlurality(zero_indexed=z)), ("borda", lambda z: rs.RandomizedBorda(zero_indexed=z)),
                             ("veto", lambda z: rs.RandomizedVeto(zero_indexed=z)), ("harmonic", lambda z: rs.RandomizedHarmonic(zero_indexed=z)),
                             ("kapproval", lambda z: rs.RandomizedKApproval(k=kapp, zero_indexed=z))]:
                for zero in (True, False):
                    rule = persist_rule(("rand", name, kapp if name == "kapproval" else 0, zero), lambda: mk(zero))
                    log = []
                    orig, rec = _wrap_choice(log)
                    np.random.seed(seed)
                    np.random.choice = rec
                    try:
                        try:
                            w = int(rule.scf(prof))
                            sc = rule.score(prof)
                            res["rand"][f"{name}:{int(zero)}"] = {"out": w, "score": [fr(Fraction(float(x))) for x in sc], "choice": log}
                        except Exception as e:  # noqa
                            res["rand"][f"{name}:{int(zero)}"] = {"exc": type(e).__name__, "msg": str(e)[:120],
                                                                  "score": [fr(Fraction(float(x))) for x in rule.score(prof)]}
                    finally:
                        np.random.choice = orig
            out.append(res)
        except Exception as e:  # noqa
            import traceback
            out.append({"exc": type(e).__name__, "msg": str(e)[:200], "tb": traceback.format_exc()[-600:]})
    return {"results": out}


def _call(f):
    try:
        return {"ok": f()}
    except Exception as e:  # noqa
        return {"exc": type(e).__name__}


@guard
def impl_other(case):
    """index conventions of the matching / allocation / elicitation rules (same seed for both conventions)"""
    from socialchoicekit.deterministic_matching import GaleShapley, Irving
    from socialchoicekit.deterministic_allocation import MaximumWeightMatching
    from socialchoicekit.randomized_allocation import RandomSerialDictatorship, SimultaneousEating, ProbabilisticSerial
    from socialchoicekit.elicitation_allocation import LambdaTSF, MatchTwoQueries
    from socialchoicekit.elicitation_matching import DoubleLambdaTSF
    from socialchoicekit.elicitation_utils import ValuationProfileElicitor, IntegerValuationProfileElicitor, LambdaElicitor
    from socialchoicekit.profile_utils import StrictProfile, StrictCompleteProfile, ValuationProfile, IntegerValuationProfile
    out = []
    for it in case["items"]:
        res = {}
        seed = it["seed"]
        inst = it["hr"]
        for zero in (True, False):
            z = int(zero)
            for ro in (True, False):
                res[f"gs{int(ro)}:{z}"] = _call(lambda: gslib.call_gs(inst, ro, zero))
            n = it["n"]
            P1 = persist("P1", np.array(it["P1"], dtype=np.int64)); P2 = persist("P2", np.array(it["P2"], dtype=np.int64))
            V1 = persist("V1", np.array(it["V1"], dtype=np.int64)); V2 = persist("V2", np.array(it["V2"], dtype=np.int64))
            res[f"irving:{z}"] = _call(lambda: [[int(a), int(b)] for a, b in Irving(zero_indexed=zero).scf(
                IntegerValuationProfile.of(V1), IntegerValuationProfile.of(V2), StrictCompleteProfile.of(P1), StrictCompleteProfile.of(P2))])
            W = to_np(it["W"])
            res[f"mwm:{z}"] = _call(lambda: [int(x) for x in persist_rule(("mwm", zero), lambda: MaximumWeightMatching(zero_indexed=zero)).scf(persist("W", W, ValuationProfile.of))])
            Pf = to_np(it["Pinc"])

            def rsd():
                np.random.seed(seed)
                a = persist_rule(("rsd", zero), lambda: RandomSerialDictatorship(zero_indexed=zero)).scf(persist("Pinc", Pf, StrictProfile.of))
                return [None if np.isnan(x) else int(x) for x in a]
            res[f"rsd:{z}"] = _call(rsd)

            def eat(ps):
                np.random.seed(seed)
                prof = persist("P1e", P1, StrictCompleteProfile.of)
                if ps:
                    return [int(x) for x in persist_rule(("ps", zero), lambda: ProbabilisticSerial(zero_indexed=zero)).scf(prof)]
                return [int(x) for x in persist_rule(("se", zero), lambda: SimultaneousEating(zero_indexed=zero)).scf(prof, np.array(it["speeds"], dtype=float))]
            def eat_inc():
                # incomplete square profile (the known finding of C07 lives here; the index convention must still only shift)
                np.random.seed(seed)
                prof = persist("PincSq", to_np(it["PincSq"]), StrictProfile.of)
                a = persist_rule(("se", zero), lambda: SimultaneousEating(zero_indexed=zero)).scf(prof, np.array(it["speeds"], dtype=float))
                return [None if np.isnan(x) else int(x) for x in a]
            if it.get("PincSq") is not None:
                res[f"seinc:{z}"] = _call(eat_inc)
            res[f"ps:{z}"] = _call(lambda: eat(True))
            res[f"se:{z}"] = _call(lambda: eat(False))
            vals = to_np(it["vals"])
            vp = ValuationProfile.of(vals)
            res[f"tsf:{z}"] = _call(lambda: [int(x) for x in LambdaTSF(lambda_=it["lam"], zero_indexed=zero).scf(StrictCompleteProfile.of(P1), ValuationProfileElicitor(vp))])
            res[f"m2q:{z}"] = _call(lambda: [int(x) for x in MatchTwoQueries(zero_indexed=zero).scf(StrictCompleteProfile.of(P1), ValuationProfileElicitor(vp))])
            res[f"dtsf:{z}"] = _call(lambda: [[int(a), int(b)] for a, b in DoubleLambdaTSF(it["lam"], it["lam2"], zero_indexed=zero).scf(
                StrictCompleteProfile.of(P1), StrictCompleteProfile.of(P2), IntegerValuationProfileElicitor(IntegerValuationProfile.of(V1)),
                IntegerValuationProfileElicitor(IntegerValuationProfile.of(V2)))])
            # elicitor index convention: the backing function sees agent/alternative shifted by exactly the fixer
            seen = []
            el = LambdaElicitor(lambda a, j: (seen.append([int(a), int(j)]), 1.0)[1], zero_indexed=zero)
            for a, j in it["queries"]:
                el.elicit(a, j)
            res[f"elicitor:{z}"] = {"ok": seen}
        out.append(res)
    return {"results": out}


@safe_judge
def judge_vote(R, it, res, lean):
    P, m = it["P"], it["m"]
    if "exc" in res or "hang" in res:
        R.violation("property_violation", "total on a valid profile", ENTRY, it, impl_output=res, oracle="raised/hang")
        return
    inp = {"P": P, "vals": it["vals"], "k": it["k"], "kapp": it.get("kapp"), "lambda": it["lam"], "seed": it["seed"]}
    if it.get("vals_util"):
        inp["vals_util"] = it["vals_util"]
    tied_any = False
    for name, r in res.items():
        if name in ("stv", "rand"):
            continue
        for zero in (1, 0):
            fixer = 0 if zero else 1
            acc = r[f"accept:{zero}"]
            sc = [Fraction(x) for x in acc["score"]]
            mx = max(sc)
            want = [j + fixer for j in range(len(sc)) if sc[j] == mx]
            tied_any = tied_any or len(want) > 1
            cfg = {"rule": name, "zero_indexed": bool(zero)}
            if acc["out"] != want or acc["scalar"]:
                R.violation("property_violation", "'accept' returns all maximal-score alternatives in increasing order", f"{ENTRY}: {name}.scf", inp,
                            impl_output=acc["out"], oracle={"maximal": want}, config=dict(cfg, tie_breaker="accept"))
                return
            fi = r[f"first:{zero}"]
            if fi["out"] != want[:1] or not fi["scalar"]:
                R.violation("property_violation", "'first' returns the smallest maximal-score alternative", f"{ENTRY}: {name}.scf", inp,
                            impl_output=fi["out"], oracle={"maximal": want}, config=dict(cfg, tie_breaker="first"))
                return
            ra = r[f"random:{zero}"]
            if len(ra["out"]) != 1 or ra["out"][0] not in want or not ra["scalar"]:
                R.violation("property_violation", "'random' returns one of the maximal-score alternatives", f"{ENTRY}: {name}.scf", inp,
                            impl_output=ra["out"], oracle={"maximal": want}, config=dict(cfg, tie_breaker="random"))
                return
            # model: scfQ on the implementation's own score vector
            for tb in ("accept", "first", "random"):
                key = (name, tb, zero)
                exp = "ok " + " ".join([str(len(r[f"{tb}:{zero}"]["out"]))] + [str(x) for x in r[f"{tb}:{zero}"]["out"]])
                if lean.get(key) != exp:
                    R.corr_break("scf output = model breakTie(shift(winners(score)))", f"{ENTRY}: {name}.scf", inp, r[f"{tb}:{zero}"]["out"], lean.get(key),
                                 dict(cfg, tie_breaker=tb))
        # index shift: identical scores; outputs shifted by exactly one (same seed)
        for tb in ("accept", "first", "random"):
            a, b = r[f"{tb}:1"], r[f"{tb}:0"]
            if a["score"] != b["score"] or [x + 1 for x in a["out"]] != b["out"]:
                R.violation("property_violation", "switching the index convention shifts every reported alternative by exactly one", f"{ENTRY}: {name}", inp,
                            impl_output={"zero_indexed": a["out"], "one_indexed": b["out"]}, oracle="outputs do not differ by exactly one",
                            config={"rule": name, "tie_breaker": tb})
                return
        if "swf:1" in r:
            a, b = r["swf:1"], r["swf:0"]
            if [[x + 1, s] for x, s in a] != b:
                R.violation("property_violation", "index convention shifts the ranking's alternatives by one and nothing else", f"{ENTRY}: {name}.swf", inp,
                            impl_output={"zero_indexed": a, "one_indexed": b}, oracle="rankings differ", config={"rule": name})
                return
    for tb in ("first", "random"):
        if res["stv"][f"{tb}:1"] + 1 != res["stv"][f"{tb}:0"]:
            R.violation("property_violation", "index convention shifts the STV winner by one", f"{ENTRY}: STV", inp, impl_output=res["stv"],
                        oracle="winners do not differ by one", config={"tie_breaker": tb})
            return
    # randomized scoring rules
    for key, r in res["rand"].items():
        name, zero = key.split(":")
        fixer = 0 if zero == "1" else 1
        sc = [Fraction(x) for x in r["score"]]
        cfg = {"rule": "randomized " + name, "zero_indexed": zero == "1"}
        # "probabilities proportional to the scores": the scores are those of the profile at hand (textbook definition, exact)
        exact = V.exact_scores(name, it.get("kapp") or it["k"], P, m)
        if any(not V.rel_close(a_, b_, Fraction(1, 10 ** 12)) for a_, b_ in zip(sc, exact)) or len(sc) != len(exact):
            R.violation("property_violation", "the randomized rule's scores are the scores of the profile it was given", f"{ENTRY}: Randomized{name}.score", inp,
                        impl_output=r["score"], oracle={"textbook_scores": [fr(x) for x in exact]}, config=cfg)
            return
        if "exc" in r:
            if sum(sc) == 0:
                R.count("randomized_rule_zero_total_raises")
                continue
            R.violation("property_violation", "randomized scoring rule returns an alternative", f"{ENTRY}: Randomized{name}.scf", inp, impl_output=r,
                        oracle="raised", config=cfg)
            return
        ch = r["choice"]
        if len(ch) != 1 or ch[0]["p"] is None:
            R.corr_break("exactly one draw with an explicit probability vector is observed", f"{ENTRY}: Randomized{name}.scf", inp, r, None, cfg)
            continue
        p = [Fraction(x) for x in ch[0]["p"]]
        tot = sum(sc)
        drawn = ch[0]["r"][0]
        if len(p) != len(sc) or any(abs(p[j] - sc[j] / tot) > Fraction(1, 10 ** 12) for j in range(len(sc))):
            R.violation("property_violation", "draw probabilities are proportional to the scores", f"{ENTRY}: Randomized{name}.scf", inp,
                        impl_output={"p": ch[0]["p"], "score": r["score"]}, oracle="p != score / sum(score)", config=cfg)
            return
        if not (0 <= drawn < len(sc)) or sc[drawn] <= 0 or r["out"] != drawn + fixer:
            R.violation("property_violation", "the returned alternative is the drawn one and has positive score", f"{ENTRY}: Randomized{name}.scf", inp,
                        impl_output=r, oracle={"drawn": drawn, "score": r["score"]}, config=cfg)
            return
        mp = lean.get(("randprobs", name, zero))
        if mp is None or not mp.startswith("ok") or any(abs(Fraction(x) - y) > Fraction(1, 10 ** 12) for x, y in zip(mp.split()[1:], p)):
            R.corr_break("probability vector = model randProbs(score)", f"{ENTRY}: Randomized{name}.scf", inp, ch[0]["p"], mp, cfg)
    for name in ("plurality", "borda", "veto", "harmonic", "kapproval"):
        a, b = res["rand"][f"{name}:1"], res["rand"][f"{name}:0"]
        if "out" in a and "out" in b and a["out"] + 1 != b["out"]:
            R.violation("property_violation", "index convention shifts the randomized winner by one (same seed)", f"{ENTRY}: Randomized{name}.scf", inp,
                        impl_output={"zero_indexed": a["out"], "one_indexed": b["out"]}, oracle="not shifted by one")
            return
    R.case(nontrivial_key=json.dumps([P, it["seed"]]) if tied_any else None,
           sample={"P": P, "seed": it["seed"], "plurality": res["plurality"]} if tied_any else None)
    R.count("voting")


def shift_struct(x, d):
    if isinstance(x, list):
        return [shift_struct(y, d) for y in x]
    if x is None:
        return None
    return x + d


@safe_judge
def judge_other(R, it, res):
    if "exc" in res or "hang" in res:
        R.violation("property_violation", "total", ENTRY, it, impl_output=res, oracle="raised/hang")
        return
    names = sorted(set(k.split(":")[0] for k in res))
    for name in names:
        a, b = res[f"{name}:1"], res[f"{name}:0"]
        if "exc" in a or "exc" in b:
            if a.get("exc") == b.get("exc"):
                R.count(f"{name}_raises_in_both_conventions({a.get('exc')})")
                continue
            R.violation("property_violation", "the index convention changes nothing but the labels (one convention raises, the other does not)",
                        f"{ENTRY}: {name}", it, impl_output={"zero_indexed": a, "one_indexed": b}, oracle="exception in only one convention")
            return
        want = shift_struct(a["ok"], 1)
        got = b["ok"]
        if name.startswith("gs") or name in ("irving", "dtsf"):
            want, got = sorted(want), sorted(got)
        if want != got:
            R.violation("property_violation", "switching the index convention shifts every reported alternative, item or agent by exactly one",
                        f"{ENTRY}: {name}", it, impl_output={"zero_indexed": a["ok"], "one_indexed": b["ok"]}, oracle="outputs do not differ by exactly one")
            return
    R.case(nontrivial_key=json.dumps(it, sort_keys=True), sample=None if R.extra.get("_s") else {"instance": it, "outputs": {k: res[k] for k in list(res)[:8]}})
    R.extra["_s"] = 1
    R.count("matching/allocation/elicitation")


def gen_other(R):
    from harness.c11 import consistent_vals
    n = R.rng.randint(1, 5)
    P1 = V.rand_profile(R.rng, n, n)
    P2 = V.rand_profile(R.rng, n, n)
    def intvals(P):
        out = []
        for row in P:
            xs = sorted((R.rng.randint(0, 6) for _ in range(n)), reverse=True)
            out.append([xs[row[j] - 1] for j in range(n)])
        return out
    W = [[R.rng.choice([1, 2, 3, 0.5, 2.5]) for _ in range(n)] for _ in range(n)]
    hr = gslib.rand_instance(R.rng, R.rng.randint(1, 5), R.rng.randint(1, 4), R.rng.choice([0, .3]), R.rng.choice([0, .3]))
    while not gslib.constructible(hr):
        hr = gslib.rand_instance(R.rng, 3, 3, 0, 0)
    Pinc = gslib.rand_profile(R.rng, n, R.rng.randint(1, n + 1), R.rng.choice([0, .3]))
    if all(v is None for row in Pinc for v in row):
        Pinc[0][0] = 1
    PincSq = gslib.rand_profile(R.rng, n, n, 0.3)
    if all(v is None for row in PincSq for v in row):
        PincSq[0][0] = 1
    return {"n": n, "P1": P1, "P2": P2, "V1": intvals(P1), "V2": intvals(P2), "W": W, "hr": hr, "Pinc": Pinc, "PincSq": PincSq,
            "speeds": [R.rng.choice([1, 2, 0.5]) for _ in range(n)], "vals": consistent_vals(R.rng, P1, n),
            "lam": R.rng.randint(1, n), "lam2": R.rng.randint(1, n), "seed": R.rng.randrange(10 ** 6),
            "queries": [[R.rng.randrange(n), R.rng.randrange(n)] for _ in range(4)]}


def run_vote(R, items):
    # same-shaped elections next to each other: the persistent argument objects (common.persist) are then refilled in place
    # between consecutive calls on the same rule objects
    items.sort(key=lambda it: (it["m"], len(it["P"])))
    cases = [{"items": ch} for ch in chunks(items, 10)]
    results = pmap("c13", "impl_vote", cases, deadline=180.0)
    flat = []
    for case, res in zip(cases, results):
        flat += res["results"] if "results" in res else [{"hang": True}] * len(case["items"])
    lines, where = [], []
    for i, res in enumerate(flat):
        if "exc" in res or "hang" in res:
            continue
        for name, r in res.items():
            if name in ("stv",):
                continue
            if name == "rand":
                for key, rr in r.items():
                    nm, zero = key.split(":")
                    lines.append(" ".join(["randprobs", str(len(rr["score"]))] + rr["score"])); where.append((i, ("randprobs", nm, zero)))
                continue
            for zero in (1, 0):
                fixer = 0 if zero else 1
                for tb in ("accept", "first", "random"):
                    rr = r[f"{tb}:{zero}"]
                    tbt = tb
                    if tb == "random":
                        offered = rr["choice"][0]["a"] if rr["choice"] else []
                        drawn = rr["choice"][0]["r"][0] if rr["choice"] else -1
                        kidx = offered.index(drawn) if isinstance(offered, list) and drawn in offered else 999
                        tbt = f"random {kidx}"
                    lines.append(" ".join(["scfq", str(fixer), tbt, str(len(rr["score"]))] + rr["score"])); where.append((i, (name, tb, zero)))
    ans = lean_query(lines)
    per = {}
    for (i, key), a in zip(where, ans):
        per.setdefault(i, {})[key] = a
    for i, (it, res) in enumerate(zip(items, flat)):
        judge_vote(R, it, res, per.get(i, {}))


def run(R):
    R.rule = ("(a) voting rules (5 scoring rules, Copeland, utilitarian, k-ARV, lambda-PRV) x tie-breakers {accept, first, random} x both index "
              "conventions on shared inputs with the same seed (numpy.random.choice wrapped to record the offered list and the draw), STV, "
              "the five randomized scoring rules (probability vector intercepted); (b) Gale-Shapley (both orientations), Irving, maximum-weight "
              "matching, RSD, PS / simultaneous-eating lottery, lambda-TSF, Match-TwoQueries, two-sided lambda-TSF and the elicitor in both "
              "conventions with the same seed. Non-trivial (a) = some rule has >= 2 tied winners; (b) every instance.")
    R.assumptions = ["random draws are observed by seeding numpy and wrapping numpy.random.choice; no frequency statistics"]
    items = []
    cnt = 2500 if R.thorough else 260
    for t in range(cnt):
        m = R.rng.choice([1, 2, 3, 4, 4, 5, 6, 7, 8])
        n = R.rng.choice([1, 2, 3, 4, 6, 8, 9])
        if t % 10 == 3:
            # (round 6, C13-17) many alternatives and few voters: 33..48 alternatives, several tied at the top under the positional rules
            m = R.rng.choice([33, 34, 40, 48])
            n = R.rng.choice([2, 3, 4])
            R.count("many_alternatives(m>32)")
        P = V.structured_profile(R.rng, n, m) if R.rng.random() < 0.6 else V.rand_profile(R.rng, n, m)
        it = {"P": P, "m": m, "vals": consistent_vals(R.rng, P, m), "k": R.rng.randint(1, m), "kapp": (m + R.rng.randint(1, 2)) if t % 8 == 0 else None, "lam": R.rng.randint(1, m),
              "seed": R.rng.randrange(10 ** 6)}
        if m >= 2 and t % 5 == 2:
            # whole-number utilities around a million that differ by a few units: the elicitation rules' scores are then relatively close
            # (1e-5 .. 1e-6) without being equal, so there is exactly one maximiser unless two sums coincide
            big = []
            for row in P:
                xs = sorted((1000000.0 + R.rng.randint(0, 20) for _ in range(m)), reverse=True)
                big.append([xs[row[j] - 1] for j in range(m)])
            it["vals"] = big
            R.count("elicitation_rules:utilities_around_1e6_few_units_apart")
        if m >= 2 and R.rng.random() < 0.3:
            # two leading alternatives whose total utility differs by a relative 1e-6 .. 1e-8: distinct scores, so exactly one maximiser
            rows = [[R.rng.choice([0.5, 1.0, 2.0, 3.0]) for _ in range(m)] for _ in range(n)]
            a, b = R.rng.sample(range(m), 2)
            for row in rows:
                row[b] = row[a]
            rows[R.rng.randrange(n)][b] *= (1 + R.rng.choice([1e-6, 1e-7, 1e-8]))
            for row in rows:
                for j in range(m):
                    if j not in (a, b):
                        row[j] = min(row[j], row[a] * 0.5)
            it["vals_util"] = rows
            R.count("utilitarian:near_tie_between_leaders")
        items.append(it)
    run_vote(R, items)
    others = [gen_other(R) for _ in range(3000 if R.thorough else 200)]
    cases = [{"items": ch} for ch in chunks(others, 10)]
    results = pmap("c13", "impl_other", cases, deadline=120.0)
    for case, res in zip(cases, results):
        rs = res["results"] if "results" in res else [{"hang": True}] * len(case["items"])
        for it, r in zip(case["items"], rs):
            judge_other(R, it, r)
    R.extra.pop("_s", None)


def replay(R, rep):
    inp = rep["input"]
    if "hr" in inp:
        res = pmap("c13", "impl_other", [{"items": [inp]}], deadline=60.0)[0]
        judge_other(R, inp, res["results"][0] if "results" in res else {"hang": True})
    else:
        P = inp["P"]
        run_vote(R, [{"P": P, "m": len(P[0]), "vals": inp["vals"], "k": inp["k"], "kapp": inp.get("kapp"), "lam": inp["lambda"], "seed": inp["seed"], "vals_util": inp.get("vals_util")}])
    R.extra.pop("_s", None)
