"""C03 - Irving returns a welfare-maximal stable matching (every output certified: LP-dual certificate checked by the
Lean-executable smCertOk; Irving's algorithm itself is not modelled)."""
import itertools, json, os
from harness import smlib as S
from harness.common import pmap, lean_query, guard, VERIF, safe_judge
from harness.c01 import chunks

LEVEL = "proof"
ENTRY = "socialchoicekit.deterministic_matching.Irving.scf"


@guard
def impl_one(case):
    import numpy as np
    out = S.call_irving(case["P1"], case["P2"], case["V1"], case["V2"], zero=case.get("zero", True), with_profiles=not case.get("omit", False),
                        rank_dtype=np.float64 if case.get("float_ranks") else np.int64)
    res = {"pairs": out}
    try:
        # the public helper that evaluates a matching (c(S) of [ILG1987]); zero-indexed pairs
        from socialchoicekit.deterministic_matching import Irving
        from socialchoicekit.profile_utils import IntegerValuationProfile
        fixer = 0 if case.get("zero", True) else 1
        zp = [(int(a) - fixer, int(b) - fixer) for a, b in out]
        res["helper_value"] = int(Irving.stable_matching_value(zp, IntegerValuationProfile.of(np.array(case["V1"], dtype=np.int64)),
                                                               IntegerValuationProfile.of(np.array(case["V2"], dtype=np.int64))))
    except Exception as e:  # noqa
        res["helper_value"] = "exc " + type(e).__name__
    if case.get("stages") and not case.get("omit"):
        try:
            st, nrot = S.irving_stages(case["P1"], case["P2"], case["V1"], case["V2"])
            res["stages"] = st
            res["nrot"] = nrot
        except Exception as e:  # noqa
            res["stages_exc"] = type(e).__name__ + ": " + str(e)[:150]
    return res


STAGE_OPS = ["irv_mo", "irv_shortlists", "irv_rotations", "irv_poset", "irv_closed"]


def gen_random(R, count, nmax):
    items = []
    for t in range(count):
        n = R.rng.randint(1, nmax)
        P1, P2 = S.rand_ranks(R.rng, n), S.rand_ranks(R.rng, n)
        kind = R.rng.choice(["agree_ties", "agree_strict", "free", "tie_heavy", "omit", "omit", "omit_huge"])
        if t % 3 == 1 and n >= 3:
            # opposed interests: many rotations, dense rotation posets (uniformly random profiles have one or two rotations)
            P1, P2 = S.opposed_ranks(R.rng, n, R.rng.choice([0.0, 2.0, 4.0]))
            kind = R.rng.choice(["agree_ties", "agree_strict", "free", "tie_heavy"])
            R.count("opposed_interests")
        if t % 4 == 1 and kind not in ("omit", "omit_huge"):
            kind = "huge"
        if kind == "huge":
            # amounts of the order of 10^9 .. 10^10: rotation weights leave the 32-bit range (and stay far below sys.maxsize)
            hi = R.rng.choice([2 * 10 ** 9, 10 ** 10])
            if R.rng.random() < 0.5:
                V1, V2 = S.vals_agreeing(R.rng, P1, 0, hi), S.vals_agreeing(R.rng, P2, 0, hi)
            else:
                V1, V2 = S.vals_free(R.rng, n, -hi, hi), S.vals_free(R.rng, n, -hi, hi)
        elif kind == "agree_ties":
            V1, V2 = S.vals_agreeing(R.rng, P1), S.vals_agreeing(R.rng, P2)
        elif kind == "agree_strict":
            V1, V2 = S.vals_agreeing(R.rng, P1, ties=False), S.vals_agreeing(R.rng, P2, ties=False)
        elif kind == "free":
            V1, V2 = S.vals_free(R.rng, n), S.vals_free(R.rng, n)
        elif kind == "tie_heavy":
            V1, V2 = S.vals_agreeing(R.rng, P1, 0, 3), S.vals_agreeing(R.rng, P2, 0, 3)
        elif kind == "omit_huge":
            # distinct int64 valuations beyond 2^53: neighbours differ by 1, which float64 cannot tell apart
            base = 2 ** R.rng.choice([53, 54, 55])
            V1 = [[base + x for x in R.rng.sample(range(0, 3 * n), n)] for _ in range(n)]
            V2 = [[base + x for x in R.rng.sample(range(0, 3 * n), n)] for _ in range(n)]
            P1, P2 = S.induced_ranks(V1), S.induced_ranks(V2)
        else:
            V1 = [R.rng.sample(range(-20, 40), n) for _ in range(n)]
            V2 = [R.rng.sample(range(-20, 40), n) for _ in range(n)]
            P1, P2 = S.induced_ranks(V1), S.induced_ranks(V2)
        items.append({"P1": P1, "P2": P2, "V1": V1, "V2": V2, "zero": R.rng.random() < 0.5, "omit": kind in ("omit", "omit_huge"), "tag": kind,
                      "float_ranks": R.rng.random() < 0.3})
    return items


def gen_blocks(R, count, latin):
    items = []
    for t in range(count):
        sizes = [R.rng.randint(3, 5) for _ in range(R.rng.randint(3, 5))] if latin else [R.rng.randint(2, 4) for _ in range(R.rng.randint(2, 5))]
        P1, P2, offs = (S.latin_blocks if latin else S.random_blocks)(R.rng, sizes)
        n = len(P1)
        V1, V2 = S.vals_free(R.rng, n), S.vals_free(R.rng, n)
        items.append({"P1": P1, "P2": P2, "V1": V1, "V2": V2, "zero": True, "omit": False, "offs": offs, "tag": "latin_blocks" if latin else "random_blocks"})
    return items


def gen_exhaustive(R):
    items = []
    for n in (1, 2, 3):
        perms = list(itertools.permutations(range(1, n + 1)))
        for P1 in itertools.product(perms, repeat=n):
            for P2 in itertools.product(perms, repeat=n):
                for rep in range(1 if n == 3 else 3):
                    V1, V2 = S.vals_free(R.rng, n, -3, 3), S.vals_free(R.rng, n, -3, 3)
                    items.append({"P1": [list(r) for r in P1], "P2": [list(r) for r in P2], "V1": V1, "V2": V2, "zero": True, "omit": False,
                                  "tag": f"exhaustive_profiles_n{n}"})
    return items


@safe_judge
def judge(R, it, res, cert, lean_ans):
    P1, P2, V1, V2 = it["P1"], it["P2"], it["V1"], it["V2"]
    n = len(P1)
    fixer = 0 if it.get("zero", True) else 1
    inp = {"P1": P1, "P2": P2, "V1": V1, "V2": V2}
    cfg = {"zero_indexed": fixer == 0, "ordinal_profiles_omitted": it.get("omit", False), "float_ranks": bool(it.get("float_ranks"))}
    R.count(it.get("tag", "?"))
    R.count(f"n={n if n < 10 else '10+'}")
    if "hang" in res:
        R.violation("property_violation", "terminates", ENTRY, inp, impl_output="no result within the deadline", oracle="non-termination", config=cfg)
        return
    if "exc" in res:
        R.violation("property_violation", "terminates without raising", ENTRY, inp, impl_output=res, oracle="raised " + res["exc"], config=cfg)
        return
    pairs = res["pairs"]
    mu = [None] * n
    ok = len(pairs) == n
    for a, b in pairs:
        a, b = a - fixer, b - fixer
        if not (0 <= a < n and 0 <= b < n) or mu[a] is not None:
            ok = False
            break
        mu[a] = b
    if not ok or sorted(mu) != list(range(n)):
        R.violation("property_violation", "returns a perfect matching", ENTRY, inp, impl_output=pairs, oracle="not a perfect matching", config=cfg)
        return
    if not S.is_stable(P1, P2, mu):
        R.violation("property_violation", "stable with respect to the ordinal profiles", ENTRY, inp, impl_output=pairs, oracle="blocking pair exists", config=cfg)
        return
    w = S.weight(V1, V2, mu)
    better = None
    nstable = None
    if n <= 6:
        st = S.all_stable(P1, P2)
        nstable = len(st)
        bw = max(S.weight(V1, V2, s) for s in st)
        if bw > w:
            better = max(st, key=lambda s: S.weight(V1, V2, s))
    elif "offs" in it:
        bm = S.best_stable_by_blocks(P1, P2, V1, V2, it["offs"])
        if S.weight(V1, V2, bm) > w:
            better = bm
    if better is None and cert is not None and cert.get("none"):
        # z3 proved that no dual certificate exists: the output cannot be optimal (integral polytope); find the witness
        better = find_better(P1, P2, V1, V2, w, it)
        if better is None:
            R.corr_break("an LP-dual optimality certificate exists for the output (z3 says none)", ENTRY, inp, pairs, "no certificate", cfg)
            return
    if better is not None:
        R.violation("property_violation", "total value is maximal among all stable matchings", ENTRY, inp, impl_output=pairs,
                    oracle={"impl_value": w, "better_stable_matching": [[a + fixer, b + fixer] for a, b in enumerate(better)],
                            "its_value": S.weight(V1, V2, better)}, config=cfg)
        return
    nontriv = (nstable is not None and nstable >= 2) or it.get("tag", "").endswith("blocks")
    R.case(nontrivial_key=json.dumps(inp) if nontriv else None,
           sample={"instance": inp, "impl_pairs": pairs, "value": w, "stable_matchings": nstable, "certificate": "z3 dual, checked by smCertOk: " + str(lean_ans)} if nontriv and n >= 3 else None)
    if cert is not None and "alpha" in cert:
        if lean_ans != "ok":
            R.corr_break("smCertOk accepts (instance, output, dual certificate)", ENTRY, inp, pairs, lean_ans, cfg)
        else:
            R.count("certified_optimal_by_lean_checker")
    elif cert is not None and (cert.get("timeout") or cert.get("error")):
        R.count("z3_timeout_or_error(stability checked by Lean `stable` only)")
        if lean_ans != "ok":
            R.corr_break("stableB accepts the output", ENTRY, inp, pairs, lean_ans, cfg)
    elif lean_ans is not None and lean_ans != "ok":
        R.corr_break("stableB accepts the output", ENTRY, inp, pairs, lean_ans, cfg)


BRUTE_N = 7     # the model's brute-force optimum optStable (C03_optStable_spec: it IS the maximum over all stable matchings) up to this size


def sm_tokens(it):
    n = len(it["P1"])
    toks = [str(n)]
    for M in (it["P1"], it["P2"], it["V1"], it["V2"]):
        toks += [str(int(v)) for row in M for v in row]
    return toks


@safe_judge
def judge_brute(R, it, res, opt, val, entry=None):
    """the implementation's answer against the kernel-verified brute force inside the model (no Python arithmetic, no z3)"""
    inp = {"P1": it["P1"], "P2": it["P2"], "V1": it["V1"], "V2": it["V2"]}
    cfg = {"zero_indexed": it.get("zero", True), "ordinal_profiles_omitted": it.get("omit", False), "float_ranks": bool(it.get("float_ranks"))}
    entry = entry or ENTRY
    R.count("brute_force_reference(optStable)")
    if not opt.startswith("ok "):
        R.corr_break("the model's brute-force optimum is defined on this input", entry, inp, res.get("pairs"), opt, cfg)
        return
    if val is None or not val.startswith("ok "):
        R.violation("property_violation", "returns a perfect matching", entry, inp, impl_output=res.get("pairs"), model_output=val,
                    oracle="the model cannot read the output as a permutation", config=cfg)
        return
    best, cnt = int(opt.split()[1]), int(opt.split()[2])
    v, stable = int(val.split()[1]), val.split()[2] == "1"
    if not stable:
        R.violation("property_violation", "stable with respect to the ordinal profiles", entry, inp, impl_output=res.get("pairs"),
                    model_output=val, oracle="the model's stableB rejects the output", config=cfg)
        return
    if "helper_value" in res:
        # Irving.stable_matching_value is outside the property statement: model coverage only
        R.glue("helpers:Irving.stable_matching_value", res["helper_value"] == v, {"instance": inp, "pairs": res.get("pairs"), "real": res["helper_value"], "model": v})
    if v != best:
        R.violation("property_violation", "total value is maximal among all stable matchings (model's brute-force optimum)", entry, inp,
                    impl_output=res.get("pairs"), model_output={"optStable": best, "stable_matchings": cnt, "value_of_output": v},
                    oracle="kernel-verified brute force over all permutations (C03_optStable_spec)", config=cfg)
        return
    if cnt >= 2:
        R.count("brute_force_reference: >=2 stable matchings")


def weightbound_check(R, items):
    """the one hypothesis of C03_irving_optimal (total negative rotation weight below sys.maxsize) evaluated by the model on every explored
    instance (op irv_wb = weightBoundB, C03_weightBoundB_iff): the theorem applies to the instance iff the answer is 1"""
    if not items:
        return
    ans = lean_query([" ".join(["irv_wb"] + sm_tokens(it)) for it in items])
    for it, a in zip(items, ans):
        t = a.split()
        if t[0] == "ok" and t[1] == "1":
            R.count("hypothesis_WeightBound_holds")
        else:
            R.count("hypothesis_WeightBound_fails_or_undefined(outside the optimality theorem; certificates still apply)")


def brute_compare(R, items, results, entry=None):
    weightbound_check(R, [it for it, r in zip(items, results) if isinstance(r, dict) and "pairs" in r])
    lines, where = [], []
    for i, (it, r) in enumerate(zip(items, results)):
        n = len(it["P1"])
        if n > BRUTE_N or "pairs" not in r:
            continue
        fixer = 0 if it.get("zero", True) else 1
        mu = [None] * n
        try:
            for a, b in r["pairs"]:
                mu[a - fixer] = b - fixer
        except Exception:  # noqa
            mu = None
        toks = sm_tokens(it)
        lines.append(" ".join(["smopt"] + toks))
        has_val = mu is not None and all(isinstance(x, int) and x >= 0 for x in mu)
        if has_val:
            lines.append(" ".join(["smval"] + toks + [str(x) for x in mu]))
        where.append((i, has_val))
    ans = lean_query(lines)
    k = 0
    for i, has_val in where:
        opt = ans[k]; k += 1
        val = None
        if has_val:
            val = ans[k]; k += 1
        judge_brute(R, items[i], results[i], opt, val, entry)


def find_better(P1, P2, V1, V2, w, it):
    n = len(P1)
    if n <= 8:
        for s in S.all_stable(P1, P2):
            if S.weight(V1, V2, s) > w:
                return s
    return None


def mirror_compare(R, items, results, entry=None):
    """the executable Lean mirror of Irving's algorithm (IrvingAlgo): final answer on every case; every internal stage
    (male-optimal matching, shortlists, rotations + eliminating map, poset edges, weights + closed subset) in the thorough tier"""
    lines, where = [], []
    for i, (it, r) in enumerate(zip(items, results)):
        if "pairs" not in r:
            continue
        ops = ["irv"] + (STAGE_OPS if "stages" in r else [])
        for op, l in zip(ops, S.irv_lines(it["P1"], it["P2"], it["V1"], it["V2"], ops)):
            lines.append(l)
            where.append((i, op))
    ans = lean_query(lines)
    for (i, op), a in zip(where, ans):
        it, r = items[i], results[i]
        fixer = 0 if it.get("zero", True) else 1
        inp = {"P1": it["P1"], "P2": it["P2"], "V1": it["V1"], "V2": it["V2"]}
        cfg = {"zero_indexed": fixer == 0, "ordinal_profiles_omitted": it.get("omit", False), "stage": op}
        if op == "irv":
            try:
                mine = sorted((a_ - fixer, b_ - fixer) for a_, b_ in r["pairs"])
                exp = " ".join(["ok", str(len(mine))] + ["%d %d" % e for e in mine])
            except Exception:
                exp = "uninterpretable"
            if a != exp:
                R.corr_break("Irving.scf answer = answer of the Lean mirror IrvingAlgo.irving", entry or ENTRY, inp, r["pairs"], a, cfg)
            else:
                R.count("mirror_final_answer_equal")
        else:
            if r["stages"].get(op) != a:
                R.corr_break(f"stage {op}: implementation stage output = Lean mirror", entry or ENTRY, inp, r["stages"].get(op), a, cfg)
            else:
                R.count("mirror_stage_equal:" + op)
    for r in results:
        if "nrot" in r:
            R.count("rotations=%s" % (r["nrot"] if r["nrot"] < 9 else "9+"))


def run_items(R, items, deadline, certify):
    for it in items:
        it["stages"] = bool(R.thorough) or it.get("tag") in ("corpus", "replay") or len(it["P1"]) <= 8
    results = pmap("c03", "impl_one", items, deadline=deadline, workers=12)
    mirror_compare(R, items, results)
    brute_compare(R, items, results)
    need, idx = [], []
    for i, (it, r) in enumerate(zip(items, results)):
        if "pairs" in r and certify(i, it):
            n = len(it["P1"])
            fixer = 0 if it.get("zero", True) else 1
            mu = [None] * n
            try:
                for a, b in r["pairs"]:
                    mu[a - fixer] = b - fixer
            except Exception:
                continue
            if sorted(x for x in mu if x is not None) == list(range(n)) and S.is_stable(it["P1"], it["P2"], mu):
                need.append({"P1": it["P1"], "P2": it["P2"], "V1": it["V1"], "V2": it["V2"], "mu": mu})
                idx.append(i)
    certs = dict(zip(idx, S.z3_certificates(need, timeout_ms=30000 if R.thorough else 10000)))
    lines, lidx = [], []
    for i, (it, r) in enumerate(zip(items, results)):
        if "pairs" not in r:
            continue
        c = certs.get(i)
        n = len(it["P1"])
        fixer = 0 if it.get("zero", True) else 1
        mu = [None] * n
        try:
            for a, b in r["pairs"]:
                mu[a - fixer] = b - fixer
        except Exception:
            continue
        if any(x is None for x in mu):
            continue
        if c is not None and "alpha" in c:
            lines.append(S.smcert_line(it["P1"], it["P2"], it["V1"], it["V2"], mu, c))
        else:
            lines.append(S.stable_line(it["P1"], it["P2"], mu))
        lidx.append(i)
    ans = dict(zip(lidx, lean_query(lines)))
    for i, (it, r) in enumerate(zip(items, results)):
        judge(R, it, r, certs.get(i), ans.get(i))


# ---- stage-level correspondence: the maximum-weight closed subset on ARBITRARY rotation posets ---------------------------
# Random marriage instances rarely produce the poset shapes that separate a correct min-cut reading from a wrong one
# (N-shaped posets, long chains, weights that make the residual reverse edges matter), so the stage is also driven directly.
@guard
def impl_closed(case):
    from socialchoicekit.deterministic_matching import Irving
    from socialchoicekit.profile_utils import IntegerValuationProfile
    import numpy as np
    out = []
    irv = Irving()
    for it in case["items"]:
        r = len(it["succs"])
        P_prime = {i: list(it["succs"][i]) for i in range(r)}
        rots = [[(a, b) for a, b in rho] for rho in it["rots"]]
        V1 = IntegerValuationProfile.of(np.array(it["V1"], dtype=np.int64))
        V2 = IntegerValuationProfile.of(np.array(it["V2"], dtype=np.int64))
        try:
            C = irv.find_maximum_weight_closed_subset(P_prime, rots, V1, V2)
            ws = [int(Irving.rotation_weight(rho, V1, V2)) for rho in rots]
            out.append({"C": sorted(int(x) for x in C), "ws": ws})
        except Exception as e:  # noqa
            out.append({"exc": type(e).__name__, "msg": str(e)[:200]})
    return {"results": out}


def gen_poset(R):
    """a random DAG on r nodes (edges i -> j mean `i precedes j`), each node a synthetic 2-pair rotation on its own two men and
    women whose `rotation_weight` is the chosen integer"""
    r = R.rng.randint(1, 9)
    shape = R.rng.choice(["random", "random", "chain", "N", "layers"])
    order = list(range(r))
    R.rng.shuffle(order)           # node names are not topologically sorted
    succs = [[] for _ in range(r)]
    def edge(a, b):
        if order[b] not in succs[order[a]]:
            succs[order[a]].append(order[b])
    if shape == "chain":
        for i in range(r - 1):
            edge(i, i + 1)
    elif shape == "N":
        for i in range(0, r - 1, 2):
            edge(i, i + 1)
            if i + 3 < r:
                edge(i + 2, i + 1)
                if R.rng.random() < 0.5:
                    edge(i, i + 3)
    elif shape == "layers":
        half = max(1, r // 2)
        for i in range(half):
            for j in range(half, r):
                if R.rng.random() < 0.5:
                    edge(i, j)
    else:
        dens = R.rng.choice([0.15, 0.3, 0.6])
        for i in range(r):
            for j in range(i + 1, r):
                if R.rng.random() < dens:
                    edge(i, j)
    wkind = R.rng.choice(["small", "small", "pm1", "wide", "zeroes", "huge"])
    # "huge": weights of the order of 10^10, beyond 32 bits and far below the "infinite" capacity sys.maxsize of the precedence edges
    ws = [R.rng.randint(-4, 4) if wkind == "small" else R.rng.choice([-1, 1]) if wkind == "pm1" else R.rng.randint(-40, 40) if wkind == "wide"
          else R.rng.randint(-3 * 10 ** 10, 3 * 10 ** 10) if wkind == "huge" else R.rng.choice([0, 0, -2, 3]) for _ in range(r)]
    n = 2 * r
    V1 = [[0] * n for _ in range(n)]
    V2 = [[0] * n for _ in range(n)]
    rots = []
    for i in range(r):
        a, b = 2 * i, 2 * i + 1
        rots.append([[a, a], [b, b]])
        # weight = V1[a][a]-V1[a][b] + V1[b][b]-V1[b][a] + V2[a][a]-V2[a][b] + V2[b][b]-V2[b][a]; spread the chosen weight over the terms
        x = R.rng.randint(-3, 3)
        V1[a][a] = ws[i] + x
        V2[b][a] = x
        y = R.rng.randint(0, 2)
        V1[b][b] = y
        V2[a][b] = y
    return {"succs": succs, "rots": rots, "V1": V1, "V2": V2, "ws": ws, "shape": shape}


def best_closed(succs, ws):
    """brute force: maximum total weight of a subset closed under predecessors"""
    r = len(ws)
    pred = [[i for i in range(r) if j in succs[i]] for j in range(r)]
    best = 0
    for mask in range(1 << r):
        ok = True
        tot = 0
        for j in range(r):
            if mask >> j & 1:
                tot += ws[j]
                for i in pred[j]:
                    if not mask >> i & 1:
                        ok = False
                        break
                if not ok:
                    break
        if ok and tot > best:
            best = tot
    return best


def closed_line(it):
    r = len(it["succs"])
    n = len(it["V1"])
    toks = ["irv_closedsub", str(r)]
    for sc in it["succs"]:
        toks += [str(len(sc))] + [str(x) for x in sc]
    for rho in it["rots"]:
        toks += [str(len(rho))] + [str(x) for p in rho for x in p]
    toks += [str(n)] + [str(v) for row in it["V1"] for v in row] + [str(v) for row in it["V2"] for v in row]
    return " ".join(toks)


ENTRY_CLOSED = "socialchoicekit.deterministic_matching.Irving.find_maximum_weight_closed_subset"


def run_closed(R, items):
    cases = [{"items": ch} for ch in chunks(items, 50)]
    results = pmap("c03", "impl_closed", cases, deadline=120.0)
    flat = []
    for case, res in zip(cases, results):
        flat += res["results"] if "results" in res else [dict(res)] * len(case["items"])
    answers = lean_query([closed_line(it) for it in items])
    for it, r, a in zip(items, flat, answers):
        judge_closed(R, it, r, a)


@safe_judge
def judge_closed(R, it, r, a):
    inp = {k: it[k] for k in ("succs", "rots", "V1", "V2")}
    R.count("closed_subset_stage:" + it.get("shape", "replay"))
    if "C" not in r:
        R.violation("property_violation", "the closed-subset stage terminates without raising", ENTRY_CLOSED, inp, impl_output=r,
                    oracle="exception / no answer on a valid rotation poset")
        return
    ws, succs = r["ws"], it["succs"]
    rr = len(ws)
    C = r["C"]
    pred_closed = all(i in C for j in C for i in range(rr) if j in succs[i])
    val = sum(ws[j] for j in C)
    best = best_closed(succs, ws)
    if not pred_closed or val != best:
        R.violation("property_violation", "the chosen rotation set is closed under predecessors and has maximum total weight (so the final matching is "
                    "stable and welfare-maximal)", ENTRY_CLOSED, inp, impl_output={"chosen": C, "weights": ws, "value": val},
                    oracle={"closed": pred_closed, "maximum_weight_of_a_closed_subset": best})
        return
    t = a.split()
    exp = None
    if t[0] == "ok":
        mw = [int(x) for x in t[1:1 + rr]]
        k = int(t[1 + rr])
        exp = {"ws": mw, "C": [int(x) for x in t[2 + rr:2 + rr + k]]}
    if exp is None or exp["ws"] != ws or exp["C"] != C:
        R.corr_break("find_maximum_weight_closed_subset = IrvingAlgo.closedSubset on an arbitrary poset (rotation weights and chosen set)",
                     ENTRY_CLOSED, inp, {"ws": ws, "C": C}, a)
        return
    nontriv = rr >= 3 and any(w > 0 for w in ws) and any(w < 0 for w in ws) and any(succs)
    R.case(nontrivial_key=("closed", json.dumps(inp)) if nontriv else None, sample=None)


def corpus():
    path = os.path.join(VERIF, "corpus", "C03.jsonl")
    return [json.loads(l) for l in open(path) if l.strip()] if os.path.exists(path) else []


def run(R):
    R.rule = ("n x n marriage instances with integer valuations: random n<=7 quick / <=9 thorough (valuations agreeing with the ranks with and "
              "without ties, tie-heavy 0..3, free integers incl. negatives, ordinal profiles omitted with distinct valuations); Latin-square block "
              "compositions and random-block compositions (n up to 25, 8-19 rotations); thorough adds ALL profile pairs for n<=3. Optimality: "
              "brute force over permutations (n<=6), per-block optimum for compositions, and a z3-found LP-dual certificate checked by the Lean "
              "smCertOk. In addition the maximum-weight-closed-subset stage is driven directly on random rotation posets (chains, N shapes, "
              "layered and random DAGs, r<=9 nodes, node names not topologically sorted): the chosen set must be closed, of maximum weight (brute "
              "force over all subsets) and equal to the Lean model's. Non-trivial = >=2 stable matchings or a block composition.")
    R.assumptions = ["Irving's rotation algorithm is not modelled; each output is certified (kernel-checked soundness of smCertOk)",
                     "z3 only finds certificates; they are re-checked by the Lean checker"]
    items = [dict(c, tag="corpus") for c in corpus()]
    items += gen_random(R, 900 if R.thorough else 450, 9 if R.thorough else 7)
    items += gen_blocks(R, 120 if R.thorough else 24, True)
    items += gen_blocks(R, 120 if R.thorough else 24, False)
    run_closed(R, [gen_poset(R) for _ in range(6000 if R.thorough else 400)])
    every = 1 if R.thorough else 2
    run_items(R, items, 60.0, lambda i, it: i % every == 0 or "offs" in it or it.get("tag") == "corpus")
    if R.thorough:
        R.exhaustive = True
        ex = gen_exhaustive(R)
        for ch in chunks(ex, 6000):
            run_items(R, ch, 60.0, lambda i, it: i % 40 == 0)


def replay(R, rep):
    inp = rep["input"]
    cfg = rep.get("config", {})
    if rep.get("entry_point") == ENTRY_CLOSED:
        run_closed(R, [dict(inp, shape="replay")])
        return
    run_items(R, [dict(inp, zero=cfg.get("zero_indexed", True), omit=cfg.get("ordinal_profiles_omitted", False), float_ranks=cfg.get("float_ranks", False),
                       tag="replay")], 60.0, lambda i, it: True)
