"""C08 - Ford-Fulkerson returns a maximum flow and a matching minimum cut."""
import itertools, json, os
from harness import flowlib
from harness.common import pmap, lean_query, guard, VERIF, safe_judge, pmap_singles
from harness.c01 import chunks

LEVEL = "proof"
ENTRY = "socialchoicekit.flow.ford_fulkerson"
HAVE_FLOWCUT = True   # the Lean certificate checker op `flowcut`


@guard
def impl_batch(case):
    out = []
    for net in case["nets"]:
        try:
            out.append(flowlib.call_ff(net, record_paths=case.get("paths", False)))
        except Exception as e:  # noqa
            out.append({"exc": type(e).__name__, "msg": str(e)[:200]})
    return {"results": out}


def gen_random(R, count, nvmax):
    nets = []
    for t in range(count):
        kind = R.rng.random()
        if kind < 0.12:
            nets.append(flowlib.poset_shaped(R.rng, R.rng.randint(1, nvmax - 2)))
            continue
        if kind < 0.17 and nvmax >= 7:
            nets.append(flowlib.maxsize_backflow(R.rng))
            continue
        if kind < 0.21:
            nets.append(flowlib.int32_large(R.rng, R.rng.randint(2, nvmax)))
            continue
        nv = R.rng.randint(2, nvmax)
        dens = R.rng.choice([0.2, 0.4, 0.7, 1.0])
        caps = R.rng.choice([[0, 1, 2], [1, 2, 3, 5, 8], [1], [0, 1, flowlib.MAXSIZE], [1, 7, 20, 50]])
        labels = None
        if R.rng.random() < 0.3:
            labels = R.rng.sample(range(-5, 30), nv)
        nets.append(flowlib.rand_net(R.rng, nv, dens, caps, labels, opp_bias=R.rng.choice([0, 0.8])))
    return nets


def gen_exhaustive3():
    verts = [0, 1, 2]
    pairs = [(u, v) for u in verts for v in verts if u != v]
    for combo in itertools.product([None, 0, 1, 2], repeat=len(pairs)):
        edges = [[u, v, c] for (u, v), c in zip(pairs, combo) if c is not None]
        yield {"verts": verts, "edges": edges, "s": 0, "t": 2}


def gen_exhaustive4():
    verts = [0, 1, 2, 3]
    pairs = [(u, v) for u in verts for v in verts if u != v]
    for combo in itertools.product([None, 1, 2], repeat=len(pairs)):
        edges = [[u, v, c] for (u, v), c in zip(pairs, combo) if c is not None]
        yield {"verts": verts, "edges": edges, "s": 0, "t": 3}


@safe_judge
def judge(R, net, res, ff_ans, cert_ans, tag):
    if "hang" in res:
        R.violation("property_violation", "termination", ENTRY, net, impl_output="no result within deadline", oracle="non-termination")
        return
    if "exc" in res:
        R.violation("property_violation", "total (no exception on a valid network)", ENTRY, net, impl_output=res, oracle="raised " + res["exc"])
        return
    errs = flowlib.check_flow(net, res["flow"], res["cut"])
    want, mincut = flowlib.max_flow_value(net)
    nontriv = want > 0 and len(net["edges"]) >= 3
    R.case(nontrivial_key=json.dumps(net) if nontriv else None,
           sample={"net": net, "impl": res, "model": ff_ans} if nontriv else None)
    R.count(f"{tag}:verts={len(net['verts'])}")
    if any(c >= flowlib.MAXSIZE for _, _, c in net["edges"]):
        R.count("with_maxsize_capacity")
    if any([v, u] in [[a, b] for a, b, _ in net["edges"]] for u, v, _ in net["edges"]):
        R.count("with_opposite_pair")
    if errs:
        small = shrink(net, lambda N: bool(flowlib.check_flow(N, *(lambda r: (r["flow"], r["cut"]))(flowlib.call_ff(N)))))
        try:
            out_small = flowlib.call_ff(small)
        except Exception as e:  # noqa
            out_small = repr(e)
        R.violation("property_violation", "flow laws, maximum value, minimum cut", ENTRY, small, impl_output=out_small,
                    model_output=ff_ans, oracle=errs, minimised_from=net)
        return
    t = ff_ans.split()
    if t[0] != "ok":
        R.corr_break("model ff terminates with a checked result", ENTRY, net, res, ff_ans)
        return
    mval = int(t[1])
    mcut = sorted(int(x) for x in t[3:3 + int(t[2])])
    if mval != want or mcut != sorted(res["cut"]):
        R.corr_break("value and returned vertex set equal the model's (value, minimal min cut)", ENTRY, net,
                     {"value": want, "cut": res["cut"]}, ff_ans)
    if cert_ans is not None and not cert_ans.startswith("ok"):
        R.corr_break("flowCutOk accepts the implementation's (flow, cut)", ENTRY, net, res, cert_ans)


def shrink(net, fails):
    cur = net
    changed = True
    while changed:
        changed = False
        for i in range(len(cur["edges"])):
            cand = dict(cur, edges=cur["edges"][:i] + cur["edges"][i + 1:])
            try:
                if fails(cand):
                    cur = cand
                    changed = True
                    break
            except Exception:
                continue
        if changed:
            continue
        for i, (u, v, c) in enumerate(cur["edges"]):
            if c > 1:
                for c2 in (1, c // 2):
                    cand = dict(cur, edges=cur["edges"][:i] + [[u, v, c2]] + cur["edges"][i + 1:])
                    try:
                        if fails(cand):
                            cur = cand
                            changed = True
                            break
                    except Exception:
                        continue
                if changed:
                    break
    used = {cur["s"], cur["t"]} | {x for e in cur["edges"] for x in e[:2]}
    return dict(cur, verts=[v for v in cur["verts"] if v in used])


def run_batch(R, nets, tag, deadline):
    mirror = bool(R.thorough) or tag in ("corpus", "replay")     # the dfs_path mirror: path sequence, flow dict and cut, exactly
    cases = [{"nets": ch, "paths": mirror} for ch in chunks(nets, 200)]
    results = pmap("c08", "impl_batch", cases, deadline=deadline)
    flat = []
    for case, res in zip(cases, results):
        if "results" not in res and len(case["nets"]) == 1:
            flat.append({"hang": True} if "hang" in res else {"exc": res.get("exc", "crash"), "msg": res.get("msg", "")})
        elif "results" not in res:
            singles = pmap_singles("c08", "impl_batch", [{"nets": [N], "paths": mirror} for N in case["nets"]], deadline=min(deadline, 20.0), R=R)
            flat += [s["results"][0] if "results" in s else ({"skipped": True} if "skipped" in s else {"hang": True}) for s in singles]
        else:
            flat += res["results"]
    ff_ans = lean_query([flowlib.lean_ff_line(N) for N in nets])
    cert_lines, idx = [], []
    if HAVE_FLOWCUT:
        for i, (N, r) in enumerate(zip(nets, flat)):
            if "flow" in r:
                cert_lines.append(flowlib.lean_flowcut_line(N, r["flow"], r["cut"]))
                idx.append(i)
    cert_ans = dict(zip(idx, lean_query(cert_lines))) if cert_lines else {}
    for i, (N, r) in enumerate(zip(nets, flat)):
        judge(R, N, r, ff_ans[i], cert_ans.get(i), tag)
    if mirror:
        idx2 = [i for i, r in enumerate(flat) if "paths" in r]
        # self loops are outside the mirror's validated domain only if the model answers `err wf`; compare everything else
        ans2 = lean_query([flowlib.lean_ffdfs_line(nets[i]) for i in idx2])
        for i, a in zip(idx2, ans2):
            exp = flowlib.ffdfs_expected(nets[i], flat[i])
            if a != exp:
                R.corr_break("augmenting-path sequence, flow dict and cut = Lean mirror of dfs_path / ford_fulkerson (Dfs.ffDfs)", ENTRY, nets[i],
                             {"paths": flat[i]["paths"], "flow": flat[i]["flow"], "cut": flat[i]["cut"]}, a)
            else:
                R.count("dfs_mirror_equal")


@guard
def impl_helpers(case):
    from harness import helperlib
    return {"cases": helperlib.build_cases(case["seed"], case["which"], case["count"])}


def run_helper_glue(R, which, count, jobs=4):
    """the helper functions around the core (reachable_vertices, flow_across_network, capacity_across_cut / convert_bipartite_graph_to_flow_network,
    positivity_graph) against their Lean mirrors: model coverage outside the property statement, reported as glue (never a verdict)"""
    from harness.common import lean_query
    js = [{"seed": R.rng.randrange(10 ** 6), "which": which, "count": count} for _ in range(jobs)]
    rs = pmap(__name__.split(".")[-1], "impl_helpers", js, deadline=300.0)
    allc = []
    for r in rs:
        if isinstance(r, dict) and "cases" in r:
            allc += r["cases"]
        else:
            R.glue("helpers:" + which, False, {"worker": r})
    for c, a in zip(allc, lean_query([c["line"] for c in allc])):
        R.glue("helpers:" + c["tag"], c["real"] == a, {"line": c["line"][:300], "real": c["real"][:200], "model": a[:200]})


def corpus():
    path = os.path.join(VERIF, "corpus", "C08.jsonl")
    return [json.loads(l) for l in open(path) if l.strip()] if os.path.exists(path) else []


def run(R):
    R.rule = ("random networks (<=8 vertices quick / <=9 thorough): sparse..complete, capacities incl. 0 and sys.maxsize, opposite "
              "edge pairs, edges into s / out of t, arbitrary integer labels, rotation-poset-shaped networks (s=-1, t=-2, infinite arcs); "
              "thorough adds ALL 3-vertex networks with capacities {absent,0,1,2} and ALL 4-vertex networks with {absent,1,2}. "
              "Non-trivial = max flow > 0 and >= 3 edges; distinct by network.")
    R.assumptions = ["independent Edmonds-Karp is the reference for the maximum-flow value",
                     "the code's dfs_path is modelled by a reachability search whose result is checked at run time in the model"]
    def many_hangs():
        # a routine that does not return is reported after a few deadlines, not after one deadline per generated network
        return sum(1 for v in R.violations if v.get("oracle_verdict") and "non-termination" in str(v.get("oracle_verdict"))) >= 3
    for c in corpus():
        if many_hangs():
            break
        run_batch(R, [c["net"]], "corpus", 10.0)
    if many_hangs():
        return
    # the code's path search enumerates simple paths (exponential in dense graphs), so sizes stay within the property's
    # quantifier (up to 8 vertices; 9 in the thorough tier): beyond that slowness would be mistaken for non-termination
    run_batch(R, gen_random(R, 6000 if R.thorough else 900, 9 if R.thorough else 8), "random", 300.0 if R.thorough else 90.0)
    if R.thorough:
        R.exhaustive = True
        run_batch(R, list(gen_exhaustive3()), "exhaustive3", 120.0)
        for ch in chunks(gen_exhaustive4(), 60000):
            run_batch(R, ch, "exhaustive4", 300.0)
    if not R.violations:
        run_helper_glue(R, "flow", 600 if R.thorough else 60)
    if R.corr_breaks and not R.violations:
        search(R)


def search(R):
    for cb in R.corr_breaks[:5]:
        net = cb["input"]
        for t in range(400):
            N = json.loads(json.dumps(net))
            if N["edges"]:
                i = R.rng.randrange(len(N["edges"]))
                N["edges"][i][2] = R.rng.choice([0, 1, 2, 3, 5])
            try:
                r = flowlib.call_ff(N)
            except Exception as e:  # noqa
                R.violation("property_violation", "total", ENTRY, N, impl_output=repr(e), oracle="raised")
                return
            errs = flowlib.check_flow(N, r["flow"], r["cut"])
            if errs:
                R.violation("property_violation", "flow laws, maximum value, minimum cut", ENTRY, N, impl_output=r, oracle=errs, minimised_from=net)
                return


def replay(R, rep):
    run_batch(R, [rep["input"]], "replay", 10.0)
