"""Shared machinery of the socialchoicekit verification harness.

Every check (`./check Cxx --tier T`) does, in this order:
  1. `lake build` of /verif/lean (exit 2 on failure: infrastructure, never a VIOLATION);
  2. proof audit of the theorems in lean/Sck/Props/Cxx.lean (`#print axioms`, grep for sorry & co);
  3. corpus + generated cases: real code (imported from /repo's working tree) vs. the Lean model's
     executable definitions through the line-protocol driver, plus the direct property oracle;
  4. on any broken obligation / disagreement: failing-input search on the real code, replay file,
     `VIOLATION property=<id> replay=<path>` (suffix ` no-failing-input-found` if none), exit 1;
  5. evidence/<id>.json.
"""
import sys, os, json, time, subprocess, hashlib, random, re, math, traceback
from fractions import Fraction

VERIF = os.path.dirname(os.path.dirname(os.path.abspath(__file__)))
REPO = os.environ.get("VERIF_REPO", "/repo")
LEAN = os.path.join(VERIF, "lean")
# VERIF_OUT_DIR / VERIF_EVIDENCE_DIR redirect scratch output and evidence (used by the mutation sweep and the seeded-change
# evaluation so that several runs of one property do not overwrite each other or the committed evidence)
OUT = os.environ.get("VERIF_OUT_DIR") or os.path.join(VERIF, "out")
REPLAYS = os.path.join(OUT, "replays")
EVID = os.environ.get("VERIF_EVIDENCE_DIR") or os.path.join(VERIF, "evidence")
ALLOWED_AXIOMS = {"propext", "Classical.choice", "Quot.sound"}
GUARD = "SOCIALCHOICEKIT_VERIF"

# the implementation under test is always /repo's working tree
if REPO not in sys.path:
    sys.path.insert(0, REPO)
os.environ[GUARD] = "1"


class Infra(Exception):
    """infrastructure failure (exit 2), never a verdict about the property"""


# ------------------------------------------------------------------------------------------------
# exact numbers across the boundary
def fr(x):
    """exact rational text of a Python/numpy number ('x' for NaN)"""
    if x is None:
        return "x"
    if isinstance(x, Fraction):
        f = x
    else:
        if isinstance(x, float) or hasattr(x, "dtype"):
            xf = float(x)
            if math.isnan(xf):
                return "x"
            if math.isinf(xf):
                raise ValueError("inf crosses the boundary")
            f = Fraction(xf)
        else:
            f = Fraction(x)
    return str(f.numerator) if f.denominator == 1 else f"{f.numerator}/{f.denominator}"


def unfr(s):
    if s == "x":
        return None
    return Fraction(s)


def optn(x):
    """rank entry -> token (NaN -> x)"""
    if x is None:
        return "x"
    xf = float(x)
    if math.isnan(xf):
        return "x"
    return str(int(xf))


def toks_matrix(M, f):
    return " ".join(f(v) for row in M for v in row)


# ------------------------------------------------------------------------------------------------
# Lean side
_built = False


def lean_build():
    global _built
    if _built:
        return
    t0 = time.time()
    p = subprocess.run(["lake", "build", "Sck", "driver"], cwd=LEAN, capture_output=True, text=True)
    if p.returncode != 0:
        raise Infra("lake build failed:\n" + p.stdout[-3000:] + p.stderr[-3000:])
    _built = True
    return time.time() - t0


def driver_path():
    return os.path.join(LEAN, ".lake", "build", "bin", "driver")


def lean_query(lines):
    """send op lines to the model driver, get one answer line per op"""
    if not lines:
        return []
    lean_build()
    data = "\n".join(lines) + "\n"
    exe = driver_path()
    if os.path.exists(exe):
        cmd = [exe]
    else:
        cmd = ["lake", "env", "lean", "--run", "Main.lean"]
    p = subprocess.run(cmd, cwd=LEAN, input=data, capture_output=True, text=True)
    if p.returncode != 0:
        raise Infra("driver failed: " + p.stderr[-2000:])
    out = p.stdout.split("\n")
    if out and out[-1] == "":
        out.pop()
    if len(out) != len(lines):
        raise Infra(f"driver answered {len(out)} lines for {len(lines)} ops")
    return out


_COMMENT_BLOCK = re.compile(r"/-.*?-/", re.S)
_COMMENT_LINE = re.compile(r"--.*")
_BAD = re.compile(r"\bsorry\b|\badmit\b|^\s*axiom\s|native_decide|bv_decide|implemented_by|\bunsafe\s|maxHeartbeats\s+0",
                  re.M)


def strip_comments(src):
    return _COMMENT_LINE.sub("", _COMMENT_BLOCK.sub("", src))


def props_file(prop):
    return os.path.join(LEAN, "Sck", "Props", f"{prop}.lean")


def props_modules(prop):
    """Props/<prop>.lean plus companion files Props/<prop><Suffix>.lean (e.g. C16Real)"""
    d = os.path.join(LEAN, "Sck", "Props")
    if not os.path.isdir(d):
        return []
    return sorted(f[:-5] for f in os.listdir(d) if f.endswith(".lean") and re.fullmatch(re.escape(prop) + r"([A-Za-z][A-Za-z0-9]*)?", f[:-5]))


def obligations_of(prop):
    """theorem names stated in the property files (which hold nothing but property theorems and examples);
    names are qualified by the enclosing `namespace`, if any"""
    names = []
    for mod in props_modules(prop):
        src = strip_comments(open(os.path.join(LEAN, "Sck", "Props", mod + ".lean")).read())
        ns = []
        for line in src.split("\n"):
            m = re.match(r"^\s*namespace\s+(\S+)", line)
            if m:
                ns.append(m.group(1)); continue
            m = re.match(r"^\s*end\s+(\S+)", line)
            if m and ns and ns[-1] == m.group(1):
                ns.pop(); continue
            m = re.match(r"^\s*(?:protected\s+)?theorem\s+([A-Za-z_][A-Za-z0-9_.']*)", line)   # `private` helpers of examples are not obligations
            if m:
                names.append(".".join(ns + [m.group(1)]))
    return names


def lean_sources_hash():
    h = hashlib.sha256()
    for root, _, files in sorted(os.walk(os.path.join(LEAN, "Sck"))):
        for f in sorted(files):
            if f.endswith(".lean"):
                h.update(f.encode())
                h.update(open(os.path.join(root, f), "rb").read())
    h.update(open(os.path.join(LEAN, "Main.lean"), "rb").read())
    return h.hexdigest()


def proof_audit(prop, thorough=False):
    """returns dict(obligations=[...], discharged=[...], problems=[...], axioms={thm: [...]})"""
    lean_build()
    names = obligations_of(prop)
    res = {"obligations": names, "discharged": [], "problems": [], "axioms": {}}
    # 1. textual scan of the whole library (comments stripped)
    for root, _, files in os.walk(os.path.join(LEAN, "Sck")):
        for f in files:
            if f.endswith(".lean"):
                src = strip_comments(open(os.path.join(root, f)).read())
                m = _BAD.search(src)
                if m:
                    res["problems"].append(f"forbidden token {m.group(0).strip()!r} in {f}")
    if not names:
        return res
    os.makedirs(OUT, exist_ok=True)
    cache = os.path.join(OUT, f"audit-{prop}.json")
    key = "v3:" + lean_sources_hash() + ":" + hashlib.sha256("\n".join(names).encode()).hexdigest()[:16]
    cached = None
    if os.path.exists(cache) and not thorough:
        try:
            c = json.load(open(cache))
            if c.get("key") == key:
                cached = c["axioms"]
        except Exception:
            cached = None
    if cached is None:
        audit = os.path.join(OUT, f"Audit_{prop}.lean")
        with open(audit, "w") as fh:
            for mod in props_modules(prop):
                fh.write(f"import Sck.Props.{mod}\n")
            for n in names:
                fh.write(f"#print axioms {n}\n")
        p = subprocess.run(["lake", "env", "lean", audit], cwd=LEAN, capture_output=True, text=True)
        txt = p.stdout + p.stderr
        cached = {}
        # "'name' depends on axioms: [a, b]" or "'name' does not depend on any axioms"
        for m in re.finditer(r"'([^\n]+?)' depends on axioms: \[([^\]]*)\]", txt, re.S):
            cached[m.group(1)] = [a.strip() for a in m.group(2).replace("\n", " ").split(",") if a.strip()]
        for m in re.finditer(r"'([^\n]+?)' does not depend on any axioms", txt):
            cached[m.group(1)] = []
        if p.returncode != 0:
            res["problems"].append("audit file failed to elaborate: " + txt[-800:])
        else:
            json.dump({"key": key, "axioms": cached}, open(cache, "w"))
    for n in names:
        ax = cached.get(n)
        res["axioms"][n] = ax
        if ax is None:
            res["problems"].append(f"theorem {n} missing from the built environment")
        elif not set(ax) <= ALLOWED_AXIOMS:
            res["problems"].append(f"theorem {n} depends on {sorted(set(ax) - ALLOWED_AXIOMS)}")
        else:
            res["discharged"].append(n)
    if thorough and names:
        p = subprocess.run(["lake", "env", "leanchecker"] + [f"Sck.Props.{m}" for m in props_modules(prop)], cwd=LEAN, capture_output=True, text=True)
        res["leanchecker"] = "ok" if p.returncode == 0 else (p.stdout + p.stderr)[-500:]
        if p.returncode != 0:
            res["problems"].append("leanchecker rejected Sck.Props." + prop)
    return res


# ------------------------------------------------------------------------------------------------
# known findings
def load_known():
    path = os.path.join(VERIF, "known_findings.json")
    if not os.path.exists(path):
        return {"known": [], "fixed": []}
    return json.load(open(path))


# ------------------------------------------------------------------------------------------------
class Run:
    """state of one check run: counters, samples, violations, evidence"""

    def __init__(self, prop, tier, seed, level):
        self.prop, self.tier, self.seed, self.level = prop, tier, seed, level
        self.rng = random.Random((seed * 1000003) ^ int(hashlib.sha256(prop.encode()).hexdigest()[:8], 16))
        self.t0 = time.time()
        self.evaluations = 0
        self.nontrivial = set()
        self.samples = []
        self.hist = {}
        self.violations = []       # list of replay dicts
        self.known_hits = {}       # signature -> count
        self.corr_breaks = []      # correspondence disagreements not (yet) explained by an oracle failure
        self.notes = []
        self.audit = None
        self.extra = {}
        self.rule = ""
        self.assumptions = []
        self.exhaustive = False
        self.known = load_known()
        self.ambiguous = 0
        self.is_replay = False

    @property
    def thorough(self):
        return self.tier == "thorough"

    def nprng(self):
        import numpy as np
        return np.random.RandomState(self.rng.randrange(2 ** 31))

    def count(self, key, k=1):
        self.hist[key] = self.hist.get(key, 0) + k

    def case(self, nontrivial_key=None, sample=None):
        self.evaluations += 1
        if nontrivial_key is not None:
            self.nontrivial.add(nontrivial_key if isinstance(nontrivial_key, (str, int, tuple)) else json.dumps(nontrivial_key, sort_keys=True, default=str))
        if sample is not None and len(self.samples) < 5:
            self.samples.append(sample)

    # -- verdicts -------------------------------------------------------------------------------
    def match_known(self, call_site, failure_kind):
        for k in self.known.get("known", []):
            if k["property"] == self.prop and k["call_site"] == call_site and k["failure_kind"] == failure_kind:
                return k
        return None

    def violation(self, kind, relation, entry_point, inp, impl_output=None, model_output=None, oracle=None,
                  config=None, call_site=None, failure_kind=None, condition_holds=True, minimised_from=None):
        """record a property violation (or a known finding if it matches the committed signature)"""
        if call_site and failure_kind and condition_holds:
            k = self.match_known(call_site, failure_kind)
            if k is not None:
                sig = (call_site, failure_kind)
                if sig not in self.known_hits:
                    self.known_hits[sig] = {"count": 0, "what": k.get("what", failure_kind), "example": inp}
                self.known_hits[sig]["count"] += 1
                return
        rep = {"property": self.prop, "tier": self.tier, "seed": self.seed, "kind": kind, "relation": relation,
               "entry_point": entry_point, "config": config or {}, "input": inp, "impl_output": impl_output,
               "model_output": model_output, "oracle_verdict": oracle, "minimised_from": minimised_from}
        self.violations.append(rep)

    def glue(self, name, equal, example=None):
        """correspondence of a helper / validation function that the model covers but the PROPERTY does not speak about: counted and
        reported in the evidence (and as a NOTE line), never a verdict -- a harmless rewrite of such a function must not raise an alarm"""
        g = self.extra.setdefault("glue_correspondences", {}).setdefault(name, {"compared": 0, "equal": 0, "disagreements": []})
        g["compared"] += 1
        if equal:
            g["equal"] += 1
        elif len(g["disagreements"]) < 3 and example is not None:
            g["disagreements"].append(example)

    def corr_break(self, relation, entry_point, inp, impl_output, model_output, config=None):
        self.corr_breaks.append({"relation": relation, "entry_point": entry_point, "input": inp,
                                 "impl_output": impl_output, "model_output": model_output, "config": config or {}})

    # -- finishing ------------------------------------------------------------------------------
    def finish(self):
        os.makedirs(REPLAYS, exist_ok=True)
        os.makedirs(EVID, exist_ok=True)
        lines = []
        # broken obligations / correspondences without a concrete failing input
        unexplained = []
        if self.audit is not None and self.audit["problems"]:
            for pr in self.audit["problems"]:
                unexplained.append({"kind": "proof_obligation", "relation": pr})
        if not self.violations:
            for cb in self.corr_breaks[:3]:
                unexplained.append(dict(cb, kind="correspondence"))
        nviol = 0
        seen = set()
        for rep in self.violations:
            key = json.dumps([rep["entry_point"], rep["relation"]], default=str)
            if key in seen and nviol >= 3:
                continue
            seen.add(key)
            path = self._write_replay(rep)
            lines.append(f"VIOLATION property={self.prop} replay={path}")
            nviol += 1
            if nviol >= 5:
                break
        if not self.violations:
            for u in unexplained:
                rep = {"property": self.prop, "tier": self.tier, "seed": self.seed, "kind": u["kind"],
                       "relation": u["relation"], "entry_point": u.get("entry_point"), "config": u.get("config", {}),
                       "input": u.get("input"), "impl_output": u.get("impl_output"),
                       "model_output": u.get("model_output"), "oracle_verdict": "no failing input found by the search",
                       "minimised_from": None}
                path = self._write_replay(rep)
                lines.append(f"VIOLATION property={self.prop} replay={path} no-failing-input-found")
                nviol += 1
        for name, g in (self.extra.get("glue_correspondences") or {}).items():
            if g["compared"] != g["equal"]:
                print(f"NOTE: property={self.prop} model coverage outside the property: {name}: {g['compared'] - g['equal']} of {g['compared']} "
                      f"cases differ from the model (no verdict; details in the evidence file)")
        for sig, info in self.known_hits.items():
            print(f"KNOWN-FINDING: property={self.prop} {sig[0]}: {info['what']} ({info['count']} case(s) this run)")
        if not self.is_replay:      # a replay re-judges one recorded input; it is not a check run
            self._write_evidence(nviol)
        for l in lines:
            print(l)
        dt = time.time() - self.t0
        print(f"[{self.prop}] tier={self.tier} seed={self.seed} evaluations={self.evaluations} "
              f"nontrivial={len(self.nontrivial)} violations={nviol} wall={dt:.1f}s")
        return 1 if nviol else 0

    def _write_replay(self, rep):
        blob = json.dumps(rep, sort_keys=True, default=_json_default)
        h = hashlib.sha256(blob.encode()).hexdigest()[:12]
        path = os.path.join(REPLAYS, f"{self.prop}-{h}.json")
        with open(path, "w") as fh:
            json.dump(rep, fh, indent=1, sort_keys=True, default=_json_default)
        return os.path.relpath(path, VERIF)

    def _write_evidence(self, nviol):
        cov = {
            "evaluations": self.evaluations,
            "distinct_nontrivial": len(self.nontrivial),
            "rule": self.rule,
            "samples": self.samples if self.samples else [{"note": "no case was generated"}],
            "input_histogram": self.hist,
            "exhaustive": bool(self.exhaustive),
            "ambiguous_excluded": self.ambiguous,
        }
        if self.audit is not None:
            cov["obligations"] = len(self.audit["obligations"])
            cov["discharged"] = len(self.audit["discharged"])
            cov["theorems"] = self.audit["obligations"]
            cov["axioms"] = self.audit["axioms"]
            cov["checker_cmd"] = (f"cd lean && lake build && lake env lean ../out/Audit_{self.prop}.lean  "
                                  f"(#print axioms on every theorem of Sck/Props/{self.prop}.lean)"
                                  + ("; lake env leanchecker Sck.Props." + self.prop if self.thorough else ""))
            cov["trusted_base"] = [
                "Lean 4.33 kernel", "axioms: propext, Classical.choice, Quot.sound (no native_decide, no own axioms)",
                "Mathlib v4.33 modules imported by Sck/Proofs",
                "hand-written model tied to /repo by the differential correspondence run of this check",
                "Python harness, fractions.Fraction, the compiled Lean driver"]
            if "leanchecker" in self.audit:
                cov["leanchecker"] = self.audit["leanchecker"]
        if self.level == "translation_validation":
            cov["programs"] = max(1, self.evaluations)
            cov["disagreements_checked"] = len(self.corr_breaks) + len(self.violations)
        if self.level == "other":
            cov["explanation"] = self.extra.get("explanation", self.rule)
        cov.update({k: v for k, v in self.extra.items() if k != "explanation"})
        ev = {"property_id": self.prop, "tier": self.tier, "seed": self.seed, "level": self.level,
              "coverage": cov, "assumptions": self.assumptions, "wall_s": round(time.time() - self.t0, 2),
              "violations": nviol}
        with open(os.path.join(EVID, f"{self.prop}.json"), "w") as fh:
            json.dump(ev, fh, indent=1, default=_json_default)


def _json_default(o):
    try:
        import numpy as np
        if isinstance(o, np.ndarray):
            return [_json_default(x) if isinstance(x, np.ndarray) else _num(x) for x in o.tolist()] if o.ndim else _num(o.item())
        if isinstance(o, np.generic):
            return _num(o.item())
    except ImportError:
        pass
    if isinstance(o, Fraction):
        return fr(o)
    if isinstance(o, (set, frozenset)):
        return sorted(o)
    if isinstance(o, tuple):
        return list(o)
    return repr(o)


def _num(x):
    if isinstance(x, list):
        return [_num(y) for y in x]
    if isinstance(x, float) and math.isnan(x):
        return None
    return x


def jmat(M):
    """numpy matrix -> JSON-able nested list (NaN -> None)"""
    import numpy as np
    return _num(np.asarray(M).tolist())


def call(f, *a, **k):
    """run an implementation entry point; returns ('ok', value) or ('exc', ClassName, message)"""
    try:
        return ("ok", f(*a, **k))
    except Exception as e:  # noqa
        return ("exc", type(e).__name__, str(e)[:200])


# ------------------------------------------------------------------------------------------------
# supervised parallel execution of implementation calls
def pmap(module, func, cases, deadline=20.0, workers=None):
    """run harness.<module>.<func>(case) for every case in worker processes.
    Returns a list of results; a call that exceeds `deadline` seconds yields {"hang": True}."""
    import threading, select, queue
    cases = list(cases)
    n = len(cases)
    results = [None] * n
    if n == 0:
        return results
    if workers is None:
        workers = max(1, min(int(os.environ.get("VERIF_WORKERS", "12")), n))
    q = queue.Queue()
    for i in range(n):
        q.put(i)
    env = dict(os.environ)
    env["PYTHONPATH"] = VERIF + os.pathsep + REPO + os.pathsep + env.get("PYTHONPATH", "")
    env["PYTHONWARNINGS"] = "ignore"
    env["OMP_NUM_THREADS"] = "1"
    env["OPENBLAS_NUM_THREADS"] = "1"
    errors = []

    def spawn():
        return subprocess.Popen([sys.executable, "-m", "harness.worker", module, func], cwd=VERIF, env=env,
                                stdin=subprocess.PIPE, stdout=subprocess.PIPE, stderr=subprocess.DEVNULL,
                                text=True, bufsize=1)

    def work():
        proc = spawn()
        try:
            while True:
                try:
                    i = q.get_nowait()
                except queue.Empty:
                    break
                try:
                    proc.stdin.write(json.dumps(cases[i], default=_json_default) + "\n")
                    proc.stdin.flush()
                    r, _, _ = select.select([proc.stdout], [], [], deadline)
                    if not r:
                        proc.kill(); proc.wait()
                        results[i] = {"hang": True, "deadline_s": deadline}
                        proc = spawn()
                        continue
                    line = proc.stdout.readline()
                    if not line:
                        rc = proc.wait()
                        results[i] = {"crash": True, "returncode": rc}
                        proc = spawn()
                        continue
                    results[i] = json.loads(line)
                except Exception as e:  # noqa
                    errors.append(f"{type(e).__name__}: {e}")
                    results[i] = {"worker_error": str(e)}
                    try:
                        proc.kill()
                    except Exception:
                        pass
                    proc = spawn()
        finally:
            try:
                proc.stdin.close(); proc.wait(timeout=5)
            except Exception:
                try:
                    proc.kill()
                except Exception:
                    pass

    ths = [threading.Thread(target=work) for _ in range(workers)]
    for t in ths:
        t.start()
    for t in ths:
        t.join()
    bad = [r for r in results if isinstance(r, dict) and "worker_error" in r]
    if bad:
        raise Infra("worker error: " + json.dumps(bad[0])[:1500])
    return results


def pmap_singles(module, func, cases, deadline, max_hangs=4, R=None):
    """re-run the cases of a chunk that did not answer, one per worker call, to find the culprit(s). As soon as `max_hangs` calls have
    been confirmed not to return, the remaining cases are NOT run any more (answer {"skipped": True}): a non-terminating implementation
    is reported after a few deadlines instead of after one deadline per generated case"""
    out = []
    hangs = getattr(R, "_hangs", 0) if R is not None else 0     # with R: the budget is shared by all chunks of the run
    step = 12
    for k in range(0, len(cases), step):
        if hangs >= max_hangs:
            out += [{"skipped": True}] * (len(cases) - k)
            break
        rs = pmap(module, func, cases[k:k + step], deadline=deadline)
        hangs += sum(1 for r in rs if isinstance(r, dict) and "hang" in r)
        out += rs
    if R is not None:
        R._hangs = hangs
    return out


def relayout(a):
    """same values, another memory layout (C-contiguous / Fortran-ordered / strided view of a larger buffer), chosen
    deterministically from the content: results must not depend on how the caller's array is laid out in memory"""
    import numpy as np
    if a.ndim != 2 or a.size == 0 or os.environ.get("VERIF_NO_RELAYOUT"):
        return a
    h = int(hashlib.sha256(a.tobytes() + str(a.dtype).encode()).hexdigest()[:4], 16) % 14
    if h < 6:
        return a
    if h < 8:
        return np.asfortranarray(a)
    if h < 10:
        big = np.zeros((a.shape[0] * 2, a.shape[1] * 2), dtype=a.dtype)
        big[::2, ::2] = a
        v = big[::2, ::2]
        assert not v.flags["C_CONTIGUOUS"] or a.size <= 1
        return v
    if h < 12:
        # negative strides in both dimensions: a reversed view of a reversed copy
        return np.array(a[::-1, ::-1])[::-1, ::-1]
    # a read-only array: a legal argument for anything that does not write into its inputs
    r = np.array(a)
    r.setflags(write=False)
    return r


def to_np(M, dtype=float):
    import numpy as np
    if M is None:
        return None
    a = np.array([[np.nan if v is None else v for v in row] for row in M], dtype=float) if (len(M) and isinstance(M[0], list)) else np.array([np.nan if v is None else v for v in M], dtype=float)
    if dtype is not float:
        a = a.astype(dtype)
    return relayout(a)


def exc_of(res):
    return isinstance(res, dict) and ("exc" in res)


def guard(fn):
    """decorator for worker-side functions: implementation exceptions become {"exc": class, "msg": ...}"""
    def w(case):
        try:
            return fn(case)
        except Exception as e:  # noqa
            return {"exc": type(e).__name__, "msg": str(e)[:300]}
    w.__name__ = fn.__name__
    return w


def safe_judge(fn):
    """decorator for judge functions (first argument = Run): an implementation output the harness cannot even interpret
    (unexpected shape/type after a code change) is a broken correspondence, not an infrastructure error"""
    import functools

    @functools.wraps(fn)
    def w(R, *a, **k):
        if any(isinstance(x, dict) and x.get("skipped") is True and len(x) == 1 for x in a):
            R.count("not_run_after_repeated_non_termination")      # see pmap_singles
            return None
        try:
            return fn(R, *a, **k)
        except Infra:
            raise
        except Exception as e:  # noqa
            tb = traceback.format_exc()[-900:]
            inp = None
            for x in a:
                if isinstance(x, dict):
                    inp = x
                    break
            R.corr_break("implementation output can be interpreted by the harness (shape/type as documented)", fn.__module__ + "." + fn.__name__,
                         inp, "harness exception while judging: " + repr(e), tb)
    return w


# ------------------------------------------------------------------------------------------------
# argument-encoding robustness: results must not depend on how a valid argument is encoded or on earlier calls
class Buffers:
    """persistent argument buffers of one worker batch: a later case with the same shape and dtype is written INTO the array
    object used by the earlier case (in-place overwrite), so `same object, new contents` sequences occur naturally when
    rule objects are reused as well"""

    def __init__(self):
        self.bufs = {}

    def get(self, name, arr):
        import numpy as np
        arr = np.asarray(arr)
        key = (name, arr.shape, str(arr.dtype), bool(arr.flags["C_CONTIGUOUS"]), bool(arr.flags["F_CONTIGUOUS"]))
        b = self.bufs.get(key)
        if b is None:
            b = np.array(arr, order="K") if (arr.flags["C_CONTIGUOUS"] or arr.flags["F_CONTIGUOUS"]) else arr
            self.bufs[key] = b
            return b
        b[...] = arr
        return b


# process-wide persistence (one worker process serves a whole batch of cases): the same ARRAY object, the same PROFILE VIEW object
# and the same RULE object are handed to the implementation again and again, refilled in place with the next case's contents.
# A correct implementation cannot tell; one that caches by object identity, keeps state on the rule object, or writes into its
# arguments shows up as a wrong answer on a later case.  VERIF_NO_PERSIST=1 switches it off (debugging aid).
_PERSIST = {}
_RULES = {}


def persist(name, arr, of=None):
    """the persistent argument object for `arr` (same name, shape, dtype, layout, wrapper -> same object, refilled in place);
    `of` is the profile-class constructor (e.g. StrictCompleteProfile.of): the new contents are validated by it every time, but
    the view object created on first use is the one returned"""
    import numpy as np
    arr = np.asarray(arr)
    if os.environ.get("VERIF_NO_PERSIST") or arr.ndim == 0:
        return of(arr) if of is not None else arr
    ro = not arr.flags["WRITEABLE"]
    key = (name, arr.shape, str(arr.dtype), bool(arr.flags["C_CONTIGUOUS"]), bool(arr.flags["F_CONTIGUOUS"]),
           getattr(of, "__qualname__", None), ro)
    ent = _PERSIST.get(key)
    if ent is None:
        buf = np.array(arr, order="K") if (arr.flags["C_CONTIGUOUS"] or arr.flags["F_CONTIGUOUS"]) else arr
        if ro:
            buf.setflags(write=False)       # a read-only argument stays read-only (views created from it are read-only too)
        view = of(buf) if of is not None else buf
        _PERSIST[key] = (buf, view)
        return view
    buf, view = ent
    if ro:
        buf.setflags(write=True)
    buf[...] = arr
    if ro:
        buf.setflags(write=False)
    if of is not None:
        of(buf)          # validation of the new contents (raises exactly as a fresh construction would)
    return view


def persist_rule(key, factory):
    """one rule object per configuration for the life of the worker process"""
    if os.environ.get("VERIF_NO_PERSIST"):
        return factory()
    if key not in _RULES:
        _RULES[key] = factory()
    return _RULES[key]


_FLAGS_INSTALLED = False


def install_flag_variation():
    """boolean configuration flags (zero_indexed, resident_oriented, memoize) often arrive as numpy booleans (the result of a comparison on
    arrays) rather than as Python bools: in every third construction of a library object the harness passes its bool arguments as numpy.bool_.
    Installed in the worker processes only; it changes how the harness CALLS the library, not the library."""
    global _FLAGS_INSTALLED
    if _FLAGS_INSTALLED or os.environ.get("VERIF_NO_FLAG_VARIATION"):
        return
    _FLAGS_INSTALLED = True
    import importlib, inspect, functools
    import numpy as np
    counter = [0]
    mods = ["deterministic_allocation", "deterministic_matching", "deterministic_multiround", "deterministic_scoring", "deterministic_tournament",
            "elicitation_allocation", "elicitation_matching", "elicitation_utils", "elicitation_voting", "randomized_allocation", "randomized_scoring"]
    for m in mods:
        try:
            mod = importlib.import_module("socialchoicekit." + m)
        except Exception:  # noqa
            continue
        for name, cls in list(vars(mod).items()):
            if not inspect.isclass(cls) or getattr(cls, "__module__", None) != mod.__name__ or "__init__" not in vars(cls):
                continue
            orig = cls.__init__
            try:
                params = inspect.signature(orig).parameters
            except (TypeError, ValueError):
                continue
            if not any(isinstance(p.default, bool) for p in params.values()):
                continue

            def make(orig):
                cnt = [0]      # per class; the FIRST construction in a worker is varied (a worker often builds each rule object only once)

                @functools.wraps(orig)
                def init(self, *a, **k):
                    cnt[0] += 1
                    if (cnt[0] - 1) % 3 == 0:
                        a = tuple(np.bool_(x) if isinstance(x, bool) else x for x in a)
                        k = {kk: (np.bool_(v) if isinstance(v, bool) else v) for kk, v in k.items()}
                    return orig(self, *a, **k)
                return init
            cls.__init__ = make(orig)


def nonliteral(s):
    """an equal but not interned copy of a string argument (as it would arrive from json, argv, a config file)"""
    return "".join(list(s)) if isinstance(s, str) else s


INT_DTYPES = ["int64", "int64", "int32", "int16", "int8"]     # signed only: the library negates / subtracts ranks


def pick_int_dtype(rng, maxval):
    """a valid integer dtype for values 0..maxval (small dtypes only when the values fit)"""
    import numpy as np
    for _ in range(8):
        d = rng.choice(INT_DTYPES)
        if maxval <= np.iinfo(d).max:
            return d
    return "int64"
