"""C15 - elicitation rules learn values only by asking, within their query budget; the memoising elicitor machine."""
import json, math
from fractions import Fraction
import numpy as np
from harness import votelib as V, eliclib as E, smlib as S
from harness.common import pmap, lean_query, guard, fr, safe_judge, persist, persist_rule
from harness.c01 import chunks

LEVEL = "proof"
ENTRY = "socialchoicekit.elicitation_utils / elicitation rules"


NAN_SENTINEL = "987654321/1000003"     # the state machine is value-agnostic: a NaN answer travels as this rational


def clog2(m):
    return 0 if m <= 1 else (m - 1).bit_length()


def scramble(vals, asked, salt):
    """replace every never-asked entry by an arbitrary number"""
    import random
    rng = random.Random(salt)
    out = [row[:] for row in vals]
    for i in range(len(vals)):
        for j in range(len(vals[i])):
            if (i, j) not in asked:
                out[i][j] = rng.choice([0.0, 1e9, -5.0, rng.random() * 100])
    return out


def run_double(P1, P2, V1, V2, l1, l2):
    from socialchoicekit.elicitation_matching import DoubleLambdaTSF
    from socialchoicekit.elicitation_utils import IntegerLambdaElicitor
    logs = [[], []]

    def mk(Vm, log):
        def f(a, j):
            log.append((int(a), int(j)))
            return float(Vm[int(a)][int(j)])
        return IntegerLambdaElicitor(f, memoize=True, zero_indexed=True)
    e1, e2 = mk(V1, logs[0]), mk(V2, logs[1])
    rule = DoubleLambdaTSF(l1, l2, zero_indexed=True)
    p1, p2 = E.profile_of(P1), E.profile_of(P2)
    sim = rule.get_simulated_cardinal_profiles(p1, p2, e1, e2)
    c = [int(e1.elicitation_count), int(e2.elicitation_count)]
    n1 = [len(logs[0]), len(logs[1])]
    # the same elicitor objects serve a second run with other parameters (a lambda sweep): the counter keeps counting the questions
    # actually forwarded, over both runs
    n_ = len(P1)
    rule2 = DoubleLambdaTSF(max(1, (l1 % n_) + 1 if n_ > 1 else 1), max(1, (l2 % n_) + 1 if n_ > 1 else 1), zero_indexed=True)
    rule2.get_simulated_cardinal_profiles(p1, p2, e1, e2)
    c_after = [int(e1.elicitation_count), int(e2.elicitation_count)]
    fwd_after = [len(logs[0]), len(logs[1])]
    out = rule.scf(p1, p2, mk(V1, []), mk(V2, []))
    return {"sim": [[[int(x) for x in row] for row in s] for s in sim], "out": sorted([int(a), int(b)] for a, b in out),
            "log": [[list(q) for q in l[:n1[k_]]] for k_, l in enumerate(logs)], "count": c, "count_after_second_run": c_after, "forwarded_after_second_run": fwd_after}


@guard
def impl_batch(case):
    out = []
    for it in case["items"]:
        try:
            res = {}
            P, vals, k = it["P"], it["vals"], it["k"]
            for rule in it["rules"]:
                kw = dict(el_zero=it.get("el_zero", True), share=it.get("share", False), history=it.get("history"))
                a = E.run_rule(rule, P, vals, k, **kw)
                asked = set((q[0], q[1]) for q in a["log"])
                b = E.run_rule(rule, P, scramble(vals, asked, it["salt"]), k, **kw)
                nm = E.run_rule(rule, P, vals, k, memoize=False, el_zero=it.get("el_zero", True))
                res[rule] = {"a": a, "b": b, "nomemo_count": nm["count"], "nomemo_log_len": len(nm["log"])}
            if "dtsf" in it:
                d = it["dtsf"]
                a = run_double(d["P1"], d["P2"], d["V1"], d["V2"], d["l1"], d["l2"])
                asked1 = set(map(tuple, a["log"][0])); asked2 = set(map(tuple, a["log"][1]))
                sv1 = [[int(x) for x in row] for row in scramble(d["V1"], asked1, it["salt"])]
                sv2 = [[int(x) for x in row] for row in scramble(d["V2"], asked2, it["salt"] + 1)]
                b = run_double(d["P1"], d["P2"], sv1, sv2, d["l1"], d["l2"])
                res["dtsf"] = {"a": a, "b": b}
            out.append(res)
        except Exception as e:  # noqa
            import traceback
            out.append({"exc": type(e).__name__, "msg": str(e)[:200], "tb": traceback.format_exc()[-500:]})
    return {"results": out}


@guard
def impl_machine(case):
    """arbitrary op sequences issued directly to memoising / non-memoising elicitors"""
    from socialchoicekit.elicitation_utils import LambdaElicitor, IntegerLambdaElicitor, ValuationProfileElicitor
    from socialchoicekit.profile_utils import ValuationProfile
    out = []
    for it in case["items"]:
        if it.get("table") is not None:
            # a pre-populated elicitor whose backing table is edited in place between questions: a memoising elicitor answers a repeated
            # question with what it was told the FIRST time, and forwards nothing
            tab = np.array(it["table"], dtype=float)
            el = ValuationProfileElicitor(ValuationProfile.of(tab), memoize=True)
            ans = []
            for op in it["calls"]:
                if op[0] == "e":
                    ans.append(float(el.elicit(op[1], op[2])))
                else:          # ["w", i, j, value]: the table changes under the elicitor
                    tab[op[1], op[2]] = op[3]
            out.append({"answers": [fr(Fraction(x)) for x in ans], "count": int(el.elicitation_count), "table": True})
            continue
        fwd = []
        occ = {}

        def f(a, j):
            key = (int(a), int(j))
            kk = occ.get(key, 0)
            occ[key] = kk + 1
            fwd.append([int(a), int(j)])
            v = it["answers"].get(f"{key[0]},{key[1]},{kk}", 0.0)
            return float("nan") if v == "nan" else v
        integer = bool(it.get("integer"))
        el = (IntegerLambdaElicitor if integer else LambdaElicitor)(f, memoize=it["memoize"], zero_indexed=it["zero"])
        conv = (lambda x: int(x)) if integer else (lambda x: float(x))      # integer answers are compared as exact integers (beyond 2^53 too)
        ans = []
        for op in it["calls"]:
            if op[0] == "e":
                ans.append(conv(el.elicit(op[1], op[2])))
            else:   # one elicit_multiple call (may contain the same pair twice)
                qs = op[1]
                r = el.elicit_multiple(np.array([q[0] for q in qs], dtype=int), np.array([q[1] for q in qs], dtype=int))
                ans += [conv(x) for x in (r.tolist() if integer else r)]
        out.append({"answers": ["nan" if x != x else fr(Fraction(x)) for x in ans], "forwarded": fwd, "count": int(el.elicitation_count)})
    return {"results": out}


@safe_judge
def judge(R, it, res, lean):
    P, vals, k = it["P"], it["vals"], it["k"]
    n, m = len(P), len(P[0])
    inp = {"P": P, "vals": vals, "k_or_lambda": k}
    if "exc" in res or "hang" in res:
        R.violation("property_violation", "total", ENTRY, inp, impl_output=res, oracle="raised/hang")
        return
    lams = E.thresholds(m, k)
    for rule in it["rules"]:
        a, b = res[rule]["a"], res[rule]["b"]
        cfg = {"rule": rule}
        # (1) only asked values matter
        if a["sim"] != b["sim"] or a["out"] != b["out"] or a["log"] != b["log"] or a.get("score") != b.get("score"):
            R.violation("property_violation", "replacing never-asked entries changes nothing (simulated values, outcome, questions)", ENTRY, inp,
                        impl_output={"original": {"out": a["out"], "log": a["log"][:40]}, "scrambled": {"out": b["out"], "log": b["log"][:40]}},
                        oracle="outputs differ after scrambling unasked entries", config=cfg)
            return
        # (2) memoising elicitor: no duplicate forward, counter = forwarded
        if len(set(map(tuple, a["log"]))) != len(a["log"]) or a["count"] != len(a["log"]):
            R.violation("property_violation", "memoising elicitor never forwards a question twice; counter = questions forwarded", ENTRY, inp,
                        impl_output={"log": a["log"], "count": a["count"]}, oracle="duplicate forward or counter mismatch", config=cfg)
            return
        if res[rule]["nomemo_count"] != res[rule]["nomemo_log_len"]:
            R.violation("property_violation", "non-memoising elicitor: counter = questions forwarded", ENTRY, inp, impl_output=res[rule], oracle="counter mismatch", config=cfg)
            return
        # (3) budgets per agent
        per = {i: set() for i in range(n)}
        for ag, alt in a["log"][a.get("pre_history", 0):]:
            per[ag].add(alt)
        pre_q = set(map(tuple, a["log"][:a.get("pre_history", 0)]))
        for i in range(n):
            cnt = len(per[i])
            if rule in ("karv", "tsf"):
                bound = 1 + k * clog2(m)
                bad = cnt > bound
            elif rule == "prv":
                bound = k
                npre_i = len(set(q[1] for q in pre_q if q[0] == i))
                # questions already answered before the rule ran are served from the memo: exactly k in total
                bad = cnt > k or cnt + npre_i < k
            else:
                bound = 2
                bad = cnt > 2
            if bad:
                R.violation("property_violation", f"{rule}: distinct questions per agent within the budget ({bound})", ENTRY, dict(inp, agent=i),
                            impl_output=sorted(per[i]), oracle={"distinct_questions": cnt, "budget": bound}, config=cfg)
                return
            # (4) correspondence: the set of asked ranking positions equals the model's
            order = E.ranked(P, i)
            if any(q[0] == i for q in pre_q):
                continue        # questions answered before the rule ran are not re-asked: the asked set is then a subset; skip
            pos = sorted(order.index(j) for j in per[i])
            if rule in ("karv", "tsf"):
                tv = [Fraction(vals[i][j]) for j in order]
                if E.near(tv, lams):
                    R.ambiguous += 1
                    continue
                t = lean[(rule, i)].split()
                if t[0] != "ok":
                    R.corr_break("model simulate defined", ENTRY, dict(inp, agent=i), pos, lean[(rule, i)], cfg)
                    continue
                qi = t.index("q")
                mq = sorted(set(int(x) for x in t[qi + 2:]))
                if mq != pos:
                    R.corr_break(f"{rule}: asked ranking positions = model simQueries", ENTRY, dict(inp, agent=i), pos, lean[(rule, i)], cfg)
            elif rule == "prv":
                if pos != list(range(k)):
                    R.corr_break("prv asks exactly the lambda best-ranked positions (model prvQueries)", ENTRY, dict(inp, agent=i), pos, list(range(k)), cfg)
            elif rule == "m2q":
                rep = lean[("rootnsd", 0)].split()[1 + i]
                p = order.index(int(rep)) if rep != "x" else 0
                if pos != sorted({0, p}):
                    R.corr_break("m2q asks the favourite and the representative item (model m2qQueries)", ENTRY, dict(inp, agent=i), pos, [0, p], cfg)
    if "dtsf" in res:
        a, b = res["dtsf"]["a"], res["dtsf"]["b"]
        d = it["dtsf"]
        nn = len(d["P1"])
        if a["sim"] != b["sim"] or a["out"] != b["out"] or a["log"] != b["log"]:
            R.violation("property_violation", "two-sided rule: replacing never-asked entries changes nothing", ENTRY, d,
                        impl_output={"original": a["out"], "scrambled": b["out"]}, oracle="outputs differ", config={"rule": "dtsf"})
            return
        for side, lam in ((0, d["l1"]), (1, d["l2"])):
            per = {i: set() for i in range(nn)}
            for ag, alt in a["log"][side]:
                per[ag].add(alt)
            if a["count"][side] != len(a["log"][side]) or len(set(map(tuple, a["log"][side]))) != len(a["log"][side]):
                R.violation("property_violation", "two-sided rule: memoising elicitor never forwards twice, counter = forwarded", ENTRY, d,
                            impl_output=a["log"][side], oracle="duplicate/counter", config={"rule": "dtsf"})
                return
            if "count_after_second_run" in a and a["count_after_second_run"][side] != a["forwarded_after_second_run"][side]:
                R.violation("property_violation", "two-sided rule: the elicitor's counter is the number of questions forwarded, also when the elicitor serves a second run",
                            ENTRY, d, impl_output={"counter": a["count_after_second_run"][side], "forwarded": a["forwarded_after_second_run"][side]},
                            oracle="counter != number of forwarded questions after two runs on the same elicitor", config={"rule": "dtsf", "side": side + 1})
                return
            for i in range(nn):
                if len(per[i]) > 1 + lam * clog2(nn):
                    R.violation("property_violation", "two-sided rule: per-side budget 1 + lambda*ceil(log2 n)", ENTRY, dict(d, agent=i, side=side + 1),
                                impl_output=sorted(per[i]), oracle={"distinct": len(per[i]), "budget": 1 + lam * clog2(nn)}, config={"rule": "dtsf"})
                    return
    R.case(nontrivial_key=json.dumps([P, vals, k]) if m >= 3 else None,
           sample={"P": P, "vals": vals, "k": k, "karv_questions": res["karv"]["a"]["log"][:30]} if m >= 4 and "karv" in res else None)
    R.count(it["kind"])
    R.count(f"m={m}")


def run_items(R, items):
    cases = [{"items": ch} for ch in chunks(items, 15)]
    results = pmap("c15", "impl_batch", cases, deadline=180.0)
    flat = []
    for case, res in zip(cases, results):
        flat += res["results"] if "results" in res else [{"hang": True}] * len(case["items"])
    lines, where = [], []
    for idx, (it, res) in enumerate(zip(items, flat)):
        if "exc" in res or "hang" in res:
            continue
        P, vals, k = it["P"], it["vals"], it["k"]
        n, m = len(P), len(P[0])
        lams = E.thresholds(m, k)
        if "m2q" in it["rules"]:
            lines.append(" ".join(["rootnsd", str(n), str(m)] + [str(v) for row in P for v in row])); where.append((idx, "rootnsd", 0))
        for i in range(n):
            order = E.ranked(P, i)
            tv = [vals[i][j] for j in order]
            for rule in it["rules"]:
                if rule in ("karv", "tsf"):
                    lines.append(E.simq_line(0 if rule == "karv" else Fraction(E.EPS), tv, lams)); where.append((idx, rule, i))
    ans = lean_query(lines)
    per = {}
    for (idx, rule, i), a in zip(where, ans):
        per.setdefault(idx, {})[(rule, i)] = a
    for idx, (it, res) in enumerate(zip(items, flat)):
        judge(R, it, res, per.get(idx, {}))


def run_machine(R, count):
    items = []
    for t in range(count):
        long_run = t % 40 == 7
        if t % 60 == 11:
            # pre-populated elicitor, table edited in place between questions
            nn, mm = R.rng.randint(1, 4), R.rng.randint(1, 4)
            table = [[float(R.rng.randint(0, 9)) for _ in range(mm)] for _ in range(nn)]
            calls = []
            for _ in range(R.rng.randint(3, 12)):
                i_, j_ = R.rng.randrange(nn), R.rng.randrange(mm)
                if R.rng.random() < 0.35:
                    calls.append(["w", i_, j_, float(R.rng.randint(10, 19))])
                else:
                    calls.append(["e", i_, j_])
            items.append({"table": table, "calls": calls, "ops": [], "memoize": True, "zero": True, "answers": {}})
            R.count("machine:pre_populated_table_edited_in_place")
            continue
        if long_run:
            # many distinct questions (more than any small fixed cache holds), every one of them asked again later
            dom = R.rng.choice([12, 14, 16]) if t != 47 else 34      # 34*34 = 1156 distinct questions, more than a 1024-entry cache holds
            allq = [[a, j] for a in range(dom) for j in range(dom)]
            first = allq[:]
            R.rng.shuffle(first)
            again = allq[:]
            R.rng.shuffle(again)
            ops = first + again[:R.rng.randint(dom, len(again))]
            nq = len(ops)
            R.count("machine:long_run_%d_distinct_questions" % len(allq))
        else:
            nq = R.rng.randint(0, 14)
            dom = R.rng.randint(1, 3)
            ops = [[R.rng.randrange(dom), R.rng.randrange(dom)] for _ in range(nq)]
        zero = R.rng.random() < 0.5
        fixer = 0 if zero else 1
        answers = {}
        for a in range(dom + 1):
            for j in range(dom + 1):
                for kk in range((nq + 1) if not long_run else 3):
                    if R.rng.random() < 0.7:
                        answers[f"{a + 0},{j + 0},{kk}"] = R.rng.choice([0.0, 0.0, 1.0, 2.5, -1.0, float(kk), "nan"])
        integer = (not long_run) and t % 5 == 2
        if integer:
            # integer elicitor with answers beyond 2^53 (neighbouring integers that a float cannot tell apart)
            answers = {k_: (2 ** 53 + R.rng.randint(0, 9) if R.rng.random() < 0.5 else R.rng.randint(0, 5)) for k_ in answers}
        # group the questions into single elicit calls and elicit_multiple batches (which may repeat a pair)
        calls, i = [], 0
        while i < len(ops):
            if R.rng.random() < 0.4:
                b = R.rng.randint(1, 4)
                calls.append(["m", ops[i:i + b]])
                i += b
            else:
                calls.append(["e", ops[i][0], ops[i][1]])
                i += 1
        items.append({"ops": ops, "calls": calls, "memoize": True if long_run else R.rng.random() < 0.6, "zero": zero, "answers": answers, "integer": integer})
    res = pmap("c15", "impl_machine", [{"items": ch} for ch in chunks(items, 50)], deadline=60.0)
    flat = []
    for r in res:
        flat += r["results"]
    lines = []
    for it in items:
        fixer = 0 if it["zero"] else 1
        tab = []
        for key, v in it["answers"].items():
            a, j, kk = key.split(",")
            tab += [a, j, kk, NAN_SENTINEL if v == "nan" else fr(Fraction(v))]
        lines.append(" ".join(["elicitor", "1" if it["memoize"] else "0", str(fixer), str(len(it["answers"]))] + tab +
                              [str(len(it["ops"]))] + [str(x) for op in it["ops"] for x in op]))
    ans = lean_query(lines)
    for it, r, a in zip(items, flat, ans):
        if it.get("table") is not None:
            # reference: the first answer to a question is the table entry at that moment; later answers repeat it; one forward per distinct question
            tab = [row[:] for row in it["table"]]
            first, want = {}, []
            for op in it["calls"]:
                if op[0] == "w":
                    tab[op[1]][op[2]] = op[3]
                else:
                    key = (op[1], op[2])
                    first.setdefault(key, tab[op[1]][op[2]])
                    want.append(fr(Fraction(first[key])))
            inp = {"table": it["table"], "calls": it["calls"]}
            if "answers" not in r or r["answers"] != want or r.get("count") != len(first):
                R.violation("property_violation", "a memoising elicitor returns the first answer to a repeated question and forwards nothing (pre-populated elicitor, table edited in place)",
                            ENTRY + " ValuationProfileElicitor.elicit", inp, impl_output=r, oracle={"answers": want, "count": len(first)})
            else:
                R.case(nontrivial_key=json.dumps(inp, sort_keys=True), sample=None)
            continue
        fwd = r["forwarded"]
        r = dict(r, answers=[NAN_SENTINEL if x == "nan" else x for x in r["answers"]])
        inp = {"ops": it["ops"], "calls": it["calls"], "memoize": it["memoize"], "zero_indexed": it["zero"], "answers": it["answers"]}
        errs = []
        if r["count"] != len(fwd):
            errs.append("counter differs from the number of questions forwarded")
        if it["memoize"] and len(set(map(tuple, fwd))) != len(fwd):
            errs.append("a memoising elicitor forwarded the same question twice")
        if it["memoize"]:
            first = {}
            for op, x in zip(it["ops"], r["answers"]):
                if tuple(op) in first and first[tuple(op)] != x:
                    errs.append("a repeated question got a different answer")
                first.setdefault(tuple(op), x)
        else:
            if len(fwd) != len(it["ops"]):
                errs.append("a non-memoising elicitor did not forward every call")
        if errs:
            R.violation("property_violation", "elicitor machine contract", ENTRY + " LambdaElicitor.elicit", inp, impl_output=r, oracle=errs)
            continue
        exp = " ".join(["ok", str(r["count"]), str(len(fwd))] + [str(x) for q in fwd for x in q] + r["answers"])
        if a != exp:
            R.corr_break("elicitor = model state machine (count, forwarded log, answers)", ENTRY + " LambdaElicitor.elicit", inp, r, a)
        rep = len(set(map(tuple, it["ops"]))) < len(it["ops"])
        R.case(nontrivial_key=json.dumps(inp, sort_keys=True) if rep else None,
               sample={"ops": it["ops"], "memoize": it["memoize"], "zero_indexed": it["zero"], "impl": r, "model": a} if rep and len(it["ops"]) > 4 else None)
        R.count("machine:memoize" if it["memoize"] else "machine:no_memoize")


def gen_items(R, count):
    from harness.c14 import KINDS
    items = []
    for t in range(count):
        m = R.rng.choice([2, 3, 4, 5, 6, 7, 8, 9, 12])
        kind = R.rng.choice(KINDS)
        k = R.rng.randint(1, m)
        square = R.rng.random() < 0.5
        n = m if square else R.rng.randint(1, 5)
        P = V.rand_profile(R.rng, n, m)
        vals = E.gen_near_threshold(R.rng, P, m, k) if kind == "near_threshold" else E.gen_vals(R.rng, P, m, kind)
        it = {"P": P, "vals": vals, "k": k, "rules": ["karv", "prv"] + (["tsf", "m2q"] if square else []), "kind": kind, "salt": R.rng.randrange(10 ** 6),
              "el_zero": R.rng.random() < 0.6, "share": R.rng.random() < 0.5}
        if R.rng.random() < 0.3:
            it["history"] = [[R.rng.randrange(n), R.rng.randrange(m)] for _ in range(R.rng.randint(1, 4))]
        if square and m <= 7 and R.rng.random() < 0.5:
            P2 = V.rand_profile(R.rng, m, m)
            it["dtsf"] = {"P1": P, "P2": P2, "V1": S.vals_agreeing(R.rng, P, 0, 9), "V2": S.vals_agreeing(R.rng, P2, 0, 9),
                          "l1": R.rng.randint(1, m), "l2": R.rng.randint(1, m)}
        items.append(it)
    return items


def run(R):
    R.rule = ("(a) rules k-ARV, lambda-PRV, lambda-TSF, Match-TwoQueries, two-sided lambda-TSF on consistent (profile, valuation) pairs as in C14: "
              "questions logged through a LambdaElicitor callback, then re-run with every never-asked entry replaced by arbitrary numbers; budgets "
              "per agent; asked ranking positions compared with the Lean model's query sets. (b) random op sequences (repeats, zero answers, "
              "inconsistent backing functions indexed by occurrence) issued directly to memoising / non-memoising elicitors in both index conventions, "
              "compared with the Lean state machine. Non-trivial = m>=3 (a) / a repeated question (b).")
    R.assumptions = ["ambiguous = a probed value between an exact threshold and its float rounding"]
    run_items(R, gen_items(R, 4000 if R.thorough else 300))
    run_machine(R, 20000 if R.thorough else 1200)


def replay(R, rep):
    i = rep["input"]
    if "ops" in i:
        R.rng.seed(0)
        items = [{"ops": i["ops"], "calls": i.get("calls") or [["e", a, j] for a, j in i["ops"]], "memoize": i["memoize"], "zero": i["zero_indexed"], "answers": i["answers"]}]
        res = pmap("c15", "impl_machine", [{"items": items}], deadline=30.0)[0]["results"]
        # reuse run_machine's judging by a tiny shim
        import types
        R2 = R
        fixer = 0 if items[0]["zero"] else 1
        tab = []
        for key, v in items[0]["answers"].items():
            a, j, kk = key.split(",")
            tab += [a, j, kk, NAN_SENTINEL if v == "nan" else fr(Fraction(v))]
        ans = lean_query([" ".join(["elicitor", "1" if items[0]["memoize"] else "0", str(fixer), str(len(items[0]["answers"]))] + tab +
                                   [str(len(items[0]["ops"]))] + [str(x) for op in items[0]["ops"] for x in op])])
        r = res[0]
        r = dict(r, answers=[NAN_SENTINEL if x == "nan" else x for x in r["answers"]])
        exp = " ".join(["ok", str(r["count"]), str(len(r["forwarded"]))] + [str(x) for q in r["forwarded"] for x in q] + r["answers"])
        if ans[0] != exp:
            R.corr_break("elicitor = model state machine", ENTRY, i, r, ans[0])
        R.case(nontrivial_key="replay")
        return
    P = i["P"]
    square = len(P) == len(P[0])
    run_items(R, [{"P": P, "vals": i["vals"], "k": i["k_or_lambda"], "rules": ["karv", "prv"] + (["tsf", "m2q"] if square else []), "kind": "replay", "salt": 1}])
