"""Elicitation rules: consistent (profile, valuation) generators, implementation calls with query logging,
thresholds from the specification's formula, Lean op lines (C14, C15, C16)."""
import math
from fractions import Fraction
import numpy as np
from harness.common import fr, to_np
from harness import votelib as V

EPS = 1e-5


def thresholds(m, k):
    """exact rationals of the floats m ** (l / (k + 1)), l = 1..k (the specification's formula, not read from the code)"""
    return [Fraction(float(m ** (l / (k + 1)))) for l in range(1, k + 1)]


def gen_vals(rng, P, m, kind):
    """non-negative valuations consistent with the strict profile P (weakly decreasing along each ranking)"""
    vals = []
    for row in P:
        if kind == "unit_sum":
            xs = [rng.random() for _ in range(m)]
            s = sum(xs)
            xs = sorted((x / s for x in xs), reverse=True)
        elif kind == "skewed":
            xs = sorted((rng.random() ** 8 for _ in range(m)), reverse=True)
        elif kind == "tie_heavy":
            xs = sorted((rng.choice([0.0, 0.125, 0.25, 0.5, 1.0]) for _ in range(m)), reverse=True)
        elif kind == "zeros":
            xs = sorted((rng.choice([0.0, 0.0, 1.0, 0.3]) for _ in range(m)), reverse=True)
        elif kind == "integer":
            hi = rng.choice([9, 9, 120])      # 120: column sums beyond what an int8 / uint8 storage type holds
            xs = sorted((float(rng.randint(0, hi)) for _ in range(m)), reverse=True)
        elif kind == "one_rich":
            xs = sorted((rng.random() * (1000.0 if row is P[0] else 0.01) for _ in range(m)), reverse=True)
        elif kind in ("tiny", "huge"):
            scale = rng.choice([1e-10, 1e-13, 1e-15]) if kind == "tiny" else 1e6
            xs = sorted((rng.choice([0.0, 0.3, 0.5, 1.0, rng.random()]) * scale for _ in range(m)), reverse=True)
        else:
            raise ValueError(kind)
        vals.append([xs[row[j] - 1] for j in range(m)])
    return vals


def gen_near_threshold(rng, P, m, k):
    """adversarial: values just below / just above / exactly at each threshold v/lambda_l"""
    lams = [float(m ** (l / (k + 1))) for l in range(1, k + 1)]
    vals = []
    for row in P:
        v0 = rng.choice([1.0, 0.5, 0.3, 7.0])
        cands = [v0]
        for lam in lams:
            t = v0 / lam
            cands += [t, t * (1 + 1e-6), t * (1 - 1e-6), np.nextafter(t, 0), np.nextafter(t, 10)]
        xs = [v0] + [min(v0, float(rng.choice(cands))) for _ in range(m - 1)]
        xs = sorted(xs, reverse=True)
        vals.append([xs[row[j] - 1] for j in range(m)])
    return vals


def ranked(P, i):
    return sorted(range(len(P[i])), key=lambda j: P[i][j])


class LogElicitor:
    """factory for a (Integer)LambdaElicitor over a valuation matrix that logs every forwarded question"""

    def __init__(self, vals, memoize=True, integer=False, zero_indexed=True):
        from socialchoicekit.elicitation_utils import LambdaElicitor, IntegerLambdaElicitor
        self.vals = vals
        self.log = []          # forwarded questions, 0-based (agent, alternative)
        off = 0 if zero_indexed else 1

        def f(a, j):
            # a one-indexed elicitor hands the backing function agent+1 / alternative+1
            self.log.append((int(a) - off, int(j) - off))
            return float(vals[int(a) - off][int(j) - off])
        self.el = (IntegerLambdaElicitor if integer else LambdaElicitor)(f, memoize=memoize, zero_indexed=zero_indexed)


def npint(k):
    """an integer parameter as it often arrives from numpy code: every third value as a numpy integer scalar instead of a Python int"""
    return (np.int64(k) if k % 3 == 0 else np.int32(k) if k % 3 == 1 and k > 3 else k)


def profile_of(P):
    from socialchoicekit.profile_utils import StrictCompleteProfile
    from harness.common import relayout
    from harness.common import persist
    return persist("elicP", relayout(np.array(P, dtype=np.int64)), StrictCompleteProfile.of)


def run_rule(rule, P, vals, k, zero=True, tie_breaker="accept", memoize=True, cache=None, integer=False, el_zero=True, share=False,
             history=None):
    """returns dict(sim=matrix of exact rationals, out=outcome, log=[(agent, alt)...], count=elicitation_count).
    `cache`: dict of rule objects reused across calls (a caller may keep one rule object for many elections);
    `integer`: answer through an IntegerLambdaElicitor (valuations must be integers)"""
    from socialchoicekit.elicitation_voting import KARV, LambdaPRV
    from socialchoicekit.elicitation_allocation import LambdaTSF, MatchTwoQueries
    prof = profile_of(P)
    _LE = LogElicitor
    first = _LE(vals, memoize, integer, el_zero)
    npre = 0
    if history:
        # the elicitor already has a history of direct questions when the rule receives it
        for a, j in history:
            first.el.elicit(a, j)
        npre = len(first.log)

    def LogEl(v, mm):
        # `share`: the simulated profile, the score and the outcome are all computed with the SAME elicitor object
        return first if (share and mm) else _LE(v, mm, integer, el_zero)
    le = first
    res = {"pre_history": npre}

    def obj(key, mk):
        if cache is None:
            return mk()
        if key not in cache:
            cache[key] = mk()
        return cache[key]
    if rule == "karv":
        r = obj(("karv", k, tie_breaker, zero), lambda: KARV(k=npint(k), tie_breaker=tie_breaker, zero_indexed=zero))
        sim = r.get_simulated_cardinal_profile(prof, le.el)
        res["sim"] = [[fr(Fraction(float(x))) for x in row] for row in np.asarray(sim)]
        le2 = LogEl(vals, memoize)
        w = r.scf(prof, le2.el)
        res["out"] = [int(x) for x in np.atleast_1d(w)]
        res["score"] = [fr(Fraction(float(x))) for x in r.score(prof, LogEl(vals, memoize).el)]
    elif rule == "prv":
        r = obj(("prv", k, tie_breaker, zero), lambda: LambdaPRV(lambda_=npint(k), tie_breaker=tie_breaker, zero_indexed=zero))
        sc = r.score(prof, le.el)
        res["sim"] = None
        res["score"] = [fr(Fraction(float(x))) for x in sc]
        res["out"] = [int(x) for x in np.atleast_1d(r.scf(prof, LogEl(vals, memoize).el))]
    elif rule == "tsf":
        r = obj(("tsf", k, zero), lambda: LambdaTSF(lambda_=npint(k), zero_indexed=zero))
        sim = r.get_simulated_cardinal_profile(prof, le.el)
        res["sim"] = [[fr(Fraction(float(x))) for x in row] for row in np.asarray(sim)]
        res["out"] = [int(x) for x in r.scf(prof, LogEl(vals, memoize).el)]
    elif rule == "m2q":
        r = obj(("m2q", zero), lambda: MatchTwoQueries(zero_indexed=zero))
        sim = r.get_simulated_cardinal_profile(prof, le.el)
        res["sim"] = [[fr(Fraction(float(x))) for x in row] for row in np.asarray(sim)]
        res["out"] = [int(x) for x in r.scf(prof, LogEl(vals, memoize).el)]
    else:
        raise ValueError(rule)
    res["log"] = [list(q) for q in le.log]
    res["count"] = int(le.el.elicitation_count)
    return res


def simq_line(floor, vals_along, lams):
    m = len(vals_along)
    return " ".join(["simq", fr(floor), str(m)] + [fr(v) for v in vals_along] + [str(len(lams))] + [fr(x) for x in lams])


def near(vals_along, lams, rel=Fraction(1, 10 ** 9)):
    """some value lies between the exact threshold v/lambda and its float rounding fl(v/lambda): the float comparison and the
    exact comparison differ there, so the case is ambiguous for the exact model (excluded and counted)"""
    v0 = Fraction(vals_along[0])
    for lam in lams:
        thr_exact = v0 / lam
        thr_float = Fraction(float(vals_along[0]) / float(lam))
        for x in vals_along:
            xf = Fraction(x)
            if (xf >= thr_exact) != (xf >= thr_float):
                return True
    return False
