"""C18 - profile conversions and valuation generators preserve preference information."""
import itertools, json
from fractions import Fraction
import numpy as np
from harness import gslib
from harness.common import pmap, lean_query, guard, fr, to_np, optn, safe_judge
from harness.c01 import chunks

LEVEL = "proof"
ENTRY = "socialchoicekit.profile_utils / data_generation"


def jrow(a):
    return [None if (x is None or (isinstance(x, float) and np.isnan(x))) else x for x in a]


@guard
def impl_batch(case):
    from socialchoicekit import profile_utils as pu, data_generation as dg
    out = []
    for it in case["items"]:
        try:
            kind = it["kind"]
            if kind == "ordinal":
                V = to_np(it["vals"])
                cls = pu.CompleteValuationProfile if not np.isnan(V).any() else pu.ValuationProfile
                r = pu.compute_ordinal_profile(cls.of(V))
                res1 = {"out": [jrow([float(x) for x in row]) for row in np.asarray(r)], "type": type(r).__name__}
                try:
                    f = pu.incomplete_valuation_profile_to_complete_valuation_profile(pu.ValuationProfile.of(V))
                    res1["fill"] = [[fr(Fraction(float(x))) for x in row] for row in np.asarray(f)]
                except Exception as e:  # noqa
                    res1["fill"] = "exc " + type(e).__name__
                out.append(res1)
            elif kind == "strictify":
                Pm = to_np(it["P"])
                np.random.seed(it["seed"])
                r = pu.profile_with_ties_to_strict_profile(pu.ProfileWithTies.of(Pm), tie_breaker=it["tb"])
                out.append({"out": [jrow([float(x) for x in row]) for row in np.asarray(r)], "type": type(r).__name__,
                            "input_after": [jrow([float(x) for x in row]) for row in Pm]})
            elif kind == "complete":
                Pm = to_np(it["P"])
                np.random.seed(it["seed"])
                prof = pu.StrictIncompleteProfile.of(Pm) if it.get("strict") else pu.IncompleteProfileWithTies.of(Pm)
                r = pu.incomplete_profile_to_complete_profile(prof, tie_breaker=it["tb"])
                out.append({"out": [jrow([float(x) for x in row]) for row in np.asarray(r)], "type": type(r).__name__})
            elif kind == "generate":
                Pm = to_np(it["P"])
                prof = pu.StrictProfile.of(Pm)
                if it["gen"] == "uniform":
                    sd = np.int64(it["seed"]) if it["seed"] % 2 == 1 else it["seed"]       # odd seeds arrive as numpy integers
                    g = dg.UniformValuationProfileGenerator(high=it["b"], low=it["a"], seed=sd)
                else:
                    sd = np.int32(it["seed"]) if it["seed"] % 2 == 1 else it["seed"]
                    g = dg.NormalValuationProfileGenerator(mean=it["a"], variance=it["b"], seed=sd)
                v1 = np.asarray(g.generate(prof))
                v2 = np.asarray(g.generate(prof))
                # the draws, re-drawn from the same seed with the same numpy calls
                np.random.seed(it["seed"])
                draws = []
                for i in range(Pm.shape[0]):
                    kk = int(np.count_nonzero(~np.isnan(Pm[i])))
                    if it["gen"] == "uniform":
                        d = np.random.uniform(size=kk, high=it["b"], low=it["a"])
                    else:
                        d = np.random.normal(size=kk, loc=it["a"], scale=np.sqrt(it["b"]))
                    draws.append([fr(Fraction(float(x))) for x in d])
                acc = bool(pu.is_consistent_valuation_profile(pu.ValuationProfile.of(np.array(v1)), prof))
                o1 = np.argsort(v1 * -1, axis=1)
                o2 = np.argsort(Pm, axis=1)
                out.append({"v1": [[fr(None if np.isnan(x) else Fraction(float(x))) for x in row] for row in v1],
                            "same": bool(np.array_equal(v1, v2, equal_nan=True)), "draws": draws, "accepted": acc,
                            "o1": [[int(x) for x in r] for r in o1], "o2": [[int(x) for x in r] for r in o2]})
            elif kind == "consistent":
                V = to_np(it["vals"])
                Pm = to_np(it["P"])
                r = bool(pu.is_consistent_valuation_profile(pu.ValuationProfile.of(V), pu.Profile.of(Pm)))
                o1 = np.argsort(V * -1, axis=1)
                o2 = np.argsort(Pm, axis=1)
                out.append({"result": r, "o1": [[int(x) for x in rr] for rr in o1], "o2": [[int(x) for x in rr] for rr in o2]})
        except Exception as e:  # noqa
            import traceback
            out.append({"exc": type(e).__name__, "msg": str(e)[:200], "tb": traceback.format_exc()[-400:]})
    return {"results": out}


# ---------------------------------------------------------------------------------------------------------
def rand_vals_row(rng, m, pn, ties):
    if not ties and rng.random() < 0.3:
        # wide dynamic range: one or two entries of order 1, the others down to 1e-17 and distinct (differences far below the resolution of
        # anything that is added to or subtracted from the largest value)
        tiny = [k * 1e-17 for k in rng.sample(range(1, 40), m)]
        row = [None if rng.random() < pn else tiny[j] * rng.choice([1.0, 1.0, 1e3, 1e9]) for j in range(m)]
        for j in rng.sample(range(m), min(m, rng.randint(1, 2))):
            if row[j] is not None:
                row[j] = rng.choice([1.0, 2.5, 1000.0])
        return row
    if not ties and rng.random() < 0.2:
        # (round 6, C18-17) neighbouring doubles: distinct values a few ulps apart (relative 1e-16 .. 1e-9, far below single precision), or
        # integers above 2^24 (up to 2^53) that differ by one; ascending with the column half of the time, so that an order taken from the
        # positions instead of the values is wrong
        import math
        if rng.random() < 0.5:
            base = rng.choice([0.25, 1.0, 3.0, 1000.0, 1e-6])
            step = rng.choice([1, 1, 3, 1 << 10, 1 << 22])
            vs = [base]
            for _ in range(m - 1):
                x = vs[-1]
                for _ in range(1):
                    x = x + step * math.ulp(x)
                vs.append(x)
        else:
            start = rng.choice([1 << 24, (1 << 31) - 3, (1 << 40) + 1, (1 << 53) - 2 * m - 2])
            vs = [float(start + j) for j in range(m)]
        if rng.random() < 0.5:
            rng.shuffle(vs)
        return [None if rng.random() < pn else v for v in vs]
    row = []
    for _ in range(m):
        if rng.random() < pn:
            row.append(None)
        elif ties:
            row.append(rng.choice([0.0, 0.25, 0.5, 1.0, 2.0]))
        else:
            row.append(rng.random())
    return row


def rand_ties_row(rng, m, pn, dense=False):
    """row with ties: competition numbering (entry = 1 + number of strictly better entries: 1,1,3) or, with dense=True, dense
    numbering (entry = 1 + number of strictly better tie CLASSES: 1,1,2); NaN with probability pn"""
    keys = [None if rng.random() < pn else rng.randint(0, max(1, m // 2)) for _ in range(m)]
    present = [k for k in keys if k is not None]
    if dense:
        return [None if k is None else 1 + len(set(x for x in present if x < k)) for k in keys]
    return [None if k is None else 1 + sum(1 for x in present if x < k) for k in keys]


def competition_numbered(row):
    present = [x for x in row if x is not None]
    return all(x == 1 + sum(1 for y in present if y < x) for x in present)


def lines_for(it, res):
    kind = it["kind"]
    L = []
    if "exc" in res or "hang" in res:
        return L
    if kind == "ordinal":
        for vrow, orow in zip(it["vals"], res["out"]):
            m = len(vrow)
            L.append(" ".join(["ordinal", str(m)] + [fr(x) for x in vrow] + [optn(x) for x in orow]))
        for vrow in it["vals"]:
            L.append(" ".join(["fillzero", str(len(vrow))] + [fr(x) for x in vrow]))
    elif kind == "strictify":
        for prow, orow in zip(it["P"], res["out"]):
            m = len(prow)
            # competition-numbered rows go through the full checker (incl. the rank block of every tie class), all others
            # through the general one
            op = "strictify" if competition_numbered(prow) else "strict2"
            L.append(" ".join([op, str(m)] + [optn(x) for x in prow] + [optn(x) for x in orow] + ["1" if it["tb"] == "first" else "0"]))
    elif kind == "complete":
        mode = {"accept": 0, "first": 1, "random": 2}[it["tb"]]
        for prow, orow in zip(it["P"], res["out"]):
            m = len(prow)
            L.append(" ".join(["complete", str(m)] + [optn(x) for x in prow] + [optn(x) for x in orow] + [str(mode)]))
    elif kind == "generate":
        for i, prow in enumerate(it["P"]):
            m = len(prow)
            L.append(" ".join(["generate", str(m)] + [optn(x) for x in prow] + [str(len(res["draws"][i]))] + res["draws"][i] + ["1" if it["gen"] == "normal" else "0"]))
        for i, prow in enumerate(it["P"]):
            m = len(prow)
            L.append(" ".join(["consistent", str(m)] + res["v1"][i] + [optn(x) for x in prow] + [str(x) for x in res["o1"][i]] + [str(x) for x in res["o2"][i]]))
    elif kind == "consistent":
        for i, prow in enumerate(it["P"]):
            m = len(prow)
            L.append(" ".join(["consistent", str(m)] + [fr(x) for x in it["vals"][i]] + [optn(x) for x in prow] + [str(x) for x in res["o1"][i]] + [str(x) for x in res["o2"][i]]))
    return L


@safe_judge
def judge(R, it, res, ans):
    kind = it["kind"]
    inp = {k: v for k, v in it.items() if k != "kind"}
    cfg = {"kind": kind, "tie_breaker": it.get("tb")}
    if "hang" in res or "exc" in res:
        R.violation("property_violation", f"{kind}: total on valid input", f"{ENTRY} ({kind})", inp, impl_output=res, oracle="raised/hang", config=cfg)
        return
    R.count(kind + (":" + it["tb"] if "tb" in it else "") + (":" + it["gen"] if "gen" in it else ""))
    errs = []
    if kind == "ordinal":
        # the second half of the answers belongs to the fill-with-zero conversion (outside the property statement: model coverage)
        nrows = len(it["vals"])
        fill_ans, ans = ans[nrows:], ans[:nrows]
        for i, a in enumerate(fill_ans):
            real = res.get("fill")
            row = real[i] if isinstance(real, list) and i < len(real) else real
            R.glue("helpers:incomplete_valuation_profile_to_complete_valuation_profile",
                   isinstance(row, list) and a == " ".join(["ok"] + [str(x) for x in row]), {"vals": it["vals"][i], "real": row, "model": a})
        # the second half of the answers belongs to the fill-with-zero conversion (outside the property statement: model coverage)
        nrows = len(it["vals"])
        fill_ans, ans = ans[nrows:], ans[:nrows]
        for i, a in enumerate(fill_ans):
            real = res.get("fill")
            row = real[i] if isinstance(real, list) and i < len(real) else real
            R.glue("helpers:incomplete_valuation_profile_to_complete_valuation_profile",
                   isinstance(row, list) and a == " ".join(["ok"] + [str(x) for x in row]), {"vals": it["vals"][i], "real": row, "model": a})
        for vrow, orow in zip(it["vals"], res["out"]):
            k = sum(1 for v in vrow if v is not None)
            ranks = sorted(int(o) for o in orow if o is not None)
            if [o is None for o in orow] != [v is None for v in vrow]:
                errs.append("NaN pattern changed")
            elif ranks != list(range(1, k + 1)):
                errs.append("ranks are not 1..k")
            else:
                for a in range(len(vrow)):
                    for b in range(len(vrow)):
                        if vrow[a] is not None and vrow[b] is not None and vrow[a] > vrow[b] and not orow[a] < orow[b]:
                            errs.append("a strictly higher value did not get a strictly better rank")
        rel = "ordinal profile: higher value => better rank, ranks 1..k, NaN kept"
        bad_lean = [a for a in ans if a != "ok 1"]
        corr = "ordinalOkB accepts every output row"
    elif kind == "strictify":
        for prow, orow in zip(it["P"], res["out"]):
            vals = [o for o in orow if o is not None]
            if [o is None for o in orow] != [p is None for p in prow]:
                errs.append("NaN pattern changed")
            elif len(set(vals)) != len(vals):
                errs.append("result is not strict")
            else:
                for a in range(len(prow)):
                    for b in range(len(prow)):
                        if prow[a] is not None and prow[b] is not None:
                            if prow[a] < prow[b] and not orow[a] < orow[b]:
                                errs.append("a strict comparison was not preserved")
                            if it["tb"] == "first" and prow[a] == prow[b] and a < b and not orow[a] < orow[b]:
                                errs.append("'first' did not order tied alternatives by index")
        if res.get("input_after") != [jrow(r) for r in it["P"]]:
            errs.append("input profile was modified")
        rel = "tie breaking: strict, preserves strict comparisons and the NaN pattern"
        bad_lean = [a for a in ans if a not in ("ok 1 1", "ok 1")]
        corr = "strictifyOkB (competition-numbered rows) / strictOkB (any numbering) accepts every output row"
    elif kind == "complete":
        for prow, orow in zip(it["P"], res["out"]):
            m = len(prow)
            nn = sum(1 for p in prow if p is None)
            for j in range(m):
                if prow[j] is not None and orow[j] != prow[j]:
                    errs.append("an existing rank changed")
                if prow[j] is None:
                    if orow[j] is None or not (m - nn + 1 <= orow[j] <= m):
                        errs.append("a missing alternative was not ranked after the existing ones")
                    if it["tb"] == "accept" and orow[j] != m - nn + 1:
                        errs.append("'accept' did not give the shared rank")
            miss = [orow[j] for j in range(m) if prow[j] is None]
            if it["tb"] != "accept" and sorted(miss) != list(range(m - nn + 1, m + 1)):
                errs.append("missing alternatives did not receive the ranks m-k+1..m bijectively")
            if it["tb"] == "first" and miss != sorted(miss):
                errs.append("'first' did not rank missing alternatives by index")
        rel = "completion keeps existing ranks and ranks missing alternatives after them"
        bad_lean = [a for a in ans if a != "ok 1 1"]
        corr = "completeOkB accepts every output row (rows are well-formed: wfIncompleteB)"
    elif kind == "generate":
        n = len(it["P"])
        gen_ans, cons_ans = ans[:n], ans[n:]
        bad_lean = []
        for i, prow in enumerate(it["P"]):
            v = [None if x == "x" else Fraction(x) for x in res["v1"][i]]
            draws = [Fraction(x) for x in res["draws"][i]]
            if it["gen"] == "normal":
                draws = [max(Fraction(0), d) for d in draws]
            if sum(draws) == 0:
                R.count("generate:all_draws_zero(skipped)")
                continue
            if [x is None for x in v] != [p is None for p in prow]:
                errs.append("NaN pattern changed")
                continue
            if any(x is not None and x < 0 for x in v):
                errs.append("negative valuation")
            if abs(sum(x for x in v if x is not None) - 1) > Fraction(1, 10 ** 9):
                errs.append("valuations do not sum to one")
            for a in range(len(prow)):
                for b in range(len(prow)):
                    if prow[a] is not None and prow[b] is not None and prow[a] < prow[b] and v[a] < v[b]:
                        errs.append("valuations are not weakly decreasing along the ranking")
            t = gen_ans[i].split()
            mv = [None if x == "x" else Fraction(x) for x in t[1:]]
            if t[0] != "ok" or len(mv) != len(v) or any((a is None) != (b is None) or (a is not None and abs(a - b) > Fraction(1, 10 ** 12)) for a, b in zip(mv, v)):
                bad_lean.append(gen_ans[i])
            ct = cons_ans[i].split()
            # model predicate (with the numpy orders) must accept, like the implementation
            if ct[0] != "ok" or ct[1] != "1" or ct[3] != "1":
                bad_lean.append(cons_ans[i])
        degenerate = any(sum(max(Fraction(0), Fraction(x)) if it["gen"] == "normal" else Fraction(x) for x in d) == 0 for d in res["draws"])
        if not degenerate:
            if not res["same"]:
                errs.append("not reproducible from the seed")
            if not res["accepted"]:
                errs.append("generator output rejected by is_consistent_valuation_profile")
        rel = "generator output: non-negative, decreasing along the ranking, sums to one, NaN kept, reproducible, accepted"
        corr = "generateRow(draws) = output within 1e-12 and the model predicate accepts it"
    else:  # consistent
        expect = it["expect"]
        if expect is not None and res["result"] != expect:
            errs.append(f"predicate returned {res['result']} on a profile that is {'consistent' if expect else 'clearly inconsistent'}")
        rel = "consistency predicate accepts consistent profiles and rejects clear inversions"
        bad_lean = []
        allrows = True
        for a in ans:
            t = a.split()
            if t[0] != "ok":
                bad_lean.append(a)
            else:
                allrows = allrows and t[3] == "1"
        if not bad_lean and allrows != res["result"]:
            bad_lean.append(f"model says {allrows}, implementation says {res['result']}")
        corr = "isConsistentWith npTol (numpy's sort orders) = implementation result"
    if errs:
        R.violation("property_violation", rel, f"{ENTRY} ({kind})", inp, impl_output=res, oracle=sorted(set(errs))[:4], config=cfg)
        return
    if bad_lean:
        R.corr_break(corr, f"{ENTRY} ({kind})", inp, res, bad_lean[:2], cfg)
    nontriv = True
    R.case(nontrivial_key=json.dumps(inp, sort_keys=True, default=str) if nontriv else None,
           sample={"kind": kind, "input": inp, "impl": {k: res[k] for k in list(res)[:2]}} if R.hist.get(kind + "_sampled") is None else None)
    R.hist[kind + "_sampled"] = 1


def gen_items(R, count, big):
    items = []
    for t in range(count):
        kind = R.rng.choice(["ordinal", "strictify", "complete", "generate", "generate", "consistent"])
        n = R.rng.randint(1, 5)
        m = R.rng.choice([1, 2, 3, 4, 6, 8, 12] + ([17, 24, 40] if big else [17]))
        if kind == "ordinal":
            ties = R.rng.random() < 0.5
            vals = [rand_vals_row(R.rng, m, R.rng.choice([0, .3]), ties) for _ in range(n)]
            if all(v is None for row in vals for v in row):
                continue    # an all-NaN valuation profile cannot be wrapped by the API (check_profile needs a rank 1)
            # the API needs distinct values for a meaningful strict result only when ties are absent; ties are allowed (any order)
            items.append({"kind": kind, "vals": vals})
        elif kind == "strictify":
            dense = R.rng.random() < 0.35
            P = [rand_ties_row(R.rng, m, R.rng.choice([0, .3]), dense) for _ in range(n)]
            if dense:
                R.count("strictify:dense_tie_numbering")
            if all(v is None for row in P for v in row):
                continue
            items.append({"kind": kind, "P": P, "tb": R.rng.choice(["first", "random"]), "seed": R.rng.randrange(10 ** 6)})
        elif kind == "complete":
            strict = R.rng.random() < 0.6
            P = gslib.rand_profile(R.rng, n, m, 0.4) if strict else [rand_ties_row(R.rng, m, 0.4) for _ in range(n)]
            if all(v is None for row in P for v in row):
                continue
            items.append({"kind": kind, "P": P, "strict": strict, "tb": R.rng.choice(["first", "random", "accept"]), "seed": R.rng.randrange(10 ** 6)})
        elif kind == "generate":
            P = gslib.rand_profile(R.rng, n, m, R.rng.choice([0, .3, .5]))
            if all(v is None for row in P for v in row):
                continue
            if R.rng.random() < 0.5:
                a = R.rng.choice([0.0, 0.5, 1.0])
                width = R.rng.choice([0.5, 1.0, 10.0, 0.0]) if a > 0 else R.rng.choice([0.5, 1.0, 10.0])    # high == low (> 0) is a legal degenerate range
                items.append({"kind": kind, "gen": "uniform", "P": P, "a": a, "b": a + width, "seed": R.rng.choice([0, 1, R.rng.randrange(10 ** 6), R.rng.randrange(10 ** 6)])})
            else:
                items.append({"kind": kind, "gen": "normal", "P": P, "a": R.rng.choice([0.0, 0.5, 1.0, -0.5]), "b": R.rng.choice([0.01, 1.0, 4.0]),
                              "seed": R.rng.choice([0, 1, R.rng.randrange(10 ** 6), R.rng.randrange(10 ** 6)])})
        else:
            P = gslib.rand_profile(R.rng, n, m, R.rng.choice([0, .3]))
            if all(v is None for row in P for v in row):
                continue
            mode = R.rng.choice(["consistent", "ties", "inversion", "random"])
            vals = []
            for row in P:
                k = sum(1 for v in row if v is not None)
                if mode == "ties":
                    xs = sorted((R.rng.choice([0.0, 0.25, 0.5, 1.0]) for _ in range(k)), reverse=True)
                else:
                    xs = sorted((R.rng.random() for _ in range(k)), reverse=True)
                vals.append([None if r is None else xs[r - 1] for r in row])
            expect = True
            if mode == "inversion":
                # value a lower-ranked alternative clearly more than a higher-ranked one
                i = R.rng.randrange(n)
                acc = [j for j in range(m) if P[i][j] is not None]
                if len(acc) >= 2:
                    a, b = R.rng.sample(acc, 2)
                    if P[i][a] > P[i][b]:
                        a, b = b, a
                    vals[i][b] = vals[i][a] + 0.5      # b is ranked lower but valued clearly more
                    expect = False
            if mode == "random":
                vals = [[None if r is None else R.rng.random() for r in row] for row in P]
                expect = None
            items.append({"kind": kind, "P": P, "vals": vals, "expect": expect, "mode": mode})
    return items


def gen_exhaustive():
    """all tie/NaN row patterns up to length 4 (well-formed rows) for strictify/complete, all small value rows for ordinal"""
    items = []
    for m in (1, 2, 3, 4):
        rows = set()
        for keys in itertools.product([None, 0, 1, 2, 3][:m + 1], repeat=m):
            present = [k for k in keys if k is not None]
            rows.add(tuple(None if k is None else 1 + sum(1 for x in present if x < k) for k in keys))
        rows = [list(r) for r in sorted(rows, key=str) if any(v is not None for v in r)]
        for tb in ("first", "random"):
            items.append({"kind": "strictify", "P": rows, "tb": tb, "seed": m})
        for tb in ("first", "random", "accept"):
            items.append({"kind": "complete", "P": rows, "strict": False, "tb": tb, "seed": m})
        vals = [[None if v is None else float(-v) for v in r] for r in rows]
        items.append({"kind": "ordinal", "vals": vals})
    return items


def run_items(R, items):
    cases = [{"items": ch} for ch in chunks(items, 20)]
    results = pmap("c18", "impl_batch", cases, deadline=120.0)
    flat = []
    for case, res in zip(cases, results):
        flat += res["results"] if "results" in res else [{"hang": True}] * len(case["items"])
    lines, spans = [], []
    for it, res in zip(items, flat):
        L = lines_for(it, res)
        spans.append((len(lines), len(lines) + len(L)))
        lines += L
    ans = lean_query(lines)
    for it, res, (a, b) in zip(items, flat, spans):
        judge(R, it, res, ans[a:b])


def corpus():
    import os
    from harness.common import VERIF
    path = os.path.join(VERIF, "corpus", "C18.jsonl")
    return [json.loads(l) for l in open(path) if l.strip()] if os.path.exists(path) else []


def run(R):
    R.rule = ("valuation rows with ties and NaN (ordinal), rank rows with ties (competition numbering 1,1,3 and dense numbering 1,1,2) and NaN (tie breaking with first/random, completion with "
              "first/random/accept), uniform and normal generators over (low, high) / (mean, variance) and seeds on strict profiles with NaN and up to "
              "40 alternatives (numpy's unstable sort regime), the consistency predicate on consistent, tied, clearly inverted and random valuations; "
              "thorough adds ALL well-formed tie/NaN rows up to length 4. Each output row goes through the Lean checker / model.")
    R.assumptions = ["orders that numpy chooses among ties/NaNs are treated as arbitrary: outputs are judged by relation checkers proved sound for every order",
                     "generator draws are re-drawn by the harness from the same seed with the same numpy calls"]
    items = corpus() + gen_items(R, 10000 if R.thorough else 800, R.thorough)
    if R.thorough:
        R.exhaustive = True
        items += gen_exhaustive()
        # ... and all densely numbered rows up to length 4 (1,1,2 instead of 1,1,3)
        for m in (2, 3, 4):
            rows = set()
            for keys in itertools.product([None, 0, 1, 2, 3][:m + 1], repeat=m):
                present = [k for k in keys if k is not None]
                rows.add(tuple(None if k is None else 1 + len(set(x for x in present if x < k)) for k in keys))
            rows = [list(r) for r in sorted(rows, key=str) if any(v is not None for v in r)]
            for tb in ("first", "random"):
                items.append({"kind": "strictify", "P": rows, "tb": tb, "seed": m})
    run_items(R, items)
    for k in list(R.hist):
        if k.endswith("_sampled"):
            del R.hist[k]


def replay(R, rep):
    it = dict(rep["input"])
    it["kind"] = rep["config"]["kind"]
    run_items(R, [it])
    for k in list(R.hist):
        if k.endswith("_sampled"):
            del R.hist[k]
