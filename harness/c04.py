"""C04 - maximum-weight allocation is a welfare-maximal perfect assignment (or raises when none exists)."""
import json, os
from fractions import Fraction
import numpy as np
from harness import assignlib as A
from harness.common import pmap, lean_query, guard, fr, to_np, VERIF, safe_judge

LEVEL = "translation_validation"
ENTRY = "socialchoicekit.deterministic_allocation.MaximumWeightMatching.scf"


@guard
def impl_one(case):
    from socialchoicekit.deterministic_allocation import MaximumWeightMatching
    from socialchoicekit.profile_utils import ValuationProfile
    W = to_np(case["W"])
    if case.get("dtype"):
        W = W.astype(case["dtype"])      # integer utilities without NaN stored in a (possibly narrow, possibly unsigned) integer array
    rule = MaximumWeightMatching(zero_indexed=case.get("zero", True))
    if case.get("pre") is not None:
        # the same rule object and the same buffer are first used for another matrix, which is then overwritten in place
        import numpy as np
        buf = np.array(to_np(case["pre"]))
        prof = ValuationProfile.of(buf)
        try:
            rule.scf(prof)
        except Exception:
            pass
        # the caller revises the utilities in place and asks again with the very same profile object
        np.copyto(prof, np.asarray(W, dtype=float))
        buf[...] = W
        out = rule.scf(prof)
    else:
        out = rule.scf(ValuationProfile.of(W))
    return {"cols": [int(x) for x in out]}


def fracs(W):
    return [[None if v is None else Fraction(v) for v in row] for row in W]


def gen(R, n):
    kind = R.rng.choice([0, 1, 2, 3, 4, 5, 5, 5, 6])
    if kind == 6:     # large integers that differ in their last digits (beyond single precision, well inside double precision)
        base = R.rng.choice([2 ** 24, 2 ** 25, 10 ** 8, 2 ** 31, 10 ** 12, 2 ** 45])
        W = [[base + R.rng.randint(0, 6) for _ in range(n)] for _ in range(n)]
        if R.rng.random() < 0.3:
            W = [[None if R.rng.random() < 0.15 else v for v in row] for row in W]
            if all(v is None for row in W for v in row):
                W[0][0] = base
        return W, "large_integers_close_together"
    if kind == 5:     # sparse but feasible: a hidden perfect assignment plus a few extra acceptable pairs, wide integer values
        hidden = list(range(n))
        R.rng.shuffle(hidden)
        dens = R.rng.choice([0.15, 0.25, 0.4])
        W = [[(R.rng.choice([0, 0, 1, 3, 10, 10, 7]) if (hidden[i] == j or R.rng.random() < dens) else None) for j in range(n)] for i in range(n)]
        return W, "sparse_feasible_wide"
    if kind == 0:     # integers with zeros
        W = [[R.rng.randint(0, 4) for _ in range(n)] for _ in range(n)]
    elif kind == 1:   # generic floats
        W = [[R.rng.random() for _ in range(n)] for _ in range(n)]
    elif kind == 2:   # dyadic
        W = [[R.rng.randint(0, 16) / 8 for _ in range(n)] for _ in range(n)]
    elif kind == 3:   # step-shaped, tie-heavy (lambda-TSF levels with the 1e-5 floor, shared favourites)
        W = []
        fav = R.rng.randrange(n)
        for i in range(n):
            v = R.rng.choice([0.2, 0.25, 0.3, 0.5])
            lam = n ** R.rng.choice([0.5, 1 / 3, 2 / 3])
            row = [1e-5] * n
            order = list(range(n))
            R.rng.shuffle(order)
            if R.rng.random() < 0.6:
                order.remove(fav)
                order.insert(0, fav)
            row[order[0]] = v
            for j in order[1:1 + R.rng.randint(0, n - 1)]:
                row[j] = v / lam
            W.append(row)
    else:             # few distinct values incl. exact zero
        W = [[R.rng.choice([0.0, 0.0, 0.1, 0.7, 1.0]) for _ in range(n)] for _ in range(n)]
    pn = R.rng.choice([0, 0, 0.15, 0.4])
    W = [[None if R.rng.random() < pn else v for v in row] for row in W]
    if all(v is None for row in W for v in row):
        W[0][0] = 1
    tag = ["int_zeros", "generic", "dyadic", "step_tie_heavy", "few_values_zero"][kind]
    return W, tag


SCALES = [("2^-40", Fraction(1, 2 ** 40), True), ("2^-70", Fraction(1, 2 ** 70), True), ("2^40", Fraction(2 ** 40), True),
          ("1e-12", Fraction(1e-12), False), ("1e-15", Fraction(1e-15), False), ("1e-6", Fraction(1e-6), False), ("1e9", Fraction(10 ** 9), False)]


def rescale(R, W):
    """the property is about every non-negative matrix, whatever its magnitude: the same matrix in other units (a power of two
    keeps float arithmetic exact, a power of ten does not)"""
    name, f, keeps_exact = R.rng.choice(SCALES)
    W2 = [[None if v is None else float(Fraction(v) * f) for v in row] for row in W]
    return W2, name, keeps_exact


def exact_data(W):
    return all(v is None or Fraction(v).denominator in (1, 2, 4, 8, 16, 32, 64) for row in W for v in row)


@safe_judge
def judge(R, case, res, cert_ans):
    W, n, tag = case["W"], case["n"], case.get("tag", "corpus")
    fixer = 0 if case.get("zero", True) else 1
    F = fracs(W)
    ref = A.hungarian_max(F, n)
    R.count(tag)
    R.count(f"n={n}")
    if case.get("pre") is not None:
        R.count("rule_object_and_buffer_reused_after_in_place_overwrite")
    has_nan = any(v is None for row in W for v in row)
    if "hang" in res:
        R.violation("property_violation", "termination", ENTRY, {"W": W, "pre": case.get("pre"), "dtype": case.get("dtype")}, impl_output=f"no result within {res.get('deadline_s')} s",
                    oracle="non-termination (supervised worker killed)", config={"zero_indexed": fixer == 0})
        return
    if ref is None:
        R.count("infeasible")
        if "exc" not in res:
            R.violation("property_violation", "raises when no assignment of acceptable pairs exists", ENTRY, {"W": W, "pre": case.get("pre"), "dtype": case.get("dtype")}, impl_output=res,
                        oracle={"hall_violator": A.hall_violator([[v is not None for v in r] for r in W], n)})
            return
        R.case(nontrivial_key=json.dumps(W), sample=None)
        if cert_ans != "ok":
            R.corr_break("hallCertOk accepts the harness's Hall violator (raising was right)", ENTRY, {"W": W}, res, cert_ans)
        return
    sigma, u, v, opt = ref
    if "exc" in res:
        R.violation("property_violation", "returns an assignment whenever one exists", ENTRY, {"W": W, "pre": case.get("pre"), "dtype": case.get("dtype")}, impl_output=res,
                    oracle={"an_optimal_assignment": sigma, "value": fr(opt)})
        return
    cols = [c - fixer for c in res["cols"]]
    if sorted(cols) != list(range(n)) or any(F[i][cols[i]] is None for i in range(n)):
        R.violation("property_violation", "one-to-one assignment using only acceptable pairs", ENTRY, {"W": W, "pre": case.get("pre"), "dtype": case.get("dtype")}, impl_output=res["cols"],
                    oracle="not a permutation of the items / uses a NaN pair")
        return
    val = sum(F[i][cols[i]] for i in range(n))
    # relative to the magnitude of the data (an absolute floor would accept anything on a matrix of tiny utilities)
    mag = max([abs(x) for row in F for x in row if x is not None] + [Fraction(0)])
    exact = case["exact"] if case.get("exact") is not None else exact_data(W)
    tol = Fraction(0) if exact else Fraction(1, 10 ** 9) * mag
    if opt - val > tol:
        R.violation("property_violation", "total utility equals the maximum over all acceptable assignments", ENTRY, {"W": W, "pre": case.get("pre"), "dtype": case.get("dtype")},
                    impl_output=res["cols"], oracle={"impl_value": fr(val), "better_assignment": [s + fixer for s in sigma], "its_value": fr(opt)})
        return
    nontriv = n >= 3 and (has_nan or len(set(x for row in F for x in row if x is not None)) < n * n)
    R.case(nontrivial_key=json.dumps(W) if nontriv else None,
           sample={"W": W, "impl_cols": res["cols"], "optimum": fr(opt), "certificate": "u,v from exact Hungarian; delta=" + case.get("_delta", "?")} if nontriv else None)
    if cert_ans != "ok":
        R.corr_break("assignCertOk accepts (impl assignment, potentials, delta)", ENTRY, {"W": W}, res["cols"], cert_ans)


def cert_line(case, res):
    """Lean op line certifying this output (or the raise)"""
    W, n = case["W"], case["n"]
    fixer = 0 if case.get("zero", True) else 1
    F = fracs(W)
    ref = A.hungarian_max(F, n)
    wt = [fr(v) for row in W for v in row]
    if ref is None:
        S = A.hall_violator([[v is not None for v in r] for r in W], n)
        return " ".join(["hall", str(n)] + wt + [str(len(S))] + [str(x) for x in S])
    if "cols" not in res:
        return None
    cols = [c - fixer for c in res["cols"]]
    if sorted(cols) != list(range(n)) or any(F[i][cols[i]] is None for i in range(n)):
        return None
    _, u, v, opt = ref
    u2 = [F[i][cols[i]] - v[cols[i]] for i in range(n)]
    delta = max([Fraction(0)] + [F[i][j] - u2[i] - v[j] for i in range(n) for j in range(n) if F[i][j] is not None])
    case["_delta"] = fr(delta)
    return " ".join(["assigncert", str(n)] + wt + [str(c) for c in cols] + [fr(x) for x in u2] + [fr(x) for x in v] + [fr(delta)])


BRUTE_N = 7      # the model's own brute-force optimum (optAssign, proved to be THE maximum: C04_optAssign_spec) is used up to this size


def brute_lines(case, res):
    """op lines for the kernel-verified brute-force reference: the optimum (or `infeasible`) and, when the implementation returned an
    assignment, the value of that very assignment computed inside the model"""
    W, n = case["W"], case["n"]
    wt = [fr(v) for row in W for v in row]
    out = [" ".join(["assignopt", str(n)] + wt)]
    if "cols" in res:
        fixer = 0 if case.get("zero", True) else 1
        cols = [c - fixer for c in res["cols"]]
        if sorted(cols) == list(range(n)):
            out.append(" ".join(["assignval", str(n)] + wt + [str(c) for c in cols]))
    return out


@safe_judge
def judge_brute(R, case, res, answers):
    """implementation vs the model's brute-force optimum; nothing computed in Python is trusted here"""
    W = case["W"]
    inp = {"W": W, "pre": case.get("pre"), "dtype": case.get("dtype")}
    opt = answers[0]
    if "hang" in res:
        return
    R.count("brute_force_reference(optAssign)")
    if opt == "err infeasible":
        if "exc" not in res:
            R.violation("property_violation", "raises when no assignment of acceptable pairs exists", ENTRY, inp, impl_output=res,
                        model_output=opt, oracle="the model's optAssign finds no acceptable permutation")
        return
    if not opt.startswith("ok "):
        R.corr_break("the model's brute-force optimum is defined on this input", ENTRY, inp, res, opt)
        return
    if "exc" in res:
        R.violation("property_violation", "returns an assignment whenever one exists", ENTRY, inp, impl_output=res, model_output=opt,
                    oracle="the model's optAssign finds an acceptable permutation")
        return
    if len(answers) < 2 or not answers[1].startswith("ok "):
        R.violation("property_violation", "one-to-one assignment using only acceptable pairs", ENTRY, inp, impl_output=res.get("cols"),
                    model_output=answers[1:] or None, oracle="the model cannot evaluate the returned assignment (not a permutation / uses a NaN pair)")
        return
    best, val = Fraction(opt.split()[1]), Fraction(answers[1].split()[1])
    mag = max([abs(Fraction(x)) for row in W for x in row if x is not None] + [Fraction(0)])
    exact = case["exact"] if case.get("exact") is not None else exact_data(W)
    tol = Fraction(0) if exact else Fraction(1, 10 ** 9) * mag
    if best - val > tol or val > best:
        R.violation("property_violation", "total utility equals the maximum over all acceptable assignments (model's brute-force optimum)", ENTRY, inp,
                    impl_output=res["cols"], model_output={"optAssign": fr(best), "value_of_returned_assignment": fr(val)},
                    oracle="kernel-verified brute force over all permutations (C04_optAssign_spec)")


def run_cases(R, cases, deadline):
    results = pmap("c04", "impl_one", cases, deadline=deadline, workers=12)
    lines, idx = [], []
    for i, (c, r) in enumerate(zip(cases, results)):
        l = cert_line(c, r)
        if l is not None:
            lines.append(l)
            idx.append(i)
    blines, bidx = [], []
    for i, (c, r) in enumerate(zip(cases, results)):
        if c["n"] <= BRUTE_N and not (isinstance(r, dict) and "hang" in r):
            ls = brute_lines(c, r)
            bidx.append((i, len(blines), len(blines) + len(ls)))
            blines += ls
    allans = lean_query(lines + blines)
    ans = dict(zip(idx, allans[:len(lines)]))
    bans = allans[len(lines):]
    for i, (c, r) in enumerate(zip(cases, results)):
        judge(R, c, r, ans.get(i))
    for i, a, b in bidx:
        judge_brute(R, cases[i], results[i], bans[a:b])


def corpus():
    path = os.path.join(VERIF, "corpus", "C04.jsonl")
    return [json.loads(l) for l in open(path) if l.strip()] if os.path.exists(path) else []


def run(R):
    R.rule = ("square valuation matrices, n<=7 quick / <=12 thorough: integers with zeros, generic floats, dyadic values, step-shaped tie-heavy "
              "floats (lambda-TSF levels with the 1e-5 floor and shared favourites), few distinct values incl. exact zeros; NaN density 0/.15/.4 "
              "incl. infeasible patterns; 20% of the matrices rescaled to other magnitudes (2^-70 .. 1e9); each call supervised by a deadline (5 s quick / 20 s thorough). Every output is certified: exact "
              "Hungarian potentials from the harness + Lean assignCertOk, or a Hall violator + Lean hallCertOk when the code raises. "
              "Non-trivial = n>=3 with NaN or repeated values.")
    R.assumptions = ["scipy's solver is not modelled: its output is certified per call (LP weak duality / Hall) and, for n <= 7, compared with the model's own brute-force optimum optAssign (C04_optAssign_spec: it IS the maximum over all acceptable permutations)",
                     "tolerance 0 on integer/dyadic data (also when rescaled by a power of two), 1e-9 * (largest utility) on generic floats (absorbs the solver's own rounding; relative, so tiny magnitudes are judged as strictly as ordinary ones)"]
    cases = []
    for c in corpus():
        cases.append({"W": c["W"], "n": len(c["W"]), "zero": True, "tag": "corpus"})
    cnt = 12000 if R.thorough else 900
    nmax = 12 if R.thorough else 7
    for t in range(cnt):
        n = R.rng.randint(1, nmax)
        W, tag = gen(R, n)
        exact = exact_data(W)
        if R.rng.random() < 0.2:
            W, sname, keeps = rescale(R, W)
            tag = tag + "*scaled"
            exact = exact and keeps
            R.count("scale=" + sname)
        c = {"W": W, "n": n, "zero": R.rng.random() < 0.5, "tag": tag, "exact": exact}
        flat = [v for row in W for v in row]
        if all(v is not None and float(v) == int(v) and 0 <= v <= 250 for v in flat) and R.rng.random() < 0.6:
            c["dtype"] = R.rng.choice(["int64", "int32", "uint8", "uint16"] + (["int8"] if max(flat) <= 120 else []))
            R.count("integer_matrix_storage:" + c["dtype"])
        if R.rng.random() < 0.25:
            c["pre"] = gen(R, n)[0]
        cases.append(c)
    run_cases(R, cases, 60.0 if R.thorough else 20.0)


def replay(R, rep):
    W = rep["input"]["W"]
    run_cases(R, [{"W": W, "n": len(W), "zero": rep.get("config", {}).get("zero_indexed", True), "tag": "replay", "pre": rep["input"].get("pre"),
                   "dtype": rep["input"].get("dtype")}], 10.0)
