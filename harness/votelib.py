"""Voting rules: profile generators, implementation calls, exact textbook oracles, Lean op lines
(C10, C11, C12, C13)."""
import itertools, math
from fractions import Fraction
import numpy as np
from harness.common import fr, to_np

ORDINAL_RULES = ["plurality", "borda", "veto", "harmonic", "kapproval"]


def rand_profile(rng, n, m):
    P = []
    for _ in range(n):
        perm = list(range(1, m + 1))
        rng.shuffle(perm)
        P.append(perm)
    return P


def all_profiles(n, m):
    """all profiles with n voters up to voter order (multisets of ballots)"""
    ballots = list(itertools.permutations(range(1, m + 1)))
    for combo in itertools.combinations_with_replacement(ballots, n):
        yield [list(b) for b in combo]


def structured_profile(rng, n, m):
    """tie-heavy profiles: few distinct ballots, cyclic shifts (Condorcet cycles), reversed pairs"""
    kind = rng.randrange(4)
    base = list(range(1, m + 1))
    rng.shuffle(base)
    if kind == 0:
        return [base[i % m:] + base[:i % m] for i in range(n)]
    if kind == 1:
        rev = [m + 1 - r for r in base]
        return [base if i % 2 == 0 else rev for i in range(n)]
    if kind == 2:
        b2 = base[:]
        rng.shuffle(b2)
        return [base if rng.random() < 0.5 else b2 for _ in range(n)]
    return rand_profile(rng, n, m)


def make_rule(name, k, tie_breaker, zero_indexed):
    """one rule object per configuration for the life of the worker process (reused across elections of different sizes)"""
    from harness.common import persist_rule
    return persist_rule(("vote", name, k, tie_breaker, zero_indexed), lambda: _make_rule(name, k, tie_breaker, zero_indexed))


def _make_rule(name, k, tie_breaker, zero_indexed):
    from socialchoicekit import deterministic_scoring as ds, deterministic_tournament as dt
    if name == "plurality":
        return ds.Plurality(tie_breaker=tie_breaker, zero_indexed=zero_indexed)
    if name == "borda":
        return ds.Borda(tie_breaker=tie_breaker, zero_indexed=zero_indexed)
    if name == "veto":
        return ds.Veto(tie_breaker=tie_breaker, zero_indexed=zero_indexed)
    if name == "harmonic":
        return ds.Harmonic(tie_breaker=tie_breaker, zero_indexed=zero_indexed)
    if name == "kapproval":
        return ds.KApproval(k, tie_breaker=tie_breaker, zero_indexed=zero_indexed)
    if name == "copeland":
        return dt.Copeland(tie_breaker=tie_breaker, zero_indexed=zero_indexed)
    raise ValueError(name)


def content_dtype(P):
    """a valid dtype for the ranks of a complete profile, chosen deterministically from the content: the same ranks may be stored
    as int64 / int32 / int16 / int8 (ranks <= m <= 127 always fit) or float64 and every rule must give the same answer"""
    import hashlib
    h = int(hashlib.sha256(repr(P).encode()).hexdigest()[:4], 16) % 20
    return [np.int64] * 8 + [np.int32] * 3 + [np.int16] * 3 + [np.int8] * 3 + [np.float64] * 3


def profile_obj(P, dtype=None):
    from socialchoicekit.profile_utils import StrictCompleteProfile
    from harness.common import relayout
    if dtype is None:
        import hashlib
        h = int(hashlib.sha256(repr(P).encode()).hexdigest()[:4], 16) % 20
        dtype = content_dtype(P)[h]
        mx = max((max(row) for row in P if row), default=0)
        if mx > np.iinfo(dtype).max if np.issubdtype(dtype, np.integer) else False:
            dtype = np.int64        # the storage type must be able to hold the ranks
    from harness.common import persist
    return persist("votes", relayout(np.array(P, dtype=dtype)), StrictCompleteProfile.of)


def exact_scores(name, k, P, m):
    """textbook definition, exact"""
    out = []
    for j in range(m):
        col = [row[j] for row in P]
        if name == "plurality":
            out.append(Fraction(sum(1 for r in col if r == 1)))
        elif name == "borda":
            out.append(Fraction(sum(m - r for r in col)))
        elif name == "veto":
            out.append(Fraction(sum(1 for r in col if r < m)))
        elif name == "kapproval":
            out.append(Fraction(sum(1 for r in col if r <= k)))
        elif name == "harmonic":
            out.append(sum(Fraction(1, r) for r in col))
        elif name == "copeland":
            s = 0
            for b in range(m):
                if b == j:
                    continue
                pro = sum(1 for row in P if row[j] < row[b])
                con = sum(1 for row in P if row[b] < row[j])
                s += (1 if pro > con else 0) - (1 if con > pro else 0)
            out.append(Fraction(s))
    return out


def lean_score_line(name, k, P, m):
    n = len(P)
    head = ["score", name] + ([str(k)] if name == "kapproval" else [])
    return " ".join(head + [str(n), str(m)] + [str(v) for row in P for v in row])


def parse_score(ans):
    """-> (scores as Fractions, winners 0-indexed) or None"""
    t = ans.split()
    if t[0] != "ok":
        return None
    m = int(t[1])
    sc = [Fraction(x) for x in t[2:2 + m]]
    k = int(t[2 + m])
    w = [int(x) for x in t[3 + m:3 + m + k]]
    return sc, w


def fscore(x):
    """implementation score (numpy scalar) -> exact Fraction of the float/int it is"""
    return Fraction(float(x)) if not float(x).is_integer() else Fraction(int(x))


def rel_close(a, b, tol):
    a, b = Fraction(a), Fraction(b)
    return abs(a - b) <= tol * max(1, abs(a), abs(b))


def stv_possible_winners(P, m, first):
    """textbook STV on the ORIGINAL ballots: set of alternatives that can survive (all legal eliminations);
    with first=True the lowest-numbered minimal alternative is eliminated"""
    res = set()
    seen = set()
    budget = [30000]

    class TooMany(Exception):
        pass

    def go(alive):
        key = tuple(alive)
        if key in seen:
            return
        seen.add(key)
        budget[0] -= 1
        if budget[0] < 0:
            raise TooMany()
        if len(alive) == 1:
            res.add(alive[0])
            return
        cnt = {a: 0 for a in alive}
        for row in P:
            best = min(alive, key=lambda a: row[a])
            cnt[best] += 1
        mn = min(cnt.values())
        cands = [a for a in alive if cnt[a] == mn]
        if first:
            cands = cands[:1]
        for d in cands:
            go([a for a in alive if a != d])
    try:
        go(list(range(m)))
    except TooMany:
        return None        # too many legal elimination sequences to enumerate (many alternatives without first places): unknown
    return res


def stv_has_tie(P, m):
    alive = list(range(m))
    while len(alive) > 1:
        cnt = {a: 0 for a in alive}
        for row in P:
            cnt[min(alive, key=lambda a: row[a])] += 1
        mn = min(cnt.values())
        c = [a for a in alive if cnt[a] == mn]
        if len(c) > 1:
            return True
        alive.remove(c[0])
    return False
