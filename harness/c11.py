"""C11 - voting rules treat voters and alternatives symmetrically (anonymity, neutrality, equal rank multisets tie)."""
import json, itertools
from fractions import Fraction
import numpy as np
from harness import votelib as V
from harness.common import pmap, lean_query, guard, fr, to_np, safe_judge, persist, persist_rule
from harness.c01 import chunks

LEVEL = "proof"
ENTRY = "socialchoicekit (voting rules)"
TOL9 = Fraction(1, 10 ** 9)


def rules_for(m):
    return [("plurality", 0), ("borda", 0), ("veto", 0), ("harmonic", 0), ("kapproval", max(1, m // 2)), ("copeland", 0)]


def run_rules(P, m, vals, k, lam):
    """all rule outputs on one profile (zero-indexed, tie_breaker accept)"""
    from socialchoicekit.deterministic_multiround import SingleTransferableVote
    from socialchoicekit.deterministic_scoring import SocialWelfare
    from socialchoicekit.elicitation_voting import KARV, LambdaPRV
    from socialchoicekit.elicitation_utils import ValuationProfileElicitor
    from socialchoicekit.profile_utils import ValuationProfile, CompleteProfile
    out = {}
    prof = V.profile_obj(P)
    for name, kk in rules_for(m):
        rule = V.make_rule(name, kk, "accept", True)
        sc = rule.score(prof)
        w = rule.scf(prof)
        out[name] = {"score": [fr(V.fscore(x)) for x in sc], "winners": [int(x) for x in np.atleast_1d(w)]}
    stv = persist_rule(("stv", "first", True), lambda: SingleTransferableVote(tie_breaker="first", zero_indexed=True))
    out["stv"] = {"winner": int(stv.scf(persist("stvP", np.array(P, dtype=np.int64), CompleteProfile.of)))}
    if vals is not None:
        vp = persist("vals", to_np(vals), ValuationProfile.of)
        r = persist_rule(("sw", "accept", True), lambda: SocialWelfare(tie_breaker="accept", zero_indexed=True))
        out["util"] = {"score": [fr(Fraction(float(x))) for x in r.score(vp)], "winners": [int(x) for x in np.atleast_1d(r.scf(vp))]}
        # the values are asked through the pre-populated elicitor or, for every other election, through a ONE-indexed callback elicitor
        # (the rules always hand zero-based indices to the elicitor, which shifts them by its own convention)
        import hashlib
        from socialchoicekit.elicitation_utils import LambdaElicitor
        one_indexed = int(hashlib.sha256(repr(P).encode()).hexdigest()[:2], 16) % 2 == 0
        varr = to_np(vals)

        def mk_el():
            if one_indexed:
                return LambdaElicitor(lambda a_, j_: float(varr[int(a_) - 1, int(j_) - 1]), zero_indexed=False)
            return ValuationProfileElicitor(vp)
        r = persist_rule(("karv", k, "accept", True), lambda: KARV(k=k, tie_breaker="accept", zero_indexed=True))
        sc = r.score(prof, mk_el())
        w = r.scf(prof, mk_el())
        out["karv"] = {"score": [fr(Fraction(float(x))) for x in sc], "winners": [int(x) for x in np.atleast_1d(w)]}
        r = persist_rule(("prv", lam, "accept", True), lambda: LambdaPRV(lambda_=lam, tie_breaker="accept", zero_indexed=True))
        sc = r.score(prof, mk_el())
        w = r.scf(prof, mk_el())
        out["prv"] = {"score": [fr(Fraction(float(x))) for x in sc], "winners": [int(x) for x in np.atleast_1d(w)]}
    return out


def transform(P, vals, vperm, sig):
    """voter v of the new profile = old voter vperm[v]; new alternative a = old alternative sig[a]"""
    P2 = [[P[v][sig[a]] for a in range(len(sig))] for v in vperm]
    vals2 = None if vals is None else [[vals[v][sig[a]] for a in range(len(sig))] for v in vperm]
    return P2, vals2


@guard
def impl_batch(case):
    out = []
    for it in case["items"]:
        try:
            a = run_rules(it["P"], it["m"], it.get("vals"), it.get("k", 1), it.get("lam", 1))
            P2, v2 = transform(it["P"], it.get("vals"), it["vperm"], it["sig"])
            b = run_rules(P2, it["m"], v2, it.get("k", 1), it.get("lam", 1))
            out.append({"orig": a, "trans": b})
        except Exception as e:  # noqa
            out.append({"exc": type(e).__name__, "msg": str(e)[:200]})
    return {"results": out}


def consistent_vals(rng, P, m):
    """non-negative valuations weakly decreasing along each ranking (strictly unless tie-heavy)"""
    vals = []
    mode = rng.randrange(3)
    for row in P:
        if mode == 0:
            xs = sorted((rng.random() for _ in range(m)), reverse=True)
        elif mode == 1:
            xs = sorted((rng.random() ** 6 for _ in range(m)), reverse=True)
        else:
            xs = sorted((rng.choice([0.0, 0.125, 0.25, 0.5, 1.0]) for _ in range(m)), reverse=True)
        if xs[0] == 0:
            xs[0] = 1.0
        vals.append([xs[row[j] - 1] for j in range(m)])
    return vals


@safe_judge
def judge(R, it, res, lean):
    P, m, vperm, sig = it["P"], it["m"], it["vperm"], it["sig"]
    if "exc" in res or "hang" in res:
        R.violation("property_violation", "total on a valid profile", ENTRY, it, impl_output=res, oracle="raised/hang")
        return
    a, b = res["orig"], res["trans"]
    P2, _ = transform(P, it.get("vals"), vperm, sig)
    inp = {"P": P, "voter_permutation": vperm, "alternative_renaming": sig, "vals": it.get("vals")}
    for name in ["plurality", "borda", "veto", "harmonic", "kapproval", "copeland"]:
        sa, sb = a[name]["score"], b[name]["score"]
        # exact equality, also for the float Harmonic (an ordinal rule): new alternative x is old sig[x]
        if any(sb[x] != sa[sig[x]] for x in range(m)):
            R.violation("property_violation", f"{name}: reordering voters / renaming alternatives permutes the scores accordingly",
                        f"{ENTRY}: {name}.score", inp, impl_output={"orig": sa, "transformed": sb}, oracle="scores differ")
            return
        if sorted(sig[x] for x in b[name]["winners"]) != sorted(a[name]["winners"]):
            R.violation("property_violation", f"{name}: winner sets correspond", f"{ENTRY}: {name}.scf", inp,
                        impl_output={"orig": a[name]["winners"], "transformed": b[name]["winners"]}, oracle="winner sets differ")
            return
        # equal rank multisets tie
        sc = a[name]["score"]
        if name != "copeland":
            hist = [tuple(sorted(row[j] for row in P)) for j in range(m)]
            for x in range(m):
                for y in range(x + 1, m):
                    if hist[x] == hist[y] and sc[x] != sc[y]:
                        R.violation("property_violation", f"{name}: alternatives with the same multiset of ranks tie",
                                    f"{ENTRY}: {name}.score", {"P": P}, impl_output=sc, oracle={"alternatives": [x, y]})
                        return
    # STV: voter permutation always; renaming when no elimination tie occurs
    tie = V.stv_has_tie(P, m)
    if not tie and sig[b["stv"]["winner"]] != a["stv"]["winner"]:
        R.violation("property_violation", "STV (no elimination tie): winner corresponds under reordering/renaming", f"{ENTRY}: STV.scf", inp,
                    impl_output={"orig": a["stv"], "transformed": b["stv"]}, oracle="winners differ")
        return
    if "util" in a:
        for name in ["util", "karv", "prv"]:
            sa = [Fraction(x) for x in a[name]["score"]]
            sb = [Fraction(x) for x in b[name]["score"]]
            if any(not V.rel_close(sb[x], sa[sig[x]], TOL9) for x in range(m)):
                R.violation("property_violation", f"{name}: scores agree up to relative 1e-9 under reordering/renaming", f"{ENTRY}: {name}.score",
                            inp, impl_output={"orig": a[name]["score"], "transformed": b[name]["score"]}, oracle="scores differ by more than 1e-9")
                return
            # "the top score is separated from the others": the best and the second-best ENTRY (not distinct value) differ by
            # more than the tolerance; an exact or near tie at the top may legitimately be broken by float summation order
            top = sorted(sa, reverse=True)
            separated = len(top) == 1 or (top[0] - top[1] > 4 * TOL9 * max(1, abs(top[0])))
            if separated:
                if sorted(sig[x] for x in b[name]["winners"]) != sorted(a[name]["winners"]):
                    R.violation("property_violation", f"{name}: winner sets correspond when the top score is separated", f"{ENTRY}: {name}.scf",
                                inp, impl_output={"orig": a[name]["winners"], "transformed": b[name]["winners"]}, oracle="winner sets differ")
                    return
            else:
                R.ambiguous += 1
    # utilitarian share against the exact share (the model's `util`): a score that is off by more than 1e-9 cannot be relied on to agree
    # under reordering either
    if "util" in a and it.get("vals"):
        for side, rr, VV in (("orig", a, it["vals"]), ("trans", b, transform(P, it["vals"], vperm, sig)[1])):
            F = [[Fraction(x) for x in row] for row in VV]
            tot = sum(x for row in F for x in row)
            if tot > 0:
                exact = [sum(row[j] for row in F) / tot for j in range(m)]
                got = [Fraction(x) for x in rr["util"]["score"]]
                if any(not V.rel_close(g, e, TOL9) for g, e in zip(got, exact)):
                    R.corr_break("utilitarian score within relative 1e-9 of the exact share (model)", f"{ENTRY}: SocialWelfare.score", {"vals": VV},
                                 rr["util"]["score"], [fr(e) for e in exact])
    # correspondence: both runs equal the (proved equivariant) model
    for name, kk in rules_for(m):
        for side, PP, key in (("orig", P, (name, "o")), ("trans", P2, (name, "t"))):
            parsed = V.parse_score(lean[key])
            sc = [Fraction(x) for x in res[side][name]["score"]]
            if parsed is None:
                R.corr_break("model score defined", f"{ENTRY}: {name}", {"P": PP}, res[side][name], lean[key])
                continue
            msc, mw = parsed
            if name == "harmonic":
                if any(not V.rel_close(x, y, Fraction(1, 10 ** 12)) for x, y in zip(msc, sc)):
                    R.corr_break("harmonic within 1e-12 of the exact model", f"{ENTRY}: harmonic", {"P": PP}, res[side][name], lean[key])
            elif msc != sc or mw != res[side][name]["winners"]:
                R.corr_break(f"{name}: scores and winners equal the model's", f"{ENTRY}: {name}", {"P": PP}, res[side][name], lean[key])
    # rule-level models of k-ARV / lambda-PRV (proved anonymous and neutral: C11Elicit): scores within 1e-9 on both sides
    if "util" in a:
        from harness import eliclib as E_
        for name, key in (("karv", "karv_model"), ("prv", "prv_model")):
            for side, rr, PP, VV in (("o", a, P, it.get("vals")), ("t", b, P2, None)):
                if name == "karv":
                    amb = any(E_.near([Fraction((VV or transform(P, it["vals"], vperm, sig)[1])[i][j]) for j in E_.ranked(PP, i)], E_.thresholds(m, it["k"]))
                              for i in range(len(PP)))
                    if amb:
                        R.ambiguous += 1
                        continue
                t = lean.get((key, side), "err").split()
                if t[0] != "ok":
                    R.corr_break(f"{name}: rule-level model defined", f"{ENTRY}: {name}", {"P": PP}, rr[name]["score"], " ".join(t))
                    continue
                ms = [Fraction(x) for x in t[1:1 + m]]
                if any(not V.rel_close(x, Fraction(y), TOL9) for x, y in zip(ms, rr[name]["score"])):
                    R.corr_break(f"{name}: scores within 1e-9 of the rule-level Lean model", f"{ENTRY}: {name}", {"P": PP, "vals": VV or "transformed"},
                                 rr[name]["score"], " ".join(t))
    # Harmonic float score must be a function of the rank histogram over the whole run
    for side, PP in (("orig", P), ("trans", P2)):
        for j in range(m):
            h = tuple(sorted(row[j] for row in PP))
            v = res[side]["harmonic"]["score"][j]
            old = R.extra.setdefault("_harm_table", {}).setdefault(h, v)
            if old != v:
                R.violation("property_violation", "Harmonic score is a function of the multiset of ranks", f"{ENTRY}: harmonic.score",
                            {"P": PP, "alternative": j}, impl_output=v, oracle={"same_rank_multiset_scored_earlier_as": old})
                return
    nontriv = vperm != sorted(vperm) or sig != sorted(sig)
    R.case(nontrivial_key=json.dumps([P, vperm, sig]) if nontriv else None,
           sample={"P": P, "voter_permutation": vperm, "alternative_renaming": sig, "impl_orig": {k: a[k] for k in ("harmonic", "stv")},
                   "impl_transformed": {k: b[k] for k in ("harmonic", "stv")}} if nontriv else None)
    R.count(f"n={min(len(P), 9)}{'+' if len(P) > 9 else ''},m={m}")
    if tie:
        R.count("stv_elimination_tie(rename clause skipped)")


def run_items(R, items):
    items.sort(key=lambda it: (it["m"], len(it["P"])))      # same-shaped elections adjacent: persistent objects are refilled in place
    cases = [{"items": ch} for ch in chunks(items, 25)]
    results = pmap("c11", "impl_batch", cases, deadline=120.0)
    flat = []
    for case, res in zip(cases, results):
        flat += res["results"] if "results" in res else [{"hang": True}] * len(case["items"])
    lines, where = [], []
    for i, it in enumerate(items):
        P2, _ = transform(it["P"], None, it["vperm"], it["sig"])
        for name, kk in rules_for(it["m"]):
            lines.append(V.lean_score_line(name, kk, it["P"], it["m"])); where.append((i, name, "o"))
            lines.append(V.lean_score_line(name, kk, P2, it["m"])); where.append((i, name, "t"))
    from harness import eliclib as E_
    for i, it in enumerate(items):
        if it.get("vals") is None:
            continue
        P2, V2 = transform(it["P"], it["vals"], it["vperm"], it["sig"])
        n_, m_ = len(it["P"]), it["m"]
        lams = E_.thresholds(m_, it["k"])
        for side, PP, VV in (("o", it["P"], it["vals"]), ("t", P2, V2)):
            body = [str(n_), str(m_)] + [str(v) for row in PP for v in row] + [fr(v) for row in VV for v in row]
            lines.append(" ".join(["karv"] + body + [str(len(lams))] + [fr(x) for x in lams])); where.append((i, "karv_model", side))
            lines.append(" ".join(["prv"] + body + [str(it["lam"])])); where.append((i, "prv_model", side))
    ans = lean_query(lines)
    per = {}
    for (i, name, side), a in zip(where, ans):
        per.setdefault(i, {})[(name, side)] = a
    for i, (it, res) in enumerate(zip(items, flat)):
        judge(R, it, res, per[i])


def run(R):
    R.rule = ("(profile, voter permutation, alternative renaming) triples: random profiles (n<=40, m<=8) and structured tie-heavy ones, with "
              "consistent valuation profiles for utilitarian / k-ARV / lambda-PRV; every rule run on the original and the transformed input "
              "(tie_breaker accept, STV first); thorough adds ALL profiles with n,m<=3 x ALL voter permutations x ALL renamings. "
              "Non-trivial = a non-identity permutation; ambiguous = top utility score not separated by > 4e-9 (winner clause skipped).")
    R.assumptions = ["for the float Harmonic the factorisation through the rank multiset is checked as a functional table over the run"]
    items = []
    cnt = 4000 if R.thorough else 240
    for t in range(cnt):
        m = R.rng.choice([1, 2, 3, 3, 4, 5, 6, 8])
        n = R.rng.choice([1, 2, 3, 4, 5, 8, 12, 20, 40, 65, 97, 130])
        if t % (60 if R.thorough else 16) == 10:          # many alternatives AND a large electorate (n * m * m beyond any fixed block size of a vectorised rewrite)
            m = R.rng.choice([25, 30, 40])
            n = R.rng.choice([50, 75, 120])
        P = V.structured_profile(R.rng, n, m) if R.rng.random() < 0.4 else V.rand_profile(R.rng, n, m)
        vperm = list(range(n)); R.rng.shuffle(vperm)
        sig = list(range(m)); R.rng.shuffle(sig)
        if R.rng.random() < 0.2:
            sig = list(range(m))
        if R.rng.random() < 0.2:
            vperm = list(range(n))
        items.append({"P": P, "m": m, "vperm": vperm, "sig": sig, "vals": consistent_vals(R.rng, P, m),
                      "k": R.rng.randint(1, m), "lam": R.rng.randint(1, m)})
    run_items(R, items)
    if R.thorough:
        R.exhaustive = True
        ex = []
        for n in (1, 2, 3):
            for m in (2, 3):
                for P in V.all_profiles(n, m):
                    for vperm in itertools.permutations(range(n)):
                        for sig in itertools.permutations(range(m)):
                            ex.append({"P": P, "m": m, "vperm": list(vperm), "sig": list(sig)})
        for ch in chunks(ex, 3000):
            run_items(R, ch)
    R.extra.pop("_harm_table", None)


def replay(R, rep):
    inp = rep["input"]
    P = inp["P"]
    m = len(P[0])
    it = {"P": P, "m": m, "vperm": inp.get("voter_permutation", list(range(len(P)))), "sig": inp.get("alternative_renaming", list(range(m)))}
    if inp.get("vals"):
        it.update(vals=inp["vals"], k=1, lam=1)
    run_items(R, [it])
    R.extra.pop("_harm_table", None)
