"""C06 - Birkhoff-von Neumann decomposition reconstructs its input (the implementation's own permutations are
replayed through the exact Lean model)."""
import json
from fractions import Fraction
import numpy as np
from harness import votelib as V
from harness.common import pmap, lean_query, guard, fr, safe_judge, pmap_singles
from harness.c01 import chunks

LEVEL = "proof"
ENTRY = "socialchoicekit.bistochastic.birkhoff_von_neumann"
TOL6 = Fraction(1, 10 ** 6)


@guard
def impl_batch(case):
    from socialchoicekit.bistochastic import birkhoff_von_neumann
    out = []
    for it in case["items"]:
        try:
            X = np.array([[float(Fraction(x)) for x in row] for row in it["X"]], dtype=float)
            if it.get("dtype"):
                X = X.astype(it["dtype"])        # integer-valued (or 0/1) matrices stored in an integer / boolean array
            elif it.get("subclass"):
                from socialchoicekit.profile_utils import ValuationProfile
                X = ValuationProfile.of(X)         # an ndarray subclass (a valuation profile IS a non-negative matrix)
            dec = birkhoff_von_neumann(X.copy() if it.get("subclass") else np.array(X))
            out.append({"terms": [{"z": fr(Fraction(float(z))), "P": [[int(round(float(v))) if float(v) in (0.0, 1.0) else fr(Fraction(float(v))) for v in row] for row in Pm]}
                                  for z, Pm in dec]})
        except Exception as e:  # noqa
            out.append({"exc": type(e).__name__, "msg": str(e)[:200]})
    return {"results": out}


def rand_perm(rng, n):
    p = list(range(n))
    rng.shuffle(p)
    return p


def gen(R, n):
    """matrix as exact rationals of floats + kind tag"""
    kind = R.rng.choice(["dyadic", "dyadic", "uniform", "generic", "scaled_dyadic", "conic_int", "scaled_generic", "scaled_uniform", "near_equal", "zero", "tiny_scaled", "light_overlap", "scaled_light"])
    k = R.rng.randint(1, min(6, max(1, n * n // 2)))
    perms = [rand_perm(R.rng, n) for _ in range(k)]
    if kind == "tiny_scaled":
        # dyadic weights in units of 2^-27 (7.5e-9) or 2^-26: entries just above the routine's own 1e-9 stop threshold
        unit = Fraction(1, 2 ** R.rng.choice([27, 26, 25]))
        ws = [unit * R.rng.randint(1, 8) for _ in range(k)]
        X = [[Fraction(0)] * n for _ in range(n)]
        for w, p in zip(ws, perms):
            for i in range(n):
                X[i][p[i]] += w
        return X, kind, True
    if kind == "light_overlap":
        # (round 6, C06-16) heavy dyadic permutations plus a few very light ones (2^-30 = 9.3e-10 each, just BELOW the routine's
        # 1e-9 stop threshold) that share cells, so that some entries of the residue are >= 1e-9 and the loop has to go on
        # although the entries above the threshold alone contain no perfect matching.  Exactly representable in doubles.
        if n < 2:
            return [[Fraction(1)] * n for _ in range(n)], kind, False
        light = Fraction(1, 2 ** 30)
        X = [[Fraction(0)] * n for _ in range(n)]
        for p in perms[:max(1, k // 2)]:
            w = Fraction(R.rng.randint(1, 16), 64)
            for i in range(n):
                X[i][p[i]] += w
        q = rand_perm(R.rng, n)
        for _ in range(R.rng.randint(2, 3)):
            q2 = list(q)
            a, b = R.rng.sample(range(n), 2)
            q2[a], q2[b] = q2[b], q2[a]
            for i in range(n):
                X[i][q2[i]] += light
        extra = light * R.rng.choice([0, 1])
        for i in range(n):
            X[i][q[i]] += extra
        Xf = [[Fraction(float(x)) for x in row] for row in X]
        sums = {sum(r) for r in Xf} | {sum(Xf[i][j] for i in range(n)) for j in range(n)}
        if len(sums) != 1:
            # outside the property's domain (would be a generator slip, see DESIGN section 15): never hand it to the judge
            return [[Fraction(0)] * n for _ in range(n)], "zero", True
        return Xf, kind, False
    if kind == "scaled_light":
        # (round 6, C06-17) large common row sum (4096 .. 8192, inside the documented 1e4) carried by one or two heavy permutations, plus light
        # permutations of weight 2^-18 / 2^-17 (3.8e-6, 7.6e-6): far above the absolute 1e-9 stop test and above the property's 1e-6, but
        # below any threshold taken relative to the row sum.  Exactly representable in doubles.
        X = [[Fraction(0)] * n for _ in range(n)]
        for p in perms[:R.rng.randint(1, 2)]:
            for i in range(n):
                X[i][p[i]] += Fraction(4096)
        for _ in range(R.rng.randint(1, 2)):
            q = rand_perm(R.rng, n)
            w = Fraction(1, 2 ** R.rng.choice([18, 17]))
            for i in range(n):
                X[i][q[i]] += w
        Xf = [[Fraction(float(x)) for x in row] for row in X]
        if Xf != X:
            return [[Fraction(0)] * n for _ in range(n)], "zero", True
        return Xf, kind, False
    if kind == "zero":
        # the zero matrix is balanced too (common sum 0): the decomposition is empty
        return [[Fraction(0)] * n for _ in range(n)], kind, True
    if kind == "near_equal":
        # weights that agree to 1e-5 .. 1e-7 relative: entries of one matching nearly, but not exactly, equal
        k = max(2, k)
        perms = [rand_perm(R.rng, n) for _ in range(k)]
        base = R.rng.choice([0.5, 0.25, 1.0, 3.0])
        ws = [Fraction(base * (1 + R.rng.choice([0, 1, -1, 2]) * R.rng.choice([1e-5, 2e-6, 1e-6, 1e-7]))) for _ in range(k)]
        X = [[Fraction(0)] * n for _ in range(n)]
        for w, p in zip(ws, perms):
            for i in range(n):
                X[i][p[i]] += w
        Xf = [[Fraction(float(x)) for x in row] for row in X]
        return Xf, kind, False
    if kind == "dyadic":
        raw = [R.rng.randint(1, 16) for _ in range(k)]
        tot = 64
        ws = [Fraction(x, tot) for x in raw]
        # fix the sum to exactly 1 with a dyadic remainder on the first permutation
        rest = 1 - sum(ws)
        if rest <= 0:
            ws = [Fraction(1, 2 ** (i + 1)) for i in range(k)]
            ws[-1] *= 2
        else:
            ws[0] += rest
    elif kind == "uniform":
        ws = [Fraction(1, k)] * k
    elif kind == "generic":
        xs = [R.rng.random() + 0.05 for _ in range(k)]
        s = sum(xs)
        ws = [Fraction(x / s) for x in xs]
    elif kind in ("scaled_generic", "scaled_uniform"):
        scale = R.rng.choice([3, 7.5, 100, 10000])
        if kind == "scaled_generic":
            xs = [R.rng.random() + 0.05 for _ in range(k)]
            s0 = sum(xs)
            ws = [Fraction(x / s0 * scale) for x in xs]
        else:
            ws = [Fraction(float(scale) / k)] * k
    elif kind == "scaled_dyadic":
        scale = R.rng.choice([2, 8, 1024, 10000])
        ws = [Fraction(R.rng.randint(1, 16), 16) * scale for _ in range(k)]
    else:
        ws = [Fraction(R.rng.randint(1, 5)) for _ in range(k)]
        if n >= 3 and R.rng.random() < 0.5:
            # 0/1 matrices with common row sum k >= 2 (biadjacency matrix of a k-regular bipartite graph): pairwise disjoint cyclic
            # shifts of one permutation, all of weight 1 (seeded change C06-13; made a fixed share of this kind in the third session)
            k = R.rng.randint(2, n - 1)
            base = rand_perm(R.rng, n)
            perms = [[base[(i + sh) % n] for i in range(n)] for sh in R.rng.sample(range(n), k)]
            ws = [Fraction(1)] * k
    X = [[Fraction(0)] * n for _ in range(n)]
    for w, p in zip(ws, perms):
        for i in range(n):
            X[i][p[i]] += w
    # what the implementation sees are floats: round once, so the model gets exactly the same numbers
    Xf = [[Fraction(float(x)) for x in row] for row in X]
    exact = all(Xf[i][j] == X[i][j] for i in range(n) for j in range(n)) and kind in ("dyadic", "scaled_dyadic", "conic_int")
    return Xf, kind, exact


def balanced_sum(X):
    n = len(X)
    rs = [sum(r) for r in X]
    cs = [sum(X[i][j] for i in range(n)) for j in range(n)]
    return rs, cs


@safe_judge
def judge(R, it, res, ans):
    X = [[Fraction(x) for x in row] for row in it["X"]]
    n = len(X)
    inp = {"X": it["X"], "kind": it["kind"], "dtype": it.get("dtype")}
    if "exc" in res or "hang" in res:
        R.violation("property_violation", "terminates without raising on a matrix with equal row and column sums", ENTRY, inp, impl_output=res,
                    oracle="raised/hang")
        return
    terms = res["terms"]
    rs, cs = balanced_sum(X)
    s = rs[0]
    errs = []
    if len(terms) > n * n:
        errs.append(f"{len(terms)} terms > n*n")
    perms = []
    rec = [[Fraction(0)] * n for _ in range(n)]
    zsum = Fraction(0)
    for t in terms:
        z = Fraction(t["z"])
        Pm = t["P"]
        if z <= 0:
            errs.append("non-positive coefficient")
        ok = all(v in (0, 1) for row in Pm for v in row) and all(sum(row) == 1 for row in Pm) and all(sum(Pm[i][j] for i in range(n)) == 1 for j in range(n))
        if not ok:
            errs.append("a returned matrix is not a permutation matrix")
            break
        sig = [row.index(1) for row in Pm]
        perms.append(sig)
        zsum += z
        for i in range(n):
            rec[i][sig[i]] += z
    if not errs:
        worst = max(abs(rec[i][j] - X[i][j]) for i in range(n) for j in range(n)) if n else Fraction(0)
        if worst > TOL6:
            errs.append(f"weighted sum differs from the input by {float(worst):.3g} > 1e-6")
        if abs(zsum - s) > TOL6:
            errs.append(f"coefficients add up to {float(zsum)} instead of the common row sum {float(s)}")
    if errs:
        R.violation("property_violation", "<= n*n positive coefficients with permutation matrices reconstructing the input within 1e-6", ENTRY, inp,
                    impl_output=terms, oracle=errs[:4])
        return
    R.count(it["kind"])
    R.count(f"n={n}")
    R.case(nontrivial_key=json.dumps(it["X"]) if len(terms) >= 2 else None,
           sample={"X": [[float(x) for x in row] for row in X], "impl_coefficients": [float(Fraction(t["z"])) for t in terms], "impl_permutations": perms,
                   "model": ans[:200]} if len(terms) >= 2 else None)
    # correspondence: replay of the implementation's permutations through the exact loop
    t = ans.split()
    if it["exact"]:
        ok = t[0] == "ok"
        if ok:
            k = int(t[2])
            zs = [Fraction(x) for x in t[3:3 + k]]
            ok = (zs == [Fraction(tt["z"]) for tt in terms] and t[3 + k] == "zero" and t[4 + k] == "recon" and Fraction(t[5 + k]) == s and t[1] == fr(s))
        if not ok:
            R.corr_break("exact replay of the implementation's permutations: same coefficients, zero residual, exact reconstruction (dyadic input)",
                         ENTRY, inp, {"z": [tt["z"] for tt in terms], "perms": perms}, ans)
    else:
        R.count("inexact_input(replay compared within 1e-9 only)")
        if t[0] == "ok":
            k = int(t[2])
            zs = [Fraction(x) for x in t[3:3 + k]]
            if any(abs(a - Fraction(tt["z"])) > Fraction(1, 10 ** 9) * max(1, s) for a, tt in zip(zs, terms)):
                R.corr_break("replayed coefficients within 1e-9 of the implementation's", ENTRY, inp, [tt["z"] for tt in terms], ans)
        else:
            R.ambiguous += 1   # float residue left the exact support; the property's own tolerance decided above


def lean_line(it, res):
    n = len(it["X"])
    if "terms" not in res:
        return None
    perms = []
    for t in res["terms"]:
        Pm = t["P"]
        if not all(v in (0, 1) for row in Pm for v in row) or not all(sum(row) == 1 for row in Pm):
            return None
        perms.append([row.index(1) for row in Pm])
    return " ".join(["bvn", str(n)] + [x for row in it["X"] for x in row] + [str(len(perms))] + [str(c) for p in perms for c in p])


def run_items(R, items):
    cases = [{"items": ch} for ch in chunks(items, 25)]
    results = pmap("c06", "impl_batch", cases, deadline=180.0)
    flat = []
    for case, res in zip(cases, results):
        if "results" in res:
            flat += res["results"]
        else:
            singles = pmap_singles("c06", "impl_batch", [{"items": [it]} for it in case["items"]], deadline=30.0, R=R)
            flat += [s["results"][0] if "results" in s else ({"skipped": True} if "skipped" in s else {"hang": True}) for s in singles]
    lines, idx = [], []
    for i, (it, r) in enumerate(zip(items, flat)):
        l = lean_line(it, r)
        if l:
            lines.append(l); idx.append(i)
    ans = dict(zip(idx, lean_query(lines)))
    for i, (it, r) in enumerate(zip(items, flat)):
        judge(R, it, r, ans.get(i, "err no-replay"))
    # the faithful mirror of the whole routine (positivity graph, mirrored matching on the mirrored Ford-Fulkerson, subtraction loop:
    # C06_bvnMirror_spec / _ok_iff) returns the SAME terms in the same order on inputs where float arithmetic is exact. WHICH decomposition is
    # returned is not part of the property, so this is model coverage
    ex = [(it, r) for it, r in zip(items, flat) if it.get("exact") and "terms" in r and len(it["X"]) <= 6]
    if ex:
        mir = lean_query([" ".join(["bvnmirror", str(len(it["X"]))] + [str(x) for row in it["X"] for x in row]) for it, _ in ex])
        for (it, r), a in zip(ex, mir):
            n = len(it["X"])
            toks = ["ok", str(len(r["terms"]))]
            try:
                for t in r["terms"]:
                    toks.append(str(t["z"]))
                    toks += [str(row.index(1)) if 1 in row else str(n) for row in t["P"]]
                exp = " ".join(toks)
            except Exception:  # noqa
                exp = "uninterpretable"
            R.glue("mirror:birkhoff_von_neumann term by term (dyadic inputs)", exp == a, {"X": it["X"], "real": exp[:300], "model": a[:300]})


def eating_outputs(R, count):
    from harness.common import pmap
    items = []
    for t in range(count):
        n = R.rng.randint(2, 6)
        items.append({"P": V.rand_profile(R.rng, n, n), "speeds": [R.rng.choice(["1", "2", "1/2"]) for _ in range(n)] if t % 2 else ["1"] * n,
                      "ps": t % 2 == 0})
    res = pmap("c05", "impl_batch", [{"items": items}], deadline=120.0)[0]
    out = []
    for it, r in zip(items, res.get("results", [])):
        if "X" in r:
            out.append({"X": r["X"], "kind": "eating_output", "exact": False})
    return out


def run(R):
    R.rule = ("non-negative square matrices with equal row/column sums, n<=7: convex/conic combinations of random permutation matrices with dyadic "
              "(exact in floats), uniform 1/k, generic float and integer weights, scaled by up to 1e4; outputs of probabilistic serial / simultaneous "
              "eating. The implementation's own permutations are replayed through the exact Lean loop (equality demanded on dyadic inputs). "
              "Non-trivial = decomposition with >= 2 terms.")
    R.assumptions = ["row sums <= 1e4 (the code's absolute 1e-9 stop test is below float resolution beyond ~1e6: documented, not generated)",
                     "on non-dyadic inputs float residue is judged by the property's own 1e-6 tolerances"]
    items = []
    cnt = 5000 if R.thorough else 450
    for t in range(cnt):
        n = R.rng.randint(1, 7 if R.thorough else 6)
        X, kind, exact = gen(R, n)
        it = {"X": [[fr(x) for x in row] for row in X], "kind": kind, "exact": exact}
        if all(x.denominator == 1 for row in X for x in row) and R.rng.random() < 0.7:
            mx = max([x for row in X for x in row] + [Fraction(0)])
            it["dtype"] = "bool" if mx <= 1 and R.rng.random() < 0.4 else R.rng.choice(["int64", "int32"] + (["int8", "uint8"] if mx <= 100 else []))
            R.count("integer_matrix_storage:" + it["dtype"])
        if "dtype" not in it and R.rng.random() < 0.25:
            it["subclass"] = True
        items.append(it)
    items += eating_outputs(R, 600 if R.thorough else 60)
    run_items(R, items)


def replay(R, rep):
    inp = rep["input"]
    X = inp["X"]
    exact = all(Fraction(x).denominator in (1, 2, 4, 8, 16, 32, 64, 128) for row in X for x in row)
    run_items(R, [{"X": X, "kind": inp.get("kind", "replay"), "exact": exact, "dtype": inp.get("dtype")}])
