#!/usr/bin/env python3
"""prints the markdown table of DESIGN.md section 12 from seeded/*/meta.json"""
import json, os, glob
VERIF = os.path.dirname(os.path.dirname(os.path.abspath(__file__)))
FIRST_ROUND_MISSES = {
 "C04-1": "missed (quick and thorough): no sparse-but-feasible NaN patterns with wide values -> generator kind `sparse_feasible_wide`",
 "C05-3": "missed: every call used a fresh rule object -> rule objects are now reused within a batch, 30% of cases preceded by a call with other speeds",
 "C06-1": "missed: non-dyadic inputs were never scaled above row sum 1 -> kinds `scaled_generic`, `scaled_uniform`",
 "C11-2": "missed: electorates stopped at 40 voters -> n in {65, 97, 130} added (also C12)",
 "C13-1": "caught by thorough only -> more profiles with m >= 4 and ties in quick",
 "C13-3": "harness crashed (exit 2) on an output of unexpected length -> `safe_judge`: uninterpretable outputs are broken correspondences",
 "C14-3": "missed: C14's check did not run the two-sided rule (only C17's did) -> two-sided rule added to C14 with lambda_1 != lambda_2",
 "C15-1": "missed: no NaN answers in the elicitor op sequences -> NaN answers (carried as a sentinel through the value-agnostic model)",
 "C15-2": "missed: `elicit_multiple` was never called directly with an in-batch duplicate -> batches added to the op sequences",
 "C16-1": "missed: only float elicitors -> integer valuations are now answered through IntegerLambdaElicitor; C14's correspondence runs inside C16",
 "C16-2": "missed: the bound itself needs an adversarial family (n >= 7, lambda >= 5) -> caught through the hypothesis of the theorem (simulated values = `simulate`), now checked inside C16",
 "C16-3": "missed: fresh rule object per election -> rule objects reused across elections with different m",
 "C17-3": "missed: ranks were always stored as int64 -> 40% of cases store ranks as float64 (also C03)",
 "C18-2": "missed: generator seeds never included 0 -> seeds drawn from {0, 1, random}",
}
SECOND_ROUND_MISSES = {
 "C01-6": "missed: profile VIEW objects were recreated per call -> view objects persist across calls and are refilled in place (`common.persist`, `gslib` views)",
 "C02-5": "missed: arguments were refilled before every call -> 30% of calls are preceded by a call in the other orientation on the very same argument objects",
 "C02-6": "missed: capacities started at 1 -> 8% of the brute-force instances have a hospital without seats (model and code agree there; outside C01's and the theorems' positive-capacity domain, compared anyway)",
 "C03-4": "missed (the flow change is caught by C08's own check): random marriage instances almost never produce N-shaped rotation posets -> the closed-subset stage is driven directly on random posets (`irv_closedsub` op, brute-force optimum over all closed subsets)",
 "C03-5": "caught by thorough only -> stage-wise mirror comparison (rotations, poset, closed subset) also in the quick tier for n <= 8, 450 random instances",
 "C04-6": "missed (quick and thorough): utilities were all of magnitude ~1 and the tolerance had an absolute floor -> 20% of matrices rescaled (2^-70 .. 1e9), tolerance relative to the largest utility",
 "C07-5": "missed: a fresh rule object per lottery -> rule objects live for the whole worker batch, 40% of lotteries preceded by a draw for the same profile at other speeds",
 "C07-6": "caught by thorough only -> 400 eating lotteries (n <= 6) in the quick tier instead of 110 (n <= 5)",
 "C10-4": "missed: ranks were always int64 -> the storage type of the ranks is chosen from the content (int64 / int32 / int16 / int8 / float64)",
 "C10-6": "missed: a fresh rule object per election -> one rule object per configuration for the life of the worker process, used on elections of different sizes",
 "C11-4": "missed: m stopped at 8 -> elections with m in {25, 30, 40} and n in {50, 75, 120} (also C12)",
 "C11-6": "caught by thorough only -> persistent profile objects refilled in place + persistent rule objects (`common.persist`)",
 "C13-4": "missed: as C11-6; same-shaped elections are now adjacent in a batch so that the persistent objects are refilled between consecutive calls",
 "C13-6": "missed: the eating lottery was run on complete profiles only -> incomplete square profiles in both index conventions",
 "C16-6": "missed: valuations were always float64 -> the distortion helper is also called on integer valuations stored as int8 / uint8 / int16 / int32 / int64 (values up to 120, so column sums exceed the storage type)",
 "C20-4": "missed: random serial dictatorship was only run on square profiles -> rectangular complete profiles (more agents than items and vice versa); arrays that are NOT valid profiles must be rejected alike in every storage type",
}
THIRD_ROUND_MISSES = {
 "C02-9": "caught by thorough only: a memo keyed on the profiles but not the capacities -> the same rule object is first asked about the same profiles with other capacities (25% of calls)",
 "C09-8": "missed: the matching routine always got fresh list / dict objects -> a third of the graphs hand the very same argument objects over twice",
 "C10-7": "caught by thorough only -> elections with a single alternative (m = 1) in the quick tier (also C11, C13)",
 "C11-8": "missed: utilitarian scores were only compared between the original and the transformed run -> also against the exact share (relative 1e-9)",
 "C13-9": "missed: utilitarian valuations never had two nearly tied leaders in C13 -> 30% of the elections get a separate near-tie valuation matrix (relative 1e-6 .. 1e-8)",
 "C16-9": "missed: the bound itself needs an adversarial family -> the hypothesis of C16_tsf (the allocation maximises the SIMULATED weight) is now checked on the real code against the model's optAssign",
 "C18-7": "missed: valuations were all of one magnitude -> 30% of the strict valuation rows have a wide dynamic range (order 1 next to 1e-17)",
 "C05-7": "missed: speed ratios were 'round' -> 15% of the speed vectors are nearly equal (relative 1e-5 .. 1e-7)",
 "C05-8": "missed: speeds were always a float array -> integer speed vectors (up to 120) stored as int8 / int16 / int32 / int64 arrays",
 "C06-7": "missed: the zero matrix (common sum 0) was never generated -> kind `zero`",
 "C06-8": "missed: weights of one matching were never nearly equal -> kind `near_equal` (relative 1e-5 .. 1e-7)",
 "C06-9": "missed: matrices were always float64 -> integer-valued matrices stored as int8 / uint8 / int32 / int64 / bool arrays",
 "C08-7": "caught by thorough only -> structured family `maxsize_backflow` (more than sys.maxsize units have to be pushed back along an edge) in the quick tier",
 "C20-8": "missed: electorates were tiny -> 15% of the bundles add a nearly tied electorate of 100 001 .. 200 003 voters for the scoring rules and Copeland",
}
FOURTH_ROUND_MISSES = {
 "C02-10": "caught by thorough only: `resident_oriented is True` fails for a numpy bool -> in the worker processes every third construction of a library object per class (starting with the first) gets its bool arguments as numpy.bool_ (`install_flag_variation`)",
 "C03-10": "missed: valuations were small -> kind `omit_huge`: distinct int64 valuations beyond 2^53 with the ordinal profiles omitted",
 "C03-12": "missed: ordinal profiles were always fresh `of` objects -> 40% of the Irving calls pass profiles obtained by INDEXING a profile (fancy index / slice), which must still be profiles",
 "C12-11": "caught at ingestion, later seed-dependent -> same-shaped elections adjacent in C10-C12 as well, so that persistent profile objects are refilled between consecutive calls",
 "C04-11": "missed: as C02-10 (numpy-bool `zero_indexed`)",
 "C04-12": "missed: utilities were always a float array -> integer utilities without NaN stored as int64 / int32 / uint8 / uint16 / int8",
 "C06-10": "missed: no entries just above the routine's own 1e-9 stop threshold -> kind `tiny_scaled` (dyadic weights in units of 2^-27 .. 2^-25)",
 "C06-11": "not a C06 violation (the returned decomposition is right; the caller's matrix is overwritten when it is an ndarray subclass): caught by C20's check after the routine was added there with a valuation-profile view and a Fortran-ordered array as arguments",
 "C08-10": "missed: capacities were Python ints -> family `int32_large` (capacities of the order 1e9 as numpy int32 scalars, no opposite pairs, where the clean code is exact)",
 "C08-11": "missed: as C08-10 -> a quarter of the small-capacity networks have numpy integer labels and capacities",
 "C08-12": "missed: networks were plain dicts with every vertex as a key -> a quarter are `collections.defaultdict(list)` without keys for vertices that have no outgoing edge",
 "C11-11": "missed: C11 only used the pre-populated (zero-indexed) elicitor -> every other election is answered through a ONE-indexed callback elicitor",
 "C12-10": "missed: m stopped at 40 -> two elections per run with 257 / 300 alternatives (more than a byte counts)",
 "C13-10": "missed: the randomized rules' scores were only compared with the intercepted probabilities -> also with the textbook scores of the profile at hand",
 "C13-12": "missed: matching / allocation instances started at n = 2 -> n = 1 included",
 "C15-12": "missed: a fresh elicitor per run -> the two-sided rule is run twice on the same elicitor objects (a lambda sweep) and the counter must equal the number of forwarded questions afterwards",
 "C16-12": "missed: the smallest valuation unit was 1e-10 -> 1e-13 and 1e-15 as well",
 "C17-11": "missed: C17 did not drive the closed-subset stage directly -> `c03.run_closed` on random rotation posets inside C17's check",
 "C18-11": "missed: seeds were Python ints -> odd seeds arrive as numpy integers",
 "C19-12": "missed: every generated file carried a `# NUMBER VOTERS` line -> 15% of the files omit that (redundant) line",
 "C20-10": "missed: break_tie was only called with a sorted array and 'random' -> also 'first' / 'accept' on an unsorted array",
 "C20-11": "missed: positivity_graph was only called on exact matrices -> also on a matrix with 1e-17 residues and a negative zero",
}
SIXTH_ROUND_MISSES = {
 "C06-16": "missed: no matrix had entries below the routine's own 1e-9 threshold next to large ones -> `light_overlap`: heavy dyadic permutations plus two or three permutations of weight 2^-30 that share cells (the shared cells reach 1e-9, the others do not)",
 "C18-17": "missed: the closest distinct valuations differed by 1e-17 absolutely next to large ones, never by a few ulps relatively -> rows of neighbouring doubles (1 .. 2^22 ulps apart) and of integers above 2^24 that differ by one, ascending with the column half of the time",
 "C06-17": "missed: scaled matrices had no light component -> `scaled_light`: row sum 4096..8192 carried by heavy permutations plus permutations of weight 2^-18 / 2^-17 (above 1e-6, below any threshold relative to the row sum)",
 "C13-17": "missed: voting rules were run on at most 8 alternatives in this check -> every tenth election has 33..48 alternatives and 2..4 voters (several alternatives tied at the top)",
}
FIFTH_ROUND_MISSES = {
 "C01-13": "missed: the largest market had 170 residents -> one market with 258..400 residents per batch in which nearly everybody applies to the same small hospital first (`popular_market`)",
 "C02-13": "missed: capacities were small -> 5-8% of the instances give one hospital the capacity sys.maxsize ('unlimited'), stored as int64 / uint64",
 "C02-14": "missed: no run needed many rounds -> one instance per orientation that needs more than ten thousand rounds (one hospital / one resident, a single acceptable pair at the end of a list of 10500..12500); beyond the compiled model's practical size, so judged by the direct oracles only (counted separately in the evidence)",
 "C03-14": "missed: valuations were small or, when huge, came with the ordinal profiles omitted -> kind `huge` (amounts up to 2e9 / 1e10, agreeing or free) on a quarter of the instances, a third of them with opposed interests (many rotations)",
 "C04-14": "missed: integer utilities were at most 250 -> kind `large_integers_close_together` (2^24 .. 2^45 plus 0..6)",
 "C04-15": "missed: the buffer was reused but wrapped in a fresh profile object -> the very same profile object is revised in place and passed again",
 "C05-13": "missed: C05 always built the rules with zero_indexed=False -> 40% with zero_indexed=True (the bistochastic outcome must not depend on it)",
 "C07-14": "caught by thorough only: eating was drawn for at most 6 agents in quick -> every fourth eating item has 7 or 8 agents",
 "C09-13": "caught by thorough only (about 1 in 5000 graphs of the old mix) -> volume stage: 48000 sparse near-square graphs with 5..12 vertices a side, pre-filtered in the workers by the independent Kuhn matcher; suspects join the judged set",
 "C09-14": "missed: both sides were never empty -> 2% of the graphs have an empty side",
 "C13-13": "missed: k never exceeded m -> k-approval gets its own k, sometimes m+1 / m+2",
 "C15-13": "missed: runs asked at most a few hundred distinct questions -> long runs (34 x 34 = 1156 distinct questions) with memoisation forced",
 "C15-14": "missed: integer answers stayed below 2^53 -> an IntegerLambdaElicitor answering beyond 2^53",
 "C15-15": "missed: the valuation table behind a ValuationProfileElicitor was never edited between questions -> `table` items edit it in place",
 "C17-13": "missed by C17's check, caught by C03's on one seed of two: uniformly random profiles have one or two rotations -> instances with opposed interests (about n rotations, dense posets) in C03 and C17, and C17 now runs the stage-by-stage comparison of Irving's internals with the Lean mirror on the simulated values (a broken correspondence; with the demonstration instances in the corpus the replay is a concrete unstable output)",
 "C17-14": "missed: valuations were at most 60 -> kind `huge` (values up to 2e9, one side possibly indifferent)",
 "C19-13": "missed: every categorical ballot listed something -> ballots with nothing but empty categories (as long as some other ballot lists an alternative: an election without any rank has no profile in this library)",
 "C19-14": "missed: at most 9 alternatives -> one instance in a hundred has 255..300",
 "C19-15": "missed: every instance was parsed and converted once -> a quarter are converted, extended through preflibtools (same object) and converted again; the second result is judged as the conversion of the merged instance",
 "C20-14": "missed: the decomposition was only given exact matrices -> also a matrix with an entry below every tolerance and a negative zero",
 "C20-15": "missed: vertex lists were increasing -> also decreasing lists (the lists belong to the graph argument)",
}
rows = []
for d in sorted(glob.glob(os.path.join(VERIF, "seeded", "C*-*"))):
    m = json.load(open(os.path.join(d, "meta.json")))
    mid = os.path.basename(d)
    p = m["property"]
    q = m["caught_by_quick"].get(p)
    a = m["caught_by_any_tier"].get(p)
    now = "quick" if q else ("thorough" if a else "MISSED")
    others = [pp for pp, v in m["caught_by_quick"].items() if v and pp != p]
    if not q and others:
        now = "quick check of " + ", ".join(others) + " (not a violation of " + p + ")"
    summ = (m.get("summary") or "").replace("|", "/").replace("\n", " ")
    if len(summ) > 230:
        summ = summ[:227] + "..."
    needs = (m.get("needs") or "").replace("|", "/").replace("\n", " ")
    if len(needs) > 160:
        needs = needs[:157] + "..."
    if m.get("round", 1) >= 2:
        fe = m.get("first_evaluation") or {}
        fq = (fe.get("caught_by_quick") or m["caught_by_quick"]).get(p)
        fa = (fe.get("caught_by_any_tier") or m["caught_by_any_tier"]).get(p)
        first = SECOND_ROUND_MISSES.get(mid) or THIRD_ROUND_MISSES.get(mid) or FOURTH_ROUND_MISSES.get(mid) or FIFTH_ROUND_MISSES.get(mid) or SIXTH_ROUND_MISSES.get(mid) or ("caught by quick" if fq else ("caught by thorough only" if fa else "missed"))
    else:
        first = FIRST_ROUND_MISSES.get(mid, "caught by quick")
    rows.append(f"| {mid} | {m.get('round', 1)} | {summ} | {needs} | {now} | {first} |")
print("| id | round | change | needs | caught now by | when first evaluated |")
print("|---|---|---|---|---|---|")
print("\n".join(rows))
