#!/usr/bin/env python3
"""prints the markdown table of DESIGN.md section 12 from seeded/*/meta.json"""
import json, os, glob
VERIF = os.path.dirname(os.path.dirname(os.path.abspath(__file__)))
FIRST_ROUND_MISSES = {
 "C04-1": "missed (quick and thorough): no sparse-but-feasible NaN patterns with wide values -> generator kind `sparse_feasible_wide`",
 "C05-3": "missed: every call used a fresh rule object -> rule objects are now reused within a batch, 30% of cases preceded by a call with other speeds",
 "C06-1": "missed: non-dyadic inputs were never scaled above row sum 1 -> kinds `scaled_generic`, `scaled_uniform`",
 "C11-2": "missed: electorates stopped at 40 voters -> n in {65, 97, 130} added (also C12)",
 "C13-1": "caught by thorough only -> more profiles with m >= 4 and ties in quick",
 "C13-3": "harness crashed (exit 2) on an output of unexpected length -> `safe_judge`: uninterpretable outputs are broken correspondences",
 "C14-3": "missed: C14's check did not run the two-sided rule (only C17's did) -> two-sided rule added to C14 with lambda_1 != lambda_2",
 "C15-1": "missed: no NaN answers in the elicitor op sequences -> NaN answers (carried as a sentinel through the value-agnostic model)",
 "C15-2": "missed: `elicit_multiple` was never called directly with an in-batch duplicate -> batches added to the op sequences",
 "C16-1": "missed: only float elicitors -> integer valuations are now answered through IntegerLambdaElicitor; C14's correspondence runs inside C16",
 "C16-2": "missed: the bound itself needs an adversarial family (n >= 7, lambda >= 5) -> caught through the hypothesis of the theorem (simulated values = `simulate`), now checked inside C16",
 "C16-3": "missed: fresh rule object per election -> rule objects reused across elections with different m",
 "C17-3": "missed: ranks were always stored as int64 -> 40% of cases store ranks as float64 (also C03)",
 "C18-2": "missed: generator seeds never included 0 -> seeds drawn from {0, 1, random}",
}
rows = []
for d in sorted(glob.glob(os.path.join(VERIF, "seeded", "C*-*"))):
    m = json.load(open(os.path.join(d, "meta.json")))
    mid = os.path.basename(d)
    p = m["property"]
    q = m["caught_by_quick"].get(p)
    a = m["caught_by_any_tier"].get(p)
    now = "quick" if q else ("thorough" if a else "MISSED")
    summ = (m.get("summary") or "").replace("|", "/").replace("\n", " ")
    if len(summ) > 230:
        summ = summ[:227] + "..."
    needs = (m.get("needs") or "").replace("|", "/").replace("\n", " ")
    if len(needs) > 160:
        needs = needs[:157] + "..."
    rows.append(f"| {mid} | {summ} | {needs} | {now} | {FIRST_ROUND_MISSES.get(mid, 'caught by quick')} |")
print("| id | change | needs | caught now by | first round |")
print("|---|---|---|---|---|")
print("\n".join(rows))
