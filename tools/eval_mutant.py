#!/usr/bin/env python3
"""Evaluate one seeded change against the checks.

usage: tools/eval_mutant.py <mutant_dir> [--props C01,C02] [--thorough] [--seeds 0,1] [--scratch]

With --scratch nothing touches /repo: a scratch git worktree of /repo's HEAD is created under /tmp/evalmut, the patch is applied
there, the checks run against it (VERIF_REPO) with their evidence and scratch output redirected (VERIF_EVIDENCE_DIR,
VERIF_OUT_DIR), and the worktree is removed afterwards; several evaluations can then run side by side.

<mutant_dir> holds patch.diff, demo.py, meta.json. Steps (all against /repo itself, restored afterwards):
  1. /repo must be clean; demo.py passes (exit 0) on the clean tree;
  2. `git -C /repo apply patch.diff`; the unedited unit suite still shows 82 passed; demo.py fails (exit != 0);
  3. the property's quick check (every given seed), and the thorough check if asked / if quick misses;
  4. `git -C /repo checkout -- .` (always, also on errors).
Prints one JSON summary line."""
import json, os, subprocess, sys, re, time

REPO = "/repo"
VERIF = os.path.dirname(os.path.dirname(os.path.abspath(__file__)))
PY = "/venv/bin/python"


def sh(cmd, cwd=None, env=None, timeout=3600):
    p = subprocess.run(cmd, cwd=cwd, env=env, capture_output=True, text=True, timeout=timeout)
    return p.returncode, p.stdout + p.stderr


def main():
    args = sys.argv[1:]
    d = os.path.abspath(args[0])
    props = None
    thorough = "--thorough" in args
    seeds = ["0"]
    for i, a in enumerate(args):
        if a == "--props":
            props = args[i + 1].split(",")
        if a == "--seeds":
            seeds = args[i + 1].split(",")
    scratch = "--scratch" in args
    global REPO
    wt = None
    if scratch:
        wt = os.path.join("/tmp/evalmut", os.path.basename(d.rstrip("/")) + "-" + str(os.getpid()))
        os.makedirs("/tmp/evalmut", exist_ok=True)
        rc, txt = sh(["git", "-C", "/repo", "worktree", "add", "--detach", wt, "HEAD"])
        if rc != 0:
            print(json.dumps({"error": "cannot create scratch worktree: " + txt[-300:]}))
            return 2
        REPO = wt
    meta = json.load(open(os.path.join(d, "meta.json"))) if os.path.exists(os.path.join(d, "meta.json")) else {}
    if props is None:
        props = [meta.get("property", "C01")]
    out = {"mutant": d, "props": props}
    rc, txt = sh(["git", "-C", REPO, "status", "--porcelain"])
    if txt.strip() and not scratch:
        print(json.dumps({"error": "/repo is not clean", "status": txt}))
        return 2
    env = dict(os.environ, PYTHONPATH=REPO)

    def cenv(seed):
        e = dict(os.environ, VERIF_SEED=seed)
        if scratch:
            e.update(VERIF_REPO=wt, VERIF_EVIDENCE_DIR=os.path.join(wt, ".verif-evidence"), VERIF_OUT_DIR=os.path.join(wt, ".verif-out"))
        return e
    demo = os.path.join(d, "demo.py")
    rc, txt = sh([PY, demo], cwd="/tmp", env=env, timeout=300)
    out["demo_clean_rc"] = rc
    try:
        rc, txt = sh(["git", "-C", REPO, "apply", os.path.join(d, "patch.diff")])
        if rc != 0:
            out["error"] = "patch does not apply: " + txt[-300:]
            print(json.dumps(out))
            return 2
        rc, txt = sh([PY, "-m", "pytest", "-q", "-p", "no:cacheprovider", "--timeout=900", "tests/unit"], cwd=REPO, env=env, timeout=1200)
        m = re.search(r"(\d+) passed", txt)
        out["suite_passed"] = int(m.group(1)) if m else 0
        mf = re.search(r"(\d+) failed", txt)
        out["suite_failed"] = int(mf.group(1)) if mf else 0
        rc, txt = sh([PY, demo], cwd="/tmp", env=env, timeout=300)
        out["demo_patched_rc"] = rc
        out["demo_patched_tail"] = txt[-300:]
        out["checks"] = {}
        for p in props:
            res = []
            for s in seeds:
                t0 = time.time()
                rc, txt = sh([os.path.join(VERIF, "check"), p, "--tier", "quick"], cwd=VERIF, env=cenv(s), timeout=3600)
                res.append({"tier": "quick", "seed": s, "rc": rc, "wall": round(time.time() - t0, 1),
                            "lines": [l for l in txt.split("\n") if l.startswith("VIOLATION") or l.startswith("KNOWN") or "INFRA" in l][:4]})
            caught = any(r["rc"] == 1 for r in res)
            if thorough or not caught:
                t0 = time.time()
                rc, txt = sh([os.path.join(VERIF, "check"), p, "--tier", "thorough"], cwd=VERIF, env=cenv(seeds[0]), timeout=7200)
                res.append({"tier": "thorough", "seed": seeds[0], "rc": rc, "wall": round(time.time() - t0, 1),
                            "lines": [l for l in txt.split("\n") if l.startswith("VIOLATION") or l.startswith("KNOWN") or "INFRA" in l][:4]})
            out["checks"][p] = res
    finally:
        if scratch:
            sh(["git", "-C", "/repo", "worktree", "remove", "--force", wt])
            out["repo_clean_after"] = not os.path.exists(wt)
        else:
            sh(["git", "-C", REPO, "checkout", "--", "."])
            rc, txt = sh(["git", "-C", REPO, "status", "--porcelain"])
            out["repo_clean_after"] = (txt.strip() == "")
    out["valid_mutant"] = out.get("demo_clean_rc") == 0 and out.get("demo_patched_rc", 0) != 0 and out.get("suite_passed", 0) >= 82 and out.get("suite_failed", 1) == 0
    out["caught_quick"] = {p: any(r["rc"] == 1 and r["tier"] == "quick" for r in rs) for p, rs in out.get("checks", {}).items()}
    out["caught_any"] = {p: any(r["rc"] == 1 for r in rs) for p, rs in out.get("checks", {}).items()}
    print(json.dumps(out))
    return 0


if __name__ == "__main__":
    sys.exit(main())
