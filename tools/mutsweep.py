#!/usr/bin/env python3
"""Mechanical mutation sweep: which small changes of socialchoicekit survive BOTH the unit suite and the checks?

Complements the hand-written seeded changes (seeded/): first-order syntactic mutants of the library are generated from the
AST (comparison / arithmetic / boolean operator swaps, small-constant shifts, min<->max & friends, negated conditions,
dropped `continue`/`break`, deleted update statements, slice-bound shifts).  Each mutant is written into its own scratch copy
of the package (never into /repo), the unit suite is run on it, and when the suite still passes the quick checks of the
properties anchored in the mutated file are run against the copy (VERIF_REPO).  A mutant that passes the suite and every check
is a *survivor*: either an equivalent mutant (behaviour unchanged, or changed only outside every property) or a blind spot of a
generator.  Survivors are listed for manual triage; the sweep itself is never part of a verdict.

usage: tools/mutsweep.py --out DIR [--files a.py,b.py] [--max N] [--seed S] [--jobs J] [--props C01,C02] [--list]
"""
import ast, os, sys, json, random, shutil, subprocess, argparse, copy, time, hashlib
from concurrent.futures import ThreadPoolExecutor

VERIF = os.path.dirname(os.path.dirname(os.path.abspath(__file__)))
REPO = "/repo"
PY = "/venv/bin/python"

CMP = {ast.Lt: ast.LtE, ast.LtE: ast.Lt, ast.Gt: ast.GtE, ast.GtE: ast.Gt, ast.Eq: ast.NotEq, ast.NotEq: ast.Eq,
       ast.Is: ast.IsNot, ast.IsNot: ast.Is, ast.In: ast.NotIn, ast.NotIn: ast.In}
CMP2 = {ast.Lt: ast.Gt, ast.Gt: ast.Lt, ast.LtE: ast.GtE, ast.GtE: ast.LtE}
BIN = {ast.Add: ast.Sub, ast.Sub: ast.Add, ast.Mult: ast.Div, ast.Div: ast.Mult, ast.FloorDiv: ast.Div, ast.Pow: ast.Mult}
NAMES = {"min": "max", "max": "min", "argmin": "argmax", "argmax": "argmin", "nanargmin": "nanargmax",
         "nanargmax": "nanargmin", "any": "all", "all": "any", "nanmax": "nanmin", "nanmin": "nanmax", "nansum": "sum",
         "floor": "ceil", "ceil": "floor", "heappush": "heappush", "isnan": "isfinite", "argsort": "argsort",
         "zeros": "ones", "ones": "zeros", "sign": "abs", "amax": "amin", "amin": "amax"}


def prop_files():
    m = {}
    for l in open(os.path.join(VERIF, "properties.jsonl")):
        d = json.loads(l)
        for f in d["anchors"]["files"]:
            m.setdefault(os.path.basename(f), []).append(d["id"])
    return m


class Site:
    def __init__(self, path, kind, desc):
        self.path, self.kind, self.desc = path, kind, desc


def enumerate_mutants(src):
    """yield (description, lineno, mutated_source) for every first-order mutant of `src`"""
    tree = ast.parse(src)
    # index nodes in a deterministic walk; each mutant re-parses, finds the node by index and rewrites it
    nodes = list(ast.walk(tree))
    docstrings = set()
    for n in nodes:
        if isinstance(n, (ast.FunctionDef, ast.ClassDef, ast.Module)) and n.body and isinstance(n.body[0], ast.Expr) \
                and isinstance(getattr(n.body[0], "value", None), ast.Constant) and isinstance(n.body[0].value.value, str):
            docstrings.add(id(n.body[0].value))
    plans = []   # (index, kind, variant)
    for i, n in enumerate(nodes):
        ln = getattr(n, "lineno", 0)
        if isinstance(n, ast.Compare):
            for k, op in enumerate(n.ops):
                if type(op) in CMP:
                    plans.append((i, "cmp", (k, CMP[type(op)]), ln))
                if type(op) in CMP2:
                    plans.append((i, "cmp", (k, CMP2[type(op)]), ln))
        elif isinstance(n, ast.BinOp) and type(n.op) in BIN:
            plans.append((i, "bin", BIN[type(n.op)], ln))
        elif isinstance(n, ast.AugAssign) and type(n.op) in BIN:
            plans.append((i, "aug", BIN[type(n.op)], ln))
            plans.append((i, "delstmt", None, ln))
        elif isinstance(n, ast.BoolOp):
            plans.append((i, "bool", ast.Or if isinstance(n.op, ast.And) else ast.And, ln))
        elif isinstance(n, ast.UnaryOp) and isinstance(n.op, (ast.Not, ast.USub)):
            plans.append((i, "unary", None, ln))
        elif isinstance(n, ast.Constant) and id(n) not in docstrings:
            v = n.value
            if isinstance(v, bool):
                plans.append((i, "const", not v, ln))
            elif isinstance(v, int) and abs(v) <= 3:
                plans.append((i, "const", v + 1, ln))
                plans.append((i, "const", v - 1, ln))
            elif isinstance(v, float):
                plans.append((i, "const", v * 1000.0 if v != 0 else 1.0, ln))
                plans.append((i, "const", v / 1000.0, ln))
        elif isinstance(n, (ast.Continue, ast.Break)):
            plans.append((i, "pass", None, ln))
        elif isinstance(n, ast.Name) and n.id in NAMES and NAMES[n.id] != n.id:
            plans.append((i, "name", NAMES[n.id], ln))
        elif isinstance(n, ast.Attribute) and n.attr in NAMES and NAMES[n.attr] != n.attr:
            plans.append((i, "attr", NAMES[n.attr], ln))
        elif isinstance(n, (ast.If, ast.While)):
            plans.append((i, "negcond", None, ln))
        elif isinstance(n, ast.Slice):
            if n.lower is not None and not isinstance(n.lower, ast.Constant):
                plans.append((i, "slice", ("lower", 1), ln))
            if n.upper is not None and not isinstance(n.upper, ast.Constant):
                plans.append((i, "slice", ("upper", 1), ln))
                plans.append((i, "slice", ("upper", -1), ln))
        elif isinstance(n, ast.Expr) and isinstance(n.value, ast.Call) and id(n.value) not in docstrings:
            plans.append((i, "delstmt", None, ln))
        elif isinstance(n, ast.Assign) and len(n.targets) == 1 and isinstance(n.targets[0], ast.Subscript):
            plans.append((i, "delstmt", None, ln))
    for (i, kind, var, ln) in plans:
        t = ast.parse(src)
        ns = list(ast.walk(t))
        n = ns[i]
        desc = kind
        try:
            if kind == "cmp":
                k, new = var
                desc = f"cmp {type(n.ops[k]).__name__}->{new.__name__}"
                n.ops[k] = new()
            elif kind in ("bin", "aug"):
                desc = f"{kind} {type(n.op).__name__}->{var.__name__}"
                n.op = var()
            elif kind == "bool":
                desc = f"bool {type(n.op).__name__}->{var.__name__}"
                n.op = var()
            elif kind == "unary":
                desc = f"drop {type(n.op).__name__}"
                _replace(t, n, n.operand)
            elif kind == "const":
                desc = f"const {n.value!r}->{var!r}"
                n.value = var
            elif kind == "pass":
                desc = f"{type(n).__name__}->pass"
                _replace(t, n, ast.Pass())
            elif kind == "name":
                desc = f"name {n.id}->{var}"
                n.id = var
            elif kind == "attr":
                desc = f"attr {n.attr}->{var}"
                n.attr = var
            elif kind == "negcond":
                desc = f"negate {type(n).__name__} condition"
                n.test = ast.UnaryOp(op=ast.Not(), operand=n.test)
            elif kind == "slice":
                which, d = var
                desc = f"slice {which}{d:+d}"
                old = getattr(n, which)
                setattr(n, which, ast.BinOp(left=old, op=ast.Add() if d > 0 else ast.Sub(), right=ast.Constant(value=abs(d))))
            elif kind == "delstmt":
                desc = f"delete {type(n).__name__} statement"
                _replace(t, n, ast.Pass())
            ast.fix_missing_locations(t)
            out = ast.unparse(t)
        except Exception:
            continue
        yield desc, ln, out


def _replace(tree, old, new):
    for parent in ast.walk(tree):
        for field, val in ast.iter_fields(parent):
            if val is old:
                setattr(parent, field, new)
                return
            if isinstance(val, list):
                for j, x in enumerate(val):
                    if x is old:
                        val[j] = new
                        return
    raise ValueError("node not found")


def sh(cmd, cwd=None, env=None, timeout=600):
    try:
        p = subprocess.run(cmd, cwd=cwd, env=env, capture_output=True, text=True, timeout=timeout)
        return p.returncode, p.stdout + p.stderr
    except subprocess.TimeoutExpired:
        return 124, "timeout"


def evaluate(mut, slot_dirs, args, pf):
    import re, queue
    slot = slot_dirs.get()
    t0 = time.time()
    res = dict(id=mut["id"], file=mut["file"], line=mut["line"], desc=mut["desc"])
    scratch = os.path.join(args.out, "scratch", mut["id"])
    try:
        os.makedirs(scratch, exist_ok=True)
        shutil.copytree(os.path.join(args.base, "socialchoicekit"), os.path.join(scratch, "socialchoicekit"))
        shutil.copytree(os.path.join(args.base, "tests"), os.path.join(scratch, "tests"))
        open(os.path.join(scratch, "socialchoicekit", mut["file"]), "w").write(mut["src"])
        env = dict(os.environ, PYTHONPATH=scratch, PYTHONDONTWRITEBYTECODE="1")
        rc, txt = sh([PY, "-m", "pytest", "-q", "-p", "no:cacheprovider", "--timeout=60", "tests/unit"], cwd=scratch, env=env, timeout=600)
        m = re.search(r"(\d+) passed", txt)
        failed = re.search(r"(\d+) failed", txt)
        res["suite_passed"] = int(m.group(1)) if m else 0
        if rc == 124 or failed or res["suite_passed"] < args.min_passed:
            res["status"] = "killed_by_suite"
            return res
        props = args.props.split(",") if args.props else pf.get(mut["file"], [])
        props = [p for p in props if p not in mut.get("skip_props", [])]
        res["checks"] = {}
        res["status"] = "survived"
        for p in props:
            cenv = dict(os.environ, VERIF_REPO=scratch, VERIF_SEED=str(args.check_seed), VERIF_WORKERS=str(args.workers),
                        VERIF_OUT_DIR=os.path.join(slot, "out"), VERIF_EVIDENCE_DIR=os.path.join(slot, "evidence"),
                        PYTHONDONTWRITEBYTECODE="1")
            rc, txt = sh([os.path.join(VERIF, "check"), p, "--tier", "quick"], cwd=VERIF, env=cenv, timeout=1800)
            res["checks"][p] = rc
            if rc == 1:
                res["status"] = "caught"
                res["caught_by"] = p
                res["line_out"] = [l for l in txt.split("\n") if l.startswith("VIOLATION")][:1]
                break
            if rc not in (0, 1):
                res["status"] = "infra"
                res["infra_tail"] = txt[-600:]
                break
        return res
    except Exception as e:  # noqa
        res["status"] = "sweep_error"
        res["error"] = repr(e)
        return res
    finally:
        res["wall"] = round(time.time() - t0, 1)
        if res.get("status") in ("survived", "infra"):
            import difflib
            base = ast.unparse(ast.parse(open(os.path.join(args.base, "socialchoicekit", mut["file"])).read()))
            res["diff"] = "\n".join(l for l in difflib.unified_diff(base.split("\n"), mut["src"].split("\n"), lineterm="", n=2))[:1500]
        shutil.rmtree(scratch, ignore_errors=True)
        slot_dirs.put(slot)


def main():
    ap = argparse.ArgumentParser()
    ap.add_argument("--out", required=True)
    ap.add_argument("--files", default="")
    ap.add_argument("--max", type=int, default=200)
    ap.add_argument("--seed", type=int, default=0)
    ap.add_argument("--jobs", type=int, default=4)
    ap.add_argument("--workers", type=int, default=4)
    ap.add_argument("--props", default="")
    ap.add_argument("--check-seed", type=int, default=0)
    ap.add_argument("--min-passed", type=int, default=82 - 0)
    ap.add_argument("--list", action="store_true")
    ap.add_argument("--retest", action="store_true", help="third pass: run the survivors of results.jsonl (other than weakened validators and changed "
                    "defaults) once more against the SAME properties with the current harness (results3.jsonl)")
    ap.add_argument("--recheck", action="store_true", help="second pass: run the survivors of results.jsonl against ALL properties (results2.jsonl)")
    args = ap.parse_args()
    args.out = os.path.abspath(args.out)
    os.makedirs(args.out, exist_ok=True)
    pf = prop_files()
    # a private snapshot of the package: /repo may be patched by other evaluations while the sweep runs
    args.base = os.path.join(args.out, "base")
    if not os.path.exists(args.base):
        os.makedirs(args.base)
        shutil.copytree(os.path.join(REPO, "socialchoicekit"), os.path.join(args.base, "socialchoicekit"))
        shutil.copytree(os.path.join(REPO, "tests"), os.path.join(args.base, "tests"))
    files = [f for f in args.files.split(",") if f] or sorted(f for f in os.listdir(os.path.join(args.base, "socialchoicekit")) if f.endswith(".py") and f != "__init__.py")
    muts = []
    for f in files:
        src = open(os.path.join(args.base, "socialchoicekit", f)).read()
        base = ast.unparse(ast.parse(src))
        seen = set()
        for desc, ln, out in enumerate_mutants(src):
            if out == base or out in seen:
                continue
            seen.add(out)
            mid = hashlib.sha256((f + out).encode()).hexdigest()[:10]
            muts.append(dict(id=mid, file=f, line=ln, desc=desc, src=out))
    print(f"{len(muts)} mutants in {len(files)} files", flush=True)
    rng = random.Random(args.seed)
    rng.shuffle(muts)
    done = set()
    resfile = os.path.join(args.out, "results.jsonl")
    if args.recheck:
        surv = {}
        for l in open(resfile):
            r = json.loads(l)
            if r["status"] == "survived":
                surv[r["id"]] = r
        resfile = os.path.join(args.out, "results2.jsonl")
        muts = [m for m in muts if m["id"] in surv]
        for m in muts:
            m["skip_props"] = list(surv[m["id"]].get("checks", {}).keys())
        args.props = ",".join(f"C{i:02d}" for i in range(1, 21))
        args.max = len(muts)
    if args.retest:
        surv = {}
        for l in open(resfile):
            r = json.loads(l)
            d = r.get("diff", "")
            if r["status"] == "survived" and "def __init__" not in d and not ("check_" in d and r["desc"] in ("delete Expr statement", "const True->False", "const False->True")):
                surv[r["id"]] = r
        resfile = os.path.join(args.out, "results3.jsonl")
        muts = [m for m in muts if m["id"] in surv]
        args.max = len(muts)
    if os.path.exists(resfile):
        for l in open(resfile):
            done.add(json.loads(l)["id"])
    muts = [m for m in muts if m["id"] not in done][: args.max]
    if args.list:
        for m in muts:
            print(m["id"], m["file"], m["line"], m["desc"])
        return
    import queue
    slots = queue.Queue()
    for k in range(args.jobs):
        d = os.path.join(args.out, f"slot{k}")
        os.makedirs(d, exist_ok=True)
        slots.put(d)
    # the preflib unit tests need the network and error out at baseline: 82 tests pass without that file? count it once
    rc, txt = sh([PY, "-m", "pytest", "-q", "-p", "no:cacheprovider", "tests/unit"],
                 cwd=args.base, env=dict(os.environ, PYTHONPATH=args.base), timeout=600)
    import re
    m = re.search(r"(\d+) passed", txt)
    args.min_passed = int(m.group(1)) if m else 82
    print("baseline suite passed:", args.min_passed, flush=True)
    with ThreadPoolExecutor(max_workers=args.jobs) as ex, open(resfile, "a") as fh:
        futs = [ex.submit(evaluate, m, slots, args, pf) for m in muts]
        for fu in futs:
            r = fu.result()
            fh.write(json.dumps(r) + "\n")
            fh.flush()
            print(r["status"], r["file"], r["line"], r["desc"], r.get("caught_by", ""), r.get("wall"), flush=True)


if __name__ == "__main__":
    main()
