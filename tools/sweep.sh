#!/bin/sh
# usage: tools/sweep.sh "<seeds>" "<props>" [tier]   -- runs checks over several seeds, prints failures
cd "$(dirname "$0")/.." || exit 2
SEEDS="${1:-1 2 3}"
PROPS="${2:-$(python3 -c "import json;print(' '.join(c['property_id'] for c in json.load(open('MANIFEST.json'))['checks']))")}"
TIER="${3:-quick}"
for p in $PROPS; do
  for s in $SEEDS; do
    out=$(VERIF_SEED=$s ./check $p --tier $TIER 2>&1); rc=$?
    echo "$p seed=$s rc=$rc $(echo "$out" | tail -1)"
    if [ $rc -ne 0 ]; then echo "$out" | grep -E "VIOLATION|ERROR" | head -3; fi
  done
done
