#!/usr/bin/env python3
"""Regenerates lean/Sck.lean: imports every module under lean/Sck (so everything is built and audited)."""
import os
HERE = os.path.join(os.path.dirname(os.path.dirname(os.path.abspath(__file__))), "lean")
mods = []
for root, _, files in os.walk(os.path.join(HERE, "Sck")):
    for f in sorted(files):
        if f.endswith(".lean"):
            rel = os.path.relpath(os.path.join(root, f), HERE)[:-5].replace(os.sep, ".")
            mods.append(rel)
open(os.path.join(HERE, "Sck.lean"), "w").write("".join(f"import {m}\n" for m in sorted(mods)))
