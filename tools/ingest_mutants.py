#!/usr/bin/env python3
"""usage: tools/ingest_mutants.py C01 [extra props...] [--src DIR] [--offset K] [--scratch] [--round R]
evaluates DIR/<k>/ (default /tmp/mutants/C01/_mutants/*) with eval_mutant.py and keeps the confirmed ones as
seeded/C01-<k+offset>/ (patch.diff, demo.py, meta.json incl. what was run and which checks caught it)."""
import json, os, shutil, subprocess, sys
VERIF = os.path.dirname(os.path.dirname(os.path.abspath(__file__)))
argv = sys.argv[1:]
def opt(name, default=None, flag=False):
    if name in argv:
        i = argv.index(name)
        if flag:
            argv.pop(i); return True
        v = argv[i + 1]; del argv[i:i + 2]; return v
    return default
scratch = opt("--scratch", False, flag=True)
offset = int(opt("--offset", "0"))
rnd = int(opt("--round", "1"))
src0 = opt("--src")
prop = argv[0]
extra = argv[1:]
src = src0 or f"/tmp/mutants/{prop}/_mutants"
for k in sorted(os.listdir(src)):
    d = os.path.join(src, k)
    if not os.path.exists(os.path.join(d, "patch.diff")):
        continue
    props = [prop] + extra
    p = subprocess.run(["/venv/bin/python", os.path.join(VERIF, "tools", "eval_mutant.py"), d, "--props", ",".join(props), "--seeds", "0,1"] + (["--scratch"] if scratch else []),
                       capture_output=True, text=True)
    try:
        o = json.loads(p.stdout.strip().split("\n")[-1])
    except Exception:
        print(prop, k, "EVAL FAILED", p.stdout[-300:], p.stderr[-300:])
        continue
    summary = {kk: o.get(kk) for kk in ["valid_mutant", "suite_passed", "demo_clean_rc", "demo_patched_rc", "caught_quick", "caught_any", "repo_clean_after", "error"]}
    print(prop, k, json.dumps(summary))
    for pp, rs in o.get("checks", {}).items():
        for r in rs:
            print("   ", pp, r["tier"], "seed", r["seed"], "rc", r["rc"], f"{r['wall']}s", r["lines"][:1])
    if not o.get("valid_mutant"):
        continue
    kk = str(int(k) + offset) if k.isdigit() else k
    dst = os.path.join(VERIF, "seeded", f"{prop}-{kk}")
    os.makedirs(dst, exist_ok=True)
    shutil.copy(os.path.join(d, "patch.diff"), dst)
    shutil.copy(os.path.join(d, "demo.py"), dst)
    meta = json.load(open(os.path.join(d, "meta.json"))) if os.path.exists(os.path.join(d, "meta.json")) else {}
    meta_out = {"property": prop, "summary": meta.get("summary"), "needs": meta.get("needs"), "files_touched": meta.get("files_touched") or meta.get("files"), "round": rnd,
                "author": "independent sub-agent given only the property text and a scratch worktree of /repo",
                "confirmed": {"demo_on_clean_tree_rc": o["demo_clean_rc"], "demo_on_patched_tree_rc": o["demo_patched_rc"],
                              "unit_suite_passed_with_patch": o["suite_passed"], "unit_suite_failed_with_patch": o["suite_failed"],
                              "how": ("tools/eval_mutant.py --scratch: scratch worktree of /repo HEAD; git apply patch.diff there; pytest tests/unit; demo.py; ./check <prop> with VERIF_REPO=<worktree>; worktree removed" if scratch else
                                      "tools/eval_mutant.py: git -C /repo apply patch.diff; pytest tests/unit; demo.py; ./check <prop>; git -C /repo checkout -- .")},
                "checks": {pp: [{"tier": r["tier"], "seed": r["seed"], "exit": r["rc"], "wall_s": r["wall"], "first_line": (r["lines"] or [""])[0]} for r in rs]
                           for pp, rs in o["checks"].items()},
                "caught_by_quick": o["caught_quick"], "caught_by_any_tier": o["caught_any"]}
    json.dump(meta_out, open(os.path.join(dst, "meta.json"), "w"), indent=1)
