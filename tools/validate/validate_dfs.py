"""Validate the Lean mirror `ffdfs` against the real socialchoicekit.flow.ford_fulkerson:
augmenting path sequence (with reported capacities), final flow dict (in order), cut."""
import sys, random, subprocess
sys.path.insert(0, "/tmp/lw/dfs/tools/repo_snapshot")  # private snapshot of /repo HEAD (the shared /repo is transiently mutated by mutation runs)
import socialchoicekit.flow as F

MAXSIZE = sys.maxsize
DRIVER = "/tmp/lw/dfs/.lake/build/bin/driver"

def to_graph(net):
    G = {v: [] for v in net["verts"]}
    for u, v, c in net["edges"]:
        G[u].append((v, c))
    return G

def net_tokens(net):
    toks = [str(len(net["verts"]))] + [str(v) for v in net["verts"]] + [str(len(net["edges"]))]
    for u, v, c in net["edges"]:
        toks += [str(u), str(v), str(c)]
    toks += [str(net["s"]), str(net["t"])]
    return toks

def rand_net(rng):
    nv = rng.randint(2, 7)
    kind = rng.random()
    if kind < 0.3:
        verts = list(range(nv))
    elif kind < 0.6:
        verts = [-1, -2] + list(range(nv - 2))
    else:
        verts = rng.sample(range(-3, 12), nv)
    if -1 in verts and -2 in verts and rng.random() < 0.7:
        s, t = -1, -2
    else:
        s, t = rng.sample(verts, 2)
    density = rng.choice([0.2, 0.4, 0.6, 0.9])
    caps = rng.choice([[0, 1, 2, 3], [1], [1, 2, 3], [0, 1, 2, 3, MAXSIZE], [1, MAXSIZE], [MAXSIZE]])
    edges = []
    for u in verts:
        for v in verts:
            if u == v:
                if rng.random() < 0.05:
                    edges.append([u, v, rng.choice(caps)])   # self loop
                continue
            if rng.random() < density:
                edges.append([u, v, rng.choice(caps)])
    rng.shuffle(edges)
    vs = verts[:]
    rng.shuffle(vs)
    return {"verts": vs, "edges": edges, "s": s, "t": t}

def run_python(net):
    paths = []
    orig = F.dfs_path
    depth = [0]
    def wrapped(G, current, sink, visited):
        depth[0] += 1
        try:
            r = orig(G, current, sink, visited)
        finally:
            depth[0] -= 1
        if depth[0] == 0:
            assert current == net["s"]
            if r is not None:
                paths.append((list(r[0]), r[1]))
        return r
    F.dfs_path = wrapped
    try:
        flow, cut = F.ford_fulkerson(to_graph(net), net["s"], net["t"])
    finally:
        F.dfs_path = orig
    return paths, [(u, v, f) for (u, v), f in flow.items()], sorted(cut)

def expected_line(net, paths, flow, cut):
    toks = [str(len(paths))]
    for p, c in paths:
        toks += [str(len(p))] + [str(x) for x in p] + [str(c)]
    toks.append(str(len(flow)))
    for u, v, f in flow:
        toks += [str(u), str(v), str(f)]
    toks += [str(len(cut))] + [str(x) for x in cut]
    return toks

def main():
    n = int(sys.argv[1]) if len(sys.argv) > 1 else 400
    rng = random.Random(int(sys.argv[2]) if len(sys.argv) > 2 else 20260929)
    nets = [rand_net(rng) for _ in range(n)]
    def ff_fuel(net):
        # ffFuel N = 1 + sum over v != s of cap s v (proved sufficient: C08_ffDfs_terminates)
        return 1 + sum(c for u, v, c in net["edges"] if u == net["s"] and v != net["s"])
    lines = [" ".join(["ffdfs"] + net_tokens(net) + [str(ff_fuel(net))]) for net in nets]
    out = subprocess.run([DRIVER], input="\n".join(lines) + "\n", capture_output=True, text=True).stdout.splitlines()
    assert len(out) == n, (len(out), n)
    agree_paths = agree_flow = agree_cut = agree_all = value_ok = 0
    npaths_total = 0; opp = 0; into_s = 0; multi = 0; maxcap = 0
    for net, line in zip(nets, out):
        paths, flow, cut = run_python(net)
        toks = line.split()
        if toks[0] != "ok":
            print("MODEL ERR", line, net); continue
        value = int(toks[1])
        exp = expected_line(net, paths, flow, cut)
        got = toks[2:]
        # split got into sections to count agreement separately
        def parse(ts):
            i = 0; k = int(ts[i]); i += 1; ps = []
            for _ in range(k):
                l = int(ts[i]); ps.append(tuple(ts[i:i + l + 2])); i += l + 2
            m = int(ts[i]); fl = ts[i:i + 1 + 3 * m]; i += 1 + 3 * m
            return ps, fl, ts[i:]
        gp, gf, gc = parse(got); ep, ef, ec = parse(exp)
        agree_paths += gp == ep; agree_flow += gf == ef; agree_cut += gc == ec
        agree_all += got == exp
        value_ok += value == sum(c for _, c in paths)
        if got != exp:
            print("MISMATCH", net, "\n  py  ", exp, "\n  lean", got)
        npaths_total += len(paths)
        es = {(u, v) for u, v, _ in net["edges"]}
        opp += any((v, u) in es for (u, v) in es if u != v)
        into_s += any(v == net["s"] or u == net["t"] for (u, v) in es)
        multi += len(paths) >= 2
        maxcap += any(c == MAXSIZE for _, c in paths)
    print(f"networks {n}: paths agree {agree_paths}, flow dict agrees {agree_flow}, cut agrees {agree_cut}, all three {agree_all}, value==sum caps {value_ok}")
    print(f"total augmenting paths {npaths_total}; nets with opposite pairs {opp}; with edges into s/out of t {into_s}; with >=2 rounds {multi}; with a path of capacity sys.maxsize {maxcap}")

main()
