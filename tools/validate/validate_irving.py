"""Stage-by-stage comparison of the real `Irving` code with the Lean mirror (driver ops irv_*).
Run:  PYTHONPATH=/repo /venv/bin/python validate_irving.py [count] [seed] [max n = 8]"""
import sys, subprocess, random
import numpy as np
from socialchoicekit.deterministic_matching import Irving, GaleShapley
from socialchoicekit.profile_utils import StrictCompleteProfile, IntegerValuationProfile

DRIVER = "/tmp/lw/irving/.lake/build/bin/driver"

def rand_perm_profile(rng, n):
  return [[int(x) for x in (np.array(rng.sample(range(n), n)) + 1)] for _ in range(n)]

def latin(n):
  P1 = [[0] * n for _ in range(n)]
  P2 = [[0] * n for _ in range(n)]
  for i in range(n):
    for k in range(n):
      P1[i][(i + k) % n] = k + 1
      P2[i][(i + 1 + k) % n] = k + 1
  return P1, P2

def relabel(rng, P1, P2):
  """random relabelling of men and women (keeps the structure, changes the orders)"""
  n = len(P1)
  pm = rng.sample(range(n), n); pw = rng.sample(range(n), n)
  Q1 = [[0] * n for _ in range(n)]; Q2 = [[0] * n for _ in range(n)]
  for i in range(n):
    for j in range(n):
      Q1[pm[i]][pw[j]] = P1[i][j]
      Q2[pw[j]][pm[i]] = P2[j][i]
  return Q1, Q2

def block(rng, parts):
  """block composition: cross-block partners ranked after in-block ones"""
  n = sum(len(p[0]) for p in parts)
  P1 = [[0] * n for _ in range(n)]; P2 = [[0] * n for _ in range(n)]
  off = 0
  for (A1, A2) in parts:
    k = len(A1)
    for i in range(k):
      others = [j for j in range(n) if not (off <= j < off + k)]
      rng.shuffle(others)
      for j in range(k):
        P1[off + i][off + j] = A1[i][j]
      for r, j in enumerate(others):
        P1[off + i][j] = k + 1 + r
      others = [j for j in range(n) if not (off <= j < off + k)]
      rng.shuffle(others)
      for j in range(k):
        P2[off + i][off + j] = A2[i][j]
      for r, j in enumerate(others):
        P2[off + i][j] = k + 1 + r
    off += k
  return P1, P2

def flat(M):
  return " ".join(str(x) for row in M for x in row)

def python_stages(P1, P2, V1, V2):
  n = len(P1)
  irv = Irving(zero_indexed=True)
  op1 = np.array(P1); op2 = np.array(P2)
  v1 = IntegerValuationProfile.of(np.array(V1)); v2 = IntegerValuationProfile.of(np.array(V2))
  sm = GaleShapley(resident_oriented=True, zero_indexed=True).scf(
    StrictCompleteProfile.of(op1), StrictCompleteProfile.of(op2), np.ones(n, dtype=int))
  out = {}
  out["irv_mo"] = "ok %d %s" % (len(sm), " ".join("%d %d" % (i, j) for i, j in sm))
  pl1, pl2 = Irving.find_initial_preference_lists(sm, op1 - 1, op2 - 1)
  out["irv_shortlists"] = "ok " + " ".join(
    [" ".join([str(len(pl1[i]))] + [str(int(x)) for x in pl1[i]]) for i in range(n)] +
    [" ".join([str(len(pl2[i]))] + [str(int(x)) for x in pl2[i]]) for i in range(n)])
  c1 = {i: np.array(pl1[i]) for i in range(n)}; c2 = {i: np.array(pl2[i]) for i in range(n)}
  rots, elim = irv.find_all_rotations_and_eliminations(c1, c2)
  el = sorted(((int(m), int(w)), int(r)) for (m, w), r in elim.items())
  out["irv_rotations"] = " ".join(["ok", str(len(rots))] +
    [" ".join([str(len(r))] + ["%d %d" % (int(m), int(w)) for m, w in r]) for r in rots] +
    [str(len(el))] + ["%d %d %d" % (m, w, r) for (m, w), r in el])
  Pp = irv.construct_sparse_rotation_poset_graph(rots, pl1, elim)
  edges = sorted((int(a), int(b)) for a in Pp for b in Pp[a])
  out["irv_poset"] = " ".join(["ok", str(len(rots)), str(len(edges))] + ["%d %d" % e for e in edges])
  ws = [int(Irving.rotation_weight(r, v1, v2)) for r in rots]
  C = irv.find_maximum_weight_closed_subset(Pp, rots, v1, v2)
  Cs = sorted(int(x) for x in C)
  out["irv_closed"] = " ".join(["ok", str(len(rots))] + [str(w) for w in ws] + [str(len(Cs))] + [str(x) for x in Cs])
  try:
    ans = irv.scf(v1, v2, StrictCompleteProfile.of(op1), StrictCompleteProfile.of(op2))
    ans = sorted((int(a), int(b)) for a, b in ans)
    out["irv"] = " ".join(["ok", str(len(ans))] + ["%d %d" % e for e in ans])
  except ValueError as e:
    out["irv"] = "err not-exposed"
  out["irv_raw"] = out["irv"]
  return out, len(rots)

def main():
  count = int(sys.argv[1]) if len(sys.argv) > 1 else 300
  seed = int(sys.argv[2]) if len(sys.argv) > 2 else 1
  N = int(sys.argv[3]) if len(sys.argv) > 3 else 8
  rng = random.Random(seed)
  cases = []
  for t in range(count):
    kind = t % 5
    if kind == 0:
      n = rng.randint(1, N); P1 = rand_perm_profile(rng, n); P2 = rand_perm_profile(rng, n)
    elif kind == 1:
      n = rng.randint(2, N); P1, P2 = latin(n)
    elif kind == 2:
      n = rng.randint(2, N); P1, P2 = relabel(rng, *latin(n))
    elif kind == 3:
      parts = []
      tot = 0
      while tot < N:
        k = rng.randint(2, 4)
        if tot + k > N: break
        parts.append(latin(k) if rng.random() < 0.6 else (rand_perm_profile(rng, k), rand_perm_profile(rng, k)))
        tot += k
      P1, P2 = relabel(rng, *block(rng, parts)); n = len(P1)
    else:
      n = rng.randint(5, N); P1 = rand_perm_profile(rng, n); P2 = rand_perm_profile(rng, n)
    mode = rng.randint(0, 3)
    if mode == 0:    # valuations induced by the ranks
      V1 = [[n - x for x in row] for row in P1]; V2 = [[n - x for x in row] for row in P2]
    elif mode == 1:  # arbitrary small values with ties
      V1 = [[rng.randint(0, 3) for _ in range(n)] for _ in range(n)]; V2 = [[rng.randint(0, 3) for _ in range(n)] for _ in range(n)]
    elif mode == 2:  # women-favouring
      V1 = [[0] * n for _ in range(n)]; V2 = [[(n - x) * rng.randint(1, 5) for x in row] for row in P2]
    else:            # signed
      V1 = [[rng.randint(-20, 20) for _ in range(n)] for _ in range(n)]; V2 = [[rng.randint(-20, 20) for _ in range(n)] for _ in range(n)]
    cases.append((n, P1, P2, V1, V2))
  lines = []; expect = []; nrots = []
  for (n, P1, P2, V1, V2) in cases:
    out, k = python_stages(P1, P2, V1, V2)
    nrots.append(k)
    r = "%d %s %s" % (n, flat(P1), flat(P2))
    v = "%s %s" % (flat(V1), flat(V2))
    for op in ["irv_mo", "irv_shortlists", "irv_rotations", "irv_poset"]:
      lines.append("%s %s" % (op, r)); expect.append((op, out[op]))
    for op in ["irv_closed", "irv", "irv_raw"]:
      lines.append("%s %s %s" % (op, r, v)); expect.append((op, out[op]))
  res = subprocess.run([DRIVER], input="\n".join(lines) + "\n", capture_output=True, text=True)
  got = res.stdout.strip("\n").split("\n")
  assert len(got) == len(lines), (len(got), len(lines), res.stderr[:500])
  agree = {}; total = {}
  shown = 0
  for (op, e), g, l in zip(expect, got, lines):
    total[op] = total.get(op, 0) + 1
    if e == g:
      agree[op] = agree.get(op, 0) + 1
    elif shown < 5:
      shown += 1
      print("MISMATCH", op); print("  line  ", l); print("  python", e); print("  lean  ", g)
  for op in total:
    print("%-15s %d / %d" % (op, agree.get(op, 0), total[op]))
  print("instances", len(cases), "rotations: max", max(nrots), "mean %.2f" % (sum(nrots) / len(nrots)),
        "with >=9:", sum(1 for k in nrots if k >= 9))

main()
