"""Validation of the L5 mirrors (gsmirror / gsmirrorpinned / heapops) against the real code."""
import sys, random, subprocess, heapq, math, collections
sys.path.insert(0, "/repo")
sys.path.insert(0, "/tmp/leanwork/L5/pinned")
import numpy as np
from socialchoicekit.deterministic_matching import GaleShapley
from socialchoicekit.profile_utils import StrictProfile
import pinned_dm  # the defective hospital-oriented code (git show e86fb4b^)

DRIVER = "/tmp/leanwork/L5/lean/.lake/build/bin/driver"


# ---- functions that build op lines from Python values (to be moved into the harness) -------------
def optn(v):
    return "x" if v is None else str(v)


def gsmirror_line(inst, oriented):
    """inst = {"n","m","R","H","c"} with None = NaN; oriented: True = resident-oriented"""
    toks = ["gsmirror", "1" if oriented else "0", str(inst["n"]), str(inst["m"])]
    toks += [optn(v) for row in inst["R"] for v in row]
    toks += [optn(v) for row in inst["H"] for v in row]
    toks += [str(x) for x in inst["c"]]
    return " ".join(toks)


def gsmirrorpinned_line(inst):
    toks = ["gsmirrorpinned", str(inst["n"]), str(inst["m"])]
    toks += [optn(v) for row in inst["R"] for v in row]
    toks += [optn(v) for row in inst["H"] for v in row]
    toks += [str(x) for x in inst["c"]]
    return " ".join(toks)


def heapops_line(ops):
    """ops: list of ("p", int) / ("o",)"""
    toks = ["heapops", str(len(ops))]
    for op in ops:
        toks += ["p", str(op[1])] if op[0] == "p" else ["o"]
    return " ".join(toks)


def parse_pairs_ordered(ans):
    """'ok k r h r h ...' -> ordered list of [r, h]; 'err kind' -> ('err', kind)"""
    t = ans.split()
    if t[0] != "ok":
        return ("err", t[1] if len(t) > 1 else "")
    k = int(t[1])
    v = [int(x) for x in t[2:]]
    assert len(v) == 2 * k
    return [[v[2 * i], v[2 * i + 1]] for i in range(k)]
# ---------------------------------------------------------------------------------------------------


def to_np(M, a, b):
    if a == 0 or b == 0:
        return np.zeros((a, b))
    return np.array([[np.nan if v is None else float(v) for v in row] for row in M], dtype=float)


def call_real(inst, oriented, cls=GaleShapley, check=True, int_dtype=False):
    R = to_np(inst["R"], inst["n"], inst["m"])
    H = to_np(inst["H"], inst["m"], inst["n"])
    if int_dtype:
        R = R.astype(int); H = H.astype(int)
    c = np.array(inst["c"], dtype=int)
    if check:
        pr, ph = StrictProfile.of(R), StrictProfile.of(H)
    else:
        pr, ph = R.view(StrictProfile), H.view(StrictProfile)
    try:
        out = cls(resident_oriented=oriented, zero_indexed=True).scf(pr, ph, c)
    except IndexError:
        return ("err", "index")
    return [[int(a), int(b)] for a, b in out]


def rand_profile(rng, a, b, pnan):
    P = [[None] * b for _ in range(a)]
    for i in range(a):
        acc = [j for j in range(b) if rng.random() >= pnan]
        rng.shuffle(acc)
        for r, j in enumerate(acc):
            P[i][j] = r + 1
    return P


def rand_instance(rng, nmax=7, cmax=3):
    n, m = rng.randint(1, nmax), rng.randint(1, nmax)
    mode = rng.random()
    if mode < 0.25:
        pr, ph = 0.0, 0.0
    elif mode < 0.45:
        pr, ph = rng.choice([0.2, 0.5]), 0.0       # one-sided NaN
    elif mode < 0.65:
        pr, ph = 0.0, rng.choice([0.2, 0.5])
    else:
        pr, ph = rng.choice([0.1, 0.3, 0.6]), rng.choice([0.1, 0.3, 0.6])
    return {"n": n, "m": m, "R": rand_profile(rng, n, m, pr), "H": rand_profile(rng, m, n, ph),
            "c": [rng.randint(1, cmax) for _ in range(m)]}


def constructible(inst):
    return any(v is not None for row in inst["R"] for v in row) and any(v is not None for row in inst["H"] for v in row)


def malform(rng, inst):
    """non-compact ranks (gaps), rank 0, ties, capacity 0 -- what StrictProfile.of does not (or need not) exclude"""
    inst = {k: ([row[:] for row in v] if k in ("R", "H") else (v[:] if k == "c" else v)) for k, v in inst.items()}
    kind = rng.choice(["gapH", "gapR", "zeroH", "zeroR", "tieH", "tieR", "cap0", "gapH", "bigH"])
    M = inst["H"] if kind.endswith("H") else inst["R"]
    cells = [(i, j) for i, row in enumerate(M) for j, v in enumerate(row) if v is not None]
    if kind == "cap0":
        inst["c"][rng.randrange(len(inst["c"]))] = 0
    elif cells:
        i, j = rng.choice(cells)
        if kind.startswith("gap"):
            # shift every rank >= chosen one in that row by 1 or 2: a gap
            v0 = M[i][j]; d = rng.randint(1, 2)
            M[i] = [None if v is None else (v + d if v >= v0 else v) for v in M[i]]
        elif kind.startswith("zero"):
            M[i] = [None if v is None else v - 1 for v in M[i]]
        elif kind.startswith("tie"):
            others = [jj for jj, v in enumerate(M[i]) if v is not None and jj != j]
            if others:
                M[i][j] = M[i][rng.choice(others)]
        elif kind.startswith("big"):
            M[i][j] = M[i][j] + rng.randint(5, 40)
    return kind, inst


def run_driver(lines):
    p = subprocess.run([DRIVER], input="\n".join(lines) + "\n", capture_output=True, text=True, check=True)
    out = p.stdout.split("\n")
    if out and out[-1] == "":
        out.pop()
    assert len(out) == len(lines), (len(out), len(lines))
    return out


def main():
    rng = random.Random(int(sys.argv[1]) if len(sys.argv) > 1 else 20260930)
    stats = collections.Counter()
    bad = []

    # 1. heapq
    cases = []
    for _ in range(1500):
        ops, size = [], 0
        for _ in range(rng.randint(1, 40)):
            if size > 0 and rng.random() < 0.4:
                ops.append(("o",)); size -= 1
            else:
                ops.append(("p", rng.randint(-6, 6) if rng.random() < 0.5 else rng.randint(-1000, 1000))); size += 1
        if rng.random() < 0.05:
            ops += [("o",)] * (size + 1)  # pop from empty
        cases.append(ops)
    answers = run_driver([heapops_line(o) for o in cases])
    for ops, ans in zip(cases, answers):
        heap, out, err = [], [], False
        for op in ops:
            if op[0] == "p":
                heapq.heappush(heap, op[1])
            else:
                try:
                    out.append(heapq.heappop(heap))
                except IndexError:
                    err = True
                    break
        exp = "err index" if err else " ".join(["ok", str(len(out))] + [str(x) for x in out] + [str(len(heap))] + [str(x) for x in heap])
        stats["heapops"] += 1
        if exp != ans:
            bad.append(("heapops", ops, exp, ans))

    # 2. valid instances, both orientations, ordered output must be identical
    work = []
    while len(work) < 6000:
        inst = rand_instance(rng)
        if not constructible(inst):
            continue
        work.append(("valid", inst, rng.random() < 0.5))
    # edge: bigger capacities and bigger sizes (heap arrays of size > 3)
    while len(work) < 7000:
        n, m = rng.randint(6, 12), rng.randint(1, 3)
        inst = {"n": n, "m": m, "R": rand_profile(rng, n, m, rng.choice([0, 0.2])),
                "H": rand_profile(rng, m, n, rng.choice([0, 0.2])), "c": [rng.randint(1, 8) for _ in range(m)]}
        if constructible(inst):
            work.append(("valid-bigcap", inst, rng.random() < 0.6))
    # 3. malformed (bypassing StrictProfile.of)
    while len(work) < 9000:
        inst = rand_instance(rng, nmax=5)
        kind, inst2 = malform(rng, inst)
        work.append(("malformed-" + kind, inst2, rng.random() < 0.6))
    # 3b. empty sides (n = 0 or m = 0); StrictProfile.of cannot build these, so the check is bypassed
    for n, m in [(0, 0), (0, 3), (3, 0), (0, 1), (1, 0)]:
        for o in (True, False):
            work.append(("malformed-empty", {"n": n, "m": m, "R": [[None] * m for _ in range(n)],
                                             "H": [[None] * n for _ in range(m)], "c": [1] * m}, o))
    answers = run_driver([gsmirror_line(inst, o) for _, inst, o in work])
    tie_bad = []
    for (tag, inst, o), ans in zip(work, answers):
        got = parse_pairs_ordered(ans)
        try:
            exp = call_real(inst, o, check=tag.startswith("valid"), int_dtype=(tag.startswith("valid") and rng.random() < 0.3
                            and all(v is not None for M in (inst["R"], inst["H"]) for row in M for v in row)))
        except Exception as e:  # noqa
            exp = ("exc", type(e).__name__)
        stats[tag + (":res" if o else ":hosp")] += 1
        if isinstance(exp, tuple):
            stats["  real code raised " + exp[1] + " on " + tag] += 1
        if exp != got:
            if "tie" in tag:
                # np.argsort (default kind) is not stable: tied positions may come out in either order -- informational
                tie_bad.append((tag, o, inst, exp, got))
            else:
                bad.append((tag, o, inst, exp, got))
    stats["  (informational) rows with TIES: disagreements caused by numpy's unstable argsort"] = len(tie_bad)

    # 4. the pinned (defective) hospital-oriented code vs gsHospMirrorPinned
    work = []
    while len(work) < 3000:
        inst = rand_instance(rng, nmax=6)
        if constructible(inst):
            work.append(inst)
    answers = run_driver([gsmirrorpinned_line(inst) for inst in work])
    ndiff = 0
    for inst, ans in zip(work, answers):
        got = parse_pairs_ordered(ans)
        exp = call_real(inst, False, cls=pinned_dm.GaleShapley)
        stats["pinned:hosp"] += 1
        if exp != got:
            bad.append(("pinned", inst, exp, got))
        if exp != call_real(inst, False):
            ndiff += 1
    stats["  pinned result differs from repaired result"] = ndiff

    for k in sorted(stats):
        print(f"{k}: {stats[k]}")
    print("DISAGREEMENTS:", len(bad))
    for b in bad[:15]:
        print(b)
    return 1 if bad else 0


if __name__ == "__main__":
    sys.exit(main())
