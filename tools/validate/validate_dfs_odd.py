"""Odd inputs (outside netWfB): duplicate (u,v) entries, edge endpoints / source / sink that are not keys."""
import sys, random, subprocess
sys.path.insert(0, "/tmp/lw/dfs/tools/repo_snapshot")  # private snapshot of /repo HEAD (the shared /repo is transiently mutated by mutation runs); sys.path.insert(0, "/tmp/lw/dfs/tools")
import socialchoicekit.flow as F
DRIVER = "/tmp/lw/dfs/.lake/build/bin/driver"
rng = random.Random(7)
def to_graph(net):
    G = {v: [] for v in net["verts"]}
    for u, v, c in net["edges"]:
        G[u].append((v, c))
    return G
def toks(net):
    t = [str(len(net["verts"]))] + [str(v) for v in net["verts"]] + [str(len(net["edges"]))]
    for u, v, c in net["edges"]: t += [str(u), str(v), str(c)]
    return t + [str(net["s"]), str(net["t"])]
nets = []
for _ in range(600):
    nv = rng.randint(2, 5)
    verts = list(range(nv)); rng.shuffle(verts)
    pool = list(range(nv)) + ([nv] if rng.random() < 0.3 else [])   # nv is not a key
    edges = []
    for _ in range(rng.randint(0, 10)):
        u = rng.choice(verts); v = rng.choice(pool)
        edges.append([u, v, rng.randint(0, 3)])        # duplicates and self loops allowed
    s = rng.choice(pool); t = rng.choice(pool)
    if s == t: continue
    nets.append({"verts": verts, "edges": edges, "s": s, "t": t})
lines = [" ".join(["ffdfs"] + toks(n) + ["1000"]) for n in nets]
out = subprocess.run([DRIVER], input="\n".join(lines) + "\n", capture_output=True, text=True).stdout.splitlines()
ok = err = bad = 0
for net, line in zip(nets, out):
    paths = []; orig = F.dfs_path; depth = [0]
    def wrapped(G, current, sink, visited):
        depth[0] += 1
        try: r = orig(G, current, sink, visited)
        finally: depth[0] -= 1
        if depth[0] == 0 and r is not None: paths.append((list(r[0]), r[1]))
        return r
    F.dfs_path = wrapped
    try:
        flow, cut = F.ford_fulkerson(to_graph(net), net["s"], net["t"])
        exp = [str(len(paths))]
        for p, c in paths: exp += [str(len(p))] + [str(x) for x in p] + [str(c)]
        exp.append(str(len(flow)))
        for (u, v), f in flow.items(): exp += [str(u), str(v), str(f)]
        exp += [str(len(cut))] + [str(x) for x in sorted(cut)]
        got = line.split()
        if got[0] == "ok" and got[2:] == exp: ok += 1
        else: bad += 1; print("MISMATCH", net, exp, got)
    except KeyError:
        if line == "err KeyError": err += 1
        else: bad += 1; print("MISMATCH(KeyError)", net, line)
    finally:
        F.dfs_path = orig
print(f"odd networks {len(nets)}: identical ok-results {ok}, KeyError on both sides {err}, mismatches {bad}")
