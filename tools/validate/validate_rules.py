"""Validate the rule-level driver ops (karv, prv, tsfmat, m2qmat, dtsfmat, dtsf) against the real Python library
(private snapshot in /tmp/lw/rules/pysnap).  Usage: PYTHONPATH=/tmp/lw/rules/pysnap /venv/bin/python validate_rules.py [N] [seed]"""
import sys, subprocess, random, math, warnings
from fractions import Fraction as F
import numpy as np

warnings.filterwarnings("ignore")
from socialchoicekit.elicitation_voting import KARV, LambdaPRV
from socialchoicekit.elicitation_allocation import LambdaTSF, MatchTwoQueries
from socialchoicekit.elicitation_matching import DoubleLambdaTSF
from socialchoicekit.elicitation_utils import ValuationProfileElicitor, IntegerValuationProfileElicitor
from socialchoicekit.profile_utils import StrictCompleteProfile, ValuationProfile, IntegerValuationProfile

N = int(sys.argv[1]) if len(sys.argv) > 1 else 300
seed = int(sys.argv[2]) if len(sys.argv) > 2 else 1
rng = random.Random(seed)

drv = subprocess.Popen(["stdbuf", "-oL", "/tmp/lw/rules/.lake/build/bin/driver"], stdin=subprocess.PIPE, stdout=subprocess.PIPE,
                       text=True, bufsize=1)

def ask(line):
  drv.stdin.write(line + "\n"); drv.stdin.flush()
  return drv.stdout.readline().strip()

def fr(x):
  x = F(x)
  return str(x.numerator) if x.denominator == 1 else f"{x.numerator}/{x.denominator}"

def parse_rat(t):
  return F(t)

def rand_profile(n, m):
  rows = []
  for _ in range(n):
    r = list(range(1, m + 1)); rng.shuffle(r); rows.append(r)
  return rows

def rand_vals_consistent(P, m, mode):
  """valuations weakly decreasing along each ranking"""
  V = []
  for row in P:
    if mode == "float":
      vs = sorted([rng.random() for _ in range(m)], reverse=True)
    elif mode == "grid":
      vs = sorted([rng.randint(0, 8) / 8 for _ in range(m)], reverse=True)
    elif mode == "int":
      vs = sorted([float(rng.randint(0, 12)) for _ in range(m)], reverse=True)
    else:  # steep: geometric decay so that many thresholds matter
      vs = sorted([rng.random() ** rng.randint(1, 6) for _ in range(m)], reverse=True)
    V.append([vs[r - 1] for r in row])
  return V

def rand_vals_any(n, m):
  return [[rng.randint(0, 8) / 8 for _ in range(m)] for _ in range(n)]

def thresholds(m, k):
  return [m ** (l / (k + 1)) for l in range(1, k + 1)]

def float_ambiguous(V, P, m, lams):
  """some value lies between an exact threshold v/lam and its float rounding: the comparisons `u >= v / lam`
  differ between exact and float arithmetic for some (agent, alternative, threshold)"""
  for row, vrow in zip(P, V):
    fav = vrow[row.index(1)]
    for lam in lams:
      tf = fav / lam
      te = F(fav) / F(lam)
      for u in vrow:
        if (u >= tf) != (F(u) >= te):
          return True
  return False

def close(a, b):
  return abs(a - b) <= 1e-9 * (1 + abs(b))

def mat_line(M, f=str):
  return " ".join(f(x) for r in M for x in r)

stats = {}
def bump(op, key):
  stats.setdefault(op, {}).setdefault(key, 0)
  stats[op][key] += 1

def report_mismatch(op, line, out, py):
  bump(op, "MISMATCH")
  if stats[op]["MISMATCH"] <= 3:
    print("MISMATCH", op, "\n  line:", line[:400], "\n  lean:", out[:400], "\n  py:", str(py)[:400])

def check_scores(op, line, out, py_scores, py_err):
  if out.startswith("err"):
    if py_err is not None: bump(op, "agree-err[" + str(py_err)[:30] + "]")
    else: report_mismatch(op, line, out, py_scores)
    return
  if py_err is not None:
    report_mismatch(op, line, out, "raised " + repr(py_err)); return
  toks = out.split()
  assert toks[0] == "ok"
  wi = toks.index("w")
  s = [parse_rat(t) for t in toks[1:wi]]
  wl = [int(t) for t in toks[wi + 1:]]
  if len(s) != len(py_scores) or not all(close(float(a), b) for a, b in zip(s, py_scores)):
    report_mismatch(op, line, out, py_scores); return
  mx = max(py_scores)
  pw = [j for j, x in enumerate(py_scores) if x == mx]
  # winners: exact comparison unless a float near-tie makes the float winner set ambiguous
  amb = any((x != mx and abs(x - mx) <= 1e-9 * (1 + abs(mx))) for x in py_scores)
  if amb and pw != wl:
    bump(op, "agree-scores(winner-near-tie)"); return
  if pw != wl:
    report_mismatch(op, line, out, (py_scores, pw)); return
  bump(op, "agree" + ("-tie" if len(wl) > 1 else ""))

def run_karv():
  n = rng.randint(1, 6); m = rng.randint(1, 7); k = rng.randint(1, m + (1 if rng.random() < 0.05 else 0))
  P = rand_profile(n, m)
  consistent = rng.random() < 0.85
  V = rand_vals_consistent(P, m, rng.choice(["float", "grid", "int", "steep"])) if consistent else rand_vals_any(n, m)
  lams = thresholds(m, k)
  if float_ambiguous(V, P, m, lams): bump("karv", "skipped-float-boundary"); return
  line = f"karv {n} {m} {mat_line(P)} {mat_line(V, fr)} {k} " + " ".join(fr(l) for l in lams)
  out = ask(line)
  py, err = None, None
  try:
    rule = KARV(k=k, tie_breaker="accept", zero_indexed=True)
    py = list(rule.score(StrictCompleteProfile.of(np.array(P)), ValuationProfileElicitor(ValuationProfile.of(np.array(V)))))
    pw = rule.scf(StrictCompleteProfile.of(np.array(P)), ValuationProfileElicitor(ValuationProfile.of(np.array(V))))
    mx = max(py); assert list(np.atleast_1d(pw)) == [j for j, x in enumerate(py) if x == mx]
  except ValueError as e:
    err = e
  check_scores("karv", line, out, py, err)

def run_prv():
  n = rng.randint(1, 6); m = rng.randint(1, 7); lam = rng.randint(1, m + (1 if rng.random() < 0.05 else 0))
  P = rand_profile(n, m)
  V = rand_vals_consistent(P, m, rng.choice(["float", "grid", "int", "int"])) if rng.random() < 0.8 else rand_vals_any(n, m)
  line = f"prv {n} {m} {mat_line(P)} {mat_line(V, fr)} {lam}"
  out = ask(line)
  py, err = None, None
  try:
    rule = LambdaPRV(lambda_=lam, tie_breaker="accept", zero_indexed=True)
    py = list(rule.score(StrictCompleteProfile.of(np.array(P)), ValuationProfileElicitor(ValuationProfile.of(np.array(V)))))
    pw = rule.scf(StrictCompleteProfile.of(np.array(P)), ValuationProfileElicitor(ValuationProfile.of(np.array(V))))
    mx = max(py); assert list(np.atleast_1d(pw)) == [j for j, x in enumerate(py) if x == mx]
  except ValueError as e:
    err = e
  check_scores("prv", line, out, py, err)

def check_matrix(op, line, out, pyM, err):
  if out.startswith("err"):
    if err is not None: bump(op, "agree-err[" + str(err)[:30] + "]")
    else: report_mismatch(op, line, out, pyM)
    return
  if err is not None:
    report_mismatch(op, line, out, "raised " + repr(err)); return
  vals = [parse_rat(t) for t in out.split()[1:]]
  flat = [float(x) for r in pyM for x in r]
  if len(vals) != len(flat) or not all(close(float(a), b) for a, b in zip(vals, flat)):
    report_mismatch(op, line, out, flat); return
  bump(op, "agree")

def run_tsf():
  n = rng.randint(1, 6); k = rng.randint(1, n + (1 if rng.random() < 0.05 else 0))
  P = rand_profile(n, n)
  consistent = rng.random() < 0.85
  V = rand_vals_consistent(P, n, rng.choice(["float", "grid", "int", "steep"])) if consistent else rand_vals_any(n, n)
  lams = thresholds(n, k)
  if float_ambiguous(V, P, n, lams): bump("tsfmat", "skipped-float-boundary"); return
  line = f"tsfmat {fr(1e-5)} {n} {mat_line(P)} {mat_line(V, fr)} {k} " + " ".join(fr(l) for l in lams)
  out = ask(line)
  py, err = None, None
  try:
    py = np.array(LambdaTSF(lambda_=k, zero_indexed=True).get_simulated_cardinal_profile(
      StrictCompleteProfile.of(np.array(P)), ValuationProfileElicitor(ValuationProfile.of(np.array(V))))).tolist()
  except ValueError as e:
    err = e
  check_matrix("tsfmat", line, out, py, err)

def run_m2q():
  n = rng.randint(1, 8)
  P = rand_profile(n, n)
  if rng.random() < 0.3:  # correlated profiles so that the serial dictatorship goes deep into the rankings
    base = list(range(1, n + 1)); rng.shuffle(base)
    P = [list(base) for _ in range(n)]
    for row in P:
      if rng.random() < 0.5 and n >= 2:
        a, b = rng.sample(range(n), 2); row[a], row[b] = row[b], row[a]
  V = rand_vals_consistent(P, n, rng.choice(["float", "grid", "int"])) if rng.random() < 0.85 else rand_vals_any(n, n)
  line = f"m2qmat {fr(1e-5)} {n} {mat_line(P)} {mat_line(V, fr)}"
  out = ask(line)
  py, err = None, None
  try:
    py = np.array(MatchTwoQueries(zero_indexed=True).get_simulated_cardinal_profile(
      StrictCompleteProfile.of(np.array(P)), ValuationProfileElicitor(ValuationProfile.of(np.array(V))))).tolist()
  except (ValueError, IndexError) as e:
    err = e
  check_matrix("m2qmat", line, out, py, err)

def rand_int_vals(P, n, consistent=True):
  V = []
  for row in P:
    hi = rng.choice([3, 6, 20, 100])
    if consistent:
      vs = sorted([rng.randint(0, hi) for _ in range(n)], reverse=True)
      V.append([vs[r - 1] for r in row])
    else:
      V.append([rng.randint(0, hi) for _ in range(n)])
  return V

def run_dtsf():
  n = rng.randint(1, 5)
  k1 = rng.randint(1, n + (1 if rng.random() < 0.03 else 0)); k2 = rng.randint(1, n)
  P1 = rand_profile(n, n); P2 = rand_profile(n, n)
  cons = rng.random() < 0.9
  V1 = rand_int_vals(P1, n, cons); V2 = rand_int_vals(P2, n, cons)
  l1 = thresholds(n, k1); l2 = thresholds(n, k2)
  fV1 = [[float(x) for x in r] for r in V1]; fV2 = [[float(x) for x in r] for r in V2]
  if float_ambiguous(fV1, P1, n, l1) or float_ambiguous(fV2, P2, n, l2):
    bump("dtsfmat", "skipped-float-boundary"); bump("dtsf", "skipped-float-boundary"); return
  args = (f"{n} {mat_line(P1)} {mat_line(P2)} {mat_line(V1)} {mat_line(V2)} {k1} " + " ".join(fr(l) for l in l1)
          + f" {k2} " + " ".join(fr(l) for l in l2))
  rule = DoubleLambdaTSF(lambda_1=k1, lambda_2=k2, zero_indexed=True)
  mk = lambda: (StrictCompleteProfile.of(np.array(P1)), StrictCompleteProfile.of(np.array(P2)),
                IntegerValuationProfileElicitor(IntegerValuationProfile.of(np.array(V1))),
                IntegerValuationProfileElicitor(IntegerValuationProfile.of(np.array(V2))))
  # matrices
  out = ask("dtsfmat " + args)
  py, err = None, None
  try:
    S = rule.get_simulated_cardinal_profiles(*mk())
    py = [int(x) for x in np.array(S[0]).flatten()] + [int(x) for x in np.array(S[1]).flatten()]
  except ValueError as e:
    err = e
  if out.startswith("err"):
    if err is not None: bump("dtsfmat", "agree-err[" + str(err)[:30] + "]")
    else: report_mismatch("dtsfmat", args, out, py)
  elif err is not None:
    report_mismatch("dtsfmat", args, out, "raised " + repr(err))
  elif [int(t) for t in out.split()[1:]] == py:
    bump("dtsfmat", "agree")
  else:
    report_mismatch("dtsfmat", args, out, py)
  # whole rule
  out = ask("dtsf " + args)
  py, err = None, None
  try:
    py = sorted((int(a), int(b)) for a, b in rule.scf(*mk()))
  except (ValueError, AssertionError) as e:
    err = e
  if out.startswith("err"):
    if err is not None: bump("dtsf", "agree-err(" + out + ")")
    else: report_mismatch("dtsf", args, out, py)
  elif err is not None:
    report_mismatch("dtsf", args, out, "raised " + repr(err))
  else:
    t = [int(x) for x in out.split()[1:]]
    lean = sorted((t[1 + 2 * i], t[2 + 2 * i]) for i in range(t[0]))
    if lean == py: bump("dtsf", "agree")
    else: report_mismatch("dtsf", args, out, py)

for it in range(N):
  run_karv(); run_prv(); run_tsf(); run_m2q(); run_dtsf()

for op in ["karv", "prv", "tsfmat", "m2qmat", "dtsfmat", "dtsf"]:
  print(op, stats.get(op, {}))
drv.stdin.close()
