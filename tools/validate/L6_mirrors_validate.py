#!/venv/bin/python
"""Validation of the Lean mirrors mcmMirror / bvnMirror against the real socialchoicekit code.
Run from a cwd other than /repo:  /venv/bin/python /tmp/leanwork/L6/validate.py [seed]"""
import sys, random, subprocess, signal, warnings
from fractions import Fraction
sys.path.insert(0, "/repo")
import numpy as np
from socialchoicekit.flow import maximum_cardinality_matching_bipartite
from socialchoicekit.bistochastic import birkhoff_von_neumann

DRIVER = "/tmp/leanwork/L6/lean/.lake/build/bin/driver"

# ----------------------------------------------------------------------------- op-line builders (for the harness)
def _ints(l):
  return [str(len(l))] + [str(int(v)) for v in l]

def _bgraph(G):
  """the dict {key: [v, ...]} in insertion order"""
  out = [str(len(G))]
  for k, l in G.items():
    out += [str(int(k)), str(len(l))] + [str(int(v)) for v in l]
  return out

def op_mcmmirror(G, X, Y, check=True):
  """op line for maximum_cardinality_matching_bipartite(G, X, Y)"""
  return " ".join(["mcmmirror" if check else "mcmmirror_nocheck"] + _ints(X) + _ints(Y) + _bgraph(G))

def _frac(x):
  x = Fraction(x)            # exact, also for floats
  return str(x.numerator) if x.denominator == 1 else "%d/%d" % (x.numerator, x.denominator)

def op_bvnmirror(X):
  """op line for birkhoff_von_neumann(X); X: n x n nested list / array of Fractions, ints or floats (taken exactly)"""
  n = len(X)
  return " ".join(["bvnmirror", str(n)] + [_frac(X[i][j]) for i in range(n) for j in range(n)])

def expect_mcm(res):
  """expected answer line from the Python result (a list of pairs) or exception"""
  if isinstance(res, BaseException):
    return "err " + type(res).__name__
  return " ".join(["ok", str(len(res))] + [str(int(v)) for p in res for v in p])

def sigma_of_P(P):
  """row -> column of the 1, n if the row has no 1"""
  n = P.shape[0]
  out = []
  for i in range(n):
    ones = [j for j in range(n) if P[i, j] == 1]
    assert len(ones) <= 1 and all(P[i, j] in (0, 1) for j in range(n))
    out.append(ones[0] if ones else n)
  return out

def expect_bvn(res):
  """expected answer line from the Python result [(z, P), ...] (z read EXACTLY) or exception"""
  if isinstance(res, BaseException):
    return "err " + type(res).__name__
  toks = ["ok", str(len(res))]
  for z, P in res:
    toks.append(_frac(float(z)))
    toks += [str(c) for c in sigma_of_P(P)]
  return " ".join(toks)

# ----------------------------------------------------------------------------- running
class Timeout(Exception):
  pass

def _alarm(signum, frame):
  raise Timeout()

def run_py(f, *args, seconds=10):
  signal.signal(signal.SIGALRM, _alarm)
  signal.alarm(seconds)
  try:
    with warnings.catch_warnings():
      warnings.simplefilter("ignore")
      return f(*args)
  except Timeout:
    raise
  except Exception as e:
    return e
  finally:
    signal.alarm(0)

def run_driver(lines):
  p = subprocess.run([DRIVER], input="\n".join(lines) + "\n", capture_output=True, text=True)
  out = p.stdout.split("\n")
  if out and out[-1] == "":
    out.pop()
  assert len(out) == len(lines), (len(out), len(lines), p.stderr[:500])
  return out

# ----------------------------------------------------------------------------- generators
def rand_bip(rng, malformed=False):
  if rng.random() < 0.1:
    nx, ny = rng.randint(0, 7), rng.randint(0, 7)
    if nx + ny == 0:
      nx = 1
  else:
    nx, ny = rng.randint(1, 7), rng.randint(1, 7)
  style = rng.choice(["small", "wide", "neg"])
  if style == "small":
    labels = rng.sample(range(0, 20), nx + ny)
  elif style == "wide":
    labels = rng.sample(range(0, 1000), nx + ny)
  else:
    labels = rng.sample([v for v in range(-30, 30) if v not in (-1, -2)], nx + ny)
  X, Y = labels[:nx], labels[nx:]
  dens = rng.choice([0.15, 0.3, 0.5, 0.8])
  edges = [(x, y) for x in X for y in Y if rng.random() < dens]
  rng.shuffle(edges)
  undirected = rng.random() < 0.5
  keys = X + Y
  order = rng.choice(["xy", "shuffle", "yx"])
  if order == "shuffle":
    keys = keys[:]
    rng.shuffle(keys)
  elif order == "yx":
    keys = Y + X
  G = {k: [] for k in keys}
  for (x, y) in edges:
    G[x].append(y)
    if undirected:
      G[y].append(x)
  if malformed:
    kind = rng.choice(["dropkey", "extrakey", "xiny", "badnbr", "empty", "dupX", "nonkeynbr", "xxedge", "dupnbr", "yedge"])
    if kind == "dropkey" and G:
      del G[rng.choice(list(G.keys()))]
    elif kind == "extrakey":
      G[5000] = []
    elif kind == "xiny" and X:
      Y = Y + [X[0]]
    elif kind == "badnbr" and X:
      G[X[0]] = G[X[0]] + [X[-1]]
    elif kind == "empty":
      G = {}
    elif kind == "dupX" and X:
      X = X + [rng.choice(X)]
    elif kind == "nonkeynbr" and len(X) >= 2:
      # a later left vertex points to a vertex that is not a key: check_graph only looks at the first value
      G[X[-1]] = G[X[-1]] + [7777]
    elif kind == "xxedge" and len(X) >= 2:
      # an edge between two left vertices: check_bipartite_graph only looks at the first left vertex
      G[X[-1]] = G[X[-1]] + [X[0]]
    elif kind == "dupnbr" and X and Y:
      x = rng.choice(X); y = rng.choice(Y)
      G[x] = G[x] + [y, y]
    elif kind == "yedge" and len(Y) >= 2:
      G[Y[0]] = G[Y[0]] + [Y[1]]
  return G, X, Y

def rand_dyadic(rng, balanced=True):
  n = rng.randint(1, 6)
  t = rng.randint(1, 8)
  M = [[Fraction(0)] * n for _ in range(n)]
  conic = rng.random() < 0.4
  ws = [rng.randint(1, 64) for _ in range(t)]
  if not conic:
    # convex: weights k/64 summing to 1
    tot = 64
    cuts = sorted(rng.sample(range(1, tot), min(t - 1, tot - 1))) if t > 1 else []
    ws = [b - a for a, b in zip([0] + cuts, cuts + [tot])]
  for w in ws:
    perm = list(range(n))
    rng.shuffle(perm)
    for i in range(n):
      M[i][perm[i]] += Fraction(w, 64)
  if not balanced:
    kind = rng.choice(["bump", "neg", "zero_row", "rand"])
    i, j = rng.randrange(n), rng.randrange(n)
    if kind == "bump":
      M[i][j] += Fraction(rng.randint(1, 64), 64)
    elif kind == "neg":
      M[i][j] = -Fraction(rng.randint(1, 64), 64)
    elif kind == "zero_row":
      M[i] = [Fraction(0)] * n
    else:
      M = [[Fraction(rng.randint(0, 8), 64) for _ in range(n)] for _ in range(n)]
  return M

def rand_nondyadic(rng):
  """exactly bistochastic rational matrix with a non-dyadic denominator; Python sees the rounded floats"""
  n = rng.randint(2, 6)
  t = rng.randint(1, 8)
  den = rng.choice([3, 7, 10, 60, 97, 1000])
  cuts = sorted(rng.sample(range(1, den), min(t - 1, den - 1))) if t > 1 else []
  ws = [b - a for a, b in zip([0] + cuts, cuts + [den])]
  M = [[Fraction(0)] * n for _ in range(n)]
  for w in ws:
    perm = list(range(n))
    rng.shuffle(perm)
    for i in range(n):
      M[i][perm[i]] += Fraction(w, den)
  return M

# ----------------------------------------------------------------------------- main
def main():
  seed = int(sys.argv[1]) if len(sys.argv) > 1 else 20260930
  rng = random.Random(seed)

  # ---- 1. mcm, valid graphs
  cases = [rand_bip(rng) for _ in range(4000)]
  lines = [op_mcmmirror(G, X, Y) for (G, X, Y) in cases]
  exp = [expect_mcm(run_py(maximum_cardinality_matching_bipartite, G, list(X), list(Y))) for (G, X, Y) in cases]
  got = run_driver(lines)
  bad = [(l, e, g) for l, e, g in zip(lines, exp, got) if e != g]
  nerr = sum(1 for e in exp if e.startswith("err"))
  sizes = {}
  for e in exp:
    if e.startswith("ok"):
      k = int(e.split()[1]); sizes[k] = sizes.get(k, 0) + 1
  print("mcmmirror valid graphs: %d cases, %d disagreements (python raised in %d), matching sizes %s" %
        (len(cases), len(bad), nerr, sorted(sizes.items())))
  for b in bad[:5]:
    print("  DIFF", b)
  # the same graphs without the check must give the same answers
  got2 = run_driver([op_mcmmirror(G, X, Y, check=False) for (G, X, Y) in cases])
  print("mcmmirror_nocheck on the same: %d disagreements" % sum(1 for e, g in zip(exp, got2) if e != g))

  # sensitivity: how often does the ABSTRACT model (op `mcm`) return a different list than the code?
  got3 = run_driver([op_mcmmirror(G, X, Y).replace("mcmmirror", "mcm", 1) for (G, X, Y) in cases])
  ndiff = 0
  for e, g in zip(exp, got3):
    if e.startswith("ok") and g.startswith("ok"):
      k = int(e.split()[1])
      if e.split()[:2 + 2 * k] != g.split()[:2 + 2 * k]:
        ndiff += 1
  print("  (for comparison: the abstract op `mcm` returns a different pair list than the code on %d of these graphs)" % ndiff)

  # ---- 2. mcm, malformed arguments (ValueError / quirks of check_bipartite_graph)
  cases = [rand_bip(rng, malformed=True) for _ in range(1500)]
  lines = [op_mcmmirror(G, X, Y) for (G, X, Y) in cases]
  exp = [expect_mcm(run_py(maximum_cardinality_matching_bipartite, G, list(X), list(Y))) for (G, X, Y) in cases]
  got = run_driver(lines)
  bad = [(l, e, g) for l, e, g in zip(lines, exp, got) if e != g]
  nerr = sum(1 for e in exp if e.startswith("err"))
  print("mcmmirror malformed: %d cases, %d disagreements (python raised in %d)" % (len(cases), len(bad), nerr))
  for b in bad[:5]:
    print("  DIFF", b)

  # ---- 3. bvn, dyadic balanced
  mats = [rand_dyadic(rng) for _ in range(2000)]
  lines = [op_bvnmirror(M) for M in mats]
  exp = [expect_bvn(run_py(birkhoff_von_neumann, np.array([[float(x) for x in r] for r in M]))) for M in mats]
  got = run_driver(lines)
  bad = [(l, e, g) for l, e, g in zip(lines, exp, got) if e != g]
  terms = {}
  for e in exp:
    if e.startswith("ok"):
      k = int(e.split()[1]); terms[k] = terms.get(k, 0) + 1
  print("bvnmirror dyadic balanced: %d cases, %d disagreements, numbers of terms %s" % (len(mats), len(bad), sorted(terms.items())))
  for b in bad[:5]:
    print("  DIFF", b)
  got3 = run_driver([l.replace("bvnmirror", "bvnfull", 1) for l in lines])
  print("  (for comparison: the abstract op `bvnfull` returns a different decomposition than the code on %d of these matrices)" %
        sum(1 for e, g in zip(exp, got3) if e != g))

  # ---- 4. bvn, dyadic NOT balanced (ValueError paths, partial matchings)
  mats = [rand_dyadic(rng, balanced=False) for _ in range(1000)]
  lines = [op_bvnmirror(M) for M in mats]
  exp = [expect_bvn(run_py(birkhoff_von_neumann, np.array([[float(x) for x in r] for r in M]))) for M in mats]
  got = run_driver(lines)
  bad = [(l, e, g) for l, e, g in zip(lines, exp, got) if e != g]
  nerr = sum(1 for e in exp if e.startswith("err"))
  print("bvnmirror dyadic unbalanced: %d cases, %d disagreements (python raised in %d)" % (len(mats), len(bad), nerr))
  for b in bad[:5]:
    print("  DIFF", b)

  # ---- 5. bvn, non-dyadic: the mirror gets the exact rational matrix, the code its float rounding
  mats = [rand_nondyadic(rng) for _ in range(1500)]
  lines = [op_bvnmirror(M) for M in mats]
  got = run_driver(lines)
  same_perms = same_len = close = pyerr = more = fewer = tiny = over = 0
  minz = 1.0
  for M, g in zip(mats, got):
    r = run_py(birkhoff_von_neumann, np.array([[float(x) for x in r] for r in M]))
    if isinstance(r, BaseException):
      pyerr += 1
      continue
    n = len(M)
    toks = g.split()
    assert toks[0] == "ok", g
    t = int(toks[1])
    lean = [(Fraction(toks[2 + k * (n + 1)]), [int(c) for c in toks[3 + k * (n + 1): 3 + k * (n + 1) + n]]) for k in range(t)]
    py = [(float(z), sigma_of_P(P)) for z, P in r]
    more += len(py) > len(lean)
    fewer += len(py) < len(lean)
    tiny += any(z < 1e-9 for z, _ in py)
    over += len(py) > n * n
    minz = min([minz] + [z for z, _ in py])
    if len(py) == len(lean):
      same_len += 1
      if all(a[1] == b[1] for a, b in zip(py, lean)):
        same_perms += 1
        if all(abs(a[0] - float(b[0])) < 1e-9 for a, b in zip(py, lean)):
          close += 1
  print("bvnmirror non-dyadic (exact rational to the mirror, floats to the code): %d cases; python raised %d; "
        "same number of terms %d; same permutation sequence %d; and coefficients within 1e-9: %d" %
        (len(mats), pyerr, same_len, same_perms, close))
  print("  the code returned MORE terms than the exact run in %d cases, FEWER in %d; a coefficient below 1e-9 in %d cases "
        "(smallest %.3g); more than n*n terms in %d cases" % (more, fewer, tiny, minz, over))

  # ---- 6. bvn, non-dyadic, the mirror gets EXACTLY the float matrix the code sees
  agree = 0
  lines = [op_bvnmirror([[float(x) for x in r] for r in M]) for M in mats]
  got = run_driver(lines)
  for M, g in zip(mats, got):
    r = run_py(birkhoff_von_neumann, np.array([[float(x) for x in r] for r in M]))
    if expect_bvn(r) == g:
      agree += 1
  print("bvnmirror non-dyadic (the exact float matrix to the mirror): identical answers %d / %d" % (agree, len(mats)))

if __name__ == "__main__":
  main()
