#!/venv/bin/python
"""Throw-away validation of the L4 brute-force reference ops against the real code.
run:  cd /tmp/leanwork/L4 && /venv/bin/python validate.py [seed]"""
import sys, subprocess, random, math, time, itertools
from fractions import Fraction
sys.path.insert(0, "/repo")
import numpy as np

DRIVER = "/tmp/leanwork/L4/lean/.lake/build/bin/driver"


# ---------------------------------------------------------------------------------------------------------------
# op-line builders (to be moved into the harness)
def fr(x):
    """exact rational text of a Python/numpy number ('x' for NaN/None)"""
    if x is None:
        return "x"
    if isinstance(x, Fraction):
        f = x
    elif isinstance(x, float) or hasattr(x, "dtype"):
        xf = float(x)
        if math.isnan(xf):
            return "x"
        if math.isinf(xf):
            raise ValueError("inf crosses the boundary")
        f = Fraction(xf)
    else:
        f = Fraction(x)
    return str(f.numerator) if f.denominator == 1 else f"{f.numerator}/{f.denominator}"


def assignopt_line(W):
    """W: n x n nested list / array of numbers, NaN (or None) = unacceptable -> 'assignopt n W...'"""
    n = len(W)
    return " ".join(["assignopt", str(n)] + [fr(W[i][j]) for i in range(n) for j in range(n)])


def assigncount_line(W):
    n = len(W)
    return " ".join(["assigncount", str(n)] + [fr(W[i][j]) for i in range(n) for j in range(n)])


def assignval_line(W, sigma):
    """sigma: 0-indexed assignment (agent i -> item sigma[i])"""
    n = len(W)
    return " ".join(["assignval", str(n)] + [fr(W[i][j]) for i in range(n) for j in range(n)] + [str(int(s)) for s in sigma])


def _sm_tokens(P1, P2, V1, V2):
    n = len(P1)
    toks = [str(n)]
    for M in (P1, P2, V1, V2):
        toks += [str(int(v)) for row in M for v in row]
    return toks


def smopt_line(P1, P2, V1, V2):
    """P1[a][b] rank man a gives woman b, P2[b][a] rank woman b gives man a (as passed to Irving.scf: 1..n);
    V1[a][b], V2[b][a] integer values"""
    return " ".join(["smopt"] + _sm_tokens(P1, P2, V1, V2))


def smval_line(P1, P2, V1, V2, mu):
    """mu: 0-indexed, mu[a] = woman of man a"""
    return " ".join(["smval"] + _sm_tokens(P1, P2, V1, V2) + [str(int(b)) for b in mu])


# ---------------------------------------------------------------------------------------------------------------
def run_driver(lines):
    t0 = time.time()
    p = subprocess.run([DRIVER], input="\n".join(lines) + "\n", capture_output=True, text=True)
    dt = time.time() - t0
    out = p.stdout.split("\n")
    if out and out[-1] == "":
        out.pop()
    assert len(out) == len(lines), (len(out), len(lines), p.stderr[:500])
    return out, dt


def rand_entry(rng, kind):
    """utility entry: NaN / zero / integer / dyadic / negative"""
    r = rng.random()
    if kind == "dense":
        pn, pz = 0.0, 0.15
    elif kind == "sparse":
        pn, pz = 0.45, 0.15
    elif kind == "vsparse":
        pn, pz = 0.7, 0.1
    else:
        pn, pz = 0.2, 0.3
    if r < pn:
        return float("nan")
    if r < pn + pz:
        return 0.0
    t = rng.random()
    if t < 0.5:
        return float(rng.randint(0, 9))
    if t < 0.8:
        return rng.randint(0, 64) / 8.0
    if t < 0.9:
        return float(rng.randint(-5, 5))
    return rng.randint(0, 2 ** 20) / 1024.0


def validate_assign(rng, N):
    from socialchoicekit.deterministic_allocation import MaximumWeightMatching
    from socialchoicekit.profile_utils import ValuationProfile
    rule = MaximumWeightMatching(zero_indexed=True)
    lines, expect, meta = [], [], []
    nfeas = ninf = 0
    for t in range(N):
        n = rng.choice([1, 2, 3, 3, 4, 4, 5, 5, 6, 6, 7, 7])
        kind = rng.choice(["dense", "sparse", "vsparse", "zeros"])
        W = [[rand_entry(rng, kind) for _ in range(n)] for _ in range(n)]
        arr = np.array(W, dtype=float)
        try:
            vp = ValuationProfile.of(arr)
        except Exception:
            vp = arr.view(ValuationProfile)
        try:
            sigma = [int(x) for x in rule.scf(vp)]
            ok = True
        except ValueError:
            ok = False
        lines.append(assignopt_line(W))
        if ok:
            nfeas += 1
            assert sorted(sigma) == list(range(n))
            # python-side exact value
            if any(math.isnan(W[i][sigma[i]]) for i in range(n)):
                expect.append("PY-USES-NAN")
            else:
                expect.append("ok " + fr(sum(Fraction(W[i][sigma[i]]) for i in range(n))))
            # model-side value of the very same assignment (nothing computed in Python is trusted)
            lines.append(assignval_line(W, sigma))
            expect.append(None)  # compared with the previous answer
        else:
            ninf += 1
            expect.append("err infeasible")
        # independent brute force in Python as a third opinion
        best = None
        cnt = 0
        for p in itertools.permutations(range(n)):
            if all(not math.isnan(W[i][p[i]]) for i in range(n)):
                cnt += 1
                v = sum(Fraction(W[i][p[i]]) for i in range(n))
                if best is None or v > best:
                    best = v
        lines.append(assigncount_line(W))
        expect.append("ok %d" % cnt)
        meta.append((W, best))
    out, dt = run_driver(lines)
    bad = 0
    prev = None
    for l, e, o in zip(lines, expect, out):
        if e is None:
            if o != prev:
                bad += 1
                print("ASSIGNVAL MISMATCH", l, o, prev)
        elif e != o:
            bad += 1
            print("MISMATCH", l, "expected", e, "got", o)
        prev = o
    print(f"assign: {N} matrices ({nfeas} feasible, {ninf} raise), {len(lines)} op lines, driver {dt:.2f}s, disagreements {bad}")
    return bad


def rand_ranks(rng, n):
    rows = []
    for _ in range(n):
        p = list(range(1, n + 1))
        rng.shuffle(p)
        rows.append(p)
    return rows


def validate_sm(rng, N):
    from socialchoicekit.deterministic_matching import Irving
    from socialchoicekit.profile_utils import StrictCompleteProfile, IntegerValuationProfile
    rule = Irving(zero_indexed=True)
    lines, expect = [], []
    multi = 0
    for t in range(N):
        n = rng.choice([1, 2, 3, 4, 4, 5, 5, 6, 6, 6])
        mode = rng.choice(["free", "free", "induced", "latin"])
        if mode == "latin":
            # cyclic instance: many stable matchings
            s = rng.randrange(n)
            P1 = [[((j - i + s) % n) + 1 for j in range(n)] for i in range(n)]
            P2 = [[((i - j - s - 1) % n) + 1 for i in range(n)] for j in range(n)]
            # P2[j][i]: woman j ranks man i opposite to the men
            P2 = [[n + 1 - P1[i][j] for i in range(n)] for j in range(n)]
        else:
            P1, P2 = rand_ranks(rng, n), rand_ranks(rng, n)
        if mode == "induced":
            V1 = [[(n - P1[a][b]) * rng.randint(1, 3) + 0 for b in range(n)] for a in range(n)]
            V1 = [[(n + 1 - P1[a][b]) * 7 + rng.randint(0, 3) for b in range(n)] for a in range(n)]
            V2 = [[(n + 1 - P2[b][a]) * 7 + rng.randint(0, 3) for a in range(n)] for b in range(n)]
        else:
            hi = rng.choice([1, 3, 20, 1000])
            V1 = [[rng.randint(0, hi) for _ in range(n)] for _ in range(n)]
            V2 = [[rng.randint(0, hi) for _ in range(n)] for _ in range(n)]
        v1 = IntegerValuationProfile.of(np.array(V1, dtype=np.int64))
        v2 = IntegerValuationProfile.of(np.array(V2, dtype=np.int64))
        p1 = StrictCompleteProfile.of(np.array(P1, dtype=np.int64))
        p2 = StrictCompleteProfile.of(np.array(P2, dtype=np.int64))
        out = rule.scf(v1, v2, p1, p2)
        mu = [None] * n
        for a, b in out:
            mu[int(a)] = int(b)
        val = sum(V1[a][mu[a]] + V2[mu[a]][a] for a in range(n))
        # python brute force
        best, cnt = None, 0
        for p in itertools.permutations(range(n)):
            inv = [0] * n
            for a in range(n):
                inv[p[a]] = a
            st = all(not (P1[a][b] < P1[a][p[a]] and P2[b][a] < P2[b][inv[b]]) for a in range(n) for b in range(n))
            if st:
                cnt += 1
                v = sum(V1[a][p[a]] + V2[p[a]][a] for a in range(n))
                best = v if best is None or v > best else best
        if cnt > 1:
            multi += 1
        lines.append(smopt_line(P1, P2, V1, V2))
        expect.append("ok %d %d" % (val, cnt))
        assert best == val, ("python brute force disagrees with Irving", P1, P2, V1, V2, mu, best, val)
        lines.append(smval_line(P1, P2, V1, V2, mu))
        expect.append("ok %d 1" % val)
    out, dt = run_driver(lines)
    bad = 0
    for l, e, o in zip(lines, expect, out):
        if e != o:
            bad += 1
            print("MISMATCH", l, "expected", e, "got", o)
    print(f"sm: {N} instances ({multi} with more than one stable matching), {len(lines)} op lines, driver {dt:.2f}s, disagreements {bad}")
    return bad


def malformed(rng):
    """malformed / edge lines: the answers are pinned by hand"""
    cases = [
        ("assignopt 0", "ok 0"),
        ("assignopt 1 x", "err infeasible"),
        ("assignopt 1 -7/2", "ok -7/2"),
        ("assignopt 2 1 2 3", None),            # too few tokens -> parse error
        ("assignopt 2 1 2 3 4 5", None),        # trailing token
        ("assignopt 2 1 nan 3 4", None),        # bad token
        ("assignval 2 1 2 3 4 0 0", "err notperm"),
        ("assignval 2 1 2 3 4 0 2", "err notperm"),
        ("assignval 2 1 x 3 4 1 0", "err nan"),
        ("assignval 2 1 x 3 4 0 1", "ok 5"),
        ("smopt 0", "ok 0 1"),
        ("smopt 1 1 1 -4 9", "ok 5 1"),
        ("smopt 2 1 2 2 1 2 1 1 2 0 0 0 0 0 5 5", None),
        ("smval 2 1 2 2 1 2 1 1 2 0 0 0 0 0 5 5 0 1 1", "err notperm"),
        ("smval 2 1 2 2 1 2 1 1 2 0 0 0 0 0 5 5 0 1 0", "ok 10 1"),
        # ties in the ranks (weak stability): everybody indifferent -> all n! matchings stable
        ("smopt 3 1 1 1 1 1 1 1 1 1 1 1 1 1 1 1 1 1 1 0 0 9 0 0 0 9 0 0 0 0 0 0 0 0 0 0 0", "ok 18 6"),
    ]
    out, _ = run_driver([c[0] for c in cases])
    bad = 0
    for (l, e), o in zip(cases, out):
        if e is None:
            if not o.startswith("err parse"):
                bad += 1
                print("MALFORMED not rejected", l, o)
        elif e != o:
            bad += 1
            print("EDGE MISMATCH", l, e, o)
    print(f"edge/malformed: {len(cases)} lines, disagreements {bad}")
    return bad


def timing(rng):
    for n in (6, 7, 8):
        W = [[rand_entry(rng, "dense") for _ in range(n)] for _ in range(n)]
        P1, P2 = rand_ranks(rng, n), rand_ranks(rng, n)
        V1 = [[rng.randint(0, 20) for _ in range(n)] for _ in range(n)]
        V2 = [[rng.randint(0, 20) for _ in range(n)] for _ in range(n)]
        _, base = run_driver(["assignopt 0"])
        _, d1 = run_driver([assignopt_line(W)] * 5)
        _, d2 = run_driver([smopt_line(P1, P2, V1, V2)] * 5)
        print(f"timing n={n}: process start {base*1000:.0f} ms; assignopt {(d1-base)/5*1000:.0f} ms/op; smopt {(d2-base)/5*1000:.0f} ms/op")


if __name__ == "__main__":
    seed = int(sys.argv[1]) if len(sys.argv) > 1 else 20260930
    rng = random.Random(seed)
    bad = 0
    bad += malformed(rng)
    bad += validate_assign(rng, 3000)
    bad += validate_sm(rng, 800)
    timing(rng)
    print("TOTAL DISAGREEMENTS", bad)
    sys.exit(1 if bad else 0)
