#!/venv/bin/python
"""Throw-away validation of the Lean model `Eat.eatInc` (op `eatinc`) against the real
`SimultaneousEating.bistochastic` / `ProbabilisticSerial.bistochastic` on strict INCOMPLETE profiles.

Run from a cwd other than /repo:   cd /tmp/leanwork/L3 && /venv/bin/python validate.py [seed] [count] [nmin] [nmax]
(defaults: seed 20260930, 2400 cases, 1 <= n <= 6)
"""
import sys, subprocess, random, warnings
from fractions import Fraction

sys.path.insert(0, "/repo")
import numpy as np
from socialchoicekit.profile_utils import StrictProfile, StrictIncompleteProfile
from socialchoicekit.randomized_allocation import SimultaneousEating, ProbabilisticSerial

DRIVER = "/tmp/leanwork/L3/lean/.lake/build/bin/driver"
TOL = 1e-7
SPEEDS = [Fraction(1), Fraction(2), Fraction(1, 2), Fraction(3)]


# ---------------------------------------------------------------------------------------------------
# (f) op-line builders (to be moved into the harness)
# ---------------------------------------------------------------------------------------------------
def tok_optnat(v):
    """one profile entry: NaN/None -> 'x', otherwise the integer rank"""
    if v is None:
        return "x"
    if isinstance(v, float) and v != v:
        return "x"
    return str(int(v))


def tok_rat(v):
    """a speed as an exact rational token `p` or `p/q` (floats are converted exactly)"""
    f = Fraction(v) if not isinstance(v, Fraction) else v
    return str(f.numerator) if f.denominator == 1 else f"{f.numerator}/{f.denominator}"


def line_eatinc(profile, speeds):
    """op line for `SimultaneousEating().bistochastic(profile, speeds)`; profile: (n, n) array with NaN,
    speeds: n numbers (Fractions / ints / floats that are exact dyadic or p/q given as Fraction)"""
    profile = np.asarray(profile, dtype=float)
    n = profile.shape[0]
    toks = ["eatinc", str(n)]
    toks += [tok_optnat(profile[i, j]) for i in range(n) for j in range(profile.shape[1])]
    toks += [tok_rat(s) for s in speeds]
    return " ".join(toks)


def line_eatinccomplete(profile):
    profile = np.asarray(profile, dtype=float)
    n = profile.shape[0]
    toks = ["eatinccomplete", str(n)]
    toks += [tok_optnat(profile[i, j]) for i in range(n) for j in range(profile.shape[1])]
    return " ".join(toks)


def parse_matrix_answer(ans, n):
    """`ok r11 r12 …` -> (n, n) float array (entries are exact rationals `p/q`); None for `err …`"""
    t = ans.split()
    if not t or t[0] != "ok":
        return None
    vals = [float(Fraction(x)) for x in t[1:]]
    assert len(vals) == n * n, ans
    return np.array(vals).reshape(n, n)


def parse_matrix_exact(ans, n):
    t = ans.split()
    if not t or t[0] != "ok":
        return None
    vals = [Fraction(x) for x in t[1:]]
    return [vals[i * n:(i + 1) * n] for i in range(n)]


# ---------------------------------------------------------------------------------------------------
# generators
# ---------------------------------------------------------------------------------------------------
def gen_row(rng, n, density, style):
    """one strict row with NaN; style 'compact' = acceptable ranks are 1..k, 'gapped' = a complete
    permutation of 1..n with NaNs punched in (ranks keep their gaps), 'wild' = arbitrary distinct ranks"""
    mask = [rng.random() < density for _ in range(n)]
    if style == "compact":
        k = mask.count(False)
        ranks = list(range(1, k + 1))
        rng.shuffle(ranks)
        it = iter(ranks)
        return [None if m else next(it) for m in mask]
    if style == "gapped":
        perm = list(range(1, n + 1))
        rng.shuffle(perm)
        return [None if m else perm[j] for j, m in enumerate(mask)]
    vals = rng.sample(range(0, 40), n)
    return [None if m else vals[j] for j, m in enumerate(mask)]


def gen_profile(rng, n):
    density = rng.uniform(0.1, 0.6)
    style = rng.choice(["compact", "compact", "gapped", "wild"])
    P = [gen_row(rng, n, density, style) for _ in range(n)]
    r = rng.random()
    if r < 0.08:                      # an all-NaN row
        P[rng.randrange(n)] = [None] * n
    elif r < 0.12:                    # everything NaN
        P = [[None] * n for _ in range(n)]
    elif r < 0.18:                    # several agents with the same single acceptable item
        j = rng.randrange(n)
        for i in rng.sample(range(n), rng.randint(1, n)):
            P[i] = [1 if c == j else None for c in range(n)]
    return P


def to_array(P):
    return np.array([[np.nan if v is None else float(v) for v in row] for row in P], dtype=float)


def run_driver(lines):
    out = subprocess.run([DRIVER], input="\n".join(lines) + "\n", capture_output=True, text=True, check=True)
    ans = out.stdout.split("\n")
    if ans and ans[-1] == "":
        ans.pop()
    assert len(ans) == len(lines), (len(ans), len(lines))
    return ans


def real_eat(A, speeds, as_profile):
    prof = A.view(StrictIncompleteProfile) if as_profile else A
    with warnings.catch_warnings():
        warnings.simplefilter("ignore")
        return SimultaneousEating().bistochastic(prof, np.array([float(s) for s in speeds]))


def main():
    seed = int(sys.argv[1]) if len(sys.argv) > 1 else 20260930
    count = int(sys.argv[2]) if len(sys.argv) > 2 else 2400
    nmin = int(sys.argv[3]) if len(sys.argv) > 3 else 1
    nmax = int(sys.argv[4]) if len(sys.argv) > 4 else 6
    rng = random.Random(seed)
    np.random.seed(seed)

    # ---- 1. valid strict incomplete profiles ------------------------------------------------------
    cases, lines = [], []
    for c in range(count):
        n = rng.randint(nmin, nmax)
        P = gen_profile(rng, n)
        if c % 4 == 0:
            speeds = [Fraction(1)] * n
        else:
            speeds = [rng.choice(SPEEDS) for _ in range(n)]
        cases.append((n, P, speeds))
        lines.append(line_eatinc(to_array(P), speeds))
    answers = run_driver(lines)
    comp_answers = run_driver([line_eatinccomplete(to_array(P)) for (_, P, _) in cases])

    n_ok = n_raise = n_bad = n_unacc = n_ps = n_thm = 0
    worst = 0.0
    check_profile_rejects = 0
    for (n, P, speeds), line, ans, cans in zip(cases, lines, answers, comp_answers):
        A = to_array(P)
        try:
            with warnings.catch_warnings():
                warnings.simplefilter("ignore")
                StrictProfile.of(A.copy())
        except Exception:
            check_profile_rejects += 1          # only informational: bistochastic() never validates
        try:
            X = real_eat(A, speeds, as_profile=True)
        except Exception as e:                   # the real code raised
            n_raise += 1
            print("REAL CODE RAISED", type(e).__name__, e, "|", line, "| model:", ans)
            continue
        M = parse_matrix_answer(ans, n)
        if M is None:
            n_bad += 1
            print("MODEL ERR", ans, "|", line, "| real:", X.tolist())
            continue
        d = float(np.max(np.abs(M - X))) if n else 0.0
        worst = max(worst, d)
        if not d <= TOL:
            n_bad += 1
            print("DISAGREE", d, "|", line, "| real:", X.tolist(), "| model:", ans)
            continue
        # the model answer is exactly bistochastic
        E = parse_matrix_exact(ans, n)
        assert all(sum(r) == 1 for r in E) and all(sum(E[i][j] for i in range(n)) == 1 for j in range(n)), line
        # eatInc P = eat (completeFirst P): the completed profile run through the real code gives the same
        C = [int(x) for x in cans.split()[1:]]
        Cm = np.array(C, dtype=float).reshape(n, n)
        assert all(sorted(Cm[i].tolist()) == list(range(1, n + 1)) for i in range(n)), (line, cans)
        Xc = real_eat(Cm, speeds, as_profile=False)
        assert float(np.max(np.abs(Xc - X))) <= TOL if n else True, ("completed differs", line)
        # unit speeds: ProbabilisticSerial
        if all(s == 1 for s in speeds):
            with warnings.catch_warnings():
                warnings.simplefilter("ignore")
                Xp = ProbabilisticSerial().bistochastic(A.view(StrictIncompleteProfile))
            assert float(np.max(np.abs(Xp - M))) <= TOL if n else True, ("ps differs", line)
            n_ps += 1
        if any(P[i][j] is None and E[i][j] > 0 for i in range(n) for j in range(n)):
            n_unacc += 1
        # the proven theorems, checked on the REAL output X
        acc = [[j for j in range(n) if P[i][j] is not None] for i in range(n)]
        best = [min(acc[i], key=lambda j: P[i][j]) if acc[i] else None for i in range(n)]
        for k in range(n):          # C07_best_acceptable_positive
            if best[k] is not None:
                assert X[k, best[k]] > 1e-9, ("best item not positive", line)
        for i in range(n):          # C07_incomplete_unavoidable (shared single item) / _all_nan
            shared = len(acc[i]) == 1 and any(k != i and best[k] == acc[i][0] for k in range(n))
            if shared or not acc[i]:
                assert any(P[i][j] is None and X[i, j] > 1e-9 for j in range(n)), ("unavoidable fails", line)
                n_thm += 1
        # C07_incomplete_unavoidable_hall with S = agents accepting only items of T, T = acceptable set of one agent
        for i0 in range(n):
            T = set(acc[i0])
            S = [i for i in range(n) if set(acc[i]) <= T]
            if len(T) < len(S):
                assert any(P[i][j] is None and X[i, j] > 1e-9 for i in S for j in range(n)), ("hall fails", line)
                n_thm += 1
        n_ok += 1
    print(f"valid strict incomplete profiles: {len(cases)} compared, {n_ok} agree within {TOL} "
          f"(worst abs diff {worst:.3e}), {n_bad} disagree, {n_raise} real-code raises; "
          f"{n_ps} also via ProbabilisticSerial; "
          f"{n_thm} instances of the unavoidability theorems confirmed on the real output; "
          f"{n_unacc} give a positive share of an unacceptable item; "
          f"check_profile(is_complete=False) would reject {check_profile_rejects} of them "
          f"(rows/profiles without a rank 1) but bistochastic() never calls it")

    # ---- 2. malformed inputs ------------------------------------------------------------------------
    bad_lines, bad_desc = [], []
    for c in range(300):
        n = rng.randint(2, 5)
        P = gen_profile(rng, n)
        speeds = [rng.choice(SPEEDS) for _ in range(n)]
        kind = rng.choice(["tie", "speed0", "speedneg"])
        if kind == "tie":
            i = rng.randrange(n)
            idx = [j for j in range(n) if P[i][j] is not None]
            if len(idx) < 2:
                P[i] = [1] * n
            else:
                a, b = rng.sample(idx, 2)
                P[i][a] = P[i][b]
        elif kind == "speed0":
            speeds[rng.randrange(n)] = Fraction(0)
        else:
            speeds[rng.randrange(n)] = Fraction(-1)
        bad_lines.append(line_eatinc(to_array(P), speeds))
        bad_desc.append((kind, n, P, speeds))
    bad_ans = run_driver(bad_lines)
    stats = {}
    for (kind, n, P, speeds), ans in zip(bad_desc, bad_ans):
        assert ans == "err not-wf", (kind, ans)
        try:
            X = real_eat(to_array(P), speeds, as_profile=True)
            res = "returns" if np.all(np.isfinite(X)) else "returns non-finite"
        except Exception as e:
            res = "raises " + type(e).__name__
        stats[(kind, res)] = stats.get((kind, res), 0) + 1
    print("malformed inputs (model answers `err not-wf` on all 300):")
    for k in sorted(stats):
        print("   ", k, stats[k])
    return 0 if (n_bad == 0 and n_raise == 0) else 1


if __name__ == "__main__":
    sys.exit(main())
