"""validate the driver op `irv_wb` against the real Irving.find_all_rotations_and_eliminations + Irving.rotation_weight"""
import sys, random, subprocess, warnings
sys.path.insert(0, "/repo")
import numpy as np
from socialchoicekit.deterministic_matching import Irving, GaleShapley
from socialchoicekit.profile_utils import StrictCompleteProfile, IntegerValuationProfile

DRIVER = "/tmp/leanwork/L9/lean/.lake/build/bin/driver"
MAXSIZE = sys.maxsize


# ---- the functions to move into the harness -------------------------------------------------------------------------
def irv_wb_line(P1, P2, V1, V2):
    """op line of `irv_wb` (same argument grammar as `irv`): n, P1, P2 (ranks 1..n), V1, V2 row-major"""
    n = len(P1)
    toks = ["irv_wb", str(n)]
    for M in (P1, P2, V1, V2):
        toks += [str(int(v)) for row in M for v in row]
    return " ".join(toks)


def irv_wb_expected(P1, P2, V1, V2):
    """canonical answer line of `irv_wb`, computed by calling the real code's stage functions in the order `Irving.scf`
    calls them; the rotation weights are converted to Python ints before they are added (exact sum)"""
    n = len(P1)
    irv = Irving(zero_indexed=True)
    op1 = np.array(P1, dtype=np.int64)
    op2 = np.array(P2, dtype=np.int64)
    v1 = IntegerValuationProfile.of(np.array(V1, dtype=np.int64))
    v2 = IntegerValuationProfile.of(np.array(V2, dtype=np.int64))
    sm = GaleShapley(resident_oriented=True, zero_indexed=True).scf(StrictCompleteProfile.of(op1), StrictCompleteProfile.of(op2), np.ones(n, dtype=int))
    pl1, pl2 = Irving.find_initial_preference_lists(sm, op1 - 1, op2 - 1)
    c1 = {i: np.array(pl1[i]) for i in range(n)}
    c2 = {i: np.array(pl2[i]) for i in range(n)}
    rots, _ = irv.find_all_rotations_and_eliminations(c1, c2)
    ws = [int(Irving.rotation_weight(r, v1, v2)) for r in rots]
    s = sum(max(-w, 0) for w in ws)
    return "ok %d %d" % (1 if s < MAXSIZE else 0, s), rots, ws
# ---------------------------------------------------------------------------------------------------------------------


def rand_profile(rng, n):
    return [[r + 1 for r in rng.sample(range(n), n)] for _ in range(n)]


def latin(n):
    P1 = [[((j - i) % n) + 1 for j in range(n)] for i in range(n)]
    P2 = [[((i - j - 1) % n) + 1 for i in range(n)] for j in range(n)]
    return P1, P2


def main():
    rng = random.Random(20260930)
    cases = []
    for k in range(1500):
        n = rng.choice([1, 2, 3, 3, 4, 4, 5, 5, 6, 7, 8])
        if k % 10 == 0:
            P1, P2 = latin(n)                      # many rotations: n - 1 levels of one rotation with n pairs
        else:
            P1, P2 = rand_profile(rng, n), rand_profile(rng, n)
        mode = k % 4
        if mode == 0:
            hi = 10
        elif mode == 1:
            hi = 10 ** 6
        elif mode == 2:
            hi = 2 ** 57                           # no single weight overflows int64 (|w| <= 4 n hi < 2^63), the SUM may exceed sys.maxsize
        else:
            hi = 2 ** 40
        lo = -hi if k % 3 else 0
        V1 = [[rng.randint(lo, hi) for _ in range(n)] for _ in range(n)]
        V2 = [[rng.randint(lo, hi) for _ in range(n)] for _ in range(n)]
        if k % 7 == 0:                              # valuations that induce the ranks (the usual use of Irving.scf), scaled
            sc = rng.choice([1, 1000, 2 ** 55])
            V1 = [[(n - P1[i][j]) * sc for j in range(n)] for i in range(n)]
            V2 = [[(n - P2[i][j]) * sc for j in range(n)] for i in range(n)]
        cases.append((P1, P2, V1, V2))
    for k in range(300):                            # men's values induced by the ranks and scaled, women indifferent: every rotation is negative
        n = rng.choice([3, 4, 5, 6, 7, 8])
        P1, P2 = latin(n) if k % 2 == 0 else (rand_profile(rng, n), rand_profile(rng, n))
        sc = rng.choice([2 ** 56, 2 ** 57, 2 ** 58, 2 ** 59])
        V1 = [[(n - P1[i][j]) * sc for j in range(n)] for i in range(n)]
        V2 = [[0] * n for _ in range(n)]
        cases.append((P1, P2, V1, V2))
    lines, exps, meta = [], [], []
    with warnings.catch_warnings():
        warnings.simplefilter("error")             # a numpy overflow warning would mean the exact-sum comparison is not meaningful
        for c in cases:
            e, rots, ws = irv_wb_expected(*c)
            lines.append(irv_wb_line(*c))
            exps.append(e)
            meta.append((len(c[0]), len(rots), sum(len(r) for r in rots)))
    out = subprocess.run([DRIVER], input="\n".join(lines) + "\n", capture_output=True, text=True).stdout.split("\n")
    bad = 0
    for i, (e, a) in enumerate(zip(exps, out)):
        if e != a:
            bad += 1
            if bad <= 10:
                print("MISMATCH", i, "python:", e, "lean:", a, "line:", lines[i][:200])
    n0 = sum(1 for e in exps if e.startswith("ok 0"))
    npos = sum(1 for e in exps if e.split()[2] != "0")
    # the proven bound: total number of pairs <= n^2 - n ; sum <= 4 (n^2 - n) B
    viol = 0
    for (n, r, tot), c, e in zip(meta, cases, exps):
        B = max(abs(x) for M in (c[2], c[3]) for row in M for x in row)
        if tot > n * n - n or int(e.split()[2]) > 4 * (n * n - n) * B:
            viol += 1
    print("cases", len(cases), "mismatches", bad, "answers ok 0:", n0, "nonzero sums:", npos,
          "max rotations", max(m[1] for m in meta), "max total pairs", max(m[2] for m in meta), "bound violations", viol)


main()
