"""Brute-force check of the definitions used in the Lean development (package L7).
Exhaustive for n <= 3, random sample for n = 4 (24^8 instances is too many), plus n = 5, 6 samples.
Checks, with the SAME definitions as Sck/Proofs/Lattice*.lean:
  IsSucc mu a b : b is the first woman strictly below mu[a] on a's list who prefers a to her mu-partner
  ExposedRot mu rho (rho a duplicate-free non-empty list of men): for all a in rho, IsSucc mu a mu[next_rho a]
  elim mu rho = mu o formPerm rho
 (b) meet / join are stable matchings
 (c) eliminating an exposed rotation gives a stable matching, weakly worse for all men, strictly for men in rho
 (d) M, M' stable, M <= M', M != M'  ==> the next_M-cycle reached from any man with different partners is an exposed
     rotation rho of M with M <= M/rho <= M'
 (e) every stable matching is reached from the man-optimal one by exposed eliminations
 (f) the set of rotations (as frozensets of pairs) on ANY path between two stable matchings is the same;
     characterisation: rho on a path mu -> nu  iff  for (m,w) in rho: rank(mu m) <= rank w < rank(nu m)
"""
import itertools, random, sys

def stable(n, P1, P2, mu):
    inv = [0]*n
    for a in range(n): inv[mu[a]] = a
    for a in range(n):
        for b in range(n):
            if P1[a][b] < P1[a][mu[a]] and P2[b][a] < P2[b][inv[b]]:
                return False
    return True

def succ(n, P1, P2, mu, a):
    inv = [0]*n
    for x in range(n): inv[mu[x]] = x
    cands = [b for b in range(n) if P1[a][mu[a]] < P1[a][b] and P2[b][a] < P2[b][inv[b]]]
    if not cands: return None
    return min(cands, key=lambda b: P1[a][b])

def nxt(n, P1, P2, mu, a):
    s = succ(n, P1, P2, mu, a)
    if s is None: return a
    return mu.index(s)

def exposed(n, P1, P2, mu, rho):
    if not rho or len(set(rho)) != len(rho): return False
    r = len(rho)
    for i, a in enumerate(rho):
        if succ(n, P1, P2, mu, a) != mu[rho[(i+1) % r]]: return False
    return True

def elim(mu, rho):
    nu = list(mu); r = len(rho)
    for i, a in enumerate(rho): nu[a] = mu[rho[(i+1) % r]]
    return tuple(nu)

def mle(n, P1, mu, nu): return all(P1[a][mu[a]] <= P1[a][nu[a]] for a in range(n))

def all_exposed(n, P1, P2, mu):
    """all exposed rotations of mu, canonical (starting at the min man)"""
    out = set()
    for a in range(n):
        seq = [a]
        while True:
            b = nxt(n, P1, P2, mu, seq[-1])
            if b == seq[-1]: break
            if b in seq:
                cyc = seq[seq.index(b):]
                k = cyc.index(min(cyc)); cyc = cyc[k:] + cyc[:k]
                out.add(tuple(cyc)); break
            seq.append(b)
    for rho in out: assert exposed(n, P1, P2, mu, list(rho))
    return out

def check(n, P1, P2, stats):
    S = [mu for mu in itertools.permutations(range(n)) if stable(n, P1, P2, mu)]
    assert S
    # (b)
    for mu in S:
        for nu in S:
            meet = tuple(mu[a] if P1[a][mu[a]] <= P1[a][nu[a]] else nu[a] for a in range(n))
            join = tuple(nu[a] if P1[a][mu[a]] <= P1[a][nu[a]] else mu[a] for a in range(n))
            assert meet in S and join in S, ("meet/join", P1, P2, mu, nu)
    M0 = [mu for mu in S if all(mle(n, P1, mu, nu) for nu in S)]
    assert len(M0) == 1
    M0 = M0[0]
    # (c)
    for mu in S:
        for rho in all_exposed(n, P1, P2, mu):
            nu = elim(mu, rho)
            assert nu in S and mle(n, P1, mu, nu) and all(P1[a][mu[a]] < P1[a][nu[a]] for a in rho)
            stats['c'] += 1
    # (d)
    for mu in S:
        for nu in S:
            if mu != nu and mle(n, P1, mu, nu):
                for a0 in range(n):
                    if mu[a0] != nu[a0]:
                        seq = [a0]
                        while True:
                            b = nxt(n, P1, P2, mu, seq[-1])
                            assert b != seq[-1], "no successor"
                            assert mu[b] != nu[b]
                            # key lemma
                            s = succ(n, P1, P2, mu, seq[-1])
                            assert P1[seq[-1]][s] <= P1[seq[-1]][nu[seq[-1]]]
                            if b in seq:
                                rho = seq[seq.index(b):]; break
                            seq.append(b)
                        assert exposed(n, P1, P2, mu, rho)
                        m2 = elim(mu, rho)
                        assert mle(n, P1, mu, m2) and mle(n, P1, m2, nu) and m2 in S
                        stats['d'] += 1
    # (e),(f): all paths from each mu; rotations as frozenset of pairs
    from functools import lru_cache
    @lru_cache(None)
    def paths_rots(mu):
        """dict: reachable nu -> set of frozensets(rotation-pair-sets) for all paths (set of distinct rotation SETS)"""
        res = {mu: {frozenset()}}
        for rho in all_exposed(n, P1, P2, mu):
            r = frozenset((a, mu[a]) for a in rho)
            for nu, sets in paths_rots(elim(mu, rho)).items():
                for s in sets:
                    assert r not in s
                    res.setdefault(nu, set()).add(s | {r})
        return res
    R = paths_rots(M0)
    assert set(R.keys()) == set(S), ("reach", P1, P2)
    stats['e'] += len(S)
    for mu in S:
        for nu, sets in paths_rots(mu).items():
            assert len(sets) == 1, ("f", P1, P2, mu, nu, sets)
            rots = next(iter(sets))
            # characterisation
            allrots = next(iter(R[max(S, key=lambda x: sum(P1[a][x[a]] for a in range(n)))]))
            for r in allrots:
                crossed_any = any(P1[m][mu[m]] <= P1[m][w] < P1[m][nu[m]] for (m, w) in r)
                crossed_all = all(P1[m][mu[m]] <= P1[m][w] < P1[m][nu[m]] for (m, w) in r)
                assert crossed_any == crossed_all == (r in rots), ("char", P1, P2, mu, nu, r)
            stats['f'] += 1

def inst_from(n, rows):
    P1 = [list(rows[i]) for i in range(n)]; P2 = [list(rows[n+i]) for i in range(n)]
    return P1, P2

if __name__ == "__main__":
    stats = dict(c=0, d=0, e=0, f=0); cnt = 0
    for n in (1, 2, 3):
        perms = list(itertools.permutations(range(1, n+1)))
        for rows in itertools.product(perms, repeat=2*n):
            P1, P2 = inst_from(n, rows); check(n, P1, P2, stats); cnt += 1
    print("exhaustive n<=3:", cnt, stats)
    rnd = random.Random(7)
    for n, N in ((4, 60000), (5, 6000), (6, 1500), (7, 300)):
        for _ in range(N):
            rows = [rnd.sample(range(1, n+1), n) for _ in range(2*n)]
            P1, P2 = inst_from(n, rows); check(n, P1, P2, stats); cnt += 1
        print("random n=%d:" % n, N, stats)
    # Latin-square instances have many stable matchings
    for n in (4, 5, 6):
        P1 = [[((j - i) % n) + 1 for j in range(n)] for i in range(n)]
        P2 = [[((i - j - 1) % n) + 1 for i in range(n)] for j in range(n)]
        check(n, P1, P2, stats)
    print("total instances", cnt + 3, stats)
