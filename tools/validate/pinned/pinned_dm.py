import numpy as np

from typing import List, Tuple, Optional, Dict, Set
import heapq
import sys

from socialchoicekit.profile_utils import StrictProfile, StrictCompleteProfile, IntegerValuationProfile, compute_ordinal_profile
from socialchoicekit.utils import check_valuation_profile, check_profile
from socialchoicekit.flow import ford_fulkerson

class GaleShapley:
  """
  Resident-oriented Gale Shapley algorithm (RGS) is a deferred acceptance algorithm that finds a stable matching in the two sided matching setting. It is resident optimal.

  Parameters
  ----------
  resident_oriented : bool
    If True, the social choice function will be resident-oriented. If False, the social choice function will be hospital-oriented. Resident-oriented by default.

  zero_indexed : bool
    If True, the output of the social choice function will be zero-indexed. If False, the output will be one-indexed. One-indexed by default.
  """
  def __init__(
    self,
    resident_oriented: bool = True,
    zero_indexed: bool = False,
  ):
    self.index_fixer = 0 if zero_indexed else 1
    self.resident_oriented = resident_oriented

  def scf(
    self,
    resident_profile: StrictProfile,
    hospital_profile: StrictProfile,
    c: np.ndarray,
  ) -> List[Tuple[int, int]]:
    """
    The social choice function for this voting rule. Returns one item allocated for each agent.

    Parameters
    ----------
    resident_profile StrictProfile
      A (N, M) array, where N is the number of residents and M is the number of hospitals. The element at (i, j) indicates the resident's preference for hospital j, where 1 is the most preferred hospital. If the resident finds a hospital unacceptable, the element would be np.nan.

    hospital_profile: StrictProfile
      A (M, N) array, where M is the number of hospitals and N is the number of residents. The element at (i, j) indicates the hospital's preference for resident j, where 1 is the most preferred resident. If the hospital finds a resident unacceptable, the element would be np.nan.

    c: np.ndarray
      A M-array containing the capacities of the hospitals.

    Returns
    -------
    List[Tuple[int, int]]
      A list containing assignments (resident, hospital) for each assignment.
    """
    n = resident_profile.shape[0]
    m = resident_profile.shape[1]

    if n != hospital_profile.shape[1] or m != hospital_profile.shape[0]:
      raise ValueError("The resident profile and hospital profile dimensions do not match.")

    # Decrease by one because we will be using 0-indexing to access the ranked versions of these profiles.
    rprofile = resident_profile.view(np.ndarray) - 1
    hprofile = hospital_profile.view(np.ndarray) - 1

    # NaN will be put last.
    ranked_rprofile = np.argsort(rprofile, axis=1)
    ranked_hprofile = np.argsort(hprofile, axis=1)

    if self.resident_oriented:
      # Key: resident, value = the last hospital the resident applied to
      resident_applications = {}

      # Key: hospital, value = list of residents the hospital is matched to,
      # where each resident is expressed as the ranked position for that hospital.
      # In resident-oriented Gale Shapley this is a priority queue.
      hospital_waiting_lists = {i: [] for i in range(m)}

      # Initially, everyone applies.
      next_current_applicants = np.ones(n, dtype=int)

      while True:
        if np.all(next_current_applicants != 1):
          break

        # Copy because we don't want the modification to take effect until the next iteration of the loop.
        current_applicants = np.array(next_current_applicants)

        # resident, next_hospital, dropped_resident are 0-indexed positions originally supplied in the input.
        # last_applied_hospital_rank is a 0-indexed position in the ranked resident profile.
        for resident in range(n):
          if current_applicants[resident] == 0 or current_applicants[resident] == 2:
            # Resident already has a match or rejection is confirmed.
            continue

          last_applied_hospital_rank = resident_applications.get(resident, -1)
          if last_applied_hospital_rank >= m - 1:
            # Resident has applied to all hospitals.
            next_current_applicants[resident] = 2
            continue
          next_hospital = ranked_rprofile[resident, last_applied_hospital_rank + 1]
          if np.isnan(rprofile[resident, next_hospital]):
            # Candidate has applied to all hospitables they find acceptable. (Yet have not gotten accepted into any)
            next_current_applicants[resident] = 2
            continue

          resident_applications[resident] = last_applied_hospital_rank + 1

          if np.isnan(hprofile[next_hospital, resident]):
            # Candidate is unacceptable to the hospital. Auto-rejected.
            continue

          hospital_waiting_list = hospital_waiting_lists.get(next_hospital, [])
          # Negate resident rank because heapq is a min heap.
          heapq.heappush(hospital_waiting_list, int(hprofile[next_hospital, resident] * -1))
          next_current_applicants[resident] = 0

          if len(hospital_waiting_list) <= c[next_hospital]:
            # Hospital has not reached capacity yet.
            continue

          # Hospital has reached capacity.
          # Revert back from negated resident rank
          dropped_resident = ranked_hprofile[next_hospital, heapq.heappop(hospital_waiting_list) * -1]
          next_current_applicants[dropped_resident] = 1

      ans = []
      for hospital in range(m):
        for resident_rank in hospital_waiting_lists.get(hospital, []):
          # Revert back from negated resident rank
          ans.append((int(ranked_hprofile[hospital, resident_rank * -1]) + self.index_fixer, hospital + self.index_fixer))
      return ans

    else:
      # Key: resident, value = the last resident the hospital offered to
      hospital_offers = {}

      resident_waiting_lists = {i: -1 for i in range(n)}

      # np.nan if hospital is terminally undersubscribed.
      hospital_accepted_offers = np.zeros(m, dtype=int)
      current_offerers = np.ones(m, dtype=int)

      while True:
        current_offerers = np.where(current_offerers == 2, 2, np.where(c == hospital_accepted_offers, 0, 1))
        if np.all(current_offerers != 1):
          break

        # hospital, next_resident, dropped_hospital are 0-indexed positions originally supplied in the input.
        # last_applied_resident_rank is a 0-indexed position in the ranked resident profile.
        for hospital in range(m):
          if current_offerers[hospital] == 0 or current_offerers[hospital] == 2:
            # Hospital already has a match or undersubscription is confirmed.
            continue

          last_applied_resident_rank = hospital_offers.get(hospital, -1)
          if last_applied_resident_rank >= n - 1:
            # Hospital has offered to all residents.
            current_offerers[hospital] = 2
            continue
          next_resident = ranked_hprofile[hospital, last_applied_resident_rank + 1]
          if np.isnan(hprofile[hospital, next_resident]):
            # Hospital has offered to all residents they find acceptable. (Yet are undersubscribed)
            current_offerers[hospital] = 2

          hospital_offers[hospital] = last_applied_resident_rank + 1

          if np.isnan(rprofile[next_resident, hospital]):
            # Hospital is unacceptable to the resident. Auto-rejected.
            continue

          # Negate resident rank because heapq is a min heap.
          current_accepted_hospital = resident_waiting_lists[next_resident]
          if current_accepted_hospital == -1 or rprofile[next_resident, hospital] < rprofile[next_resident, current_accepted_hospital]:
            # Resident has not received any offers yet or the hospital is more preferred than the resident's current offer.
            hospital_accepted_offers[hospital] += 1
            hospital_accepted_offers[current_accepted_hospital] -= 1
            resident_waiting_lists[next_resident] = hospital

      ans = []
      for resident in range(n):
        hospital = resident_waiting_lists.get(resident, -1)
        if hospital == -1:
          continue
        ans.append((resident + self.index_fixer, hospital + self.index_fixer))
      return ans

class Irving:
  """
  Algorithm for computing an optimal stable matching introduced in [ILG1987]_ and modified for cardinal utilities (called weighted preference lists in the paper).
  This algorithm works with a simplified version of the hospital resident problem (HR) where each hospital can only take one resident, and the number of hospitals and residents are equal. We call this the stable marriage problem (SM).
  We replace residents with men and hospitals with women.
  The algorithm also will only work with complete valuation profiles.

  Parameters
  ----------
  zero_indexed : bool
    If True, the output of the social choice function will be zero-indexed. If False, the output will be one-indexed. One-indexed by default.
  """
  def __init__(
    self,
    zero_indexed: bool = False,
  ):
    self.index_fixer = 0 if zero_indexed else 1

  def scf(
    self,
    valuation_profile_1: IntegerValuationProfile,
    valuation_profile_2: IntegerValuationProfile,
    profile_1: Optional[StrictCompleteProfile] = None,
    profile_2: Optional[StrictCompleteProfile] = None,
  ) -> List[Tuple[int, int]]:
    """
    The social choice function for this voting rule. Returns a stable matching that optimizes social welfare based on the given valuation profile.
    The optional ordinal profile parameters will be useful if the valuation profile(s) provided are simulated (or estimated) and contains ties.
    The ordinal profile(s) will be used to maintain stability.
    The Irving algorithm [ILG1987]_ assumes a strict ordering of preferences to create rotations. If a strict complete ordinal profile is not given, the ordinal profile will be automatically computed from the valuation profile (ties will be randomly broken).
    To break ties in some other way, use profile_utils.compute_ordinal_profile.

    Parameters
    ----------
    valuation_profile_1: IntegerValuationProfile
      A (N, N) array, where N is the number of men and also the number of women. The element at (i, j) indicates the ith man's cardinal preference for woman j.
    valuation_profile_2: IntegerValuationProfile
      A (N, N) array, where N is the number of women and also the number of men. The element at (i, j) indicates the ith woman's cardinal preference for man j.
    profile_1: Optional[StrictCompleteProfile]
      An optional (N, N) array, where N is the number of men and also the number of women. The element at (i, j) indicates the ith man's ordinal preference for woman j. 1 is the most preferred.
      If None, then the ordinal profile will be computed from the valuation profile.
    profile_2: Optional[StrictCompleteProfile]
      An optional (N, N) array, where N is the number of women and also the number of men. The element at (i, j) indicates the ith woman's ordinal preference for man j. 1 is the most preferred.
      If None, then the ordinal profile will be computed from the valuation profile.

    Returns
    -------
    List[Tuple[int, int]]
      A list containing assignments (resident, hospital) for each assignment.
    """
    check_valuation_profile(valuation_profile_1, is_complete=True)
    check_valuation_profile(valuation_profile_2, is_complete=True)

    if isinstance(profile_1, StrictCompleteProfile):
      check_profile(profile_1, is_complete=True, is_strict=True)
      ordinal_profile_1 = profile_1.view(np.ndarray)
    else:
      ordinal_profile_1 = compute_ordinal_profile(valuation_profile_1).view(np.ndarray)
    if isinstance(profile_2, StrictCompleteProfile):
      check_profile(profile_2, is_complete=True, is_strict=True)
      ordinal_profile_2 = profile_2.view(np.ndarray)
    else:
      ordinal_profile_2 = compute_ordinal_profile(valuation_profile_2).view(np.ndarray)

    n = valuation_profile_1.shape[0]
    assert (n, n) == valuation_profile_1.shape
    assert (n, n) == valuation_profile_2.shape
    assert (n, n) == ordinal_profile_1.shape
    assert (n, n) == ordinal_profile_2.shape

    # Get the male optimal stable matching.
    stable_matching = GaleShapley(resident_oriented=True, zero_indexed=True).scf(
      StrictCompleteProfile.of(ordinal_profile_1),
      StrictCompleteProfile.of(ordinal_profile_2),
      np.ones(n, dtype=int)
    )
    # Capacity requriement is tested in TestDeterministicMatching.

    # Check each man is matched to exactly one woman and vice versa.
    assert len(stable_matching) == n
    assert len(set([i for i, _ in stable_matching])) == n
    assert len(set([j for _, j in stable_matching])) == n

    preference_lists_1, preference_lists_2 = self.find_initial_preference_lists(stable_matching, ordinal_profile_1 - 1, ordinal_profile_2 - 1)

    # Copy because find_all_rotations_and_eliminations will consume these lists.
    initial_preference_lists_1 = {i: np.array(preference_lists_1[i]) for i in range(n)}
    initial_preference_lists_2 = {i: np.array(preference_lists_2[i]) for i in range(n)}

    rotations, eliminating_rotation_of_pair = self.find_all_rotations_and_eliminations(initial_preference_lists_1, initial_preference_lists_2)

    # Construct P'
    P_prime = self.construct_sparse_rotation_poset_graph(rotations, preference_lists_1, eliminating_rotation_of_pair)

    maximum_weight_closed_subset = self.find_maximum_weight_closed_subset(P_prime, rotations, valuation_profile_1, valuation_profile_2)

    rotations_to_eliminate = [rotations[i] for i in maximum_weight_closed_subset]
    ans = self.eliminate_rotations(stable_matching, rotations_to_eliminate)
    return [(i + self.index_fixer, j + self.index_fixer) for i, j in ans]

  @staticmethod
  def find_initial_preference_lists(
    stable_marriage:  List[Tuple[int, int]],
    profile_1: np.ndarray,
    profile_2: np.ndarray,
  ) -> Tuple[Dict[int, np.ndarray], Dict[int, np.ndarray]]:
    """
    This is an internal routine to find the initial preference lists.

    Parameters
    ----------
    stable_marriage: List[Tuple[int, int]]

    profile_1: np.ndarray
      0-indexed.
      Note: this argument will be consumed and change to the preference list after applying al rotations found.

    profile_2: np.ndarray
      0-indexed.
      Note: this argument will be consumed and change to the preference list after applying al rotations found.

    Returns
    -------
    Tuple[Dict[int, np.ndarray], Dict[int, np.ndarray]]
      all entries are 0-indexed
      all arrays should have np.integer dtype.
    """
    n = profile_1.shape[0]

    # 0-indexed
    ranked_profile_1 = np.argsort(profile_1, axis=1)
    ranked_profile_2 = np.argsort(profile_2, axis=1)

    # Reconstruct preference lists. (0-indexed)
    # We first cut [0, matched_woman) from the man's preference lists because of Property 3 in Irving et al (1987): in the male optimal solution, every man is matched to the first woman on his shortlist.
    preference_lists_1 = {i: ranked_profile_1[i, profile_1[i, j]:] for i, j in stable_marriage}
    # We first cut (matched_man, n-1] from the woman's preference lists because of Property 2 in Irving et al (1987): in the male optimal solution, every woman is matched to the last man on her shortlist.
    preference_lists_2 = {j: ranked_profile_2[j, :profile_2[j, i] + 1] for i, j in stable_marriage}

    # We then reduce the shortlist to enforce the first statement of Property 2.
    # This is O(n^3) using a naive approach.
    new_preference_lists_1 = {}
    new_preference_lists_2 = {}
    for i in range(n):
      new_preference_lists_1[i] = np.array([])
      for j in preference_lists_1[i]:
        if i in preference_lists_2[j]:
          new_preference_lists_1[i] = np.append(new_preference_lists_1[i], j)
    for j in range(n):
      new_preference_lists_2[j] = np.array([])
      for i in preference_lists_2[j]:
        if j in new_preference_lists_1[i]:
          new_preference_lists_2[j] = np.append(new_preference_lists_2[j], i)

    for i in range(n):
      new_preference_lists_1[i] = new_preference_lists_1[i].astype(np.int64)
      new_preference_lists_2[i] = new_preference_lists_2[i].astype(np.int64)
    return new_preference_lists_1, new_preference_lists_2

  def find_all_rotations_and_eliminations(
    self,
    preference_lists_1: Dict[int, np.ndarray],
    preference_lists_2: Dict[int, np.ndarray],
  ) -> Tuple[List[List[Tuple[int, int]]], Dict[Tuple[int, int], int]]:
    """
    This is an internal routine to find the set of all rotations that we can obtain by eliminating some rotations, as described in [ILG1987]_. This includes the rotations that are already exposed in a stable matching.
    We also note for each pair if there is a rotation that eliminates it.
    The parameters indicate the reduced preference lists at the time of finding a stable matching.

    Complexity
    ----------
    O(n^3)

    Parameters
    ----------
    preference_lists_1: Dict[int, np.ndarray]
      A dictionary where the key is an integer indicating a man in 0-index. The value is an array of integers. The kth element indicates the man's kth most preferred woman in his shortlist in 0-index.
      This shortlist must be reduced.
      The dictionary must contain n keys and each preference list must be at most n long.
    preference_lists_2: Dict[int, np.ndarray]
      A dictionary where the key is an integer indicating a woman in 0-index. The value is an array of integers. The kth element indicates the woman's kth most preferred man in her shortlist in 0-index.
      This shortlist must be reduced.
      The dictionary must contain n keys and each preference list must be at most n long.

    Returns
    -------
    Tuple[List[List[Tuple[int, int]]], Dict[Tuple[int, int], int]
      Each item is described below.

    List[List[Tuple[int, int]]]
      A list containing all the rotations reachable in the stable matching. Each rotation is a list of 0-indexed man-woman pairs.

    Dict[Tuple[int, int], int]
      A map from a 0-indexed man-woman pair (m, w) to the 0-indexed index (in the first item of the returned tuple) of the rotation that eliminates it.
    """
    n = len(preference_lists_1)
    assert n == len(preference_lists_2)

    ans = []

    # Use binary indicator representation to allow for faster access to see if an element is in the preference list.
    # This technique allows for the entire routine to be O(n^3).
    # 1 to indicate that the pair is still in the preference list. 0 to indicate otherwise.
    preference_matrix_1 = {(i, j): 1 for i in range(n) for j in preference_lists_1[i]}
    preference_matrix_2 = {(j, i): 1 for j in range(n) for i in preference_lists_2[j]}

    # Male preference list is incomplete to the right of the start pointer
    # and is indicated by [start_pointer, r)
    # where r is the original length of the preference list.
    # Female preference list is complete and is indicated by [0, end_pointer]

    # No node can be in two cycles at once in G(S).
    # Therefore, no man or woman is in two rotations at once.
    # Hence, we eliminate all the rotations in the same level simultaneously to expose a new set of rotations.

    eliminating_rotations_of_pair = {}
    current_rotation = -1
    while True:
      rotations = self.find_rotations(preference_lists_1, preference_lists_2)
      if len(rotations) == 0:
        break
      ans += rotations
      # The outer two loops are O(n) combined
      # because we only update the preference lists once for each person in each level.
      for rotation in rotations:
        current_rotation += 1
        # Eliminate.
        r = len(rotation)
        for i in range(r):
          m_i_minus_1 = rotation[(i - 1) % r][0]
          w_i = rotation[i][1]
          k = len(preference_lists_2[w_i]) - 1
          # This part is O(n) in total of all levels.
          while k >= 0:
            if preference_lists_2[w_i][k] == m_i_minus_1:
              preference_lists_2[w_i] = preference_lists_2[w_i][:k + 1]
              break
            preference_matrix_2[(w_i, preference_lists_2[w_i][k])] = 0
            eliminating_rotations_of_pair[(preference_lists_2[w_i][k], w_i)] = current_rotation
            k -= 1
      # Eliminate male preference lists. O(n^2)
      for i in range(n):
        k = 0
        while True:
          if k >= preference_lists_1[i].shape[0]:
            preference_lists_1[i] = np.array([])
            break
          j = preference_lists_1[i][k]
          in_preference_list = preference_matrix_2.get((j, i), 0)
          if in_preference_list:
            preference_lists_1[i] = preference_lists_1[i][k:]
            break
          preference_matrix_1[(i, j)] = 0
          k += 1
        # Since the first two elements of each male preference list has to be valid, we have to eliminate again.
        k = 1
        while True:
          if k >= preference_lists_1[i].shape[0]:
            # :1 will return an empty array safely if the original array is empty.
            preference_lists_1[i] = preference_lists_1[i][:1]
            break
          j = preference_lists_1[i][k]
          in_preference_list = preference_matrix_2.get((j, i), 0)
          if in_preference_list:
            preference_lists_1[i] = np.append(preference_lists_1[i][0], preference_lists_1[i][k:])
            break
          k += 1
    return ans, eliminating_rotations_of_pair

  def find_rotations(
    self,
    preference_lists_1: Dict[int, np.ndarray],
    preference_lists_2: Dict[int, np.ndarray],
  ) -> List[List[Tuple[int, int]]]:
    """
    This is an internal routine to find the set of all rotations that are exposed in a stable matching, given the preference lists.
    We find the solution by constructing the graph G(S) as described in [ILG1987]_ and finding all cycles in G(S).

    Complexity
    ----------
    O(n)

    Parameters
    ----------
    preference_lists_1: Dict[int, np.ndarray]
      A dictionary where the key is an integer indicating a man in 0-index. The value is an array of integers. The kth element indicates the man's kth most preferred woman in his shortlist in 0-index.
      Each man's shortlist does not have to be fully reduced. Only the first and second elements are used.
      The dictionary must contain n keys and each preference list must be at most n long.
    preference_lists_2: Dict[int, np.ndarray]
      A dictionary where the key is an integer indicating a woman in 0-index. The value is an array of integers. The kth element indicates the woman's kth most preferred man in her shortlist in 0-index.
      Each woman's shortlist does not have to be reduced. Only the last element is used.
      The dictionary must contain n keys and each preference list must be at most n long.

    Returns
    -------
    List[List[Tuple[int, int]]]
      A list containing all the rotations in exposed the stable matching. Each rotation is a list of 0-indexed man-woman pairs.
    """
    # Graph G(S)
    # Nodes: man (0-indexed)
    # Edges: betwen man i and man i' if the woman who is second on man i's preference list
    # has man i' at the top of her preference list.
    # Note that in this graph, each node has at most one outgoing edge.
    n = len(preference_lists_1)
    assert n == len(preference_lists_2)
    G = {i: [] for i in range(n)}
    for i in range(n):
      if len(preference_lists_1[i]) <= 1:
        continue
      j = preference_lists_1[i][1]
      i_prime = preference_lists_2[j][-1]
      if i != i_prime:
        G[i].append(i_prime)

    # Find all cycles in G(S)
    # We exploit the fact that G(S) is a directed graph with at most one outgoing edge from each node.
    visited = [False] * n
    start_point = 0
    cycles = []
    while start_point < n:
      if visited[start_point]:
        start_point += 1
        continue
      cycle = []
      current_node = start_point
      while not visited[current_node]:
        visited[current_node] = True
        # Reached a node with no outgoing edges. This is possible if the shortlist has less than 2 elements.
        if (len(G[current_node]) == 0):
          break
        next_node = G[current_node][0]
        cycle.append((current_node, preference_lists_1[current_node][0]))
        current_node = next_node
      # If we have an outgoing edge from the current node,
      # we might have found a cycle. Check.
      if len(preference_lists_1[current_node]) > 0:
        start_cycle_pair = (current_node, preference_lists_1[current_node][0])
        if start_cycle_pair in cycle:
          index = cycle.index(start_cycle_pair)
          cycles.append(cycle[index:])
    return cycles

  def construct_sparse_rotation_poset_graph(
    self,
    rotations: List[List[Tuple[int, int]]],
    preference_lists_1: Dict[int, np.ndarray],
    eliminating_rotation_of_pair: Dict[Tuple[int, int], int],
  ) -> Dict[int, List[int]]:
    """
    This is an internal routine to construct sparse rotation poset graph P' as described in [ILG1987]_
    Nodes: rotation
    Edges: From rule 1 and 2

    Rule 1: If (m, w) is a member of a rotation, say pi, and w' is the first woman
    below w in m's list such that (m, w') is a member of some other rotation,
    say rho, then P' contains adirected edgefrom pi to rho.
    Rule 2: If (m, w') is not a member of any rotation, but is eliminated by some rotation,
    say pi, and w is the first woman above w' in m's list such that (m, w) is
    a member of some rotation, say rho, then P' contains a directed edge from pi to rho.
    The way we implement Rule 2 is for all pairs (m, w) that are members of some rotation,
    we find all pairs (m, w') where w' is between w and the next w'' such that (m, w'') is a member of some rotation.

    Parameters
    ----------
    rotations: List[List[Tuple[int, int]]]

    preference_lists_1: Dict[int, np.ndarray]
      preference_lists_2 is not necessary.

    eliminating_rotation_of_pair: Dict[Tuple[int, int], int]
    """
    # Rotation poset graph P'
    P_prime = {pi: [] for pi in range(len(rotations))}
    n = len(preference_lists_1)

    rotation_of_pair = {}
    for index, rotation in enumerate(rotations):
      for i, j in rotation:
        rotation_of_pair[(i, j)] = index

    for m in range(n):
      j = 0
      # Cannot create edges from the last woman on the preference list. End at n - 1.
      while j < len(preference_lists_1[m]) - 1:
        w = preference_lists_1[m][j]
        if (m, w) not in rotation_of_pair:
          # We want to construct (m, w) which is in a rotation
          # as the rotation that (m, w) belongs to becomes the destination of an edge.
          # So skip.
          j += 1
          continue
        j_prime = j + 1
        while j_prime < len(preference_lists_1[m]):
          w_prime = preference_lists_1[m][j_prime]
          if (m, w_prime) in rotation_of_pair:
            # Rule 1 is satisfied.
            pi = rotation_of_pair[(m, w)]
            rho = rotation_of_pair[(m, w_prime)]
            # Draw edge from pi to rho if not already drawn.
            if (rho not in P_prime[pi]):
              P_prime[pi].append(rho)
            break
          elif (m, w_prime) in eliminating_rotation_of_pair:
            # Rule 2 is satisfied.
            pi = eliminating_rotation_of_pair[(m, w_prime)]
            rho = rotation_of_pair[(m, w)]
            # Check that w_prime is more preferred than the woman m receives next in rho.
            rotation = rotations[rho]
            w_next = rotation[(rotation.index((m, w)) + 1) % len(rotation)][1]
            w_rank = np.where(preference_lists_1[m] == w_prime)[0][0]
            w_next_rank = np.where(preference_lists_1[m] == w_next)[0][0]
            if w_rank < w_next_rank:
              # Draw edge from pi to rho if not already drawn.
              if rho not in P_prime[pi]:
                P_prime[pi].append(rho)
          j_prime += 1
        # We have that Rule 1 was satisfied last unless we've reached the end of m's preference list. (Because if rule 2 was satisfied, j_prime would increment and the loop would continue).
        # Hence, w_prime is in some rotation. We set this to the next pi.
        j = j_prime
    return P_prime

  def find_maximum_weight_closed_subset(
    self,
    P_prime: Dict[int, List[int]],
    rotations: List[List[Tuple[int, int]]],
    valuation_profile_1: IntegerValuationProfile,
    valuation_profile_2: IntegerValuationProfile,
  ) -> Set[int]:
    """
    This is an internal routine to obtain a maximum weight closed subset of the rotation poset graph P'.
    This routine uses Ford-Fulkerson to find the maximum weight closed subset.

    Parameters
    ----------
    P_prime: Dict[int, List[int]]
      The rotation poset graph P', which can be constructed by construct_sparse_rotation_poset_graph

    rotations: List[List[Tuple[int, int]]]
      Set of all rotations in the rotation poset graph. The index of the rotation corresponds to its index in P'.

    valuation_profile_1: IntegerValuationProfile

    valuation_profile_2: IntegerValuationProfile

    Returns
    -------
    Set[int]
      The maximum weight closed subset of the rotation poset graph P'. Each element is the index of a rotation in the input rotations (and corresponds to a node in P').
    """
    # source s: -1, sink t: -2
    # Elements represent (destination, capacity)
    network: Dict[int, List[Tuple[int, int]]] = {-1: [], -2: []}
    temp_maximum_weight_closed_subset = set()
    for pi in P_prime:
      network[pi] = [(rho, sys.maxsize) for rho in P_prime[pi]]
      w = self.rotation_weight(rotations[pi], valuation_profile_1, valuation_profile_2)
      # We want to get the maximum weight closed subset.
      # A directed edge is added from every positive weighted node to t.
      if w > 0:
        network[pi].append((-2, int(w)))
        # Positive node. Add to the maximum weight closed subset temporarily.
        temp_maximum_weight_closed_subset.add(pi)
      # A directed edge is added from s to every negative weighted node.
      elif w < 0:
        network[-1].append((pi, int(-w)))

    _, min_cut = ford_fulkerson(network, -1, -2)

    min_cut.remove(-1)

    # The positive nodes in the maximum weight closed subset are the ones whose edge into t are not cut by the min cut.
    # In other words, they should not be in the source side of the min cut.

    maximum_weight_closed_subset = set()
    for positive_node in temp_maximum_weight_closed_subset:
      if positive_node not in min_cut:
        maximum_weight_closed_subset.add(positive_node)

    # Find the closure, i.e. all edges that are predecessors of the positive edges in P'.
    while True:
      continue_loop = False
      for rho in P_prime.keys():
        if rho in maximum_weight_closed_subset:
          continue
        if len(set(P_prime[rho]).intersection(maximum_weight_closed_subset)) > 0:
          maximum_weight_closed_subset.add(rho)
          continue_loop = True
      if not continue_loop:
        break
    return maximum_weight_closed_subset

  @staticmethod
  def rotation_weight(
    rotation: List[Tuple[int, int]],
    valuation_profile_1: IntegerValuationProfile,
    valuation_profile_2: IntegerValuationProfile,
  ) -> float:
    """
    The weight of a rotation as defined in [ILG1987]_.
    The weight of the rotation must be smaller than sys.maxsize to work with Irving.

    Parameters
    ----------
    rotation: List[Tuple[int, int]]
      Rotations of the form [(m_0, w_0), ..., (m_{r-1}, w_{r-1})] where m_i, w_i are 0-indexed.

    valuation_profile_1: IntegerValuationProfile
      The male valuation profile.

    valuation_profile_1: IntegerValuationProfile
      The female valuation profile.

    Returns
    -------
    float
      The weight of the rotation.
    """
    r = len(rotation)
    ans = 0
    # In Irving et al. (1987), the weight is calculated as follows
    # w(rho) = (mr(m_0, w_0) - mr(m_0, w_1)) + ... + (mr(m_{r-1}, w_{r-1}) - mr(m_{r-1}, w_0)) + (wr(w_0, m_0) - wr(w_0, m_{r-1})) + ... + wr(w_{r-1}, m_{r-1}) - wr(w_{r-1}, m_{r-2})
    for i in range(r):
      # The above translates to
      # ans += mr(m_i, w_i) - mr(m_i, w_{(i+1) % r})
      # ans += wr(w_i, m_i) - wr(w_i, m_{(i-1) % r})
      # Except
      # mr(i, j) = k if j is the kth choice (1-indexed) of i.
      # wr(i, j) = k if i is the kth choice (1-indexed) of j.
      # In our implementation, we want values that are more preferred
      # to have high utility value.
      # In the case mr(m_i, w_i) - mr(m_i, w_{(i+1) % r}) = k,
      # the pair (m_i, w_{(i + 1) % r}) is WORSE than (m_i, w_i) for m_i by k.
      # When we substitute mr with valuation_profile_1, we have that
      # the former is BETTER than the latter by k.
      # Hence, the sign of the difference is flipped.
      ans += valuation_profile_1[rotation[i][0], rotation[i][1]] - valuation_profile_1[rotation[i][0], rotation[(i + 1) % r][1]]
      ans += valuation_profile_2[rotation[i][1], rotation[i][0]] - valuation_profile_2[rotation[i][1], rotation[(i - 1) % r][0]]
    ans *= -1
    return ans

  def eliminate_rotations(
    self,
    stable_matching: List[Tuple[int, int]],
    rotations: List[List[Tuple[int, int]]],
  ) -> List[Tuple[int, int]]:
    """
    This is an internal routine to apply a series of eliminations to a stable matching in the order given in the rotations parameter.
    Eliminating with valid rotations will ensure stability.
    Algorithm as described in [ILG1987]_.

    Parameters
    ----------
    stable_matching: List[Tuple[int, int]]
      A stable matching. This is in the form outputted by Gale-Shapley.

    rotations: List[List[Tuple[int, int]]]
      A list containing all the rotations to be applied. Each rotation is in the form (m_0, w_0), ..., (m_{r-1}, w_{r-1}) where each m_i, w_i are 0-indexed.
      Rotations must be in the order of application.
      Subsequent rotations must be exposed after the previous rotation is applied.

    Returns
    -------
    List[Tuple[int, int]]
      The stable matching after applying the eliminations.
    """
    # Copy to avoid changing the original argument.
    current_stable_matching = list(stable_matching)

    for rotation in rotations:
      r = len(rotation)
      for i in range(r):
        pair = rotation[i]
        # Note that this pair might be anywhere in the rotation.
        if pair not in current_stable_matching:
          raise ValueError(f"The rotation {rotation} is not exposed in the stable matching (after eliminating previous rotations).")
        pair_index = current_stable_matching.index(pair)
        # We only modify the pair in position pair_index, so we can modify in place.
        current_stable_matching[pair_index] = (rotation[i][0], rotation[(i + 1) % r][1])
    return current_stable_matching

  @staticmethod
  def stable_matching_value(
    stable_matching: List[Tuple[int, int]],
    valuation_profile_1: IntegerValuationProfile,
    valuation_profile_2: IntegerValuationProfile,
  ) -> int:
    """
    The cardinal utility (social welfare) of a stable matching. In [ILG1987]_, this is defined as c(S).

    Parameters
    ----------
    stable_matching: List[Tuple[int, int]]
      A stable matching. This is in the form outputted by Gale-Shapley.

    valuation_profile_1: IntegerValuationProfile

    valuation_profile_2: IntegerValuationProfile

    Returns
    -------
    int
      The cardinal utility (social welfare) of the stable matching.
    """
    ans = 0
    for m, w in stable_matching:
      ans += valuation_profile_1[m, w] + valuation_profile_2[w, m]
    return ans
