#!/usr/bin/env python3
"""Combine the coverage data written by checks run with VERIF_COVERAGE_DIR=<dir> and list the implementation lines that
no check reached.  usage: tools/coverage_report.py <dir> [--json out.json]"""
import sys, os, json, glob
import coverage

d = os.path.abspath(sys.argv[1])
cov = coverage.Coverage(data_file=os.path.join(d, ".coverage"), branch=True)
cov.combine(glob.glob(os.path.join(d, ".coverage.*")), keep=True)
cov.save()
repo = os.environ.get("VERIF_REPO", "/repo")
out = {}
tot_s = tot_m = 0
for f in sorted(glob.glob(os.path.join(repo, "socialchoicekit", "*.py"))):
    try:
        _, stmts, excl, missing, fmt = cov.analysis2(f)
    except Exception as e:
        out[os.path.basename(f)] = {"error": str(e)}
        continue
    tot_s += len(stmts); tot_m += len(missing)
    out[os.path.basename(f)] = {"statements": len(stmts), "missing": missing, "missing_fmt": fmt}
    print(f"{os.path.basename(f):32s} {len(stmts)-len(missing):4d}/{len(stmts):4d}  missing: {fmt}")
print(f"TOTAL {tot_s-tot_m}/{tot_s}")
if "--json" in sys.argv:
    json.dump(out, open(sys.argv[sys.argv.index("--json") + 1], "w"), indent=1)
