#!/usr/bin/env python3
"""Regenerates MANIFEST.json from the table below (kept in one place so it is always valid)."""
import json, os
HERE = os.path.dirname(os.path.dirname(os.path.abspath(__file__)))
ALL = [f"C{i:02d}" for i in range(1, 21)]

CHECKS = {
 "C01": dict(level="proof", design="6/C01",
   text="Lean theorems (gs_no_blocking / feasibility, both orientations, every n, m, capacities) about an executable deferred-acceptance model; the model is tied to the Python code by differential runs (pair sets must be equal) and the direct blocking-pair oracle is evaluated on every implementation output.",
   note="Trusted: Lean kernel + propext/Classical.choice/Quot.sound; the hand-written model (numpy argsort and heapq are modelled as sort-by-rank and remove-worst); adequacy of the model is checked by the correspondence run, which is differential testing.",
   technique="Lean 4 proof over an executable model + differential correspondence"),
}

PENDING_REASON = "check not built yet in this snapshot of /verif (work in progress; see DESIGN.md section 9)"


def main():
    checks = []
    for pid in ALL:
        if pid not in CHECKS:
            continue
        c = CHECKS[pid]
        checks.append({
            "property_id": pid,
            "quick_cmd": f"./check {pid} --tier quick",
            "thorough_cmd": f"./check {pid} --tier thorough",
            "evidence_file": f"evidence/{pid}.json",
            "replay_cmd_template": f"./check {pid} --replay {{path}}",
            "engine": "lean-model-correspondence",
            "level_claimed": {"category": c["level"], "text": c["text"], "design_ref": c["design"]},
            "level_note": c["note"],
            "technique": c["technique"],
        })
    man = {
        "version": 1,
        "setup_cmd": "cd lean && lake build Sck driver",
        "hooks": {"guard": "SOCIALCHOICEKIT_VERIF", "enable": "no source hooks are needed: checks import /repo's working tree in fresh interpreters (SOCIALCHOICEKIT_VERIF=1 is set but read by nothing)",
                  "baseline_off_cmd": "cd /repo && /venv/bin/python -m pytest -ra -q -p no:cacheprovider --timeout=900 --continue-on-collection-errors",
                  "source_commits": [], "add_only": True},
        "engines": [{"name": "lean-model-correspondence", "path": "check",
                     "serves_properties": [c["property_id"] for c in checks],
                     "kind_free_text": "Lean 4 theorems about executable models (lean/Sck) + line-protocol driver + Python differential harness (harness/)"}],
        "checks": checks,
        "notes": "See DESIGN.md. Repairs of genuine defects are 'fix:' commits in /repo, listed in known_findings.json.",
        "not_applicable": [{"property_id": p, "reason": PENDING_REASON} for p in ALL if p not in CHECKS],
    }
    json.dump(man, open(os.path.join(HERE, "MANIFEST.json"), "w"), indent=1)


if __name__ == "__main__":
    main()
