#!/usr/bin/env python3
"""Regenerates MANIFEST.json from the table below (kept in one place so it is always valid)."""
import json, os
HERE = os.path.dirname(os.path.dirname(os.path.abspath(__file__)))
ALL = [f"C{i:02d}" for i in range(1, 21)]

CHECKS = {
 "C01": dict(level="proof", design="6/C01",
   text="Lean theorems (C01_galeShapley: termination, feasibility, no blocking pair, both orientations, every n, m, capacities) about an executable deferred-acceptance model; the model is tied to the Python code by differential runs (pair sets must be equal) and the direct blocking-pair oracle is evaluated on every implementation output.",
   note="Trusted: Lean kernel + propext/Classical.choice/Quot.sound; the hand-written model (numpy argsort and heapq are modelled as sort-by-rank and remove-worst); adequacy of the model is checked by the correspondence run, which is differential testing. One instance per orientation needs more than 10 000 rounds and is beyond the compiled model's practical size: it is judged by the direct feasibility / blocking-pair oracle only and counted separately in the evidence.",
   technique="Lean 4 proof over an executable model + differential correspondence"),
 "C02": dict(level="proof", design="6/C02",
   text="Lean theorems: resident-optimality / -pessimality against an arbitrary stable matching, uniqueness, relabelling equivariance (C02_renumbering); correspondence = model pair set equality, brute-force enumeration of all stable matchings on small instances, relabelling metamorphic runs on the real code.",
   note="Same trusted base as C01; brute force is the reference for 'all stable matchings' in the search for failing inputs; one instance per orientation with a unique stable matching and more than 10 000 rounds is judged without the model (size).",
   technique="Lean 4 proof (invariant 'no achievable partner rejects') + differential correspondence"),
 "C04": dict(level="translation_validation", design="6/C04",
   text="scipy's solver is not modelled; every output is certified: exact rational Hungarian potentials from the harness are checked by the Lean-executable assignCertOk (sound by LP weak duality, C04_cert_sound), raises are certified by a Hall violator (hallCertOk_sound); for n <= 7 the value of the returned assignment must in addition equal the model's own brute-force optimum optAssign, which is PROVED to be the maximum over all acceptable permutations (C04_optAssign_spec, C04_brute_optimal, consistent with the certificate route: C04_cert_value_eq_opt), and the code must raise exactly when optAssign is infeasible; each call runs under a deadline.",
   note="Trusted: Lean kernel/axioms as above, the certificate checkers' soundness theorems, the harness's Hungarian only as a certificate producer.",
   technique="Lean-proved certificate checkers (LP duality, Hall) applied to every output + Lean-proved brute-force specification (n <= 7)"),
 "C05": dict(level="proof", design="6/C05",
   text="Lean theorems about an exact event-driven model mirroring the Python loop (termination within 2n events, bistochastic, the event-sum characterisation of the eating process, sd-envy-freeness for equal speeds); correspondence: float matrix within 1e-7 of the exact model on every case.",
   note="numpy float rounding and the two 1e-9 clamps are outside the model and covered by the property's 1e-7 tolerance.",
   technique="Lean 4 proof (refinement of an abstract eating step) + differential correspondence"),
 "C06": dict(level="proof", design="6/C06",
   text="Lean theorems: replay of any support permutations keeps the matrix balanced, strictly increases zero entries, <= n^2 steps, exact reconstruction, coefficients sum to the row sum; every choice function terminates (Hall). Correspondence: the implementation's own permutations are replayed exactly (equality on dyadic inputs, property tolerances otherwise).",
   note="Float residue on non-dyadic inputs is judged by the property's 1e-6 tolerances; the matching oracle is C09's.",
   technique="Lean 4 proof (Hall + balanced-step invariant) + exact replay correspondence"),
 "C07": dict(level="proof", design="6/C07",
   text="Lean theorems: rsd is injective, acceptable, exactly the serial-dictatorship outcome for every picking order; lottery permutations lie in the support; C07_lottery_end_to_end for complete profiles. The eating process on INCOMPLETE profiles is modelled as the code really behaves (Eat.eatInc): C07_incomplete_counterexample is the recorded known finding as a kernel-checked theorem, C07_incomplete_unavoidable_hall / C07_bistochastic_hall show no bistochastic outcome can avoid it, C07_acceptable_partial is what does hold. Correspondence: recorded numpy shuffle order replayed through the model; lottery draw intercepted and checked against the exact eating matrix; bistochastic on incomplete profiles equals the mirror within 1e-7 with unacceptable shares exactly where the mirror has them. One known finding (eating over NaN) is recorded, not repaired.",
   note="Random draws are observed by seeding and wrapping numpy.random.shuffle/choice.",
   technique="Lean 4 proof for every order/draw + replay of recorded random choices"),
 "C08": dict(level="proof", design="6/C08",
   text="Lean theorems: the executable max-flow model is total (C08_ff_total) and returns a maximum flow and the least minimum cut; flowCutOk is a sound certificate checker. Correspondence: value and cut set equal the model's, the flow dict passes flowCutOk, independent Edmonds-Karp oracle, deadline-supervised calls.",
   note="Two models: the abstract ff (own proved-total search; tie through value, least min cut and the flowCutOk certificate, used by the quick tier so that a harmless rewrite of the search breaks nothing) and the faithful mirror of the code's dfs_path/ford_fulkerson (Dfs.ffDfs: sound, complete, refines ff's augmentation step, terminates; compared path by path in the thorough tier and on the corpus). The helper functions reachable_vertices / flow_across_network / capacity_across_cut are modelled and proved (C08Helpers) and compared as glue (reported, no verdict).",
   technique="Lean 4 proof (max-flow/min-cut duality, totality) + certificate check of every output"),
 "C09": dict(level="proof", design="6/C09",
   text="Lean theorems: mcm returns a maximum matching (C09_mcm_correct), koenigCertOk is sound. Correspondence: matching size equals the model's; the implementation's matching with a Koenig cover passes the Lean checker; independent augmenting-path oracle.",
   note="As C08; convert_bipartite_graph_to_flow_network and positivity_graph are modelled and proved (C09Helpers) and compared as glue.", technique="Lean 4 proof via C08 + Koenig certificate check of every output"),
 "C10": dict(level="proof", design="6/C10",
   text="Lean theorems: winners characterisation, ranking validity, score formulas and cross-rule laws. Correspondence: scores/winners/rankings of every rule equal the model's (exact for integer rules, 1e-12 for Harmonic/utilitarian) plus textbook oracles in exact arithmetic.",
   note="Float Harmonic/utilitarian scores compared at relative 1e-12.", technique="Lean 4 proof + differential correspondence"),
 "C11": dict(level="proof", design="6/C11",
   text="Lean theorems: scores/winners invariant under voter permutation, equivariant under renaming, equal rank multisets tie, histogram factorisation, STV anonymity/neutrality without elimination ties. Correspondence: metamorphic runs of the real code on (profile, permutation, renaming) triples, both sides equal to the model.",
   note="For float Harmonic the factorisation through the rank multiset is checked as a functional table over the run.",
   technique="Lean 4 proof of equivariance + metamorphic correspondence"),
 "C12": dict(level="proof", design="6/C12",
   text="Lean theorems: Copeland = pairwise-majority definition, Condorcet winner unique; STV loop = textbook elimination on the original ballots for every legal choice, majority favourite wins. Correspondence: scores, 'first' winner, and the recorded random eliminations replayed through the model.",
   note="numpy.random.choice is wrapped to record eliminations.", technique="Lean 4 proof + replay of recorded random choices"),
 "C13": dict(level="proof", design="6/C13",
   text="Lean theorems: breakTie accept/first/random, index shift of scf/swf, randomized-scoring probabilities. Correspondence: rules x tie-breakers x index conventions with the same seed; probability vectors intercepted; all matching/allocation/elicitation rules run in both conventions.",
   note="Index-shift theorems are proved for the voting models; for the other rules the shift is checked on the real code only (stated in DESIGN.md).",
   technique="Lean 4 proof + differential / metamorphic correspondence"),
 "C03": dict(level="proof", design="6/C03",
   text="Lean theorems about an executable mirror of the WHOLE algorithm (IrvingAlgo: male-optimal matching by the proved Gale-Shapley model, shortlists, level-wise rotation discovery, sparse rotation poset, maximum-weight closed subset through the proved max-flow model, elimination): C03_irving_sound (every answer is a perfect stable matching) and C03_irving_optimal (every answer has the value Brute.optStable, which is PROVED to be the maximum over all stable matchings: C03_optStable_spec), for every n, under the one hypothesis WeightBound (total negative rotation weight below sys.maxsize, the 'infinite' capacity the code itself uses; decidable: C03_weightBoundB_iff, evaluated on every explored instance; implied by |valuations| <= B with 4 n^2 B < sys.maxsize: C03_irving_optimal_of_bounded). The optimality proof formalises the Irving-Leather-Gusfield theory: lattice of stable matchings (C03_stable_meet/join), every stable matching is reached from the man-optimal one by eliminating exposed rotations (C03_reachable_from_man_optimal), the rotations on a path are unique (C03_path_rotations_unique), optStable = max over elimination sequences, the mirror's discovery finds a maximal chain (C03_allRotations_maximal_chain), the sparse poset's edges are exactly sound and complete (C03_posetGraph_sound_complete: Rules 1 and 2), Picard's reduction for the closed subset (C03_closedSubset_max, from C08). Correspondence: the implementation's final answer AND every internal stage (male-optimal matching, shortlists, rotations + eliminating map, poset edges, rotation weights + chosen closed subset) equal the mirror's; the closed-subset stage is also driven directly on random posets. Independently every output is checked against the model's brute-force optimum (n <= 7) and an LP-dual certificate (z3-found, Lean-checked smCertOk: C03_cert_sound) for larger n.",
   note="Trusted: Lean kernel + propext/Classical.choice/Quot.sound; the hand-written mirror is tied to the Python code stage by stage by differential runs. z3 only finds certificates (never trusted).",
   technique="Lean 4 proof of the algorithm's mirror (soundness + optimality via the rotation-poset theory) + stage-wise differential correspondence + per-output certificates"),
 "C14": dict(level="proof", design="6/C14",
   text="Lean theorems about the threshold fill in ranking-position space (C14_threshold_rule, C14_two_sided, C14_match_two_queries): favourite kept, simulated <= true, set value/lower bound, outside-all-sets upper bound. Correspondence: simulated matrices of k-ARV, lambda-TSF, Match-TwoQueries equal the model's per agent (thresholds from the specification's formula).",
   note="Float threshold comparisons: a value between an exact threshold and its float rounding is ambiguous (excluded, counted).",
   technique="Lean 4 proof + differential correspondence"),
 "C15": dict(level="proof", design="6/C15",
   text="Lean theorems: elicitor state machine for every op sequence and backing function (no duplicate forward, repeat = first answer, counter = forwarded), query budgets via clog2, dependence only on asked values (congruence). Correspondence: logged questions of every rule vs model query sets, re-runs with scrambled unasked entries, random op sequences against the machine.",
   note="As C14.", technique="Lean 4 proof (state-machine invariant, budget, congruence) + differential correspondence"),
 "C16": dict(level="proof", design="6/C16",
   text="Lean theorems: karv/tsf distortion bounds derived from what simulate returns (C16_karv, C16_tsf), rpow thresholds form the ratio chain (C16_rpow_thresholds, in R), distortion helper >= 1. Correspondence: end-to-end inequality on the real code with exact rational welfare, every tie-breaker, helper vs exact ratio and the model.",
   note="The theorems are over Q with abstract thresholds; the float thresholds of the code are tied by the C14 correspondence.",
   technique="Lean 4 proof + end-to-end exact-arithmetic check of the guarantee"),
 "C17": dict(level="proof", design="6/C17",
   text="Composition of the two-sided fill (Lean model simulate2, proved: C14_two_sided, dtsf_sim_int) with the Irving mirror: the end-to-end model ElicitRules.dtsf returns a perfect stable matching (C17_dtsf_sound) whose total SIMULATED value is the maximum over all stable matchings (C17_dtsf_optimal, from C03_irving_optimal, under WeightBound for the simulated weights). Correspondence: simulated profiles equal the model's (sim2), the final answer equals the end-to-end model's (dtsf op); every output is also checked against the model's brute-force optimum optStable (n <= 7) and the Lean-checked LP-dual certificate; the closed-subset stage is driven directly on random posets.",
   note="As C03.", technique="Lean 4 proof of the end-to-end mirror + differential correspondence + per-output certificates"),
 "C18": dict(level="proof", design="6/C18",
   text="Lean theorems: relation checkers (ordinalOkB, strictifyOkB / strictOkB, completeOkB) sound and complete w.r.t. the property clauses for every admissible sort/shuffle order; tie breaking for EVERY numbering of the ties (C18_ties_general; the pinned code violated it on dense numberings: defect F14, fixed); generator spec; consistency predicate accepts/rejects. Correspondence: every output row goes through the checkers; generator outputs equal generateRow on the re-drawn draws; predicate equals the model's.",
   note="Orders chosen by numpy among ties/NaNs are treated as arbitrary.", technique="Lean 4 proof of relation checkers + checker run on every output"),
 "C19": dict(level="proof", design="6/C19",
   text="Lean theorems about convRows on abstract instances (row count/multiplicities, rank per tie mode, unlisted = NaN, wrong type rejected). Correspondence: instances written in PrefLib syntax, parsed by preflibtools, converted by the real code, compared with the model (equality for accept/first, checker for random).",
   note="preflibtools' parser is trusted.", technique="Lean 4 proof + differential correspondence"),
 "C20": dict(level="other", design="6/C20",
   text="Mutation clause: correspondence-only (a pure functional model cannot mutate): every public entry point (enumerated from the modules) is called on random valid arguments with bit-exact before/after snapshots, and on int32/int64/float64 encodings of the same complete profiles. 'Raises in exactly the same cases' clause: the library's validators and parameter checks are modelled in Lean (Validate.lean, 58 theorems C20_*: acceptance characterisations, class-flag table, dtype-freeness of every constructor but IntegerValuationProfile, every well-formed instance of the property theorems is accepted, proved witnesses that the converse fails); about 25 000 validator calls per quick run on valid and malformed arguments in every storage type that can hold the numbers - the verdicts must coincide across storage types (the property) and are compared with the model (reported as model coverage).",
   note="Exempted in-out helpers are listed in harness/c20.py. Level 'other' because the mutation clause has no theorem.", technique="exhaustive entry-point enumeration with bit-exact argument snapshots + Lean model of the validators for the dtype clause"),
}

PENDING_REASON = "check not built yet in this snapshot of /verif (work in progress; see DESIGN.md section 9)"


def main():
    checks = []
    for pid in ALL:
        if pid not in CHECKS:
            continue
        c = CHECKS[pid]
        checks.append({
            "property_id": pid,
            "quick_cmd": f"./check {pid} --tier quick",
            "thorough_cmd": f"./check {pid} --tier thorough",
            "evidence_file": f"evidence/{pid}.json",
            "replay_cmd_template": f"./check {pid} --replay {{path}}",
            "engine": "lean-model-correspondence",
            "level_claimed": {"category": c["level"], "text": c["text"], "design_ref": c["design"]},
            "level_note": c["note"],
            "technique": c["technique"],
        })
    man = {
        "version": 1,
        "setup_cmd": "cd lean && (lake build Sck driver || lake build Sck driver)",
        "hooks": {"guard": "SOCIALCHOICEKIT_VERIF", "enable": "no source hooks are needed: checks import /repo's working tree in fresh interpreters (SOCIALCHOICEKIT_VERIF=1 is set but read by nothing)",
                  "baseline_off_cmd": "cd /repo && /venv/bin/python -m pytest -ra -q -p no:cacheprovider --timeout=900 --continue-on-collection-errors",
                  "source_commits": [], "add_only": True},
        "engines": [{"name": "lean-model-correspondence", "path": "check",
                     "serves_properties": [c["property_id"] for c in checks],
                     "kind_free_text": "Lean 4 theorems about executable models (lean/Sck) + line-protocol driver + Python differential harness (harness/)"}],
        "checks": checks,
        "notes": "See DESIGN.md (sections 10-14 describe the framework as built). Repairs of genuine defects are 'fix:' commits in /repo, listed in known_findings.json. Correspondences of functions outside the property statements (validators, helper functions) are reported in the evidence under glue_correspondences and never produce a VIOLATION.",
        "not_applicable": [{"property_id": p, "reason": PENDING_REASON} for p in ALL if p not in CHECKS],
    }
    json.dump(man, open(os.path.join(HERE, "MANIFEST.json"), "w"), indent=1)


if __name__ == "__main__":
    main()
