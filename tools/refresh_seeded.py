#!/usr/bin/env python3
"""Re-evaluate every seeded change against the current checks (scratch worktrees, several properties side by side) and refresh
the `checks` / `caught_by_*` fields of seeded/<id>/meta.json; the result of the evaluation made when the change was first
ingested is kept under `first_evaluation`.   usage: tools/refresh_seeded.py [--jobs 5] [ids...]"""
import json, os, subprocess, sys
from concurrent.futures import ThreadPoolExecutor
VERIF = os.path.dirname(os.path.dirname(os.path.abspath(__file__)))
args = sys.argv[1:]
jobs = 5
if "--jobs" in args:
    i = args.index("--jobs"); jobs = int(args[i + 1]); del args[i:i + 2]
ids = args or sorted(os.listdir(os.path.join(VERIF, "seeded")))
byprop = {}
for i in ids:
    byprop.setdefault(i.split("-")[0], []).append(i)


def one_prop(prop):
    out = []
    for mid in byprop[prop]:
        d = os.path.join(VERIF, "seeded", mid)
        p = subprocess.run(["/venv/bin/python", os.path.join(VERIF, "tools", "eval_mutant.py"), d, "--props", prop, "--seeds", "0,1", "--scratch"],
                           capture_output=True, text=True)
        try:
            o = json.loads(p.stdout.strip().split("\n")[-1])
        except Exception:
            out.append((mid, "EVAL FAILED " + p.stdout[-200:] + p.stderr[-200:]))
            continue
        mp = os.path.join(d, "meta.json")
        meta = json.load(open(mp))
        if "first_evaluation" not in meta:
            meta["first_evaluation"] = {"checks": meta.get("checks"), "caught_by_quick": meta.get("caught_by_quick"), "caught_by_any_tier": meta.get("caught_by_any_tier")}
        meta["confirmed"] = {"demo_on_clean_tree_rc": o.get("demo_clean_rc"), "demo_on_patched_tree_rc": o.get("demo_patched_rc"),
                             "unit_suite_passed_with_patch": o.get("suite_passed"), "unit_suite_failed_with_patch": o.get("suite_failed"),
                             "how": "tools/eval_mutant.py --scratch: scratch worktree of /repo HEAD; git apply patch.diff there; pytest tests/unit; demo.py; "
                                    "./check <prop> with VERIF_REPO=<worktree>; worktree removed"}
        meta["checks"] = {pp: [{"tier": r["tier"], "seed": r["seed"], "exit": r["rc"], "wall_s": r["wall"],
                                "first_line": ((r["lines"] or [""])[0]).split(" replay=")[0]} for r in rs] for pp, rs in o.get("checks", {}).items()}
        meta["caught_by_quick"] = o.get("caught_quick")
        meta["caught_by_any_tier"] = o.get("caught_any")
        json.dump(meta, open(mp, "w"), indent=1)
        out.append((mid, f"valid={o.get('valid_mutant')} quick={o.get('caught_quick')} any={o.get('caught_any')}"))
        print(mid, out[-1][1], flush=True)
    return out


with ThreadPoolExecutor(max_workers=jobs) as ex:
    list(ex.map(one_prop, sorted(byprop)))
