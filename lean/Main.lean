import Sck.Driver.Ops

partial def loop (stdin stdout : IO.FS.Stream) : IO Unit := do
  let line ← stdin.getLine
  if line.isEmpty then return ()
  stdout.putStrLn (Drv.handle line)
  loop stdin stdout

def main : IO Unit := do
  let stdout ← IO.getStdout
  loop (← IO.getStdin) stdout
  stdout.flush
