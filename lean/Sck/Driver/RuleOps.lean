import Sck.Driver.Parse
import Sck.Driver.IrvingOps
import Sck.Model.ElicitRules

/-! Driver ops for the rule-level models of the elicitation rules (`Sck/Model/ElicitRules.lean`; core-only).
Tokens are separated by blanks.  Rationals are written `p/q` or as integers.  `P` (ordinal profile, ranks `1..m`
exactly as passed to the Python) and `V` (true valuations = the elicitor's answers) are row-major matrices.
Thresholds are length-prefixed (`k lam_1 … lam_k`, the exact rationals of the floats `m ** (l/(k+1))`).
All answers are 0-indexed.

* `karv n m P(n*m nats) V(n*m rats) k lams…`  → `ok s_0 … s_{m-1} w winners…` — `KARV.score` followed by the
                                   literal `w` and `np.argwhere(score == max)` | `err sim` (the Python raises:
                                   `k > m`, or a cut before the previous one)
* `prv n m P(n*m) V(n*m rats) lam`            → `ok s_0 … s_{m-1} w winners…` — `LambdaPRV.score` | `err lambda`
* `tsfmat floor n P(n*n) V(n*n rats) k lams…` → `ok n*n rats` — `LambdaTSF.get_simulated_cardinal_profile`,
                                   row-major | `err sim`
* `m2qmat floor n P(n*n) V(n*n rats)`         → `ok n*n rats` — `MatchTwoQueries.get_simulated_cardinal_profile`
                                   | `err alloc`
* `dtsfmat n P1 P2 V1(ints) V2(ints) k1 lams1… k2 lams2…` → `ok n*n ints n*n ints` —
                                   `DoubleLambdaTSF.get_simulated_cardinal_profiles` | `err sim`
* `dtsf n P1 P2 V1(ints) V2(ints) k1 lams1… k2 lams2…`    → `ok n (m w)*n` — `DoubleLambdaTSF.scf(zero_indexed=True)`
                                   sorted by man | `err sim` | `err …` as for the op `irv` -/

namespace Drv

open ElicitRules

def showRatMatrix (M : List (List Rat)) : List String := M.flatMap (fun r => r.map showRat)

def showScores (s : List Rat) : String :=
  joinS ("ok" :: (s.map showRat ++ "w" :: (Vote.winnersQ s).map toString))

def opKarv : P String := do
  let n ← nat; let m ← nat
  let Pr ← matrix nat n m
  let V ← matrix rat n m
  let lams ← list rat
  eol
  match karvScores Pr V m lams with
  | none => pure "err sim"
  | some s => pure (showScores s)

def opPrv : P String := do
  let n ← nat; let m ← nat
  let Pr ← matrix nat n m
  let V ← matrix rat n m
  let lam ← nat
  eol
  match prvScores Pr V m lam with
  | none => pure "err lambda"
  | some s => pure (showScores s)

def opTsfMat : P String := do
  let floor ← rat
  let n ← nat
  let Pr ← matrix nat n n
  let V ← matrix rat n n
  let lams ← list rat
  eol
  match tsfMatrix floor Pr V n lams with
  | none => pure "err sim"
  | some M => pure (joinS ("ok" :: showRatMatrix M))

def opM2qMat : P String := do
  let floor ← rat
  let n ← nat
  let Pr ← matrix nat n n
  let V ← matrix rat n n
  eol
  match m2qMatrix floor Pr V n with
  | none => pure "err alloc"
  | some M => pure (joinS ("ok" :: showRatMatrix M))

def pDtsf : P (Nat × List (List Nat) × List (List Nat) × List (List Int) × List (List Int) × List Rat × List Rat) := do
  let n ← nat
  let P1 ← matrix nat n n
  let P2 ← matrix nat n n
  let V1 ← matrix int n n
  let V2 ← matrix int n n
  let lams1 ← list rat
  let lams2 ← list rat
  eol
  pure (n, P1, P2, V1, V2, lams1, lams2)

def opDtsfMat : P String := do
  let (n, P1, P2, V1, V2, lams1, lams2) ← pDtsf
  match dtsfMatrices P1 P2 V1 V2 n lams1 lams2 with
  | none => pure "err sim"
  | some (S1, S2) =>
    pure (joinS ("ok" :: (S1.flatMap (fun r => r.map toString) ++ S2.flatMap (fun r => r.map toString))))

def opDtsf : P String := do
  let (n, P1, P2, V1, V2, lams1, lams2) ← pDtsf
  pure (showIrv (dtsf n P1 P2 V1 V2 lams1 lams2))

def dispatchRules : String → Option (P String)
  | "karv" => some opKarv
  | "prv" => some opPrv
  | "tsfmat" => some opTsfMat
  | "m2qmat" => some opM2qMat
  | "dtsfmat" => some opDtsfMat
  | "dtsf" => some opDtsf
  | _ => none

end Drv
