import Sck.Driver.Parse
import Sck.Driver.IrvingOps
import Sck.Model.WeightBound

/-! Driver op for the numeric side condition `WeightBound` of the optimality theorem of the mirror of `Irving.scf`
(C03, package L9; core-only).  Same argument grammar as `irv` (see `Sck/Driver/IrvingOps.lean`): `n`, then the `n × n` rank
matrices `P1`, `P2` (ranks `1..n`, row-major), then the `n × n` integer matrices `V1`, `V2`.

* `irv_wb n P1 P2 V1 V2` → `ok b s` — `s` = the sum over all rotations `ρ` found by `find_all_rotations_and_eliminations` of
                            `max(-rotation_weight(ρ), 0)` (an integer `≥ 0`), `b` = `1` if `s < sys.maxsize = 2^63 - 1`
                            (`weightBoundB`, i.e. `WeightBound` holds) else `0`
                          | `err gs-fuel` | `err levels-fuel` (model-only: out of fuel; `weightBoundB` is `true` then; by
                            `C03_allRotations_isSome` the second one never occurs on strict complete input)
  The op does NOT check `wfB`: on input that `irv` rejects with `err profile` it reports what the totalised stages
  compute (`WeightBound` is a statement about those). -/

namespace Drv

open IrvingAlgo

def opIrvWb : P String := do
  let (n, P1, P2) ← pRanks
  let V1 ← matrix int n n
  let V2 ← matrix int n n
  eol
  match weightBoundSum n P1 P2 V1 V2 with
  | .error e => pure s!"err {e}"
  | .ok s => pure (joinS ["ok", if weightBoundB n P1 P2 V1 V2 then "1" else "0", toString s])

def dispatchWeightBound : String → Option (P String)
  | "irv_wb" => some opIrvWb
  | _ => none

end Drv
