import Sck.Driver.Parse
import Sck.Model.IrvingAlgo

/-! Driver ops for the stage-by-stage mirror of `Irving.scf` (C03; core-only).  Every op re-runs the model
pipeline from the rank matrices up to the stage it reports.  Tokens are separated by blanks; matrices are given
as `n` followed by their rows (row-major); `P1`, `P2` carry the ranks `1..n` exactly as passed to the Python
(`P1[i][j]` = rank man `i` gives woman `j`, `P2[j][i]` = rank woman `j` gives man `i`); all answers are 0-indexed.

* `irv_mo n P1 P2`              → `ok n (m w)*n`  — the male-optimal matching in the ORDER of `GaleShapley.scf`'s
                                  answer (by woman) | `err gs-fuel`
* `irv_shortlists n P1 P2`      → `ok (len w…)*n (len m…)*n` — men's lists `0..n-1`, then women's lists `0..n-1`
                                  (`find_initial_preference_lists`) | `err gs-fuel`
* `irv_rotations n P1 P2`       → `ok r (len (m w)*len)*r e (m w idx)*e` — the rotations in discovery order, each
                                  in the code's order, then `eliminating_rotations_of_pair` sorted by `(m, w)`
                                  | `err gs-fuel` | `err levels-fuel`
* `irv_poset n P1 P2`           → `ok r e (pi rho)*e` — number of rotations, then the edges `pi → rho` of `P'`
                                  sorted lexicographically | `err …` as above
* `irv_closed n P1 P2 V1 V2`    → `ok r w_0 … w_{r-1} c idx…` — `rotation_weight` of every rotation, then the
                                  chosen rotation indices sorted | `err …` as above | `err flow`
* `irv_closedsub r succs rots n V1 V2` → `ok w_0 … w_{r-1} c idx…` — `find_maximum_weight_closed_subset` on an arbitrary
                                  poset graph (successor lists) and rotation list | `err flow`
* `irv n P1 P2 V1 V2`           → `ok n (m w)*n` — the answer of `Irving.scf(zero_indexed=True)` sorted by man
                                  | `err profile` (input rejected by the `check_…` functions / shape asserts)
                                  | `err assert` (one of the three asserts after Gale–Shapley)
                                  | `err not-exposed` (the `ValueError` of `eliminate_rotations`)
                                  | `err gs-fuel` | `err levels-fuel` | `err flow` (model-only: out of fuel)
                                  | `err check-matching` | `err check-exposed` (model-only: a run-time check that
                                    the soundness theorem relies on failed; never observed)
* `irv_raw n P1 P2 V1 V2`       → like `irv` but without the model-only run-time checks. -/

namespace Drv

open IrvingAlgo

def showPairs (l : List (Nat × Nat)) : List String := l.flatMap (fun e => [toString e.1, toString e.2])

def showNatList (l : List Nat) : List String := toString l.length :: l.map toString

def pRanks : P (Nat × List (List Nat) × List (List Nat)) := do
  let n ← nat
  let P1 ← matrix nat n n
  let P2 ← matrix nat n n
  pure (n, P1, P2)

def insElim (a : (Nat × Nat) × Nat) : List ((Nat × Nat) × Nat) → List ((Nat × Nat) × Nat)
  | [] => [a]
  | b :: bs =>
    if a.1.1 < b.1.1 || (a.1.1 == b.1.1 && a.1.2 ≤ b.1.2) then a :: b :: bs else b :: insElim a bs

def opIrvMo : P String := do
  let (n, P1, P2) ← pRanks
  eol
  match maleOptimal n P1 P2 with
  | none => pure "err gs-fuel"
  | some M => pure (joinS ("ok" :: toString M.length :: showPairs M))

def opIrvShortlists : P String := do
  let (n, P1, P2) ← pRanks
  eol
  match maleOptimal n P1 P2 with
  | none => pure "err gs-fuel"
  | some M =>
    let sl := shortlists n P1 P2 (muOf n M)
    pure (joinS ("ok" :: (sl.1.flatMap showNatList ++ sl.2.flatMap showNatList)))

/-- stages 1–4 -/
def runRotations (n : Nat) (P1 P2 : List (List Nat)) :
    Except String (List (List Nat) × List (List (Nat × Nat)) × List ((Nat × Nat) × Nat)) :=
  match maleOptimal n P1 P2 with
  | none => .error "gs-fuel"
  | some M =>
    let sl := shortlists n P1 P2 (muOf n M)
    match allRotations sl.1 sl.2 with
    | none => .error "levels-fuel"
    | some (rots, elim) => .ok (sl.1, rots, elim)

def opIrvRotations : P String := do
  let (n, P1, P2) ← pRanks
  eol
  match runRotations n P1 P2 with
  | .error e => pure s!"err {e}"
  | .ok (_, rots, elim) =>
    let el := elim.foldr insElim []
    pure (joinS ("ok" :: toString rots.length ::
      (rots.flatMap (fun r => toString r.length :: showPairs r) ++
       toString el.length :: el.flatMap (fun e => [toString e.1.1, toString e.1.2, toString e.2]))))

def opIrvPoset : P String := do
  let (n, P1, P2) ← pRanks
  eol
  match runRotations n P1 P2 with
  | .error e => pure s!"err {e}"
  | .ok (l1, rots, elim) =>
    let G := posetGraph rots l1 elim
    let edges := sortPairs (G.zipIdx.flatMap (fun gi => gi.1.map (fun rho => (gi.2, rho))))
    pure (joinS ("ok" :: toString rots.length :: toString edges.length :: showPairs edges))

def opIrvClosed : P String := do
  let (n, P1, P2) ← pRanks
  let V1 ← matrix int n n
  let V2 ← matrix int n n
  eol
  match runRotations n P1 P2 with
  | .error e => pure s!"err {e}"
  | .ok (l1, rots, elim) =>
    match closedSubset (posetGraph rots l1 elim) rots V1 V2 with
    | .error _ => pure "err flow"
    | .ok C =>
      let C := sortNat C
      pure (joinS ("ok" :: toString rots.length ::
        (rots.map (fun r => toString (Irving.rotationWeight V1 V2 r)) ++ showNatList C)))

/-- `Irving.find_maximum_weight_closed_subset(P_prime, rotations, V1, V2)` on ANY poset graph and rotation list (not only the
ones discovered from a marriage instance): `irv_closedsub r (k succ*k)*r (len (m w)*len)*r n V1 V2` -/
def opIrvClosedSub : P String := do
  let r ← nat
  let succs ← rep (list nat) r
  let rots ← rep (list (do let a ← nat; let b ← nat; pure (a, b))) r
  let n ← nat
  let V1 ← matrix int n n
  let V2 ← matrix int n n
  eol
  match closedSubset succs rots V1 V2 with
  | .error _ => pure "err flow"
  | .ok C =>
    let C := sortNat C
    pure (joinS ("ok" :: (rots.map (fun r => toString (Irving.rotationWeight V1 V2 r)) ++ showNatList C)))

def showIrv : Except String (List (Nat × Nat)) → String
  | .error e => s!"err {e}"
  | .ok M => let M := sortPairs M; joinS ("ok" :: toString M.length :: showPairs M)

def opIrv : P String := do
  let (n, P1, P2) ← pRanks
  let V1 ← matrix int n n
  let V2 ← matrix int n n
  eol
  pure (showIrv (irving n P1 P2 V1 V2))

def opIrvRaw : P String := do
  let (n, P1, P2) ← pRanks
  let V1 ← matrix int n n
  let V2 ← matrix int n n
  eol
  pure (showIrv (irvingRaw n P1 P2 V1 V2))

def dispatchIrving : String → Option (P String)
  | "irv_mo" => some opIrvMo
  | "irv_shortlists" => some opIrvShortlists
  | "irv_rotations" => some opIrvRotations
  | "irv_poset" => some opIrvPoset
  | "irv_closed" => some opIrvClosed
  | "irv_closedsub" => some opIrvClosedSub
  | "irv" => some opIrv
  | "irv_raw" => some opIrvRaw
  | _ => none

end Drv
