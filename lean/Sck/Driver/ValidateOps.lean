import Sck.Driver.Parse
import Sck.Model.Validate

/-! Driver ops for the input-validation model (`Sck/Model/Validate.lean`, C20; core-only).

Array argument `ARG`:
* `x`                         — not an `np.ndarray` (list, `None`, …)
* `<ndim>` (≠ 2)              — an `ndarray` with that many dimensions (nothing follows)
* `2 <rows> <cols> e…`        — a 2-D array, `rows*cols` entries row-major; an entry is an exact rational (`3`, `-1/2`) or
                                `x` = NaN

Graph argument `GARG`:
* `x`                         — not a `dict`
* `<nitems> (KEY VAL)*`       — the items in insertion order; `KEY` = an integer or `x` (not an `int`);
                                `VAL` = `x` (not a `list`) or `<len> int*`

Ops (answers are `ok` or `err <token>`, tokens = `Validate.VErr.token`):
* `v_check <c> <s> ARG`                — `check_profile(arg, is_complete=c, is_strict=s)` (`0`/`1`)
* `v_profile <Cls> <isint> ARG`        — `<Cls>.of(arg)`; `<Cls>` is the Python class name (13 classes), `<isint>` = `0`/`1`
                                         = `np.issubdtype(arg.dtype, np.integer)`
* `v_valuation <c> ARG`                — `check_valuation_profile(arg, is_complete=c)`
* `v_square ARG`                       — `check_square_matrix(arg)`
* `v_graph GARG`                       — `check_graph(G)`
* `v_bipartite GARG <|X|> X… <|Y|> Y…` — `check_bipartite_graph(G, X, Y)`
* `v_tiebreaker <string> <include_accept>` — `check_tie_breaker`
* `v_param <rule> …`                   → `ok` | `err <token> ctor` | `err <token> call`
    - `prv <tb> <lambda> <m>`            `LambdaPRV(lambda_, tb)` then `.score(profile)` with `profile.shape[1] = m`
    - `karv <tb> <k> <m>`                `KARV(k, tb)` then `.get_simulated_cardinal_profile`
    - `tsf <lambda> <m> <isStrictInst>`  `LambdaTSF(lambda_)` then `.get_simulated_cardinal_profile`
    - `dtsf <l1> <l2> <r1> <c1> <r2> <c2>` `DoubleLambdaTSF(l1, l2)` then `.get_simulated_cardinal_profiles` on shapes
                                         `(r1, c1)`, `(r2, c2)`
    - `kapproval <k> <tb>`               `KApproval(k, tb)`
    - `gs <n> <m> <hr> <hc>`             `GaleShapley().scf` on shapes `(n, m)`, `(hr, hc)`
    - `uniform <high> <low>`             `UniformValuationProfileGenerator(high, low)`; `x` = NaN -/

namespace Drv

open Validate

def pBool : P Bool := do
  let t ← tok
  match t with
  | "0" => pure false
  | "1" => pure true
  | _ => throw s!"bool:{t}"

def pArg : P Arg := do
  let t ← tok
  if t == "x" then pure .notArray else
  match t.toNat? with
  | none => throw s!"ndim:{t}"
  | some nd =>
    if nd == 2 then do
      let rows ← nat; let cols ← nat
      let data ← matrix optRat rows cols
      pure (.array 2 { rows := rows, cols := cols, data := data })
    else pure (.array nd { rows := 0, cols := 0, data := [] })

def pOptInt : P (Option Int) := do
  let t ← tok
  if t == "x" then pure none else
  match t.toInt? with
  | some n => pure (some n)
  | none => throw s!"optint:{t}"

def pGVal : P (Option (List Int)) := do
  let t ← tok
  if t == "x" then pure none else
  match t.toNat? with
  | some n => do let l ← rep int n; pure (some l)
  | none => throw s!"gval:{t}"

def pGArg : P GArg := do
  let t ← tok
  if t == "x" then pure .notDict else
  match t.toNat? with
  | none => throw s!"garg:{t}"
  | some n => do
    let items ← rep (do let k ← pOptInt; let v ← pGVal; pure (k, v)) n
    pure (.dict items)

def showVerdict : Verdict → String
  | .ok _ => "ok"
  | .error e => s!"err {e.token}"

def showStaged : Except (Bool × VErr) Unit → String
  | .ok _ => "ok"
  | .error (stage, e) => s!"err {e.token} {if stage then "call" else "ctor"}"

def pCls : P Cls := do
  let t ← tok
  match Cls.all.find? (fun c => c.name == t) with
  | some c => pure c
  | none => throw s!"cls:{t}"

def opVCheck : P String := do
  let c ← pBool; let s ← pBool; let a ← pArg; eol
  pure (showVerdict (checkProfile a c s))

def opVProfile : P String := do
  let cls ← pCls; let isInt ← pBool; let a ← pArg; eol
  pure (showVerdict (profileOf cls isInt a))

def opVValuation : P String := do
  let c ← pBool; let a ← pArg; eol
  pure (showVerdict (checkValuation a c))

def opVSquare : P String := do
  let a ← pArg; eol
  pure (showVerdict (checkSquareMatrix a))

def opVGraph : P String := do
  let g ← pGArg; eol
  pure (showVerdict (checkGraph g))

def opVBipartite : P String := do
  let g ← pGArg; let X ← list int; let Y ← list int; eol
  pure (showVerdict (checkBipartite g X Y))

def opVTieBreaker : P String := do
  let tb ← tok; let ia ← pBool; eol
  pure (showVerdict (checkTieBreaker tb ia))

def opVParam : P String := do
  let rule ← tok
  match rule with
  | "prv" => do
    let tb ← tok; let lam ← int; let m ← nat; eol
    pure (showStaged (twoStage (prvCtor tb lam) (prvCall lam m)))
  | "karv" => do
    let tb ← tok; let k ← int; let m ← nat; eol
    pure (showStaged (twoStage (karvCtor tb k) (karvCall k m)))
  | "tsf" => do
    let lam ← int; let m ← nat; let st ← pBool; eol
    pure (showStaged (twoStage (tsfCtor lam) (tsfCall lam m st)))
  | "dtsf" => do
    let l1 ← int; let l2 ← int; let r1 ← nat; let c1 ← nat; let r2 ← nat; let c2 ← nat; eol
    pure (showStaged (twoStage (dtsfCtor l1 l2) (dtsfCall l1 l2 r1 c1 r2 c2)))
  | "kapproval" => do
    let k ← int; let tb ← tok; eol
    pure (showStaged (twoStage (kApprovalCtor k tb) (.ok ())))
  | "gs" => do
    let n ← nat; let m ← nat; let hr ← nat; let hc ← nat; eol
    pure (showStaged (twoStage (.ok ()) (gsCall n m hr hc)))
  | "uniform" => do
    let high ← optRat; let low ← optRat; eol
    pure (showStaged (twoStage (uniformCtor high low) (.ok ())))
  | _ => pure "err unknown-rule"

def dispatchValidate : String → Option (P String)
  | "v_check" => some opVCheck
  | "v_profile" => some opVProfile
  | "v_valuation" => some opVValuation
  | "v_square" => some opVSquare
  | "v_graph" => some opVGraph
  | "v_bipartite" => some opVBipartite
  | "v_tiebreaker" => some opVTieBreaker
  | "v_param" => some opVParam
  | _ => none

end Drv
