import Sck.Driver.FlowOps
import Sck.Model.Dfs

/-! Driver op for the mirror of the implementation's own search (C08, `Sck/Model/Dfs.lean`), core-only.

* `ffdfs <net> <roundsFuel>` where `<net>` = `<|verts|> verts... <|edges|> (u v cap)* s t` (as for `ff`,
  `ffauto`, `flowcert`; the dict handed to `ford_fulkerson` is `{v: [] for v in verts}` followed by
  `G[u].append((v, cap))` in the order of the edge list, i.e. `Dfs.netToG`).  Answer:

  `ok <value> <npaths> (<len> v1 … v_len <cap>)*npaths <nflow> (u v f)*nflow <|S|> S…`

  - `<value>`  = `valueL N (flowOf flow)`: the NET flow out of the source denoted by the final flow dict;
  - the `npaths` augmenting paths in the order in which the `while True` loop of `ford_fulkerson` obtained
    them from `dfs_path(G_f, s, t, …)`; each as its number of vertices, the vertices from `s` to `t`, and
    the capacity `c_f_p` that `dfs_path` reported;
  - the final flow dict `flow_final` in dict (insertion) order: `nflow` triples `u v f`;
  - the returned vertex set `reachable_vertices(G_f, s)`, sorted increasingly.

  Errors: `err wf` (duplicate vertex in `verts`: not a dict), `err KeyError` (the Python raises `KeyError`:
  an edge endpoint or the source is not a key), `err fuel` (more than `roundsFuel` rounds of the `while`
  loop would be needed; with `s == t` the Python loops forever and the model always answers `err fuel`). -/

namespace Drv

def opFfDfs : P String := do
  let N ← pNet'
  let rounds ← nat
  eol
  if !decide N.verts.Nodup then pure "err wf" else
  match Dfs.ffDfs (Dfs.netToG N) N.s N.t rounds with
  | .error e => pure s!"err {e}"
  | .ok (fl, S, paths) =>
    let S := sortInts S
    let tr := Dfs.toTriples fl
    pure (joinS (["ok", toString (valueL N (flowOf tr)), toString paths.length] ++
      paths.flatMap (fun p => toString p.1.length :: p.1.map toString ++ [toString p.2]) ++
      toString tr.length :: tr.flatMap (fun e => [toString e.1, toString e.2.1, toString e.2.2]) ++
      toString S.length :: S.map toString))

def dispatchDfs : String → Option (P String)
  | "ffdfs" => some opFfDfs
  | op => dispatchFlow op

end Drv
