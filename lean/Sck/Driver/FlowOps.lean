import Sck.Driver.Parse
import Sck.Model.Flow
import Sck.Model.FlowCert
import Sck.Model.Mcm

/-! Driver ops for C08 (core-only): certificate check of the implementation's (flow dict, cut), and the model
run with the proved-sufficient fuel.  Line formats (tokens separated by blanks):

* `flowcert <net> <k> (u v f)*k <|S|> S...`  → `ok <value>` | `err wf` | `err <first failing check>`
* `ffauto <net>`                              → like `ff` but with fuel `ffFuel N`
  where `<net>` = `<|verts|> verts... <|edges|> (u v cap)* s t` (as for `ff`).
* `mcm <bip>`                                 → `ok <|M|> (x y)* <|C|> C...` (model matching in emission order,
                                                König cover of the model's cut) | `err wf` | `err <FFErr>`
* `mcmcert <bip> <|M|> (x y)* <|C|> C...`     → `ok` | `err wf` | `err matching` | `err cover`
  where `<bip>` = `<|X|> X... <|Y|> Y... <k> (key <len> nbrs...)*k` (the dict `G`; only left lists matter). -/

namespace Drv

def pNet' : P Net := do
  let verts ← list int
  let ne ← nat
  let edges ← rep (do let u ← int; let v ← int; let c ← nat; pure (u, v, c)) ne
  let s ← int; let t ← int
  pure { verts := verts, edges := edges, s := s, t := t }

/-- name of the first failing conjunct of `flowCutOk` (same order as in its definition) -/
def flowCutWhy (N : Net) (fl : List (Int × Int × Int)) (S : List Int) : String :=
  if !entriesExactB N fl then "entries"
  else if !skewB fl then "skew"
  else if !capB N fl then "capacity"
  else if !conserveB N (flowOf fl) then "conservation"
  else if !S.contains N.s then "source-not-in-cut"
  else if S.contains N.t then "sink-in-cut"
  else if !S.all (fun v => N.verts.contains v) then "cut-not-vertices"
  else if !(valueL N (flowOf fl) == cutCapL N S) then
    s!"value-ne-cutcap {valueL N (flowOf fl)} {cutCapL N S}"
  else "none"

def opFlowCert : P String := do
  let N ← pNet'
  let fl ← list (do let u ← int; let v ← int; let f ← int; pure (u, v, f))
  let S ← list int
  eol
  if !netWfB N then pure "err wf"
  else if flowCutOk N fl S then pure s!"ok {valueL N (flowOf fl)}"
  else pure s!"err {flowCutWhy N fl S}"

def opFfAuto : P String := do
  let N ← pNet'
  eol
  if !netWfB N then pure "err wf" else
  match ff N (ffFuel N) with
  | .error .fuel => pure "err fuel"
  | .error .badPath => pure "err badPath"
  | .error .notClosed => pure "err notClosed"
  | .ok (f, S) =>
    let S := sortInts S
    pure (joinS ("ok" :: toString (valueL N f) :: toString S.length :: S.map toString))

def pBip : P (List Int × List Int × List (Int × List Int)) := do
  let X ← list int
  let Y ← list int
  let G ← list (do let k ← int; let l ← list int; pure (k, l))
  pure (X, Y, G)

def opMcm : P String := do
  let (X, Y, G) ← pBip
  eol
  let adj := adjOf G
  if !bipWfB X Y adj then pure "err wf" else
  match mcmWithCover X Y adj (ffFuel (bipNet X Y adj)) with
  | .error .fuel => pure "err fuel"
  | .error .badPath => pure "err badPath"
  | .error .notClosed => pure "err notClosed"
  | .ok (M, C) =>
    pure (joinS ("ok" :: toString M.length :: M.flatMap (fun e => [toString e.1, toString e.2]) ++
      toString C.length :: C.map toString))

def opMcmCert : P String := do
  let (X, Y, G) ← pBip
  let M ← list (do let x ← int; let y ← int; pure (x, y))
  let C ← list int
  eol
  let adj := adjOf G
  if !bipWfB X Y adj then pure "err wf"
  else if !isMatchingB X adj M then pure "err matching"
  else if !koenigCertOk X adj M C then pure "err cover"
  else pure "ok"

def dispatchFlow : String → Option (P String)
  | "flowcert" => some opFlowCert
  | "ffauto" => some opFfAuto
  | "mcm" => some opMcm
  | "mcmcert" => some opMcmCert
  | _ => none

end Drv
