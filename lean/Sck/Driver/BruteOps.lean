import Sck.Driver.Parse
import Sck.Model.BruteSpec

/-! Driver ops for the brute-force reference optima (C04, C03/C17; core-only).  Tokens are separated by blanks.

* `assignopt n W`          — `W` = `n·n` tokens, row-major, each a rational `a` / `a/b` or `x` (= NaN, unacceptable)
                             → `ok <value>`  — the maximum of `Σ_i W[i][σ i]` over all permutations `σ` of `0..n-1` that use
                               only non-NaN entries (`Brute.optAssign`)
                             | `err infeasible` — no such permutation exists
* `assigncount n W`        → `ok <number of permutations using only non-NaN entries>`
* `assignval n W σ`        — `σ` = `n` naturals (0-indexed)
                             → `ok <Σ_i W[i][σ i]>` | `err nan` (an entry used is NaN / out of range)
                             | `err notperm` (`σ` is not a permutation of `0..n-1`)
* `smopt n P1 P2 V1 V2`    — four `n·n` row-major matrices: ranks `P1[a][b]` (man `a` of woman `b`), `P2[b][a]` (naturals, smaller =
                             better), values `V1[a][b]`, `V2[b][a]` (integers); same grammar as `smcert` / `irv`
                             → `ok <value> <count>` — the maximum of `Σ_a V1[a][μ a] + V2[μ a][a]` over all stable perfect
                               matchings `μ` (`Brute.optStable`) and the number of stable matchings (`Brute.countStable`)
                             | `err nostable` — no stable matching (impossible for `stableB`; kept for totality)
* `smval n P1 P2 V1 V2 μ`  — `μ` = `n` naturals (0-indexed, `μ[a]` = woman of man `a`)
                             → `ok <value> <1 if μ is stable else 0>` | `err notperm` -/

namespace Drv

def opAssignOpt : P String := do
  let n ← nat
  let w ← matrix optRat n n
  eol
  match Brute.optAssign n w with
  | none => pure "err infeasible"
  | some v => pure s!"ok {showRat v}"

def opAssignCount : P String := do
  let n ← nat
  let w ← matrix optRat n n
  eol
  pure s!"ok {Brute.countAssign n w}"

def opAssignVal : P String := do
  let n ← nat
  let w ← matrix optRat n n
  let sigma ← rep nat n
  eol
  if isPermWith n sigma (Brute.invPerm n sigma) then
    match Brute.assignValue w sigma with
    | none => pure "err nan"
    | some v => pure s!"ok {showRat v}"
  else pure "err notperm"

def opSmOpt : P String := do
  let n ← nat
  let P1 ← matrix nat n n
  let P2 ← matrix nat n n
  let V1 ← matrix int n n
  let V2 ← matrix int n n
  eol
  match Brute.optStable n P1 P2 V1 V2 with
  | none => pure "err nostable"
  | some v => pure s!"ok {v} {Brute.countStable n P1 P2}"

def opSmVal : P String := do
  let n ← nat
  let P1 ← matrix nat n n
  let P2 ← matrix nat n n
  let V1 ← matrix int n n
  let V2 ← matrix int n n
  let mu ← rep nat n
  eol
  if isPermWith n mu (Brute.invPerm n mu) then
    pure s!"ok {Brute.matchValue V1 V2 mu} {if stableB n P1 P2 mu (Brute.invPerm n mu) then 1 else 0}"
  else pure "err notperm"

def dispatchBrute : String → Option (P String)
  | "assignopt" => some opAssignOpt
  | "assigncount" => some opAssignCount
  | "assignval" => some opAssignVal
  | "smopt" => some opSmOpt
  | "smval" => some opSmVal
  | _ => none

end Drv
