import Sck.Driver.Parse
import Sck.Model.GsMirror

/-! Driver ops of package L5: the state-faithful mirrors of `GaleShapley.scf`. -/

namespace Drv

def showPairsM (mu : List (Nat × Nat)) : String :=
  joinS ("ok" :: toString mu.length :: mu.flatMap (fun e => [toString e.1, toString e.2]))

def pHR : P HR := do
  let n ← nat; let m ← nat
  let R ← matrix optNat n m
  let H ← matrix optNat m n
  let cap ← rep nat m
  pure { n := n, m := m, R := R, H := H, cap := cap }

/-- `gsmirror <oriented 0/1> n m R(n*m optnat) H(m*n optnat) c(m nats)` → `ok k (r h)*k`, the pairs 0-indexed and
IN THE ORDER the Python code returns them; `err index` (the code raises IndexError), `err fuel`, `err shape` -/
def opGsMirror : P String := do
  let ro ← nat
  let I ← pHR
  eol
  match GsMirror.gsMirror (ro == 1) I with
  | .error e => pure s!"err {e}"
  | .ok mu => pure (showPairsM mu)

/-- `gsmirrorpinned n m R H c` → the same for the hospital-oriented branch of the PINNED (defective) code -/
def opGsMirrorPinned : P String := do
  let I ← pHR
  eol
  match GsMirror.gsHospMirrorPinned I with
  | .error e => pure s!"err {e}"
  | .ok mu => pure (showPairsM mu)

/-- `heapops k (p <int> | o)*k` → `ok j popped*j l heap*l`: run `heapq.heappush` (`p x`) / `heapq.heappop` (`o`) from the
empty heap; `err index` on a pop from the empty heap -/
def opHeapOps : P String := do
  let k ← nat
  let ops ← rep (do let t ← tok; if t == "p" then (do let x ← int; pure (some x)) else pure none) k
  eol
  let rec go : List (Option Int) → List Int → List Int → Option (List Int × List Int)
    | [], heap, out => some (out.reverse, heap)
    | some x :: rest, heap, out => go rest (GsMirror.hpush heap x) out
    | none :: rest, heap, out =>
      match GsMirror.hpop heap with
      | none => none
      | some (e, heap') => go rest heap' (e :: out)
  match go ops [] [] with
  | none => pure "err index"
  | some (out, heap) =>
    pure (joinS ("ok" :: toString out.length :: out.map toString ++ toString heap.length :: heap.map toString))

def dispatchGsMirror : String → Option (P String)
  | "gsmirror" => some opGsMirror
  | "gsmirrorpinned" => some opGsMirrorPinned
  | "heapops" => some opHeapOps
  | _ => none

end Drv
