import Sck.Driver.Parse
import Sck.Model.McmMirror

/-! Driver ops for the faithful mirrors of `maximum_cardinality_matching_bipartite` and `birkhoff_von_neumann`
(`Sck/Model/McmMirror.lean`), core-only.

Token grammars (blank separated; vertex names are integers, possibly negative):

* `<ints>`   = `<len> x*len`
* `<bgraph>` = `<k> (key <deg> v*deg)*k`       the dict `{key: [v, …]}` in insertion order

Ops:

* `mcmmirror <ints:X> <ints:Y> <bgraph:G>`  (the argument grammar of `mcm`)
    → `ok <k> (x y)*k`  the list returned by `maximum_cardinality_matching_bipartite(G, X, Y)`, in the code's order
    | `err ValueError`  (`check_bipartite_graph` rejects the arguments) | `err KeyError` | `err fuel` | `err IndexError`
    | `err wf`          (`G` given with a repeated key: not a Python dict)
* `mcmmirror_nocheck <ints:X> <ints:Y> <bgraph:G>`  → the same WITHOUT `check_bipartite_graph` in front
* `bvnmirror <n> x*(n·n)`  (entries row major, exact rationals `p` or `p/q`)
    → `ok <t> (z σ[0] … σ[n-1])*t`  the `t` pairs `(z, P)` appended by `birkhoff_von_neumann` in order; `z` an exact
      rational, `σ[i]` = the column of the 1 in row `i` of `P` (0-based), `n` when row `i` of `P` has no 1
    | `err ValueError` (a row or column of the current matrix has no positive entry although the matrix is not zero)
    | `err fuel` | `err inf` | `err KeyError` | `err IndexError` (the last four never occur: see `C06Mirror.lean`). -/

namespace Drv

def pBipM : P (List Int × List Int × FH.BGraph) := do
  let X ← list int
  let Y ← list int
  let G ← list (do let k ← int; let l ← list int; pure (k, l))
  pure (X, Y, G)

def showPairsMir : Except String (List (Int × Int)) → String
  | .error e => s!"err {e}"
  | .ok M => joinS ("ok" :: toString M.length :: M.flatMap (fun e => [toString e.1, toString e.2]))

def opMcmMirror (check : Bool) : P String := do
  let (X, Y, G) ← pBipM
  eol
  if !decide (G.map (·.1)).Nodup then pure "err wf" else
  pure (showPairsMir (if check then Mirror.mcmFull G X Y else Mirror.mcmMirror G X Y))

def opBvnMirror : P String := do
  let n ← nat
  let X ← matrix rat n n
  eol
  match Mirror.bvnMirror n X with
  | .error e => pure s!"err {e}"
  | .ok out =>
    pure (joinS (["ok", toString out.length] ++
      out.flatMap (fun e => showRat e.1 :: e.2.map toString)))

def dispatchMirror : String → Option (P String)
  | "mcmmirror" => some (opMcmMirror true)
  | "mcmmirror_nocheck" => some (opMcmMirror false)
  | "bvnmirror" => some opBvnMirror
  | _ => none

end Drv
