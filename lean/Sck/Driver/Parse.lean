/-! Line-protocol token parser for the model driver (core-only). -/

namespace Drv

abbrev P := StateT (List String) (Except String)

def tok : P String := do
  match (← get) with
  | [] => throw "eol"
  | t :: ts => set ts; pure t

def nat : P Nat := do
  let t ← tok
  match t.toNat? with
  | some n => pure n
  | none => throw s!"nat:{t}"

def int : P Int := do
  let t ← tok
  match t.toInt? with
  | some n => pure n
  | none => throw s!"int:{t}"

def parseRat (t : String) : Option Rat :=
  match t.splitOn "/" with
  | [a] => a.toInt?.map (fun n => (n : Rat))
  | [a, b] => do
    let n ← a.toInt?
    let d ← b.toNat?
    if d = 0 then none else some (mkRat n d)
  | _ => none

def rat : P Rat := do
  let t ← tok
  match parseRat t with
  | some r => pure r
  | none => throw s!"rat:{t}"

/-- `x` stands for NaN -/
def optNat : P (Option Nat) := do
  let t ← tok
  if t == "x" then pure none else
  match t.toNat? with
  | some n => pure (some n)
  | none => throw s!"optnat:{t}"

def optRat : P (Option Rat) := do
  let t ← tok
  if t == "x" then pure none else
  match parseRat t with
  | some r => pure (some r)
  | none => throw s!"optrat:{t}"

def rep {α : Type} (p : P α) : Nat → P (List α)
  | 0 => pure []
  | k + 1 => do
    let a ← p
    let as ← rep p k
    pure (a :: as)

/-- length-prefixed list -/
def list {α : Type} (p : P α) : P (List α) := do
  let k ← nat
  rep p k

def matrix {α : Type} (p : P α) (rows cols : Nat) : P (List (List α)) := rep (rep p cols) rows

def eol : P Unit := do
  match (← get) with
  | [] => pure ()
  | t :: _ => throw s!"trailing:{t}"

def showRat (r : Rat) : String := if r.den == 1 then toString r.num else s!"{r.num}/{r.den}"

def showOptRat : Option Rat → String
  | none => "x"
  | some r => showRat r

def showOptNat : Option Nat → String
  | none => "x"
  | some r => toString r

def joinS (xs : List String) : String := " ".intercalate xs

/-- insertion sort on pairs, lexicographic (canonical output order) -/
def insPair (a : Nat × Nat) : List (Nat × Nat) → List (Nat × Nat)
  | [] => [a]
  | b :: bs => if a.1 < b.1 || (a.1 == b.1 && a.2 ≤ b.2) then a :: b :: bs else b :: insPair a bs

def sortPairs (l : List (Nat × Nat)) : List (Nat × Nat) := l.foldr insPair []

def insInt (a : Int) : List Int → List Int
  | [] => [a]
  | b :: bs => if a ≤ b then a :: b :: bs else b :: insInt a bs

def sortInts (l : List Int) : List Int := l.foldr insInt []

end Drv
