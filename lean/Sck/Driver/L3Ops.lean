import Sck.Driver.Parse
import Sck.Model.EatIncomplete

/-! Driver ops of package L3: the eating process on strict INCOMPLETE profiles. -/

namespace Drv

/-- `eatinc n P(n*n optnat, x = NaN) speeds(n rats)` → `ok X(n*n rats, row major)` — the same answer format
as `eat`; `err not-wf` when `Eat.eatIncWfB` fails, `err stuck` when the loop raises / runs out of fuel
(proved impossible for well-formed input) -/
def opEatInc : P String := do
  let n ← nat
  let Pr ← matrix optNat n n
  let speeds ← rep rat n
  eol
  if !(Eat.eatIncWfB n Pr speeds) then pure "err not-wf" else
  match Eat.eatInc n Pr speeds with
  | none => pure "err stuck"
  | some X => pure (joinS ("ok" :: (X.flatMap (fun row => row.map showRat))))

/-- `eatinccomplete n P(n*n optnat)` → `ok C(n*n nats)`: the completed profile `Eat.completeFirst P`
(NaN items ranked after the ranked ones, by index); `err not-wf` for a non-strict or non-square profile -/
def opEatIncComplete : P String := do
  let n ← nat
  let Pr ← matrix optNat n n
  eol
  if !(Eat.eatIncWfB n Pr (List.replicate n 1)) then pure "err not-wf" else
  pure (joinS ("ok" :: ((Eat.completeFirst Pr).flatMap (fun row => row.map toString))))

def dispatchL3 : String → Option (P String)
  | "eatinc" => some opEatInc
  | "eatinccomplete" => some opEatIncComplete
  | _ => none

end Drv
