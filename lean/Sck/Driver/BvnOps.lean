import Sck.Driver.Parse
import Sck.Model.BvnFull

/-! Driver op for C06/C07 (core-only): the Birkhoff–von Neumann loop with the model's own matching oracle.

* `bvnfull n X(n*n rats, row major)` → `ok k (z σ[0] … σ[n-1])*k` — the `k` emitted pairs in order, coefficient
  `z` as an exact rational (`p` or `p/q`), `σ[i]` = the column of the 1 in row `i` of the permutation matrix
  (`np.argmax(P, axis=1)`), 0-based — or `err <message with blanks replaced by _>`
  (`not_an_n_x_n_matrix`, `ValueError:_X_and/or_Y_not_consistent_with_the_keys_of_the_dictionary`,
  `empty_matching:_z_=_inf`, `max-flow_failure`, `fuel_exhausted`). -/

namespace Drv

def opBvnFull : P String := do
  let n ← nat
  let X ← matrix rat n n
  eol
  match bvnFull n X with
  | .error e => pure s!"err {e.replace " " "_"}"
  | .ok out =>
    pure (joinS (["ok", toString out.length] ++
      out.flatMap (fun e => showRat e.1 :: e.2.map toString)))

def dispatchBvn : String → Option (P String)
  | "bvnfull" => some opBvnFull
  | _ => none

end Drv
