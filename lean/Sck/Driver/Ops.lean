import Sck.Driver.Parse
import Sck.Model.DA
import Sck.Model.Flow
import Sck.Model.Cert
import Sck.Model.SMCert
import Sck.Model.Stv
import Sck.Model.Simulate
import Sck.Model.Voting
import Sck.Model.VotingExtra
import Sck.Model.Elicit
import Sck.Model.Eat
import Sck.Model.Bvn
import Sck.Model.Rsd
import Sck.Model.Hall
import Sck.Model.Irving
import Sck.Model.C12Spec
import Sck.Driver.FlowOps
import Sck.Driver.DfsOps
import Sck.Driver.BvnOps
import Sck.Driver.IrvingOps
import Sck.Driver.BruteOps
import Sck.Driver.FlowHelperOps
import Sck.Driver.ValidateOps
import Sck.Driver.L3Ops
import Sck.Driver.GsMirrorOps
import Sck.Driver.MirrorOps
import Sck.Driver.WeightBoundOps
import Sck.Driver.RuleOps
import Sck.Model.Profile
import Sck.Model.Preflib

/-! One canonical answer line per op line (core-only; compiled into the `driver` executable). -/

namespace Drv

def invOf (n : Nat) (sigma : List Nat) : List Nat :=
  (List.range n).map (fun j => (sigma.findIdx? (· == j)).getD n)

def opGs : P String := do
  let ro ← nat; let fixer ← nat; let n ← nat; let m ← nat
  let R ← matrix optNat n m
  let H ← matrix optNat m n
  let cap ← rep nat m
  eol
  match galeShapley (ro == 1) fixer { n := n, m := m, R := R, H := H, cap := cap } with
  | none => pure "err fuel"
  | some mu =>
    let mu := sortPairs mu
    pure (joinS ("ok" :: toString mu.length :: mu.flatMap (fun e => [toString e.1, toString e.2])))

def pNet : P Net := do
  let verts ← list int
  let ne ← nat
  let edges ← rep (do let u ← int; let v ← int; let c ← nat; pure (u, v, c)) ne
  let s ← int; let t ← int
  pure { verts := verts, edges := edges, s := s, t := t }

def showErr : FFErr → String
  | .fuel => "fuel" | .badPath => "badPath" | .notClosed => "notClosed"

def opFf : P String := do
  let N ← pNet
  let fuel ← nat
  eol
  match ff N fuel with
  | .error e => pure s!"err {showErr e}"
  | .ok (f, S) =>
    let value := (N.verts.map (fun v => f N.s v)).foldl (· + ·) 0
    let S := sortInts S
    pure (joinS ("ok" :: toString value :: toString S.length :: S.map toString))

def opAssignCert : P String := do
  let n ← nat
  let w ← matrix optRat n n
  let sigma ← rep nat n
  let u ← rep rat n
  let v ← rep rat n
  let delta ← rat
  eol
  pure (if assignCertOk n w sigma (invOf n sigma) u v delta then "ok" else "err cert")

def opSmCert : P String := do
  let n ← nat
  let P1 ← matrix nat n n
  let P2 ← matrix nat n n
  let V1 ← matrix int n n
  let V2 ← matrix int n n
  let mu ← rep nat n
  let alpha ← rep rat n
  let beta ← rep rat n
  let y ← matrix rat n n
  eol
  pure (if smCertOk n P1 P2 V1 V2 mu (invOf n mu) alpha beta y then "ok" else "err cert")

def opStv : P String := do
  let fixer ← nat; let n ← nat; let m ← nat
  let Pr ← matrix nat n m
  let mode ← tok
  let labels := (List.range m).map (· + fixer)
  let r ← (if mode == "first" then do
      eol
      pure (stvLoop (fun c => c.headD 0) m Pr labels)
    else do
      let ch ← list nat
      eol
      pure (stvReplay ch Pr labels))
  match r with
  | none => pure "err illegal"
  | some a => pure s!"ok {a}"

def opSim : P String := do
  let floor ← rat
  let m ← nat
  let vals ← rep rat m
  let lams ← list rat
  eol
  let valf := fun q => vals.getD q 0
  match simulate floor valf m lams with
  | none => pure "err nonmono"
  | some acc => pure (joinS ("ok" :: (List.range m).map (fun q => showRat (acc q))))

/-! ### voting -/

def showInts (l : List Int) : List String := l.map toString
def showNats (l : List Nat) : List String := l.map toString
def showRats (l : List Rat) : List String := l.map showRat

def pTb : P Vote.TieBreaker := do
  let t ← tok
  match t with
  | "accept" => pure .accept
  | "first" => pure .first
  | "random" => do let k ← nat; pure (.random k)
  | _ => throw s!"tb:{t}"

/-- `score <rule> [k] n m P` → `ok m s1..sm k w1..wk` (winners 0-indexed) -/
def opScore : P String := do
  let rule ← tok
  let k ← (if rule == "kapproval" then nat else pure 0)
  let n ← nat; let m ← nat
  let Pr ← matrix nat n m
  eol
  match rule with
  | "harmonic" =>
    let s := Vote.harmonic Pr m
    let w := Vote.winnersQ s
    pure (joinS (["ok", toString m] ++ showRats s ++ [toString w.length] ++ showNats w))
  | _ =>
    let s? : Option (List Int) := match rule with
      | "plurality" => some (Vote.plurality Pr m)
      | "borda" => some (Vote.borda Pr m)
      | "veto" => some (Vote.veto Pr m)
      | "kapproval" => some (Vote.kApproval k Pr m)
      | "copeland" => some (Vote.copeland Pr m)
      | _ => none
    match s? with
    | none => pure "err unknown-rule"
    | some s =>
      let w := Vote.winnersI s
      pure (joinS (["ok", toString m] ++ showInts s ++ [toString w.length] ++ showNats w))

/-- `hhist n m P` → per alternative: harmonicOfHist (hist) (exact) -/
def opHHist : P String := do
  let n ← nat; let m ← nat
  let Pr ← matrix nat n m
  eol
  pure (joinS ("ok" :: showRats ((List.range m).map (fun j => Vote.harmonicOfHist (Vote.hist Pr m j)))))

/-- `util n m V` → `ok m shares… k winners…` | `err zero-total` -/
def opUtil : P String := do
  let n ← nat; let m ← nat
  let V ← matrix optRat n m
  eol
  match Vote.utilitarian V m with
  | none => pure "err zero-total"
  | some s =>
    let w := Vote.winnersQ s
    pure (joinS (["ok", toString m] ++ showRats s ++ [toString w.length] ++ showNats w))

/-- `scfi fixer tb m scores…` / `scfq …` → `ok k alts…` | `err raise` -/
def opScfI : P String := do
  let fixer ← nat; let tb ← pTb; let s ← list int; eol
  match Vote.scfI fixer tb s with
  | none => pure "err raise"
  | some out => pure (joinS (["ok", toString out.length] ++ showNats out))

def opScfQ : P String := do
  let fixer ← nat; let tb ← pTb; let s ← list rat; eol
  match Vote.scfQ fixer tb s with
  | none => pure "err raise"
  | some out => pure (joinS (["ok", toString out.length] ++ showNats out))

/-- `swfi fixer m scores… k (alt score)*` → ok | err invalid -/
def opSwfI : P String := do
  let fixer ← nat; let s ← list int
  let out ← list (do let a ← nat; let v ← int; pure (a, v))
  eol
  pure (if Vote.validRankingI fixer s out then "ok" else "err invalid-ranking")

def opSwfQ : P String := do
  let fixer ← nat; let s ← list rat
  let out ← list (do let a ← nat; let v ← rat; pure (a, v))
  eol
  pure (if Vote.validRankingQ fixer s out then "ok" else "err invalid-ranking")

def opRandProbs : P String := do
  let s ← list rat; eol
  match Vote.randProbs s with
  | none => pure "err zero-total"
  | some p => pure (joinS ("ok" :: showRats p))

/-! ### allocation: eating, BvN replay, RSD -/

def opEat : P String := do
  let n ← nat
  let Pr ← matrix nat n n
  let speeds ← rep rat n
  eol
  if !(Eat.eatWfB n Pr speeds) then pure "err not-wf" else
  match Eat.eat n Pr speeds with
  | none => pure "err stuck"
  | some X => pure (joinS ("ok" :: (X.flatMap (fun row => row.map showRat))))

/-- `bvn n X(n*n rats) k perm1(n) … permk(n)` → `ok s|x k z1..zk zero|nonzero recon|norecon` -/
def opBvn : P String := do
  let n ← nat
  let X ← matrix rat n n
  let perms ← list (rep nat n)
  eol
  let bal := match isBalancedB n X with | none => "x" | some s => showRat s
  match bvnReplay n X perms with
  | .error e => pure s!"err {bal} {e.replace " " "_"}"
  | .ok (zs, R) =>
    pure (joinS (["ok", bal, toString zs.length] ++ showRats zs ++
      [if isZeroB R then "zero" else "nonzero", if reconB n X zs perms then "recon" else "norecon",
       showRat (sumList zs)] ++ (R.flatMap (fun row => row.map showRat))))

/-- `rsd n m P(n*m optnat) order(n…)` → `ok a1..an` (x = none) -/
def opRsd : P String := do
  let n ← nat; let m ← nat
  let Pr ← matrix optNat n m
  let order ← list nat
  eol
  pure (joinS ("ok" :: (rsd Pr order).map showOptNat))

/-! ### certificates -/

def opHall : P String := do
  let n ← nat
  let w ← matrix optRat n n
  let S ← list nat
  eol
  pure (if hallCertOk n w S then "ok" else "err cert")

def opStable : P String := do
  let n ← nat
  let P1 ← matrix nat n n
  let P2 ← matrix nat n n
  let mu ← rep nat n
  eol
  let inv := invOf n mu
  pure (if isPermWith n mu inv && stableB n P1 P2 mu inv then "ok" else "err unstable")

/-- `elim n V1 V2 k0 M(k0 pairs) r (len pairs…)*` → `ok value0 value1 weights… M'` | `err not-exposed` -/
def opElim : P String := do
  let n ← nat
  let V1 ← matrix int n n
  let V2 ← matrix int n n
  let M ← list (do let a ← nat; let b ← nat; pure (a, b))
  let rots ← list (list (do let a ← nat; let b ← nat; pure (a, b)))
  eol
  match Irving.eliminateAll M rots with
  | none => pure "err not-exposed"
  | some M' =>
    pure (joinS (["ok", toString (Irving.matchingValue V1 V2 M), toString (Irving.matchingValue V1 V2 M'),
      toString rots.length] ++ rots.map (fun r => toString (Irving.rotationWeight V1 V2 r)) ++
      M'.flatMap (fun e => [toString e.1, toString e.2])))

/-! ### elicitation -/

/-- `sim2 m vals… k lams…` → two-sided fill -/
def opSim2 : P String := do
  let m ← nat
  let vals ← rep rat m
  let lams ← list rat
  eol
  let valf := fun q => vals.getD q 0
  match Elicit.simulate2 valf m lams with
  | none => pure "err nonmono"
  | some acc =>
    let qs := Elicit.simQueries2 valf m lams
    pure (joinS (("ok" :: (List.range m).map (fun q => showRat (acc q))) ++ ["q", toString qs.length] ++ showNats qs))

/-- `simq floor m vals… k lams…` → like `sim` plus the asked positions -/
def opSimQ : P String := do
  let floor ← rat
  let m ← nat
  let vals ← rep rat m
  let lams ← list rat
  eol
  let valf := fun q => vals.getD q 0
  match simulate floor valf m lams with
  | none => pure "err nonmono"
  | some acc =>
    let qs := Elicit.simQueries valf m lams
    pure (joinS (("ok" :: (List.range m).map (fun q => showRat (acc q))) ++ ["q", toString qs.length] ++ showNats qs))

/-- `rootnsd n m P` → `ok a1..an` -/
def opRootNSD : P String := do
  let n ← nat; let m ← nat
  let Pr ← matrix nat n m
  eol
  pure (joinS ("ok" :: (Elicit.rootNSD Pr m).map showOptNat))

/-- `m2q floor m vals… p` -/
def opM2q : P String := do
  let floor ← rat
  let m ← nat
  let vals ← rep rat m
  let p ← nat
  eol
  let valf := fun q => vals.getD q 0
  pure (joinS ("ok" :: (List.range m).map (fun q => showRat (Elicit.m2qAgent floor valf p q))))

/-- `elicitor memo fixer nb (a j occ ans)* nq (a j)*` → `ok count nf (fa fj)* answers…`
backing answers are given as a finite table (query, occurrence) ↦ answer; missing entries answer 0 -/
def opElicitor : P String := do
  let memo ← nat; let fixer ← nat
  let table ← list (do let a ← nat; let j ← nat; let k ← nat; let v ← rat; pure ((a, j), k, v))
  let qs ← list (do let a ← nat; let j ← nat; pure (a, j))
  eol
  let backing : Nat × Nat → Nat → Rat := fun q k =>
    match table.find? (fun e => e.1 == q && e.2.1 == k) with
    | some e => e.2.2
    | none => 0
  let (st, ans) := Elicit.runOps (memo == 1) fixer backing Elicit.ElSt.init qs
  pure (joinS (["ok", toString st.count, toString st.forwarded.length] ++
    st.forwarded.flatMap (fun e => [toString e.1, toString e.2]) ++ showRats ans))

/-! ### profile conversions (C18) and PrefLib (C19) -/

def b2s (b : Bool) : String := if b then "1" else "0"

/-- `ordinal m vals… out…` → `ok <ordinalOkB>` -/
def opOrdinal : P String := do
  let m ← nat
  let vals ← rep optRat m
  let out ← rep optNat m
  eol
  pure s!"ok {b2s (ordinalOkB vals out)}"

/-- `strictify m row… out… first` → `ok <wfTiesB row> <strictifyOkB row out first>` -/
def opStrictify : P String := do
  let m ← nat
  let row ← rep optNat m
  let out ← rep optNat m
  let first ← nat
  eol
  pure s!"ok {b2s (wfTiesB row)} {b2s (strictifyOkB row out (first == 1))}"

/-- `strict2 m row… out… first` → `ok <strictOkB row out first>` (any numbering of the ties) -/
def opStrict2 : P String := do
  let m ← nat
  let row ← rep optNat m
  let out ← rep optNat m
  let first ← nat
  eol
  pure s!"ok {b2s (strictOkB row out (first == 1))}"

/-- `fillzero m vals…` → `ok v…` (`incomplete_valuation_profile_to_complete_valuation_profile` on one row) -/
def opFillZero : P String := do
  let m ← nat
  let vals ← rep optRat m
  eol
  pure (joinS ("ok" :: (fillZero vals).map showRat))

/-- `complete m row… out… mode` → `ok <wfIncompleteB row> <completeOkB row out mode>` -/
def opComplete : P String := do
  let m ← nat
  let row ← rep optNat m
  let out ← rep optNat m
  let mode ← nat
  eol
  pure s!"ok {b2s (wfIncompleteB row)} {b2s (completeOkB row out mode)}"

/-- `consistent m vals… ranks… o1… o2…` → `ok <validDesc o1> <validAsc o2> <isConsistentWith npTol> <isConsistentOrigWith npTol>` -/
def opConsistent : P String := do
  let m ← nat
  let vals ← rep optRat m
  let ranks ← rep optNat m
  let o1 ← rep nat m
  let o2 ← rep nat m
  eol
  pure (joinS ["ok", b2s (validDescOrder vals o1), b2s (validAscOrder ranks o2 false),
    b2s (isConsistentWith npTol vals ranks o1 o2), b2s (isConsistentOrigWith npTol vals ranks o1 o2)])

/-- `generate m ranks… k draws… clip(0/1)` → `ok vals…` -/
def opGenerate : P String := do
  let m ← nat
  let ranks ← rep optNat m
  let draws ← list rat
  let cl ← nat
  eol
  let d := if cl == 1 then clip draws else draws
  pure (joinS ("ok" :: (generateRow ranks d).map showOptRat))

def pKind : P PrefKind := do
  let t ← tok
  match t with
  | "soc" => pure .soc | "soi" => pure .soi | "toc" => pure .toc | "toi" => pure .toi | "cat" => pure .cat
  | _ => throw s!"kind:{t}"

def pOrder : P (List (List Nat)) := list (list nat)

/-- `preflib kind mode(accept|first) m dataType k (order mult)*` → `ok nrows (row m entries)*` | `err …` -/
def opPreflib : P String := do
  let kind ← pKind
  let modeT ← tok
  let m ← nat
  let dt ← tok
  let orders ← list (do let o ← pOrder; let mult ← nat; pure (o, mult))
  eol
  let mode : TieMode := if modeT == "accept" then .accept else .first
  match convRows kind mode { m := m, dataType := dt, orders := orders } with
  | .error e => pure s!"err {e.replace " " "_"}"
  | .ok rows => pure (joinS (["ok", toString rows.length] ++ rows.flatMap (fun r => r.map showOptNat)))

/-- `prefrow m mode(0|1|2) order row…` → `ok <orderWFB> <prefRowOkB>` -/
def opPrefRow : P String := do
  let m ← nat
  let mode ← nat
  let order ← pOrder
  let row ← rep optNat m
  eol
  pure s!"ok {b2s (orderWFB m order)} {b2s (prefRowOkB m order mode row)}"

/-- `distortion m scores… k chosen…` (0-indexed chosen alternatives) → `ok value` -/
def opDistortion : P String := do
  let scores ← list rat
  let chosen ← list nat
  eol
  pure s!"ok {showRat (Elicit.distortionOf scores chosen)}"

def dispatch : String → Option (P String)
  | "gs" => some opGs
  | "ff" => some opFf
  | "assigncert" => some opAssignCert
  | "smcert" => some opSmCert
  | "stv" => some opStv
  | "sim" => some opSim
  | "score" => some opScore
  | "hhist" => some opHHist
  | "util" => some opUtil
  | "scfi" => some opScfI
  | "scfq" => some opScfQ
  | "swfi" => some opSwfI
  | "swfq" => some opSwfQ
  | "randprobs" => some opRandProbs
  | "eat" => some opEat
  | "bvn" => some opBvn
  | "rsd" => some opRsd
  | "hall" => some opHall
  | "stable" => some opStable
  | "elim" => some opElim
  | "sim2" => some opSim2
  | "simq" => some opSimQ
  | "rootnsd" => some opRootNSD
  | "m2q" => some opM2q
  | "elicitor" => some opElicitor
  | "distortion" => some opDistortion
  | "ordinal" => some opOrdinal
  | "strictify" => some opStrictify
  | "strict2" => some opStrict2
  | "fillzero" => some opFillZero
  | "complete" => some opComplete
  | "consistent" => some opConsistent
  | "generate" => some opGenerate
  | "preflib" => some opPreflib
  | "prefrow" => some opPrefRow
  | op => (((((dispatchDfs op).orElse (fun _ => dispatchBvn op)).orElse (fun _ => dispatchIrving op)).orElse (fun _ => dispatchRules op)).orElse
      (fun _ => dispatchBrute op)).orElse (fun _ => dispatchFlowHelpers op) |>.orElse (fun _ => dispatchValidate op) |>.orElse (fun _ => dispatchL3 op) |>.orElse (fun _ => dispatchGsMirror op) |>.orElse (fun _ => dispatchMirror op) |>.orElse (fun _ => dispatchWeightBound op)

def handle (line : String) : String :=
  let toks := (line.splitOn " ").map (fun s => s.trimAscii.toString) |>.filter (· ≠ "")
  match toks with
  | [] => "err empty"
  | op :: args =>
    match dispatch op with
    | none => s!"err unknown-op {op}"
    | some p =>
      match p.run args with
      | .ok (s, _) => s
      | .error e => s!"err parse {e}"

end Drv
