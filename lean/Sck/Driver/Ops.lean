import Sck.Driver.Parse
import Sck.Model.DA
import Sck.Model.Flow
import Sck.Model.Cert
import Sck.Model.SMCert
import Sck.Model.Stv
import Sck.Model.Simulate

/-! One canonical answer line per op line (core-only; compiled into the `driver` executable). -/

namespace Drv

def invOf (n : Nat) (sigma : List Nat) : List Nat :=
  (List.range n).map (fun j => (sigma.findIdx? (· == j)).getD n)

def opGs : P String := do
  let ro ← nat; let fixer ← nat; let n ← nat; let m ← nat
  let R ← matrix optNat n m
  let H ← matrix optNat m n
  let cap ← rep nat m
  eol
  match galeShapley (ro == 1) fixer { n := n, m := m, R := R, H := H, cap := cap } with
  | none => pure "err fuel"
  | some mu =>
    let mu := sortPairs mu
    pure (joinS ("ok" :: toString mu.length :: mu.flatMap (fun e => [toString e.1, toString e.2])))

def pNet : P Net := do
  let verts ← list int
  let ne ← nat
  let edges ← rep (do let u ← int; let v ← int; let c ← nat; pure (u, v, c)) ne
  let s ← int; let t ← int
  pure { verts := verts, edges := edges, s := s, t := t }

def showErr : FFErr → String
  | .fuel => "fuel" | .badPath => "badPath" | .notClosed => "notClosed"

def opFf : P String := do
  let N ← pNet
  let fuel ← nat
  eol
  match ff N fuel with
  | .error e => pure s!"err {showErr e}"
  | .ok (f, S) =>
    let value := (N.verts.map (fun v => f N.s v)).foldl (· + ·) 0
    let S := sortInts S
    pure (joinS ("ok" :: toString value :: toString S.length :: S.map toString))

def opAssignCert : P String := do
  let n ← nat
  let w ← matrix optRat n n
  let sigma ← rep nat n
  let u ← rep rat n
  let v ← rep rat n
  let delta ← rat
  eol
  pure (if assignCertOk n w sigma (invOf n sigma) u v delta then "ok" else "err cert")

def opSmCert : P String := do
  let n ← nat
  let P1 ← matrix nat n n
  let P2 ← matrix nat n n
  let V1 ← matrix int n n
  let V2 ← matrix int n n
  let mu ← rep nat n
  let alpha ← rep rat n
  let beta ← rep rat n
  let y ← matrix rat n n
  eol
  pure (if smCertOk n P1 P2 V1 V2 mu (invOf n mu) alpha beta y then "ok" else "err cert")

def opStv : P String := do
  let fixer ← nat; let n ← nat; let m ← nat
  let Pr ← matrix nat n m
  let mode ← tok
  let labels := (List.range m).map (· + fixer)
  let r ← (if mode == "first" then do
      eol
      pure (stvLoop (fun c => c.headD 0) m Pr labels)
    else do
      let ch ← list nat
      eol
      pure (stvReplay ch Pr labels))
  match r with
  | none => pure "err illegal"
  | some a => pure s!"ok {a}"

def opSim : P String := do
  let floor ← rat
  let m ← nat
  let vals ← rep rat m
  let lams ← list rat
  eol
  let valf := fun q => vals.getD q 0
  match simulate floor valf m lams with
  | none => pure "err nonmono"
  | some acc => pure (joinS ("ok" :: (List.range m).map (fun q => showRat (acc q))))

def dispatch : String → Option (P String)
  | "gs" => some opGs
  | "ff" => some opFf
  | "assigncert" => some opAssignCert
  | "smcert" => some opSmCert
  | "stv" => some opStv
  | "sim" => some opSim
  | _ => none

def handle (line : String) : String :=
  let toks := (line.splitOn " ").map (fun s => s.trimAscii.toString) |>.filter (· ≠ "")
  match toks with
  | [] => "err empty"
  | op :: args =>
    match dispatch op with
    | none => s!"err unknown-op {op}"
    | some p =>
      match p.run args with
      | .ok (s, _) => s
      | .error e => s!"err parse {e}"

end Drv
