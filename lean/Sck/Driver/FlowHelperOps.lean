import Sck.Driver.Parse
import Sck.Model.FlowHelpers

/-! Driver ops for the helper functions of `flow.py` / `bistochastic.py` (`Sck/Model/FlowHelpers.lean`), core-only.

Token grammars (blank separated; all vertex names and capacities are integers, possibly negative):

* `<graph>`  = `<k> (key <deg> (v c)*deg)*k`   the dict `{key: [(v, c), …]}` in insertion order
* `<bgraph>` = `<k> (key <deg> v*deg)*k`       the dict `{key: [v, …]}` in insertion order
* `<ints>`   = `<len> x*len`

Ops:

* `fh_reachable <graph> <s>`            → `ok <ints>` (the set, sorted increasingly) | `err KeyError`
* `fh_flowacross <k> (i j f)*k <s>`     → `ok <value>` | `err ValueError`      (the flow dict in dict order)
* `fh_capcut <graph> <ints>`            → `ok <value>`                          (`<ints>` = the cut)
* `fh_convert <ints:X> <ints:Y> <bgraph>`     → `ok <graph>` with keys sorted increasingly and every adjacency
                                           list sorted lexicographically
* `fh_convertraw <ints:X> <ints:Y> <bgraph>`  → `ok <graph>` in dict order, adjacency lists in list order
* `fh_positivity <rows> <cols> x*(rows·cols)` → `ok <bgraph>` with keys sorted increasingly and every adjacency
                                           list sorted increasingly | `err IndexError`
  (entries row major, exact rationals `p` or `p/q`)
* `fh_positivityraw <rows> <cols> x*(rows·cols)` → the same in dict order, adjacency lists in list order

`err wf`: a dict given with a repeated key (not a Python dict). -/

namespace Drv

def pGraph : P Dfs.Graph :=
  list (do let k ← int; let l ← list (do let v ← int; let c ← int; pure (v, c)); pure (k, l))

def pBGraph : P FH.BGraph := list (do let k ← int; let l ← list int; pure (k, l))

def insPairI (a : Int × Int) : List (Int × Int) → List (Int × Int)
  | [] => [a]
  | b :: bs => if a.1 < b.1 || (a.1 == b.1 && a.2 ≤ b.2) then a :: b :: bs else b :: insPairI a bs

def sortPairsI (l : List (Int × Int)) : List (Int × Int) := l.foldr insPairI []

def insKey {α : Type} (a : Int × α) : List (Int × α) → List (Int × α)
  | [] => [a]
  | b :: bs => if a.1 ≤ b.1 then a :: b :: bs else b :: insKey a bs

def sortKeys {α : Type} (l : List (Int × α)) : List (Int × α) := l.foldr insKey []

def showGraph (G : Dfs.Graph) : List String :=
  toString G.length :: G.flatMap (fun e =>
    toString e.1 :: toString e.2.length :: e.2.flatMap (fun a => [toString a.1, toString a.2]))

def showBGraph (G : FH.BGraph) : List String :=
  toString G.length :: G.flatMap (fun e => toString e.1 :: toString e.2.length :: e.2.map toString)

def keysNodup {α : Type} (G : List (Int × α)) : Bool := decide (G.map (·.1)).Nodup

def opFhReachable : P String := do
  let G ← pGraph
  let s ← int
  eol
  if !keysNodup G then pure "err wf" else
  match FH.reachable G s with
  | .error e => pure s!"err {e}"
  | .ok S =>
    let S := sortInts S
    pure (joinS ("ok" :: toString S.length :: S.map toString))

def opFhFlowAcross : P String := do
  let fl ← list (do let i ← int; let j ← int; let f ← int; pure ((i, j), f))
  let s ← int
  eol
  if !decide (fl.map (·.1)).Nodup then pure "err wf" else
  match FH.flowAcross fl s with
  | .error e => pure s!"err {e}"
  | .ok v => pure s!"ok {v}"

def opFhCapCut : P String := do
  let G ← pGraph
  let cut ← list int
  eol
  if !keysNodup G then pure "err wf" else
  pure s!"ok {FH.capAcross G cut}"

def opFhConvert (canon : Bool) : P String := do
  let X ← list int
  let Y ← list int
  let G ← pBGraph
  eol
  if !keysNodup G then pure "err wf" else
  let net := FH.convert G X Y
  let net := if canon then sortKeys (net.map (fun e => (e.1, sortPairsI e.2))) else net
  pure (joinS ("ok" :: showGraph net))

def opFhPositivity (canon : Bool) : P String := do
  let rows ← nat
  let cols ← nat
  let X ← matrix rat rows cols
  eol
  match FH.positivityGraph X with
  | .error e => pure s!"err {e}"
  | .ok g =>
    let g := if canon then sortKeys (g.map (fun e => (e.1, sortInts e.2))) else g
    pure (joinS ("ok" :: showBGraph g))

def dispatchFlowHelpers : String → Option (P String)
  | "fh_reachable" => some opFhReachable
  | "fh_flowacross" => some opFhFlowAcross
  | "fh_capcut" => some opFhCapCut
  | "fh_convert" => some (opFhConvert true)
  | "fh_convertraw" => some (opFhConvert false)
  | "fh_positivity" => some (opFhPositivity true)
  | "fh_positivityraw" => some (opFhPositivity false)
  | _ => none

end Drv
