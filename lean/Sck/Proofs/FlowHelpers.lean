import Sck.Proofs.Dfs7
import Sck.Proofs.FlowHelpers1
import Sck.Proofs.FlowHelpers2
import Sck.Proofs.FlowHelpers3
import Sck.Proofs.FlowHelpers4

/-! C08 / C09 helpers: glue.  The helper functions applied to what the mirror of `ford_fulkerson`
(`Dfs.ffDfs`) returns on a well-formed network. -/

open Finset

namespace FH

open Dfs

/-- the keys of the flow dict returned by the mirror of `ford_fulkerson` are exactly the edges of the network -/
theorem ffDfs_keys (N : Net) (hwf : N.WF') (rounds : Nat) (fl : FlowDict) (S : List Int)
    (paths : List (List Int × Int)) (h : ffDfs (netToG N) N.s N.t rounds = .ok (fl, S, paths)) :
    fl.map (·.1) = edgePairs (netToG N) := by
  have hfin := ffDfs_final N hwf rounds fl S paths h
  have h1 : (toTriples fl).map (fun e => (e.1, e.2.1)) = fl.map (·.1) := by
    simp [toTriples, List.map_map, Function.comp_def]
  rw [← h1, hfin.dict]
  simp [List.map_map, Function.comp_def]

/-- **`flow_across_network` on the output of `ford_fulkerson`**: it raises `ValueError` iff the network has an
edge INTO the source (whatever flow that edge carries); otherwise it returns the value of the flow, which is
the maximum flow value -/
theorem flowAcross_ffDfs (N : Net) (hwf : N.WF') (rounds : Nat) (fl : FlowDict) (S : List Int)
    (paths : List (List Int × Int)) (h : ffDfs (netToG N) N.s N.t rounds = .ok (fl, S, paths)) :
    (flowAcross fl N.s = .error "ValueError" ↔ ∃ e ∈ N.edges, e.2.1 = N.s) ∧
    ((∀ e ∈ N.edges, e.2.1 ≠ N.s) →
      flowAcross fl N.s = .ok (flowValue N.verts.toFinset N.s (flowOf (toTriples fl)))) := by
  have hkeys := ffDfs_keys N hwf rounds fl S paths h
  have hmem : ∀ i j, (i, j) ∈ fl.map (·.1) ↔ ∃ k : Nat, (i, j, k) ∈ N.edges := by
    intro i j; rw [hkeys]; exact mem_edgePairs_netToG N hwf i j
  constructor
  · rw [flowAcross_err_iff]
    constructor
    · rintro ⟨e, he, hes⟩
      obtain ⟨k, hk⟩ := (hmem e.1.1 e.1.2).mp (List.mem_map.mpr ⟨e, he, rfl⟩)
      exact ⟨_, hk, hes⟩
    · rintro ⟨e, he, hes⟩
      obtain ⟨e', he', hk'⟩ := List.mem_map.mp ((hmem e.1 e.2.1).mpr ⟨e.2.2, he⟩)
      exact ⟨e', he', by rw [hk']; exact hes⟩
  · intro hno
    apply flowAcross_eq_value N.verts fl N.s
    · rw [hkeys]; exact nodup_edgePairs_netToG N hwf
    · intro e he _
      obtain ⟨k, hk⟩ := (hmem e.1.1 e.1.2).mp (List.mem_map.mpr ⟨e, he, rfl⟩)
      exact (hwf.edge_mem _ hk).2
    · intro e he
      obtain ⟨k, hk⟩ := (hmem e.1.1 e.1.2).mp (List.mem_map.mpr ⟨e, he, rfl⟩)
      exact hno _ hk

/-- **`capacity_across_cut` on the cut returned by `ford_fulkerson`** = the maximum flow value MINUS the
capacity of the edges entering the cut; so the "max-flow = min-cut" identity read through the two helpers
holds iff no capacity enters the returned set -/
theorem capAcross_ffDfs (N : Net) (hwf : N.WF') (rounds : Nat) (fl : FlowDict) (S : List Int)
    (paths : List (List Int × Int)) (h : ffDfs (netToG N) N.s N.t rounds = .ok (fl, S, paths)) :
    capAcross (netToG N) S = flowValue N.verts.toFinset N.s (flowOf (toTriples fl)) -
      cutCap N.verts.toFinset N.cap (N.verts.toFinset \ S.toFinset) := by
  have hfin := ffDfs_final N hwf rounds fl S paths h
  rw [capAcross_netToG N hwf, hfin.tight]

end FH
