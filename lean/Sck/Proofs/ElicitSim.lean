import Sck.Proofs.Simulate
import Sck.Model.Elicit

/-! C14: closed form of the threshold fill (one-sided `simulate` and two-sided `simulate2`) in terms of the
cut positions `p_l` found by the binary searches, and the property-shaped corollaries. -/

namespace Elicit

/-- `p*` of the code: last position of the `lam`-acceptable set of the agent -/
def cut (vals : Nat → ℚ) (m : Nat) (lam : ℚ) : Nat := (bsearchQ (geThr vals (vals 0 / lam)) 0 m).1

/-- the fill loop, abstract in the cut positions and in the filled value -/
def simLoopG (cutf : ℚ → Nat) (fill : ℚ → ℚ) : List ℚ → Nat → (Nat → ℚ) → Option (Nat → ℚ)
  | [], _, acc => some acc
  | lam :: rest, prev, acc =>
    if cutf lam < prev then none
    else simLoopG cutf fill rest (cutf lam) (fun q => if prev < q ∧ q ≤ cutf lam then fill lam else acc q)

theorem simLoop_eq_G (vals : Nat → ℚ) (m : Nat) :
    ∀ (lams : List ℚ) (prev : Nat) (acc : Nat → ℚ),
      simLoop vals m (vals 0) lams prev acc =
        simLoopG (cut vals m) (fun lam => vals 0 / lam) lams prev acc := by
  intro lams
  induction lams with
  | nil => intro prev acc; rfl
  | cons lam rest ih =>
    intro prev acc
    simp only [simLoop, simLoopG, cut, ih]
    rfl

theorem simLoop2_eq_G (vals : Nat → ℚ) (m : Nat) :
    ∀ (lams : List ℚ) (prev : Nat) (acc : Nat → ℚ),
      simLoop2 vals m (vals 0) lams prev acc =
        simLoopG (cut vals m) (fun lam => vals (cut vals m lam)) lams prev acc := by
  intro lams
  induction lams with
  | nil => intro prev acc; rfl
  | cons lam rest ih =>
    intro prev acc
    simp only [simLoop2, simLoopG, cut, ih]
    rfl

/-- the threshold (if any) whose acceptable set is the first to contain position `q` -/
def firstSet (cutf : ℚ → Nat) (lams : List ℚ) (q : Nat) : Option ℚ :=
  lams.find? (fun lam => decide (q ≤ cutf lam))

theorem firstSet_eq_some_iff (cutf : ℚ → Nat) (lams : List ℚ) (q : Nat) (lam : ℚ) :
    firstSet cutf lams q = some lam ↔
      ∃ pre post, lams = pre ++ lam :: post ∧ q ≤ cutf lam ∧ ∀ lam' ∈ pre, cutf lam' < q := by
  unfold firstSet
  rw [List.find?_eq_some_iff_append]
  constructor
  · rintro ⟨h1, as, bs, h2, h3⟩
    refine ⟨as, bs, h2, by simpa using h1, ?_⟩
    intro l hl
    have := h3 l hl
    simpa using this
  · rintro ⟨pre, post, h1, h2, h3⟩
    refine ⟨by simpa using h2, pre, post, h1, ?_⟩
    intro l hl
    have := h3 l hl
    simpa using this

theorem firstSet_eq_none_iff (cutf : ℚ → Nat) (lams : List ℚ) (q : Nat) :
    firstSet cutf lams q = none ↔ ∀ lam ∈ lams, cutf lam < q := by
  unfold firstSet
  rw [List.find?_eq_none]
  constructor
  · intro h l hl; have := h l hl; simpa using this
  · intro h l hl; have := h l hl; simpa using this

/-- closed form of the loop: if the cuts never go backwards the loop succeeds and position `q > prev`
receives the fill value of the first threshold whose cut is `≥ q` (none: the old value) -/
theorem simLoopG_closed (cutf : ℚ → Nat) (fill : ℚ → ℚ) :
    ∀ (rest : List ℚ) (prev : Nat) (acc : Nat → ℚ),
      (∀ lam ∈ rest, prev ≤ cutf lam) → rest.Pairwise (fun a b => cutf a ≤ cutf b) →
      simLoopG cutf fill rest prev acc =
        some (fun q => if prev < q then ((firstSet cutf rest q).map fill).getD (acc q) else acc q) := by
  intro rest
  induction rest with
  | nil =>
    intro prev acc _ _
    simp [simLoopG, firstSet]
  | cons lam rest ih =>
    intro prev acc hprev hpw
    have hle : prev ≤ cutf lam := hprev lam (by simp)
    have hpw' := List.pairwise_cons.mp hpw
    rw [simLoopG, if_neg (by omega), ih _ _ hpw'.1 hpw'.2]
    congr 1
    funext q
    unfold firstSet
    rw [List.find?_cons]
    by_cases h1 : q ≤ cutf lam
    · have hd : decide (q ≤ cutf lam) = true := by simpa using h1
      rw [if_neg (by omega), hd]
      by_cases h2 : prev < q
      · rw [if_pos ⟨h2, h1⟩, if_pos h2]; rfl
      · rw [if_neg (by omega), if_neg h2]
    · have hd : decide (q ≤ cutf lam) = false := by simpa using h1
      rw [if_pos (by omega), if_neg (by omega), if_pos (by omega), hd]

/-! ### the binary search finds the cut -/

theorem cut_spec (vals : Nat → ℚ) (m : Nat) (lam : ℚ) (hm : 0 < m)
    (anti : ∀ i j, i ≤ j → j < m → vals j ≤ vals i) (nonneg : 0 ≤ vals 0) (hlam1 : 1 ≤ lam) :
    cut vals m lam < m ∧ (∀ q, q ≤ cut vals m lam → vals 0 / lam ≤ vals q) ∧
      (∀ q, cut vals m lam < q → q < m → vals q < vals 0 / lam) := by
  have hmono : ∀ i j, i ≤ j → j < m → geThr vals (vals 0 / lam) j = true →
      geThr vals (vals 0 / lam) i = true := by
    intro i j hij hj h
    simp only [geThr, decide_eq_true_eq] at h ⊢
    exact le_trans h (anti i j hij hj)
  have hlo : geThr vals (vals 0 / lam) 0 = true := by
    simp only [geThr, decide_eq_true_eq]
    exact div_le_self nonneg hlam1
  have hb := bsearchQ_spec (geThr vals (vals 0 / lam)) m hmono m 0 m rfl hm (Nat.le_refl _) hlo (Or.inl rfl)
  dsimp only at hb
  obtain ⟨_, hpm, hle_p, hgt_p⟩ := hb
  refine ⟨hpm, ?_, ?_⟩
  · intro q hq; have := hle_p q hq; simpa [geThr] using this
  · intro q hq hqm; have := hgt_p q hq hqm; simpa [geThr] using this

/-- position `q < m` lies at or before the cut of `lam` iff its true value reaches the threshold `v/lam` -/
theorem le_cut_iff (vals : Nat → ℚ) (m : Nat) (lams : List ℚ) (h : SimWF vals m lams) (lam : ℚ)
    (hlam : lam ∈ lams) (q : Nat) (hq : q < m) :
    q ≤ cut vals m lam ↔ vals 0 / lam ≤ vals q := by
  obtain ⟨_, h2, h3⟩ := cut_spec vals m lam h.mpos h.anti h.nonneg (h.ge_one lam hlam)
  constructor
  · exact h2 q
  · intro hle
    by_contra hc
    have := h3 q (by omega) hq
    linarith

theorem cut_mono (vals : Nat → ℚ) (m : Nat) (hm : 0 < m)
    (anti : ∀ i j, i ≤ j → j < m → vals j ≤ vals i) (nonneg : 0 ≤ vals 0)
    (a b : ℚ) (ha : 1 ≤ a) (hab : a ≤ b) : cut vals m a ≤ cut vals m b := by
  obtain ⟨ha1, ha2, _⟩ := cut_spec vals m a hm anti nonneg ha
  obtain ⟨_, _, hb3⟩ := cut_spec vals m b hm anti nonneg (le_trans ha hab)
  by_contra hc
  have h1 := hb3 (cut vals m a) (by omega) ha1
  have h2 := ha2 (cut vals m a) (Nat.le_refl _)
  have h3 := div_le_div_lam (vals 0) a b nonneg ha hab
  linarith

theorem cut_pairwise (vals : Nat → ℚ) (m : Nat) (lams : List ℚ) (h : SimWF vals m lams) :
    lams.Pairwise (fun a b => cut vals m a ≤ cut vals m b) :=
  List.Pairwise.imp_of_mem
    (fun {a _} ha _ hab => cut_mono vals m h.mpos h.anti h.nonneg a _ (h.ge_one a ha) hab) h.sorted

/-! ### closed forms of `simulate` and `simulate2` -/

/-- `q` lies in the acceptable set of `lam`, `pre` being the thresholds processed before `lam`:
positions `(p_{l-1}, p_l]` of the ranking -/
def InSet (vals : Nat → ℚ) (m : Nat) (pre : List ℚ) (lam : ℚ) (q : Nat) : Prop :=
  q ≤ cut vals m lam ∧ ∀ lam' ∈ pre, cut vals m lam' < q

/-- `q` lies beyond the cut of every threshold -/
def Outside (vals : Nat → ℚ) (m : Nat) (lams : List ℚ) (q : Nat) : Prop :=
  ∀ lam ∈ lams, cut vals m lam < q

theorem simulate_closed (floor : ℚ) (vals : Nat → ℚ) (m : Nat) (lams : List ℚ) (h : SimWF vals m lams) :
    simulate floor vals m lams =
      some (fun q => if 0 < q then
        ((firstSet (cut vals m) lams q).map (fun lam => vals 0 / lam)).getD floor else vals 0) := by
  unfold simulate
  rw [simLoop_eq_G, simLoopG_closed _ _ _ _ _ (fun _ _ => Nat.zero_le _) (cut_pairwise vals m lams h)]
  congr 1
  funext q
  by_cases hq : 0 < q
  · rw [if_pos hq, if_pos hq, if_neg (by omega)]
  · have : q = 0 := by omega
    subst this
    simp

theorem simulate2_closed (vals : Nat → ℚ) (m : Nat) (lams : List ℚ) (h : SimWF vals m lams) :
    simulate2 vals m lams =
      some (fun q => if 0 < q then
        ((firstSet (cut vals m) lams q).map (fun lam => vals (cut vals m lam))).getD 0 else vals 0) := by
  unfold simulate2
  rw [simLoop2_eq_G, simLoopG_closed _ _ _ _ _ (fun _ _ => Nat.zero_le _) (cut_pairwise vals m lams h)]
  congr 1
  funext q
  by_cases hq : 0 < q
  · rw [if_pos hq, if_pos hq, if_neg (by omega)]
  · have : q = 0 := by omega
    subst this
    simp

theorem firstSet_of_inSet (vals : Nat → ℚ) (m : Nat) (pre : List ℚ) (lam : ℚ) (post : List ℚ) (q : Nat)
    (hin : InSet vals m pre lam q) : firstSet (cut vals m) (pre ++ lam :: post) q = some lam :=
  (firstSet_eq_some_iff _ _ _ _).mpr ⟨pre, post, rfl, hin.1, hin.2⟩

theorem firstSet_of_outside (vals : Nat → ℚ) (m : Nat) (lams : List ℚ) (q : Nat)
    (hout : Outside vals m lams q) : firstSet (cut vals m) lams q = none :=
  (firstSet_eq_none_iff _ _ _).mpr hout

/-- every position is in exactly one acceptable set or outside all of them -/
theorem inSet_or_outside (vals : Nat → ℚ) (m : Nat) (lams : List ℚ) (q : Nat) :
    (∃ pre lam post, lams = pre ++ lam :: post ∧ InSet vals m pre lam q) ∨ Outside vals m lams q := by
  cases hf : firstSet (cut vals m) lams q with
  | none => exact Or.inr ((firstSet_eq_none_iff _ _ _).mp hf)
  | some lam =>
    obtain ⟨pre, post, h1, h2, h3⟩ := (firstSet_eq_some_iff _ _ _ _).mp hf
    exact Or.inl ⟨pre, lam, post, h1, h2, h3⟩

/-! ### C14, one-sided rule (k-ARV: `floor = 0`, lambda-TSF: `floor = 1e-5`) -/

section OneSided
variable (floor : ℚ) (vals : Nat → ℚ) (m : Nat) (lams : List ℚ) (h : SimWF vals m lams)
include h

theorem sim_succeeds : ∃ sim, simulate floor vals m lams = some sim :=
  ⟨_, simulate_closed floor vals m lams h⟩

variable (sim : Nat → ℚ) (hsim : simulate floor vals m lams = some sim)
include hsim

theorem sim_eq : sim = fun q => if 0 < q then
    ((firstSet (cut vals m) lams q).map (fun lam => vals 0 / lam)).getD floor else vals 0 := by
  rw [simulate_closed floor vals m lams h] at hsim
  exact (Option.some.inj hsim).symm

/-- the favourite keeps its true value -/
theorem sim_favourite : sim 0 = vals 0 := by
  rw [sim_eq floor vals m lams h sim hsim]; simp

/-- in the acceptable set of `lam` the simulated value is exactly `v/lam` -/
theorem sim_set_value (pre : List ℚ) (lam : ℚ) (post : List ℚ) (hl : lams = pre ++ lam :: post)
    (q : Nat) (hq : 0 < q) (hin : InSet vals m pre lam q) : sim q = vals 0 / lam := by
  rw [sim_eq floor vals m lams h sim hsim]
  dsimp only
  rw [if_pos hq, hl, firstSet_of_inSet vals m pre lam post q hin]
  rfl

/-- outside all sets the simulated value is the floor -/
theorem sim_outside_value (q : Nat) (hq : 0 < q) (hout : Outside vals m lams q) : sim q = floor := by
  rw [sim_eq floor vals m lams h sim hsim]
  dsimp only
  rw [if_pos hq, firstSet_of_outside vals m lams q hout]
  rfl

omit hsim in
/-- at or before the cut of `lam` the true value is at least `v/lam` -/
theorem sim_set_lower (lam : ℚ) (hlam : lam ∈ lams) (q : Nat) (hq : q ≤ cut vals m lam) :
    vals 0 / lam ≤ vals q :=
  (cut_spec vals m lam h.mpos h.anti h.nonneg (h.ge_one lam hlam)).2.1 q hq

omit hsim in
/-- beyond the cut of `lam` the true value is strictly below `v/lam`; so outside all sets it is below
`v/lam` for every threshold, in particular the last one -/
theorem sim_outside_upper (q : Nat) (hqm : q < m) (hout : Outside vals m lams q) :
    ∀ lam ∈ lams, vals q < vals 0 / lam := fun lam hlam =>
  (cut_spec vals m lam h.mpos h.anti h.nonneg (h.ge_one lam hlam)).2.2 q (hout lam hlam) hqm

omit hsim in
theorem sim_outside_upper_last (q : Nat) (hqm : q < m) (hout : Outside vals m lams q)
    (lamK : ℚ) (hK : lams.getLast? = some lamK) : vals q < vals 0 / lamK :=
  sim_outside_upper vals m lams h q hqm hout lamK (List.mem_of_getLast? hK)

/-- never above the true value, except for the floor given to positions outside all sets -/
theorem sim_le_true (q : Nat) (hqm : q < m) :
    sim q ≤ vals q ∨ (sim q = floor ∧ Outside vals m lams q) := by
  by_cases hq : 0 < q
  · rcases inSet_or_outside vals m lams q with ⟨pre, lam, post, hl, hin⟩ | hout
    · left
      rw [sim_set_value floor vals m lams h sim hsim pre lam post hl q hq hin]
      exact sim_set_lower vals m lams h lam (by simp [hl]) q hin.1
    · right
      exact ⟨sim_outside_value floor vals m lams h sim hsim q hq hout, hout⟩
  · have : q = 0 := by omega
    subst this
    left
    rw [sim_favourite floor vals m lams h sim hsim]

/-- with a floor that does not exceed the true values (k-ARV: floor `0`, non-negative values) the
simulated value never exceeds the true value -/
theorem sim_le_true_of_floor_le (q : Nat) (hqm : q < m) (hfl : floor ≤ vals q) : sim q ≤ vals q := by
  rcases sim_le_true floor vals m lams h sim hsim q hqm with h1 | ⟨h1, _⟩
  · exact h1
  · rw [h1]; exact hfl

/-- simulated values are non-negative when the floor is -/
theorem sim_nonneg (hfl : 0 ≤ floor) (q : Nat) : 0 ≤ sim q := by
  by_cases hq : 0 < q
  · rcases inSet_or_outside vals m lams q with ⟨pre, lam, post, hl, hin⟩ | hout
    · rw [sim_set_value floor vals m lams h sim hsim pre lam post hl q hq hin]
      have : 1 ≤ lam := h.ge_one lam (by simp [hl])
      exact div_nonneg h.nonneg (by linarith)
    · rw [sim_outside_value floor vals m lams h sim hsim q hq hout]; exact hfl
  · have : q = 0 := by omega
    subst this
    rw [sim_favourite floor vals m lams h sim hsim]; exact h.nonneg

end OneSided

/-! ### C14, two-sided rule (`DoubleLambdaTSF`) -/

section TwoSided
variable (vals : Nat → ℚ) (m : Nat) (lams : List ℚ) (h : SimWF vals m lams)
include h

theorem sim2_succeeds : ∃ sim, simulate2 vals m lams = some sim :=
  ⟨_, simulate2_closed vals m lams h⟩

omit h in
/-- a non-empty acceptable set contains its own cut position, which carries the smallest true value -/
theorem cut_inSet (pre : List ℚ) (lam : ℚ) (q : Nat) (hin : InSet vals m pre lam q) :
    InSet vals m pre lam (cut vals m lam) :=
  ⟨Nat.le_refl _, fun lam' hl => Nat.lt_of_lt_of_le (hin.2 lam' hl) hin.1⟩

variable (sim : Nat → ℚ) (hsim : simulate2 vals m lams = some sim)
include hsim

theorem sim2_eq : sim = fun q => if 0 < q then
    ((firstSet (cut vals m) lams q).map (fun lam => vals (cut vals m lam))).getD 0 else vals 0 := by
  rw [simulate2_closed vals m lams h] at hsim
  exact (Option.some.inj hsim).symm

theorem sim2_favourite : sim 0 = vals 0 := by
  rw [sim2_eq vals m lams h sim hsim]; simp

/-- in the acceptable set of `lam` the simulated value is the true value at the set's last position -/
theorem sim2_set_value (pre : List ℚ) (lam : ℚ) (post : List ℚ) (hl : lams = pre ++ lam :: post)
    (q : Nat) (hq : 0 < q) (hin : InSet vals m pre lam q) : sim q = vals (cut vals m lam) := by
  rw [sim2_eq vals m lams h sim hsim]
  dsimp only
  rw [if_pos hq, hl, firstSet_of_inSet vals m pre lam post q hin]
  rfl

theorem sim2_outside_value (q : Nat) (hq : 0 < q) (hout : Outside vals m lams q) : sim q = 0 := by
  rw [sim2_eq vals m lams h sim hsim]
  dsimp only
  rw [if_pos hq, firstSet_of_outside vals m lams q hout]
  rfl

omit hsim in
/-- the value at the cut is the smallest true value of the set (values are antitone along the ranking) -/
theorem sim2_set_min (lam : ℚ) (hlam : lam ∈ lams) (q : Nat) (hq : q ≤ cut vals m lam) :
    vals (cut vals m lam) ≤ vals q :=
  h.anti q _ hq (cut_spec vals m lam h.mpos h.anti h.nonneg (h.ge_one lam hlam)).1

omit hsim in
/-- … and it still reaches the threshold -/
theorem sim2_set_lower (lam : ℚ) (hlam : lam ∈ lams) : vals 0 / lam ≤ vals (cut vals m lam) :=
  sim_set_lower vals m lams h lam hlam _ (Nat.le_refl _)

/-- never above the true value (non-negative values) -/
theorem sim2_le_true (q : Nat) (hqm : q < m) (hnn : 0 ≤ vals q) : sim q ≤ vals q := by
  by_cases hq : 0 < q
  · rcases inSet_or_outside vals m lams q with ⟨pre, lam, post, hl, hin⟩ | hout
    · rw [sim2_set_value vals m lams h sim hsim pre lam post hl q hq hin]
      exact sim2_set_min vals m lams h lam (by simp [hl]) q hin.1
    · rw [sim2_outside_value vals m lams h sim hsim q hq hout]; exact hnn
  · have : q = 0 := by omega
    subst this
    rw [sim2_favourite vals m lams h sim hsim]

end TwoSided

/-- everything about the two-sided rule in one statement -/
theorem simulate2_spec (vals : Nat → ℚ) (m : Nat) (lams : List ℚ) (h : SimWF vals m lams) :
    ∃ sim, simulate2 vals m lams = some sim ∧ sim 0 = vals 0 ∧
      (∀ pre lam post q, lams = pre ++ lam :: post → 0 < q → InSet vals m pre lam q →
        sim q = vals (cut vals m lam) ∧ InSet vals m pre lam (cut vals m lam) ∧
        (∀ q', InSet vals m pre lam q' → vals (cut vals m lam) ≤ vals q') ∧
        vals 0 / lam ≤ vals (cut vals m lam)) ∧
      (∀ q, 0 < q → q < m → Outside vals m lams q →
        sim q = 0 ∧ ∀ lam ∈ lams, vals q < vals 0 / lam) := by
  obtain ⟨sim, hsim⟩ := sim2_succeeds vals m lams h
  refine ⟨sim, hsim, sim2_favourite vals m lams h sim hsim, ?_, ?_⟩
  · intro pre lam post q hl hq hin
    have hmem : lam ∈ lams := by simp [hl]
    exact ⟨sim2_set_value vals m lams h sim hsim pre lam post hl q hq hin, cut_inSet vals m pre lam q hin,
      fun q' hq' => sim2_set_min vals m lams h lam hmem q' hq'.1, sim2_set_lower vals m lams h lam hmem⟩
  · intro q hq hqm hout
    exact ⟨sim2_outside_value vals m lams h sim hsim q hq hout, sim_outside_upper vals m lams h q hqm hout⟩

/-! ### C14, Match-TwoQueries -/

theorem m2q_favourite (floor : ℚ) (vals : Nat → ℚ) (p : Nat) : m2qAgent floor vals p 0 = vals 0 := by
  simp [m2qAgent]

/-- up to the representative item (position `p`) the simulated value is the true value AT `p`, which for
antitone values is at most the true value -/
theorem m2q_le_true (floor : ℚ) (vals : Nat → ℚ) (m p : Nat) (anti : ∀ i j, i ≤ j → j < m → vals j ≤ vals i)
    (hp : p < m) (q : Nat) (hq : q ≤ p) : m2qAgent floor vals p q ≤ vals q := by
  unfold m2qAgent
  by_cases h0 : q = 0
  · subst h0; simp
  · rw [if_neg h0, if_pos hq]; exact anti q p hq hp

theorem m2q_value (floor : ℚ) (vals : Nat → ℚ) (p q : Nat) (h0 : 0 < q) (hq : q ≤ p) :
    m2qAgent floor vals p q = vals p := by
  unfold m2qAgent
  rw [if_neg (by omega), if_pos hq]

/-- beyond the representative item: the floor -/
theorem m2q_beyond (floor : ℚ) (vals : Nat → ℚ) (p q : Nat) (hq : p < q) : m2qAgent floor vals p q = floor := by
  unfold m2qAgent
  rw [if_neg (by omega), if_neg (by omega)]

end Elicit

#print axioms Elicit.simulate_closed
#print axioms Elicit.simulate2_spec
#print axioms Elicit.sim_le_true
