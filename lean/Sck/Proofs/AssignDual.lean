import Mathlib.Algebra.BigOperators.Group.Finset.Basic
import Mathlib.Algebra.Order.BigOperators.Group.Finset
import Mathlib.Data.Fintype.BigOperators
import Mathlib.Data.Rat.Defs
import Mathlib.Algebra.Order.Ring.Rat
import Mathlib.Tactic.Linarith

open Finset

theorem assignment_opt {n : ℕ} (acc : Fin n → Fin n → Prop) (w : Fin n → Fin n → ℚ) (u v : Fin n → ℚ)
    (σ τ : Equiv.Perm (Fin n))
    (hfeas : ∀ i j, acc i j → w i j ≤ u i + v j)
    (htight : ∀ i, w i (σ i) = u i + v (σ i))
    (hτ : ∀ i, acc i (τ i)) :
    ∑ i, w i (τ i) ≤ ∑ i, w i (σ i) := by
  calc ∑ i, w i (τ i) ≤ ∑ i, (u i + v (τ i)) := Finset.sum_le_sum (fun i _ => hfeas i (τ i) (hτ i))
    _ = ∑ i, u i + ∑ i, v (τ i) := Finset.sum_add_distrib
    _ = ∑ i, u i + ∑ i, v i := by rw [Equiv.sum_comp τ v]
    _ = ∑ i, u i + ∑ i, v (σ i) := by rw [Equiv.sum_comp σ v]
    _ = ∑ i, (u i + v (σ i)) := Finset.sum_add_distrib.symm
    _ = ∑ i, w i (σ i) := by simp [htight]

#print axioms assignment_opt
