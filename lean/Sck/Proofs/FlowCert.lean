import Sck.Proofs.FlowProof
import Sck.Model.FlowCert

/-! C08: soundness of the certificate checker `flowCutOk` for the implementation's (flow dict, cut). -/

open Finset

/-! ### well-formedness -/

structure Net.WF' (N : Net) : Prop where
  nodup : N.verts.Nodup
  s_mem : N.s ∈ N.verts
  t_mem : N.t ∈ N.verts
  s_ne_t : N.s ≠ N.t
  edge_mem : ∀ e ∈ N.edges, e.1 ∈ N.verts ∧ e.2.1 ∈ N.verts
  edge_nodup : (N.edges.map (fun e => (e.1, e.2.1))).Nodup

theorem netWfB_iff (N : Net) : netWfB N = true ↔ N.WF' := by
  simp only [netWfB, Bool.and_eq_true, decide_eq_true_eq, List.contains_iff_mem, Bool.not_eq_true',
    beq_eq_false_iff_ne, List.all_eq_true]
  constructor
  · rintro ⟨⟨⟨⟨⟨h1, h2⟩, h3⟩, h4⟩, h5⟩, h6⟩
    exact ⟨h1, h2, h3, h4, h5, h6⟩
  · rintro ⟨h1, h2, h3, h4, h5, h6⟩
    exact ⟨⟨⟨⟨⟨h1, h2⟩, h3⟩, h4⟩, h5⟩, h6⟩

theorem Net.WF'.toWF {N : Net} (h : N.WF') : N.WF := ⟨h.s_mem, h.t_mem, h.s_ne_t⟩

/-- on a well-formed network `cap` reads off the capacity of the (unique) edge -/
theorem cap_of_edge {N : Net} (h : N.WF') {u v : Int} {c : Nat} (he : (u, v, c) ∈ N.edges) :
    N.cap u v = c := by
  unfold Net.cap
  have hnd := h.edge_nodup
  generalize N.edges = es at he hnd
  induction es with
  | nil => simp at he
  | cons a es ih =>
    simp only [List.map_cons, List.nodup_cons] at hnd
    simp only [List.find?_cons]
    simp only [List.mem_cons] at he
    rcases he with rfl | he
    · simp
    · have hne : ¬ (a.1 = u ∧ a.2.1 = v) := by
        rintro ⟨h1, h2⟩
        apply hnd.1
        simp only [List.mem_map]
        exact ⟨(u, v, c), he, by simp [h1, h2]⟩
      have : (a.1 == u && a.2.1 == v) = false := by
        simp only [Bool.and_eq_false_imp, beq_iff_eq, beq_eq_false_iff_ne]
        intro h1 h2; exact hne ⟨h1, h2⟩
      rw [this]
      exact ih he hnd.2

theorem cap_pos_edge {N : Net} {u v : Int} (h : 0 < N.cap u v) : ∃ c, (u, v, c) ∈ N.edges := by
  unfold Net.cap at h
  split at h
  · rename_i e he
    have hm := List.mem_of_find?_eq_some he
    have hp := List.find?_some he
    simp only [Bool.and_eq_true, beq_iff_eq] at hp
    refine ⟨e.2.2, ?_⟩
    rw [← hp.1, ← hp.2]; exact hm
  · simp at h

/-! ### the reported dict -/

theorem entryVal_some {fl : List (Int × Int × Int)} {u v x : Int} (h : entryVal fl u v = some x) :
    (u, v, x) ∈ fl := by
  unfold entryVal at h
  split at h
  · rename_i e he
    have hm := List.mem_of_find?_eq_some he
    have hp := List.find?_some he
    simp only [Bool.and_eq_true, beq_iff_eq] at hp
    simp only [Option.some.injEq] at h
    rw [← hp.1, ← hp.2, ← h]; exact hm
  · simp at h

theorem entryVal_none {fl : List (Int × Int × Int)} {u v : Int} (h : entryVal fl u v = none) (x : Int) :
    (u, v, x) ∉ fl := by
  unfold entryVal at h
  split at h
  · simp at h
  · rename_i hn
    intro hm
    have := List.find?_eq_none.mp hn (u, v, x) hm
    simp at this

theorem flowOf_skew (fl : List (Int × Int × Int)) (h : skewB fl = true) (u v : Int) :
    flowOf fl u v = - flowOf fl v u := by
  simp only [skewB, List.all_eq_true] at h
  unfold flowOf
  cases h1 : entryVal fl u v with
  | some x =>
    cases h2 : entryVal fl v u with
    | some y =>
      have := h (u, v, x) (entryVal_some h1)
      simp only [h2, beq_iff_eq] at this
      simpa using this
    | none => simp
  | none =>
    cases h2 : entryVal fl v u with
    | some y => simp
    | none => simp

theorem flowOf_le_cap (N : Net) (fl : List (Int × Int × Int)) (h : capB N fl = true) (u v : Int) :
    flowOf fl u v ≤ N.cap u v := by
  simp only [capB, List.all_eq_true, Bool.and_eq_true, decide_eq_true_eq] at h
  unfold flowOf
  cases h1 : entryVal fl u v with
  | some x => exact (h (u, v, x) (entryVal_some h1)).1
  | none =>
    cases h2 : entryVal fl v u with
    | some y => exact (h (v, u, y) (entryVal_some h2)).2
    | none => exact cap_nonneg N u v

/-! ### lists to finsets -/

theorem sumInt_map_eq (l : List Int) (hnd : l.Nodup) (g : Int → Int) :
    sumInt (l.map g) = ∑ v ∈ l.toFinset, g v := by
  unfold sumInt
  exact (List.sum_toFinset g hnd).symm

theorem valueL_eq (N : Net) (hnd : N.verts.Nodup) (f : Flow) :
    valueL N f = flowValue N.verts.toFinset N.s f := by
  unfold valueL flowValue
  exact sumInt_map_eq _ hnd _

theorem cutCapL_eq (N : Net) (hnd : N.verts.Nodup) (S : List Int) (hS : ∀ v ∈ S, v ∈ N.verts) :
    cutCapL N S = cutCap N.verts.toFinset N.cap S.toFinset := by
  unfold cutCapL cutCap
  have h1 : (N.verts.filter (fun u => S.contains u)).toFinset = S.toFinset := by
    ext x
    simp only [List.toFinset_filter, List.contains_iff_mem, Finset.mem_filter, List.mem_toFinset]
    exact ⟨fun h => h.2, fun h => ⟨hS x h, h⟩⟩
  have h2 : (N.verts.filter (fun v => !S.contains v)).toFinset = N.verts.toFinset \ S.toFinset := by
    ext x
    simp
  rw [sumInt_map_eq _ (hnd.filter _), h1]
  refine Finset.sum_congr rfl (fun u _ => ?_)
  rw [sumInt_map_eq _ (hnd.filter _), h2]

/-! ### soundness -/

/-- the dict has exactly one entry per edge of the network and nothing else -/
def EntriesExact (N : Net) (fl : List (Int × Int × Int)) : Prop :=
  (fl.map (fun e => (e.1, e.2.1))).Nodup ∧
  ∀ u v, (∃ x, (u, v, x) ∈ fl) ↔ (∃ c, (u, v, c) ∈ N.edges)

theorem entriesExactB_sound (N : Net) (fl : List (Int × Int × Int)) (h : entriesExactB N fl = true) :
    EntriesExact N fl := by
  simp only [entriesExactB, Bool.and_eq_true, decide_eq_true_eq, List.all_eq_true, List.contains_iff_mem,
    List.mem_map] at h
  obtain ⟨⟨h1, h2⟩, h3⟩ := h
  refine ⟨h1, fun u v => ⟨?_, ?_⟩⟩
  · rintro ⟨x, hx⟩
    obtain ⟨e, he, heq⟩ := h2 (u, v) ⟨(u, v, x), hx, rfl⟩
    simp only [Prod.mk.injEq] at heq
    refine ⟨e.2.2, ?_⟩
    rw [← heq.1, ← heq.2]; exact he
  · rintro ⟨c, hc⟩
    obtain ⟨e, he, heq⟩ := h3 (u, v) ⟨(u, v, c), hc, rfl⟩
    simp only [Prod.mk.injEq] at heq
    refine ⟨e.2.2, ?_⟩
    rw [← heq.1, ← heq.2]; exact he

theorem flowCutOk_isFlow (N : Net) (hwf : N.WF') (fl : List (Int × Int × Int)) (S : List Int)
    (h : flowCutOk N fl S = true) :
    IsFlow N.verts.toFinset N.cap N.s N.t (flowOf fl) := by
  simp only [flowCutOk, Bool.and_eq_true] at h
  obtain ⟨⟨⟨⟨⟨⟨⟨_, hskew⟩, hcap⟩, hcons⟩, _⟩, _⟩, _⟩, _⟩ := h
  refine ⟨flowOf_skew fl hskew, flowOf_le_cap N fl hcap, ?_⟩
  intro u hu hus hut
  simp only [conserveB, List.all_eq_true, Bool.or_eq_true, beq_iff_eq] at hcons
  rcases hcons u (List.mem_toFinset.mp hu) with (h1 | h1) | h1
  · exact absurd h1 hus
  · exact absurd h1 hut
  · rw [← sumInt_map_eq _ hwf.nodup]; exact h1

/-- **Soundness of the certificate check.**  If the network is well formed and the check accepts the reported
dict `fl` and vertex set `S`, then the net flow `flowOf fl` read off the dict is a flow (skew symmetric,
within capacity in both directions, conserved away from source and sink), no flow has a larger value, `S` is
an s–t cut whose capacity equals that value, no s–t cut has a smaller capacity, and the dict has exactly one
entry per edge. -/
theorem flowCutOk_sound (N : Net) (fl : List (Int × Int × Int)) (S : List Int)
    (hwf : netWfB N = true) (h : flowCutOk N fl S = true) :
    IsFlow N.verts.toFinset N.cap N.s N.t (flowOf fl) ∧
    (∀ g, IsFlow N.verts.toFinset N.cap N.s N.t g →
      flowValue N.verts.toFinset N.s g ≤ flowValue N.verts.toFinset N.s (flowOf fl)) ∧
    (N.s ∈ S ∧ N.t ∉ S ∧ (∀ v ∈ S, v ∈ N.verts) ∧
      cutCap N.verts.toFinset N.cap S.toFinset = flowValue N.verts.toFinset N.s (flowOf fl)) ∧
    (∀ T : Finset Int, T ⊆ N.verts.toFinset → N.s ∈ T → N.t ∉ T →
      cutCap N.verts.toFinset N.cap S.toFinset ≤ cutCap N.verts.toFinset N.cap T) ∧
    EntriesExact N fl := by
  have hwf' := (netWfB_iff N).mp hwf
  have hflow := flowCutOk_isFlow N hwf' fl S h
  simp only [flowCutOk, Bool.and_eq_true, List.contains_iff_mem, Bool.not_eq_true', List.all_eq_true,
    beq_iff_eq] at h
  obtain ⟨⟨⟨⟨⟨⟨⟨hex, _⟩, _⟩, _⟩, hs⟩, ht⟩, hsub⟩, hval⟩ := h
  have ht' : N.t ∉ S := by
    intro hm
    have : S.contains N.t = true := List.contains_iff_mem.mpr hm
    rw [this] at ht; simp at ht
  have heq : flowValue N.verts.toFinset N.s (flowOf fl) = cutCap N.verts.toFinset N.cap S.toFinset := by
    rw [← valueL_eq N hwf'.nodup, ← cutCapL_eq N hwf'.nodup S hsub]; exact hval
  have hcert := maxflow_cert N.verts.toFinset N.cap N.s N.t (flowOf fl) hflow S.toFinset
    (fun v hv => List.mem_toFinset.mpr (hsub v (List.mem_toFinset.mp hv)))
    (List.mem_toFinset.mpr hs) (fun hm => ht' (List.mem_toFinset.mp hm)) heq
  exact ⟨hflow, hcert.1, ⟨hs, ht', hsub, heq.symm⟩, hcert.2, entriesExactB_sound N fl hex⟩

#print axioms flowCutOk_sound
