import Sck.Proofs.DA6

/-- Proposer-optimality: a pair of any stable matching is either held, or the proposer is full
with receivers it ranks strictly above that partner. -/
theorem proposer_optimal (I : DA) (hwf : WF I) (st : St) (hinv : DAInv I st) (hcap : CapP I st)
    (hfin : Final I st) (hopt : Opt I st) (nu : List (Nat × Nat)) (hst : StableDA I nu)
    (p r : Nat) (hnu : (p, r) ∈ nu) :
    (p, r) ∈ st.mu ∨
    ((matchesOf st.mu p).length = I.qp p ∧ ∀ r' ∈ matchesOf st.mu p, prefersP I p r' r) := by
  by_cases hm : (p, r) ∈ st.mu
  · exact Or.inl hm
  right
  obtain ⟨⟨j, hj⟩, _⟩ := hst.1.acc p r hnu
  have hjl : j < (I.plist p).length := (List.getElem?_eq_some_iff.mp hj).1
  have hjp : st.ptr p ≤ j := by
    by_contra hc
    exact hopt nu hst p j r (by omega) hj hm hnu
  have hfull : (matchesOf st.mu p).length = I.qp p := by
    have := hcap p
    by_contra hc
    have := hfin p (by omega)
    omega
  refine ⟨hfull, ?_⟩
  intro r' hr'
  obtain ⟨i, hi, hir⟩ := hinv.before p r' (mem_matchesOf.mp hr')
  exact ⟨i, j, by omega, hir, hj⟩

/-- Receiver-pessimality: if `r` holds `p` at the end and a stable matching does not contain
`(p, r)`, then in that matching `r` is full with proposers it ranks strictly above `p`. -/
theorem receiver_pessimal (I : DA) (hwf : WF I) (st : St) (hinv : DAInv I st) (hcap : CapP I st)
    (hopt : Opt I st) (nu : List (Nat × Nat)) (hst : StableDA I nu)
    (p r : Nat) (hmu : (p, r) ∈ st.mu) (hnu : (p, r) ∉ nu) :
    ∃ a, I.rrank r p = some a ∧ (heldBy nu r).length = I.qr r ∧
      ∀ p' ∈ heldBy nu r, ∃ b, I.rrank r p' = some b ∧ b < a := by
  obtain ⟨a, ha⟩ := hinv.acc p r hmu
  obtain ⟨k, hk, hkr⟩ := hinv.before p r hmu
  refine ⟨a, ha, ?_⟩
  -- otherwise (p, r) blocks nu
  by_contra hneg
  apply hst.2 p r
  refine ⟨⟨k, hkr⟩, hnu, ?_, a, ha, ?_⟩
  · -- proposer side, by counting
    by_contra hp
    have hge : I.qp p ≤ (matchesOf nu p).length := by
      by_contra hc; exact hp (Or.inl (by omega))
    have hkeep : ∀ r' ∈ matchesOf nu p, r' ∈ matchesOf st.mu p ∧ r' ≠ r := by
      intro r' hr'
      have hr'nu : (p, r') ∈ nu := mem_matchesOf.mp hr'
      have hne : r' ≠ r := by intro h; subst h; exact hnu hr'nu
      obtain ⟨⟨j, hj⟩, _⟩ := hst.1.acc p r' hr'nu
      have hjk : j < k := by
        have h1 : ¬ (k < j) := fun hlt => hp (Or.inr ⟨r', hr', k, j, hlt, hkr, hj⟩)
        have h2 : j ≠ k := by
          intro h; subst h; rw [hkr] at hj; simp at hj; exact hne hj.symm
        omega
      refine ⟨mem_matchesOf.mpr ?_, hne⟩
      by_contra hc
      exact hopt nu hst p j r' (by omega) hj hc hr'nu
    have hnd : (r :: matchesOf nu p).Nodup :=
      List.nodup_cons.mpr ⟨fun h => (hkeep r h).2 rfl, matchesOf_nodup hst.1.nodup p⟩
    have hsub : (r :: matchesOf nu p) ⊆ matchesOf st.mu p := by
      intro x hx; simp at hx
      rcases hx with rfl | hx
      · exact mem_matchesOf.mpr hmu
      · exact (hkeep x hx).1
    have h1 := List.Nodup.length_le_of_subset hnd hsub
    have h2 := hcap p
    simp at h1; omega
  · -- receiver side: negation of "full with better"
    by_cases hroom : (heldBy nu r).length < I.qr r
    · exact Or.inl hroom
    · right
      have hcapr := hst.1.capR r
      have hfull : (heldBy nu r).length = I.qr r := by omega
      by_contra hnone
      apply hneg
      refine ⟨hfull, ?_⟩
      intro p' hp'
      obtain ⟨_, b, hb⟩ := hst.1.acc p' r (mem_heldBy.mp hp')
      refine ⟨b, hb, ?_⟩
      have hne : p' ≠ p := by intro h; subst h; exact hnu (mem_heldBy.mp hp')
      have hab : a ≠ b := fun h => hne (hwf.2 r p' p b hb (h ▸ ha))
      by_contra hc
      exact hnone ⟨p', hp', b, hb, by omega⟩

#print axioms proposer_optimal
#print axioms receiver_pessimal
