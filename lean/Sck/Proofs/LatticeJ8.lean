import Sck.Proofs.LatticeJ7

/-! # C03, package L8b, part 8: `scanMan` puts ALL the edges of Rules 1 and 2 (the converse of `edgesFrom_posetGraph`)

`scanMan` is a left fold over the man's shortlist: the "current pair" evolves by `stepCur` (independently of the graph) and
the graph by `stepG`.  Edges are never removed, so every edge put while scanning man `m` is in `posetGraph`. -/

namespace IrvingAlgo.J

open Irving

/-- how `scanMan` updates its current pair when it reads `w'` -/
def stepCur (rop : List (Pair × Nat)) (m : Nat) (cur : Option (Nat × Nat)) (w' : Nat) : Option (Nat × Nat) :=
  match dictGet? rop (m, w') with
  | some r => some (w', r)
  | none => cur

/-- how `scanMan` updates the graph when it reads `w'` -/
def stepG (rots : List (List Pair)) (rop elim : List (Pair × Nat)) (m : Nat) (L : List Nat)
    (cur : Option (Nat × Nat)) (w' : Nat) (G : List (List Nat)) : List (List Nat) :=
  match cur with
  | none => G
  | some (w, rho) =>
    match dictGet? rop (m, w') with
    | some rho' => addEdge G rho rho'
    | none =>
      match dictGet? elim (m, w') with
      | some pi => if L.idxOf w' < L.idxOf (wnextOf rots rho m w) then addEdge G pi rho else G
      | none => G

theorem scanMan_cons (rots : List (List Pair)) (rop elim : List (Pair × Nat)) (m : Nat) (L : List Nat)
    (cur : Option (Nat × Nat)) (w' : Nat) (rest : List Nat) (G : List (List Nat)) :
    scanMan rots rop elim m L cur (w' :: rest) G =
      scanMan rots rop elim m L (stepCur rop m cur w') rest (stepG rots rop elim m L cur w' G) := by
  cases cur with
  | none =>
    cases h1 : dictGet? rop (m, w') with
    | none => simp only [scanMan, stepCur, stepG, h1]
    | some r => simp only [scanMan, stepCur, stepG, h1]
  | some c =>
    obtain ⟨w, rho⟩ := c
    cases h1 : dictGet? rop (m, w') with
    | some r => simp only [scanMan, stepCur, stepG, h1]
    | none =>
      cases h2 : dictGet? elim (m, w') with
      | none => simp only [scanMan, stepCur, stepG, h1, h2]
      | some pi =>
        simp only [scanMan, stepCur, stepG, h1, h2, wnextOf]
        split
        · rename_i h; simp only [h, if_true]
        · rename_i h; simp only [h, if_false]

theorem mem_addEdge_of_mem {G : List (List Nat)} {x y : Nat} (pi rho : Nat) (h : y ∈ G.getD x []) :
    y ∈ (addEdge G pi rho).getD x [] := by
  unfold addEdge
  split
  · exact h
  · by_cases hx : pi = x
    · subst hx
      by_cases hlt : pi < G.length
      · rw [getD_set_self _ _ _ _ hlt]; exact List.mem_append_left _ h
      · rw [List.set_eq_of_length_le (by omega)]; exact h
    · rw [getD_set_ne _ _ _ _ _ hx]; exact h

theorem mem_addEdge_self {G : List (List Nat)} {pi : Nat} (rho : Nat) (h : pi < G.length) :
    rho ∈ (addEdge G pi rho).getD pi [] := by
  unfold addEdge
  split
  · rename_i hc; exact List.contains_iff_mem.mp hc
  · rw [getD_set_self _ _ _ _ h]; simp

theorem stepG_length (rots : List (List Pair)) (rop elim : List (Pair × Nat)) (m : Nat) (L : List Nat)
    (cur : Option (Nat × Nat)) (w' : Nat) (G : List (List Nat)) :
    (stepG rots rop elim m L cur w' G).length = G.length := by
  unfold stepG
  split
  · rfl
  · split
    · exact addEdge_length _ _ _
    · split
      · split
        · exact addEdge_length _ _ _
        · rfl
      · rfl

theorem stepG_mono (rots : List (List Pair)) (rop elim : List (Pair × Nat)) (m : Nat) (L : List Nat)
    (cur : Option (Nat × Nat)) (w' : Nat) (G : List (List Nat)) {x y : Nat} (h : y ∈ G.getD x []) :
    y ∈ (stepG rots rop elim m L cur w' G).getD x [] := by
  unfold stepG
  split
  · exact h
  · split
    · exact mem_addEdge_of_mem _ _ h
    · split
      · split
        · exact mem_addEdge_of_mem _ _ h
        · exact h
      · exact h

theorem scanMan_mono (rots : List (List Pair)) (rop elim : List (Pair × Nat)) (m : Nat) (L : List Nat) :
    ∀ (rest : List Nat) (cur : Option (Nat × Nat)) (G : List (List Nat)) {x y : Nat}, y ∈ G.getD x [] →
      y ∈ (scanMan rots rop elim m L cur rest G).getD x [] := by
  intro rest
  induction rest with
  | nil => intro cur G x y h; cases cur <;> simpa [scanMan] using h
  | cons w' rest ih =>
    intro cur G x y h
    rw [scanMan_cons]
    exact ih _ _ (stepG_mono rots rop elim m L cur w' G h)

/-- scanning a prefix only changes the current pair (by `stepCur`) and enlarges the graph -/
theorem scanMan_split (rots : List (List Pair)) (rop elim : List (Pair × Nat)) (m : Nat) (L : List Nat)
    (rest : List Nat) :
    ∀ (r1 : List Nat) (cur : Option (Nat × Nat)) (G : List (List Nat)),
      ∃ G1, G1.length = G.length ∧
        scanMan rots rop elim m L cur (r1 ++ rest) G = scanMan rots rop elim m L (r1.foldl (stepCur rop m) cur) rest G1 := by
  intro r1
  induction r1 with
  | nil => intro cur G; exact ⟨G, rfl, rfl⟩
  | cons a r1 ih =>
    intro cur G
    obtain ⟨G1, hl, he⟩ := ih (stepCur rop m cur a) (stepG rots rop elim m L cur a G)
    refine ⟨G1, by rw [hl, stepG_length], ?_⟩
    rw [List.cons_append, scanMan_cons, he, List.foldl_cons]

/-- the edge put when `scanMan` reads `w'` after the prefix `r1` survives to the end of the scan -/
theorem scanMan_edge (rots : List (List Pair)) (rop elim : List (Pair × Nat)) (m : Nat) (L : List Nat)
    (r1 : List Nat) (w' : Nat) (r2 : List Nat) (G : List (List Nat)) (w rho : Nat)
    (hcur : r1.foldl (stepCur rop m) none = some (w, rho)) :
    (∀ rho', dictGet? rop (m, w') = some rho' → rho < G.length →
      rho' ∈ (scanMan rots rop elim m L none (r1 ++ w' :: r2) G).getD rho []) ∧
    (∀ pi, dictGet? rop (m, w') = none → dictGet? elim (m, w') = some pi →
      L.idxOf w' < L.idxOf (wnextOf rots rho m w) → pi < G.length →
      rho ∈ (scanMan rots rop elim m L none (r1 ++ w' :: r2) G).getD pi []) := by
  obtain ⟨G1, hl, he⟩ := scanMan_split rots rop elim m L (w' :: r2) r1 none G
  rw [he, hcur, scanMan_cons]
  constructor
  · intro rho' h1 hlt
    apply scanMan_mono
    simp only [stepG, h1]
    exact mem_addEdge_self _ (by omega)
  · intro pi h1 h2 h3 hlt
    apply scanMan_mono
    simp only [stepG, h1, h2, h3, if_true]
    exact mem_addEdge_self _ (by omega)

theorem scanMan_length' (rots : List (List Pair)) (rop elim : List (Pair × Nat)) (m : Nat) (L : List Nat) :
    ∀ (rest : List Nat) (cur : Option (Nat × Nat)) (G : List (List Nat)),
      (scanMan rots rop elim m L cur rest G).length = G.length := by
  intro rest
  induction rest with
  | nil => intro cur G; cases cur <;> simp [scanMan]
  | cons w' rest ih => intro cur G; rw [scanMan_cons, ih, stepG_length]

/-- **completeness of `posetGraph` w.r.t. Rules 1 and 2**: while scanning man `m`'s list `pre ++ w' :: post`, if the
current pair after `pre` is `(w, rho)`, then Rule 1 (if `(m, w')` is a rotation pair) resp. Rule 2 (if `(m, w')` has an
eliminating rotation and `w'` comes before the next woman of `m` in `rho`) puts an edge, and it is in the final graph -/
theorem posetGraph_edge (rots : List (List Pair)) (l1 : List (List Nat)) (elim : List (Pair × Nat)) (m : Nat)
    (hm : m < l1.length) (r1 : List Nat) (w' : Nat) (r2 : List Nat) (hL : l1.getD m [] = r1 ++ w' :: r2) (w rho : Nat)
    (hcur : r1.foldl (stepCur (rotOfPair rots) m) none = some (w, rho)) :
    (∀ rho', dictGet? (rotOfPair rots) (m, w') = some rho' → rho < rots.length →
      rho' ∈ (posetGraph rots l1 elim).getD rho []) ∧
    (∀ pi, dictGet? (rotOfPair rots) (m, w') = none → dictGet? elim (m, w') = some pi →
      (l1.getD m []).idxOf w' < (l1.getD m []).idxOf (wnextOf rots rho m w) → pi < rots.length →
      rho ∈ (posetGraph rots l1 elim).getD pi []) := by
  unfold posetGraph
  -- split the men into those before `m`, `m`, and those after
  obtain ⟨ms2, hsplit⟩ : ∃ ms2, List.range l1.length = List.range m ++ m :: ms2 := by
    obtain ⟨d, hd⟩ : ∃ d, l1.length = m + (d + 1) := ⟨l1.length - m - 1, by omega⟩
    rw [hd, List.range_add, List.range_succ_eq_map, List.map_cons]
    exact ⟨_, rfl⟩
  set f := fun (G : List (List Nat)) (m : Nat) =>
    scanMan rots (rotOfPair rots) elim m (l1.getD m []) none (l1.getD m []) G with hf
  have hlen : ∀ (ms : List Nat) (G : List (List Nat)), (ms.foldl f G).length = G.length := by
    intro ms
    induction ms with
    | nil => intro G; rfl
    | cons a ms ih => intro G; rw [List.foldl_cons, ih]; exact scanMan_length' _ _ _ _ _ _ _ _
  have hmono : ∀ (ms : List Nat) (G : List (List Nat)) {x y : Nat}, y ∈ G.getD x [] → y ∈ (ms.foldl f G).getD x [] := by
    intro ms
    induction ms with
    | nil => intro G x y h; exact h
    | cons a ms ih => intro G x y h; rw [List.foldl_cons]; exact ih _ (scanMan_mono _ _ _ _ _ _ _ _ h)
  rw [hsplit, List.foldl_append, List.foldl_cons]
  set G0 := (List.range m).foldl f (List.replicate rots.length []) with hG0
  have hG0len : G0.length = rots.length := by rw [hG0, hlen]; simp
  obtain ⟨e1, e2⟩ := scanMan_edge rots (rotOfPair rots) elim m (l1.getD m []) r1 w' r2 G0 w rho hcur
  constructor
  · intro rho' h1 hlt
    apply hmono
    show rho' ∈ (scanMan rots (rotOfPair rots) elim m (l1.getD m []) none (l1.getD m []) G0).getD rho []
    rw [hL] at e1 ⊢
    exact e1 rho' h1 (by omega)
  · intro pi h1 h2 h3 hlt
    apply hmono
    show rho ∈ (scanMan rots (rotOfPair rots) elim m (l1.getD m []) none (l1.getD m []) G0).getD pi []
    have := e2 pi h1 h2 h3 (by omega)
    rw [hL] at this ⊢
    exact this

/-- the current pair after a prefix is its last woman that is in a rotation -/
theorem foldl_stepCur_eq (rop : List (Pair × Nat)) (m : Nat) (p1 : List Nat) (u j : Nat) (p2 : List Nat)
    (cur : Option (Nat × Nat)) (hu : dictGet? rop (m, u) = some j) (hp2 : ∀ x ∈ p2, dictGet? rop (m, x) = none) :
    (p1 ++ u :: p2).foldl (stepCur rop m) cur = some (u, j) := by
  rw [List.foldl_append, List.foldl_cons]
  have h1 : stepCur rop m (p1.foldl (stepCur rop m) cur) u = some (u, j) := by
    unfold stepCur; rw [hu]
  rw [h1]
  clear h1
  induction p2 with
  | nil => rfl
  | cons x p2 ih =>
    rw [List.foldl_cons]
    have : stepCur rop m (some (u, j)) x = some (u, j) := by
      unfold stepCur; rw [hp2 x List.mem_cons_self]
    rw [this]
    exact ih (fun y hy => hp2 y (List.mem_cons_of_mem _ hy))

end IrvingAlgo.J

#print axioms IrvingAlgo.J.posetGraph_edge
