import Sck.Proofs.Eat5

/-! C05: preservation of the concrete invariant, the measure, and the loop. -/

open Finset

namespace Eat

variable {n : Nat} {ranked : List (List Nat)} {speeds : List Rat} {st : State}

theorem skip_spec (row : List Nat) (rm : List (Option Rat)) (p : Nat)
    (hlt : ∀ q < p, ∀ j, row[q]? = some j → lk rm j = none) :
    (p ≤ row.length → skip row rm p ≤ row.length) ∧
    (∀ q < skip row rm p, ∀ j, row[q]? = some j → lk rm j = none) ∧
    (skip row rm p < row.length →
      ∃ j, row[skip row rm p]? = some j ∧ (lk rm j).isSome = true) := by
  unfold skip
  have hk : (row.drop p).findIdx (fun j => (lk rm j).isSome) ≤ (row.drop p).length :=
    List.findIdx_le_length
  rw [List.length_drop] at hk
  refine ⟨fun hp => by omega, ?_, ?_⟩
  · intro q hq j hj
    by_cases hqp : q < p
    · exact hlt q hqp j hj
    · have hlt2 : q - p < (row.drop p).findIdx (fun j => (lk rm j).isSome) := by omega
      have := List.not_of_lt_findIdx hlt2
      obtain ⟨hql, hqe⟩ := List.getElem?_eq_some_iff.mp hj
      have he : (row.drop p)[q - p]'(by rw [List.length_drop]; omega) = j := by
        rw [List.getElem_drop]
        have : p + (q - p) = q := by omega
        simp only [this]; exact hqe
      rw [he] at this
      cases hl : lk rm j with
      | none => rfl
      | some r => rw [hl] at this; cases this
  · intro hlt2
    have hk2 : (row.drop p).findIdx (fun j => (lk rm j).isSome) < (row.drop p).length := by
      rw [List.length_drop]; omega
    have := List.findIdx_getElem (w := hk2)
    rw [List.getElem_drop] at this
    exact ⟨_, List.getElem?_eq_getElem (by omega), this⟩

/-- the concrete invariant survives an iteration with an admissible `t` -/
theorem applyT_CI (hr : RankedOK n ranked) (hs : ∀ i < n, 0 < spd speeds i)
    (h : CI n ranked st) (hx : exitNow st = false)
    (t : Rat) (ha : AdmC n ranked speeds st t) : CI n ranked (applyT n ranked speeds st t) := by
  have hposinv : ∀ i p, lk st.pos i = some p →
      ∀ q < p, ∀ j, (ranked.getD i [])[q]? = some j →
        lk ((List.range n).map (rem' n ranked speeds st t)) j = none := by
    intro i p hp q hq j hj
    have h0 := (h.pos_some i p hp).1 q hq j hj
    by_cases hjn : j < n
    · rw [lk_mk n _ j hjn]; exact rem'_none_of_none t j h0
    · exact lk_mk_ge n _ j (by omega)
  refine ⟨?_, ?_, ?_, ?_, ?_, ?_, ?_, ?_⟩
  · rw [applyT_rem]; simp
  · rw [applyT_eaten]; simp
  · rw [applyT_mat]
    apply List.map_congr_left
    intro i hi
    apply List.map_congr_left
    intro j hj
    rw [mget_mk n _ i j (List.mem_range.mp hi) (List.mem_range.mp hj)]
  · intro j r hjr
    have hj : j < n := by
      have := lk_eq_some_lt _ _ _ hjr
      rw [applyT_rem] at this; simpa using this
    rw [lk_rem' t j hj, rem'] at hjr
    cases hl : lk st.rem j with
    | none => rw [hl] at hjr; cases hjr
    | some r0 =>
      rw [hl] at hjr
      simp only at hjr
      split at hjr
      · cases hjr; assumption
      · cases hjr
  · intro i e hie
    have hi : i < n := by
      have := lk_eq_some_lt _ _ _ hie
      rw [applyT_eaten] at this; simpa using this
    rw [lk_eaten' t i hi, eaten'] at hie
    cases hl : lk st.eaten i with
    | none => rw [hl] at hie; cases hie
    | some e0 =>
      rw [hl] at hie
      simp only at hie
      split at hie
      · cases hie; assumption
      · cases hie
  · intro i p' hp'
    have hi : i < n := by
      have := lk_eq_some_lt _ _ _ hp'
      rw [applyT_pos] at this; simpa using this
    rw [applyT_pos, lk_mk n _ i hi] at hp'
    cases hp : lk st.pos i with
    | none => rw [hp] at hp'; cases hp'
    | some p =>
      rw [hp] at hp'
      simp only at hp'
      split at hp'
      · cases hp'
      · rename_i hcond
        have hpe : skip (ranked.getD i []) ((List.range n).map (rem' n ranked speeds st t)) p = p' :=
          Option.some.inj hp'
        rw [not_or] at hcond
        rw [hpe] at hcond
        obtain ⟨hs1, hs2, hs3⟩ := skip_spec (ranked.getD i [])
          ((List.range n).map (rem' n ranked speeds st t)) p (hposinv i p hp)
        rw [hpe] at hs1 hs2 hs3
        rw [hr.len i hi] at hs1 hs3
        have hpn : p ≤ n := by
          obtain ⟨j, hj, _⟩ := (h.pos_some i p hp).2.1
          have := (List.getElem?_eq_some_iff.mp hj).1
          rw [hr.len i hi] at this; omega
        have hp'n : p' < n := by have := hs1 hpn; omega
        refine ⟨?_, ?_, ?_⟩
        · intro q hq j hj
          rw [applyT_rem]; exact hs2 q hq j hj
        · obtain ⟨j, hj, hjs⟩ := hs3 hp'n
          exact ⟨j, hj, by rw [applyT_rem]; exact hjs⟩
        · rw [applyT_eaten]
          cases hl : lk ((List.range n).map (eaten' speeds st t)) i with
          | none => exact absurd hl hcond.2
          | some e => rfl
  · intro i hi hp'
    rw [applyT_pos, lk_mk n _ i hi] at hp'
    cases hp : lk st.pos i with
    | none =>
      rcases h.pos_none i hi hp with he | hrem
      · left; rw [lk_eaten' t i hi]; exact eaten'_none_of_none t i he
      · right; intro j hj; rw [lk_rem' t j hj]; exact rem'_none_of_none t j (hrem j hj)
    | some p =>
      rw [hp] at hp'
      simp only at hp'
      split at hp'
      · rename_i hcond
        rcases hcond with hcond | hcond
        · right
          intro j hj
          obtain ⟨_, hs2, _⟩ := skip_spec (ranked.getD i [])
            ((List.range n).map (rem' n ranked speeds st t)) p (hposinv i p hp)
          rw [hcond] at hs2
          have hjm : j ∈ ranked.getD i [] := (hr.mem i hi j).mpr hj
          obtain ⟨q, hq, hqe⟩ := List.getElem_of_mem hjm
          have hq' : q < n := by rw [hr.len i hi] at hq; exact hq
          rw [applyT_rem]
          exact hs2 q hq' j (by rw [List.getElem?_eq_getElem hq, hqe])
        · left; rw [applyT_eaten]; exact hcond
      · cases hp'
  · rw [applyT_abs hr h hx t ha]
    exact advance_inv _ _ (fun i => hs i.val i.isLt) _ h.inv t (admissible_of_admC hr h t ha)

/-! ### the measure -/

/-- number of not yet exhausted items plus number of not yet full agents -/
def mu (n : Nat) (st : State) : Nat :=
  ((Finset.range n).filter (fun j => (lk st.rem j).isSome = true)).card +
  ((Finset.range n).filter (fun i => (lk st.eaten i).isSome = true)).card

theorem mu_applyT_lt (t : Rat)
    (hw : (∃ i < n, ∃ e, lk st.eaten i = some e ∧ ¬ e + spd speeds i * t < 1) ∨
       (∃ j < n, ∃ r, lk st.rem j = some r ∧ ¬ 0 < r - total n ranked speeds st j * t)) :
    mu n (applyT n ranked speeds st t) < mu n st := by
  unfold mu
  have hsub1 : (Finset.range n).filter (fun j => (lk (applyT n ranked speeds st t).rem j).isSome = true) ⊆
      (Finset.range n).filter (fun j => (lk st.rem j).isSome = true) := by
    intro j hj
    rw [Finset.mem_filter] at hj ⊢
    refine ⟨hj.1, ?_⟩
    have := hj.2
    rw [lk_rem' t j (Finset.mem_range.mp hj.1)] at this
    exact rem'_isSome t j this
  have hsub2 : (Finset.range n).filter (fun i => (lk (applyT n ranked speeds st t).eaten i).isSome = true) ⊆
      (Finset.range n).filter (fun i => (lk st.eaten i).isSome = true) := by
    intro i hi
    rw [Finset.mem_filter] at hi ⊢
    refine ⟨hi.1, ?_⟩
    have := hi.2
    rw [lk_eaten' t i (Finset.mem_range.mp hi.1)] at this
    exact eaten'_isSome t i this
  rcases hw with ⟨i, hi, e, he, hne⟩ | ⟨j, hj, r, hjr, hne⟩
  · have hss : (Finset.range n).filter (fun i => (lk (applyT n ranked speeds st t).eaten i).isSome = true) ⊂
        (Finset.range n).filter (fun i => (lk st.eaten i).isSome = true) := by
      refine (Finset.ssubset_iff_of_subset hsub2).mpr ⟨i, ?_, ?_⟩
      · rw [Finset.mem_filter]; exact ⟨Finset.mem_range.mpr hi, by rw [he]; rfl⟩
      · rw [Finset.mem_filter, lk_eaten' t i hi, eaten', he]
        simp only
        rw [if_neg hne]
        simp
    have h1 := Finset.card_lt_card hss
    have h2 := Finset.card_le_card hsub1
    omega
  · have hss : (Finset.range n).filter (fun j => (lk (applyT n ranked speeds st t).rem j).isSome = true) ⊂
        (Finset.range n).filter (fun j => (lk st.rem j).isSome = true) := by
      refine (Finset.ssubset_iff_of_subset hsub1).mpr ⟨j, ?_, ?_⟩
      · rw [Finset.mem_filter]; exact ⟨Finset.mem_range.mpr hj, by rw [hjr]; rfl⟩
      · rw [Finset.mem_filter, lk_rem' t j hj, rem', hjr]
        simp only
        rw [if_neg hne]
        simp
    have h1 := Finset.card_lt_card hss
    have h2 := Finset.card_le_card hsub2
    omega

end Eat
