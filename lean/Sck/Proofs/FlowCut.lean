import Sck.Proofs.FlowProof

/-! C08: the cut returned by `ff` (the residual-reachable set) lies inside the source side of EVERY minimum
cut, so it is the canonical (inclusion-least) minimum cut. -/

open Finset

/-- a flow and a cut of equal value/capacity: every edge leaving the cut is saturated -/
theorem tight_saturated {ι : Type} [DecidableEq ι] (V : Finset ι) (cap : ι → ι → ℤ) (s t : ι) (f : ι → ι → ℤ)
    (hf : IsFlow V cap s t f) (T : Finset ι) (hTV : T ⊆ V) (hs : s ∈ T) (ht : t ∉ T)
    (heq : flowValue V s f = cutCap V cap T) :
    ∀ u ∈ T, ∀ v ∈ V, v ∉ T → f u v = cap u v := by
  rw [value_eq_across V cap s t f hf T hTV hs ht] at heq
  unfold cutCap at heq
  have h1 := (Finset.sum_eq_sum_iff_of_le (s := T)
    (f := fun u => ∑ v ∈ V \ T, f u v) (g := fun u => ∑ v ∈ V \ T, cap u v)
    (fun u _ => Finset.sum_le_sum (fun v _ => hf.le_cap u v))).mp heq
  intro u hu v hv hvT
  have h2 := (Finset.sum_eq_sum_iff_of_le (s := V \ T) (f := fun v => f u v) (g := fun v => cap u v)
    (fun v _ => hf.le_cap u v)).mp (h1 u hu)
  exact h2 v (Finset.mem_sdiff.mpr ⟨hv, hvT⟩)

/-! ### an induction principle for the search -/

theorem expand_inv (N : Net) (f : Flow) (P : Int → Prop)
    (hstep : ∀ u v, P u → v ∈ N.verts → 0 < resid N f u v → P v)
    (R : List (Int × Int)) (hR : ∀ e ∈ R, P e.1) : ∀ e ∈ expand N f R, P e.1 := by
  unfold expand
  have key : ∀ (vs : List Int), (∀ v ∈ vs, v ∈ N.verts) → ∀ R : List (Int × Int), (∀ e ∈ R, P e.1) →
      ∀ e ∈ vs.foldl (fun R v =>
        if R.any (fun e => e.1 == v) then R
        else match R.find? (fun e => decide (0 < resid N f e.1 v)) with
          | some e => R ++ [(v, e.1)]
          | none => R) R, P e.1 := by
    intro vs
    induction vs with
    | nil => intro _ R hR; simpa using hR
    | cons v vs ih =>
      intro hvs R hR
      simp only [List.foldl_cons]
      apply ih (fun w hw => hvs w (List.mem_cons_of_mem _ hw))
      split
      · exact hR
      · split
        · rename_i e he
          intro e' he'
          simp only [List.mem_append, List.mem_singleton] at he'
          rcases he' with he' | rfl
          · exact hR e' he'
          · have hm := List.mem_of_find?_eq_some he
            have hp := List.find?_some he
            simp only [decide_eq_true_eq] at hp
            exact hstep e.1 v (hR e hm) (hvs v (by simp)) hp
        · exact hR
  exact key N.verts (fun v hv => hv) R hR

theorem iter_inv {α : Type} (g : α → α) (Q : α → Prop) (hg : ∀ x, Q x → Q (g x)) :
    ∀ k x, Q x → Q (iter g k x) := by
  intro k
  induction k with
  | zero => intro x hx; exact hx
  | succ k ih => intro x hx; exact ih (g x) (hg x hx)

/-- every vertex found by the search satisfies any property that holds at the source and is inherited along
positive-residual edges -/
theorem reach_induction (N : Net) (f : Flow) (P : Int → Prop) (hs : P N.s)
    (hstep : ∀ u v, P u → v ∈ N.verts → 0 < resid N f u v → P v) : ∀ v ∈ reach N f, P v := by
  have h : ∀ e ∈ reachP N f, P e.1 := by
    unfold reachP
    apply iter_inv (expand N f) (fun R => ∀ e ∈ R, P e.1) (fun R hR => expand_inv N f P hstep R hR)
    intro e he
    simp only [List.mem_singleton] at he
    subst he; exact hs
  intro v hv
  unfold reach at hv
  simp only [List.mem_map] at hv
  obtain ⟨e, he, rfl⟩ := hv
  exact h e he

theorem ff_cut_eq_reach (N : Net) (fuel : Nat) (f : Flow) (S : List Int) (h : ff N fuel = .ok (f, S)) :
    S = reach N f := by
  simp only [ff] at h
  split at h
  · simp at h
  · split at h
    · simp only [Except.ok.injEq, Prod.mk.injEq] at h
      obtain ⟨rfl, rfl⟩ := h; rfl
    · simp at h

/-- the set returned by `ff` is contained in the source side of every minimum s–t cut -/
theorem ff_cut_minimal (N : Net) (hwf : N.WF) (fuel : Nat) (f : Flow) (S : List Int)
    (h : ff N fuel = .ok (f, S))
    (T : Finset Int) (hTV : T ⊆ N.verts.toFinset) (hs : N.s ∈ T) (ht : N.t ∉ T)
    (hmin : ∀ T' : Finset Int, T' ⊆ N.verts.toFinset → N.s ∈ T' → N.t ∉ T' →
      cutCap N.verts.toFinset N.cap T ≤ cutCap N.verts.toFinset N.cap T') :
    ∀ v ∈ S, v ∈ T := by
  obtain ⟨hf, hsS, htS, hsub, hval⟩ := ff_correct N hwf fuel f S h
  have hle := flow_le_cut N.verts.toFinset N.cap N.s N.t f hf T hTV hs ht
  have hge := hmin S.toFinset (fun v hv => List.mem_toFinset.mpr (hsub v (List.mem_toFinset.mp hv)))
    (List.mem_toFinset.mpr hsS) (fun hm => htS (List.mem_toFinset.mp hm))
  have heq : flowValue N.verts.toFinset N.s f = cutCap N.verts.toFinset N.cap T := by
    rw [← hval] at hge; exact le_antisymm hle hge
  have hsat := tight_saturated N.verts.toFinset N.cap N.s N.t f hf T hTV hs ht heq
  rw [ff_cut_eq_reach N fuel f S h]
  apply reach_induction N f (fun v => v ∈ T) hs
  intro u v hu hv hpos
  by_contra hvT
  have := hsat u hu v (List.mem_toFinset.mpr hv) hvT
  unfold resid at hpos
  omega

#print axioms ff_cut_minimal
