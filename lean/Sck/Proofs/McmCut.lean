import Sck.Proofs.McmValue
import Mathlib.Algebra.BigOperators.Group.Finset.Sigma

/-! C09 (b): every matching is at most as large as the capacity of ANY s–t cut of `bipNet`; together with
(a) and `ff_correct` this gives that the returned matching is maximum. -/

open Finset

section
variable {X Y : List Int} {adj : Int → List Int}

/-- the unit-capacity edge leaving `S` that a matching edge is charged to -/
def cutEdgeOf (S : Finset Int) (p : Int × Int) : Int × Int :=
  if p.1 ∉ S then (-1, p.1) else if p.2 ∈ S then (p.2, -2) else (p.1, p.2)

/-- (b) a matching is no larger than any s–t cut of the network -/
theorem matching_le_cutCap (w : BipWF X Y adj) (M' : List (Int × Int)) (hM : IsMatching X adj M')
    (S : Finset Int) (hs : (-1 : Int) ∈ S) (ht : (-2 : Int) ∉ S) :
    (M'.length : Int) ≤ cutCap (bipNet X Y adj).verts.toFinset (bipNet X Y adj).cap S := by
  have hV : ∀ v, v ∈ (bipNet X Y adj).verts.toFinset ↔ v ∈ X ∨ v = -1 ∨ v = -2 ∨ v ∈ Y := fun v => by
    rw [List.mem_toFinset, mem_bipNet_verts]
  have hfst : (M'.map (·.1)).Nodup := (List.nodup_append.mp hM.2).1
  have hsnd : (M'.map (·.2)).Nodup := (List.nodup_append.mp hM.2).2.1
  have hnd : M'.Nodup := List.Nodup.of_map _ hfst
  -- facts about the edges of the matching
  have hX : ∀ p ∈ M', p.1 ∈ X := fun p hp => (hM.1 p hp).1
  have hY : ∀ p ∈ M', p.2 ∈ Y := fun p hp => w.adjY _ (hM.1 p hp).1 _ (hM.1 p hp).2
  have hXs : ∀ p ∈ M', p.1 ≠ -1 := fun p hp e => w.sX (e ▸ hX p hp)
  have hXt : ∀ p ∈ M', p.1 ≠ -2 := fun p hp e => w.tX (e ▸ hX p hp)
  have hYs : ∀ p ∈ M', p.2 ≠ -1 := fun p hp e => w.sY (e ▸ hY p hp)
  have hYt : ∀ p ∈ M', p.2 ≠ -2 := fun p hp e => w.tY (e ▸ hY p hp)
  -- the charged edges leave `S` and have capacity one
  have hmem : ∀ p ∈ M', cutEdgeOf S p ∈ S ×ˢ ((bipNet X Y adj).verts.toFinset \ S) := by
    intro p hp
    unfold cutEdgeOf
    split
    · rename_i h1
      exact mem_product.mpr ⟨hs, mem_sdiff.mpr ⟨(hV _).mpr (Or.inl (hX p hp)), h1⟩⟩
    · rename_i h1
      rw [not_not] at h1
      split
      · rename_i h2
        exact mem_product.mpr ⟨h2, mem_sdiff.mpr ⟨(hV _).mpr (Or.inr (Or.inr (Or.inl rfl))), ht⟩⟩
      · rename_i h2
        exact mem_product.mpr ⟨h1, mem_sdiff.mpr ⟨(hV _).mpr (Or.inr (Or.inr (Or.inr (hY p hp)))), h2⟩⟩
  have hcap : ∀ p ∈ M', (bipNet X Y adj).cap (cutEdgeOf S p).1 (cutEdgeOf S p).2 = 1 := by
    intro p hp
    apply bipNet_cap_eq_one
    unfold cutEdgeOf
    split
    · exact Or.inr (Or.inl ⟨rfl, hX p hp⟩)
    · split
      · exact Or.inr (Or.inr ⟨hY p hp, rfl⟩)
      · exact Or.inl (hM.1 p hp)
  -- the charging is injective
  have hinj : Set.InjOn (cutEdgeOf S) (M'.toFinset : Set (Int × Int)) := by
    intro p hp q hq e
    have hp : p ∈ M' := List.mem_toFinset.mp (by simpa using hp)
    have hq : q ∈ M' := List.mem_toFinset.mp (by simpa using hq)
    have h1 : p.1 = q.1 → p = q := fun e1 => List.inj_on_of_nodup_map hfst hp hq e1
    have h2 : p.2 = q.2 → p = q := fun e2 => List.inj_on_of_nodup_map hsnd hp hq e2
    have hc : ∀ r : Int × Int, cutEdgeOf S r = (-1, r.1) ∨ cutEdgeOf S r = (r.2, -2) ∨
        cutEdgeOf S r = (r.1, r.2) := by
      intro r; unfold cutEdgeOf
      split
      · exact Or.inl rfl
      · split
        · exact Or.inr (Or.inl rfl)
        · exact Or.inr (Or.inr rfl)
    rcases hc p with ep | ep | ep <;> rcases hc q with eq | eq | eq <;> rw [ep, eq] at e
    · exact h1 (Prod.mk.inj e).2
    · exact absurd (Prod.mk.inj e).2 (hXt p hp)
    · exact absurd (Prod.mk.inj e).1.symm (hXs q hq)
    · exact absurd (Prod.mk.inj e).2.symm (hXt q hq)
    · exact h2 (Prod.mk.inj e).1
    · exact absurd (Prod.mk.inj e).2.symm (hYt q hq)
    · exact absurd (Prod.mk.inj e).1 (hXs p hp)
    · exact absurd (Prod.mk.inj e).2 (hYt p hp)
    · exact h1 (Prod.mk.inj e).1
  have hcard : (M'.toFinset.image (cutEdgeOf S)).card = M'.length := by
    rw [card_image_of_injOn hinj, List.toFinset_card_of_nodup hnd]
  have hsubset : M'.toFinset.image (cutEdgeOf S) ⊆ S ×ˢ ((bipNet X Y adj).verts.toFinset \ S) := by
    intro e he
    obtain ⟨p, hp, rfl⟩ := mem_image.mp he
    exact hmem p (List.mem_toFinset.mp hp)
  calc (M'.length : Int)
      = ∑ _e ∈ M'.toFinset.image (cutEdgeOf S), (1 : Int) := by rw [← hcard]; simp
    _ = ∑ e ∈ M'.toFinset.image (cutEdgeOf S), (bipNet X Y adj).cap e.1 e.2 := by
        refine sum_congr rfl (fun e he => ?_)
        obtain ⟨p, hp, rfl⟩ := mem_image.mp he
        exact (hcap p (List.mem_toFinset.mp hp)).symm
    _ ≤ ∑ e ∈ S ×ˢ ((bipNet X Y adj).verts.toFinset \ S), (bipNet X Y adj).cap e.1 e.2 :=
        sum_le_sum_of_subset_of_nonneg hsubset (fun e _ _ => cap_nonneg _ _ _)
    _ = cutCap (bipNet X Y adj).verts.toFinset (bipNet X Y adj).cap S := by
        rw [sum_product']; rfl

end

/-- the read-out of ANY flow on `bipNet` whose value equals the capacity of some s–t cut (i.e. any maximum
flow, however it was computed) is a maximum matching -/
theorem mcmOfFlow_maximum {X Y : List Int} {adj : Int → List Int} {f : Flow} (w : BipWF X Y adj)
    (hf : BipFlow X Y adj f) (S : Finset Int) (hs : (-1 : Int) ∈ S) (ht : (-2 : Int) ∉ S)
    (hval : flowValue (bipNet X Y adj).verts.toFinset (-1) f =
      cutCap (bipNet X Y adj).verts.toFinset (bipNet X Y adj).cap S) :
    ∀ M', IsMatching X adj M' → M'.length ≤ (mcmOfFlow X adj f).length := by
  intro M' hM'
  have h1 := matching_le_cutCap w M' hM' S hs ht
  have h2 := mcmOfFlow_length w hf
  omega

/-- the matching returned by the model on a well-formed instance is a maximum matching -/
theorem mcm_maximum (X Y : List Int) (adj : Int → List Int) (fuel : Nat) (M : List (Int × Int))
    (hwf : bipWfB X Y adj = true) (h : mcm X Y adj fuel = .ok M) :
    ∀ M', IsMatching X adj M' → M'.length ≤ M.length := by
  have w := (bipWfB_iff X Y adj).mp hwf
  unfold mcm at h
  split at h
  · rename_i f S hff
    simp only [Except.ok.injEq] at h
    subst h
    obtain ⟨hf, hs, ht, _, hval⟩ := ff_correct _ (bipNet_WF X Y adj) fuel f S hff
    exact mcmOfFlow_maximum w hf S.toFinset (List.mem_toFinset.mpr hs)
      (fun hm => ht (List.mem_toFinset.mp hm)) hval
  · simp at h

#print axioms matching_le_cutCap
#print axioms mcmOfFlow_maximum
#print axioms mcm_maximum
