import Sck.Model.BvnFull
import Sck.Proofs.Bvn4
import Sck.Proofs.McmTotal
import Sck.Proofs.McmCut
import Mathlib.Data.List.Nodup
import Mathlib.Data.List.Perm.Subperm

/-! C06 with the real oracle, part 1: the positivity graph is a well-formed bipartite instance, a support
permutation is a matching of size `n` in it, and a matching of size `≥ n` is a permutation in the support. -/

theorem mem_rowVerts (n : ℕ) (v : Int) : v ∈ rowVerts n ↔ ∃ i, i < n ∧ v = (i : Int) := by
  simp only [rowVerts, List.mem_map, List.mem_range, Int.ofNat_eq_natCast]
  constructor
  · rintro ⟨i, hi, rfl⟩; exact ⟨i, hi, rfl⟩
  · rintro ⟨i, hi, rfl⟩; exact ⟨i, hi, rfl⟩

theorem mem_colVerts (n : ℕ) (v : Int) : v ∈ colVerts n ↔ ∃ j, j < n ∧ v = ((j + n : ℕ) : Int) := by
  simp only [colVerts, List.mem_map, List.mem_range, Int.ofNat_eq_natCast]
  constructor
  · rintro ⟨i, hi, rfl⟩; exact ⟨i, hi, rfl⟩
  · rintro ⟨i, hi, rfl⟩; exact ⟨i, hi, rfl⟩

theorem rowVerts_length (n : ℕ) : (rowVerts n).length = n := by simp [rowVerts]

theorem rowVerts_nodup (n : ℕ) : (rowVerts n).Nodup := by
  unfold rowVerts
  exact List.Nodup.map (fun a b h => by simpa using h) List.nodup_range

theorem colVerts_nodup (n : ℕ) : (colVerts n).Nodup := by
  unfold colVerts
  exact List.Nodup.map (fun a b h => by simp only [Int.ofNat_eq_natCast] at h; omega) List.nodup_range

theorem positivityAdj_row (n : ℕ) (X : List (List Rat)) (i : ℕ) (hi : i < n) :
    positivityAdj n X (i : Int) =
      ((List.range n).filter (fun j => decide (0 < matGet X i j))).map (fun j => ((j + n : ℕ) : Int)) := by
  unfold positivityAdj
  rw [if_pos ⟨by omega, by simp only [Int.ofNat_eq_natCast]; omega⟩]
  simp only [Int.toNat_natCast, Int.ofNat_eq_natCast]

theorem positivityAdj_out (n : ℕ) (X : List (List Rat)) (v : Int) (hv : v ∉ rowVerts n) :
    positivityAdj n X v = [] := by
  unfold positivityAdj
  rw [if_neg]
  rintro ⟨h0, h1⟩
  apply hv
  rw [mem_rowVerts]
  simp only [Int.ofNat_eq_natCast] at h1
  exact ⟨v.toNat, by omega, by omega⟩

theorem mem_positivityAdj_row (n : ℕ) (X : List (List Rat)) (i : ℕ) (hi : i < n) (y : Int) :
    y ∈ positivityAdj n X (i : Int) ↔ ∃ j, j < n ∧ 0 < matGet X i j ∧ y = ((j + n : ℕ) : Int) := by
  rw [positivityAdj_row n X i hi]
  simp only [List.mem_map, List.mem_filter, List.mem_range, decide_eq_true_eq]
  constructor
  · rintro ⟨j, ⟨hj, hp⟩, rfl⟩; exact ⟨j, hj, hp, rfl⟩
  · rintro ⟨j, hj, hp, rfl⟩; exact ⟨j, ⟨hj, hp⟩, rfl⟩

/-- the positivity graph of ANY matrix is a well-formed bipartite instance for the model's `mcm` -/
theorem posGraph_wf (n : ℕ) (X : List (List Rat)) :
    BipWF (rowVerts n) (colVerts n) (positivityAdj n X) where
  ndX := rowVerts_nodup n
  ndY := colVerts_nodup n
  disj := by
    intro x hx hy
    obtain ⟨i, hi, rfl⟩ := (mem_rowVerts n x).mp hx
    obtain ⟨j, _, hj⟩ := (mem_colVerts n _).mp hy
    omega
  sX := by
    intro h; obtain ⟨i, _, hi⟩ := (mem_rowVerts n _).mp h; omega
  sY := by
    intro h; obtain ⟨i, _, hi⟩ := (mem_colVerts n _).mp h; omega
  tX := by
    intro h; obtain ⟨i, _, hi⟩ := (mem_rowVerts n _).mp h; omega
  tY := by
    intro h; obtain ⟨i, _, hi⟩ := (mem_colVerts n _).mp h; omega
  ndAdj := by
    intro x hx
    obtain ⟨i, hi, rfl⟩ := (mem_rowVerts n x).mp hx
    rw [positivityAdj_row n X i hi]
    exact List.Nodup.map (fun a b h => by omega) (List.nodup_range.filter _)
  adjY := by
    intro x hx y hy
    obtain ⟨i, hi, rfl⟩ := (mem_rowVerts n x).mp hx
    obtain ⟨j, hj, _, rfl⟩ := (mem_positivityAdj_row n X i hi y).mp hy
    exact (mem_colVerts n _).mpr ⟨j, hj, rfl⟩

theorem posGraph_wfB (n : ℕ) (X : List (List Rat)) :
    bipWfB (rowVerts n) (colVerts n) (positivityAdj n X) = true :=
  (bipWfB_iff _ _ _).mpr (posGraph_wf n X)

/-! ### a support permutation is a matching of size `n` -/

theorem support_pos (n : ℕ) (X : List (List Rat)) (sigma : List ℕ) (hsq : isSquareB n X = true)
    (hlen : sigma.length = n) (hs : (diagVals X sigma).all (fun v => decide (0 < v)) = true) :
    ∀ i, i < n → 0 < matGet X i (sigma.getD i n) := by
  intro i hi
  simp only [List.all_eq_true, decide_eq_true_eq] at hs
  exact hs _ ((mem_diagVals n X sigma hsq hlen _).mpr ⟨i, hi, rfl⟩)

/-- the matching of the positivity graph denoted by a permutation list -/
def pairsOfSigma (n : ℕ) (sigma : List ℕ) : List (Int × Int) :=
  (List.range n).map (fun (i : ℕ) => ((i : Int), ((sigma.getD i n + n : ℕ) : Int)))

theorem pairsOfSigma_length (n : ℕ) (sigma : List ℕ) : (pairsOfSigma n sigma).length = n := by
  simp [pairsOfSigma]

theorem supportPerm_isMatching (n : ℕ) (X : List (List Rat)) (sigma : List ℕ)
    (hsq : isSquareB n X = true) (hp : isPermB n sigma = true)
    (hs : (diagVals X sigma).all (fun v => decide (0 < v)) = true) :
    IsMatching (rowVerts n) (positivityAdj n X) (pairsOfSigma n sigma) := by
  obtain ⟨hlen, hlt, hinj, _⟩ := isPermB_bij sigma hp
  have hpos := support_pos n X sigma hsq hlen hs
  constructor
  · intro p hp'
    obtain ⟨i, hi, rfl⟩ := List.mem_map.mp hp'
    have hi' := List.mem_range.mp hi
    refine ⟨(mem_rowVerts n _).mpr ⟨i, hi', rfl⟩, ?_⟩
    exact (mem_positivityAdj_row n X i hi' _).mpr ⟨sigma.getD i n, hlt i hi', hpos i hi', rfl⟩
  · unfold pairsOfSigma
    rw [List.map_map, List.map_map, List.nodup_append]
    refine ⟨?_, ?_, ?_⟩
    · exact List.Nodup.map (fun a b h => by simpa using h) List.nodup_range
    · apply List.Nodup.map_on _ List.nodup_range
      intro a ha b hb h
      simp only [Function.comp] at h
      exact hinj a b (List.mem_range.mp ha) (List.mem_range.mp hb) (by omega)
    · intro a ha b hb e
      obtain ⟨i, hi, rfl⟩ := List.mem_map.mp ha
      obtain ⟨j, hj, rfl⟩ := List.mem_map.mp hb
      simp only [Function.comp] at e
      have := List.mem_range.mp hi
      omega

/-! ### a matching of size `≥ n` is a permutation inside the support -/

theorem find_fst_of_nodup (M : List (Int × Int)) (hnd : (M.map (·.1)).Nodup) (p : Int × Int)
    (hp : p ∈ M) : M.find? (fun q => q.1 == p.1) = some p := by
  induction M with
  | nil => cases hp
  | cons q M ih =>
    simp only [List.map_cons, List.nodup_cons] at hnd
    rcases List.mem_cons.mp hp with rfl | hp'
    · simp
    · have hne : q.1 ≠ p.1 := by
        intro e
        apply hnd.1
        rw [e]
        exact List.mem_map.mpr ⟨p, hp', rfl⟩
      rw [List.find?_cons_of_neg (by simpa using hne)]
      exact ih hnd.2 hp'

section Perfect

variable {n : ℕ} {X : List (List Rat)} {M : List (Int × Int)}

theorem matching_fst_nodup (hM : IsMatching (rowVerts n) (positivityAdj n X) M) :
    (M.map (·.1)).Nodup := (List.nodup_append.mp hM.2).1

theorem matching_snd_nodup (hM : IsMatching (rowVerts n) (positivityAdj n X) M) :
    (M.map (·.2)).Nodup := (List.nodup_append.mp hM.2).2.1

/-- every pair of a matching of the positivity graph is `(i, j + n)` with `X[i][j] > 0` -/
theorem matching_pair_shape (hM : IsMatching (rowVerts n) (positivityAdj n X) M) (p : Int × Int)
    (hp : p ∈ M) : ∃ i j, i < n ∧ j < n ∧ p = ((i : Int), ((j + n : ℕ) : Int)) ∧ 0 < matGet X i j := by
  obtain ⟨h1, h2⟩ := hM.1 p hp
  obtain ⟨i, hi, hpi⟩ := (mem_rowVerts n _).mp h1
  rw [hpi] at h2
  obtain ⟨j, hj, hpos, hpj⟩ := (mem_positivityAdj_row n X i hi _).mp h2
  exact ⟨i, j, hi, hj, Prod.ext hpi hpj, hpos⟩

theorem matching_length_le (hM : IsMatching (rowVerts n) (positivityAdj n X) M) : M.length ≤ n := by
  have hsub : M.map (·.1) ⊆ rowVerts n := by
    intro a ha
    obtain ⟨p, hp, rfl⟩ := List.mem_map.mp ha
    exact (hM.1 p hp).1
  have := (List.subperm_of_subset (matching_fst_nodup hM) hsub).length_le
  simpa [rowVerts_length] using this

/-- in a matching with at least `n` edges every row is matched -/
theorem matching_row_matched (hM : IsMatching (rowVerts n) (positivityAdj n X) M) (hlen : n ≤ M.length)
    (i : ℕ) (hi : i < n) : ∃ j, j < n ∧ ((i : Int), ((j + n : ℕ) : Int)) ∈ M ∧ 0 < matGet X i j := by
  have hsub : M.map (·.1) ⊆ rowVerts n := by
    intro a ha
    obtain ⟨p, hp, rfl⟩ := List.mem_map.mp ha
    exact (hM.1 p hp).1
  have hperm : (M.map (·.1)).Perm (rowVerts n) :=
    (List.subperm_of_subset (matching_fst_nodup hM) hsub).perm_of_length_le
      (by simpa [rowVerts_length] using hlen)
  have hmem : (i : Int) ∈ M.map (·.1) := hperm.mem_iff.mpr ((mem_rowVerts n _).mpr ⟨i, hi, rfl⟩)
  obtain ⟨p, hp, hp1⟩ := List.mem_map.mp hmem
  obtain ⟨i', j, _, hj, rfl, hpos⟩ := matching_pair_shape hM p hp
  simp only [Nat.cast_inj] at hp1
  subst hp1
  exact ⟨j, hj, hp, hpos⟩

theorem colOfPairs_eq (hM : IsMatching (rowVerts n) (positivityAdj n X) M) (i j : ℕ)
    (h : ((i : Int), ((j + n : ℕ) : Int)) ∈ M) : colOfPairs n M i = j := by
  unfold colOfPairs
  have := find_fst_of_nodup M (matching_fst_nodup hM) _ h
  simp only [Int.ofNat_eq_natCast] at this ⊢
  rw [this]
  simp only
  omega

theorem sigmaOfPairs_length (n : ℕ) (M : List (Int × Int)) : (sigmaOfPairs n M).length = n := by
  simp [sigmaOfPairs]

theorem sigmaOfPairs_getD (n : ℕ) (M : List (Int × Int)) (i : ℕ) (hi : i < n) :
    (sigmaOfPairs n M).getD i n = colOfPairs n M i := by
  simp [sigmaOfPairs, List.getD_eq_getElem?_getD, hi]

/-- row `i` of a size-`n` matching: `σ[i] = j` where `(i, j+n)` is its pair, and `X[i][j] > 0` -/
theorem sigma_spec (hM : IsMatching (rowVerts n) (positivityAdj n X) M) (hlen : n ≤ M.length)
    (i : ℕ) (hi : i < n) :
    (sigmaOfPairs n M).getD i n < n ∧
      ((i : Int), (((sigmaOfPairs n M).getD i n + n : ℕ) : Int)) ∈ M ∧
      0 < matGet X i ((sigmaOfPairs n M).getD i n) := by
  obtain ⟨j, hj, hmem, hpos⟩ := matching_row_matched hM hlen i hi
  rw [sigmaOfPairs_getD n M i hi, colOfPairs_eq hM i j hmem]
  exact ⟨hj, hmem, hpos⟩

theorem sigma_inj (hM : IsMatching (rowVerts n) (positivityAdj n X) M) (hlen : n ≤ M.length)
    (i i' : ℕ) (hi : i < n) (hi' : i' < n)
    (h : (sigmaOfPairs n M).getD i n = (sigmaOfPairs n M).getD i' n) : i = i' := by
  obtain ⟨_, h1, _⟩ := sigma_spec hM hlen i hi
  obtain ⟨_, h2, _⟩ := sigma_spec hM hlen i' hi'
  rw [h] at h1
  have := List.inj_on_of_nodup_map (matching_snd_nodup hM) h1 h2 rfl
  simpa using congrArg Prod.fst this

end Perfect

/-- an injective list `0..n-1 → 0..n-1` passes the executable permutation check -/
theorem isPermB_of_inj (n : ℕ) (sigma : List ℕ) (hlen : sigma.length = n)
    (hlt : ∀ i, i < n → sigma.getD i n < n)
    (hinj : ∀ i i', i < n → i' < n → sigma.getD i n = sigma.getD i' n → i = i') :
    isPermB n sigma = true := by
  let f : Fin n → Fin n := fun i => ⟨sigma.getD i n, hlt i i.2⟩
  have hf : Function.Injective f := by
    intro a b hab
    apply Fin.ext
    exact hinj a b a.2 b.2 (by simpa [f] using congrArg Fin.val hab)
  have hb : Function.Bijective f := Finite.injective_iff_bijective.mp hf
  let τ : Equiv.Perm (Fin n) := Equiv.ofBijective f hb
  have : listOfPerm τ = sigma := by
    apply List.ext_getElem
    · simp [listOfPerm, hlen]
    · intro i h1 h2
      simp [listOfPerm, τ, f, List.getD_eq_getElem?_getD, h2]
  rw [← this]
  exact isPermB_listOfPerm τ

theorem minList_congr (l₁ l₂ : List Rat) (h : ∀ v, v ∈ l₁ ↔ v ∈ l₂) : minList l₁ = minList l₂ := by
  rcases l₁ with _ | ⟨a, l₁⟩
  · rcases l₂ with _ | ⟨b, l₂⟩
    · rfl
    · exact absurd ((h b).mpr List.mem_cons_self) (by simp)
  · have hne₂ : l₂ ≠ [] := by
      intro e; subst e
      exact absurd ((h a).mp List.mem_cons_self) (by simp)
    obtain ⟨z₁, hz₁⟩ := minList_isSome (a :: l₁) (by simp)
    obtain ⟨z₂, hz₂⟩ := minList_isSome l₂ hne₂
    rw [hz₁, hz₂]
    obtain ⟨m1, le1⟩ := minList_spec _ _ hz₁
    obtain ⟨m2, le2⟩ := minList_spec _ _ hz₂
    congr 1
    exact le_antisymm (le1 _ ((h _).mpr m2)) (le2 _ ((h _).mp m1))

/-- **Perfect matching ⇒ support permutation.** A matching of the positivity graph of a square matrix with
at least `n` edges denotes (via `sigmaOfPairs`) a permutation inside the support, and the values along the
pairs are the diagonal values along that permutation. -/
theorem perfect_matching_perm (n : ℕ) (X : List (List Rat)) (M : List (Int × Int))
    (hsq : isSquareB n X = true) (hM : IsMatching (rowVerts n) (positivityAdj n X) M)
    (hlen : n ≤ M.length) :
    isPermB n (sigmaOfPairs n M) = true ∧
    (diagVals X (sigmaOfPairs n M)).all (fun v => decide (0 < v)) = true ∧
    minList (pairVals n X M) = minList (diagVals X (sigmaOfPairs n M)) := by
  have hσlen := sigmaOfPairs_length n M
  refine ⟨?_, ?_, ?_⟩
  · exact isPermB_of_inj n _ hσlen (fun i hi => (sigma_spec hM hlen i hi).1)
      (fun i i' hi hi' h => sigma_inj hM hlen i i' hi hi' h)
  · simp only [List.all_eq_true, decide_eq_true_eq]
    intro v hv
    obtain ⟨i, hi, rfl⟩ := (mem_diagVals n X _ hsq hσlen v).mp hv
    exact (sigma_spec hM hlen i hi).2.2
  · apply minList_congr
    intro v
    rw [mem_diagVals n X _ hsq hσlen v]
    simp only [pairVals, List.mem_map]
    constructor
    · rintro ⟨p, hp, rfl⟩
      obtain ⟨i, j, hi, hj, rfl, _⟩ := matching_pair_shape hM p hp
      refine ⟨i, hi, ?_⟩
      have hc := colOfPairs_eq hM i j hp
      rw [sigmaOfPairs_getD n M i hi, hc]
      simp only [Int.ofNat_eq_natCast, Int.toNat_natCast]
      congr 1
      omega
    · rintro ⟨i, hi, rfl⟩
      obtain ⟨_, hmem, _⟩ := sigma_spec hM hlen i hi
      refine ⟨_, hmem, ?_⟩
      simp only [Int.ofNat_eq_natCast, Int.toNat_natCast]
      congr 1
      omega

/-- a permutation in the support shows that every row and column has a positive entry -/
theorem posKeysOkB_of_support (n : ℕ) (X : List (List Rat)) (sigma : List ℕ) (hsq : isSquareB n X = true)
    (hp : isPermB n sigma = true) (hs : (diagVals X sigma).all (fun v => decide (0 < v)) = true) :
    posKeysOkB n X = true := by
  obtain ⟨hlen, hlt, _, hsurj⟩ := isPermB_bij sigma hp
  have hpos := support_pos n X sigma hsq hlen hs
  simp only [posKeysOkB, Bool.and_eq_true, allLt_iff, List.any_eq_true, List.mem_range,
    decide_eq_true_eq]
  constructor
  · intro i hi
    exact ⟨sigma.getD i n, hlt i hi, hpos i hi⟩
  · intro j hj
    obtain ⟨i, hi, rfl⟩ := hsurj j hj
    exact ⟨i, hi, hpos i hi⟩
