import Sck.Proofs.Lattice3
import Mathlib.Data.List.Cycle

/-! # The lattice of stable matchings (C03, package L7), part 4: the rotations of a path are well defined

Gusfield–Irving §2.5: a rotation exposed in `μ` stays exposed in every stable `ν ≽ μ` that still contains its pairs
(else `μ/ρ ≼ ν`); a pair `(m, w)` belongs to at most one rotation; no elimination "jumps over" a stable pair; hence a
rotation `σ` (exposed in some stable `N`) is eliminated on a path `μ → … → ν` iff one/each of its men `c` satisfies
`rank(μ c) ≤ rank(N c) < rank(ν c)` — a condition on the END POINTS only. -/

namespace SMLattice

open Irving

variable {n : ℕ}

/-- a property that holds for one man of the cycle `ρ` and is preserved by "next man" holds for all men of `ρ` -/
theorem formPerm_closure {ρ : List (Fin n)} (hnd : ρ.Nodup) (S : Fin n → Prop)
    (hS : ∀ c ∈ ρ, S c → S (ρ.formPerm c)) {a : Fin n} (ha : a ∈ ρ) (hSa : S a) : ∀ c ∈ ρ, S c := by
  have hk : ∀ k : ℕ, S ((ρ.formPerm ^ k) a) ∧ (ρ.formPerm ^ k) a ∈ ρ := by
    intro k
    induction k with
    | zero => exact ⟨hSa, ha⟩
    | succ k ih =>
      rw [pow_succ', Equiv.Perm.mul_apply]
      exact ⟨hS _ ih.2 ih.1, List.formPerm_apply_mem_of_mem ih.2⟩
  intro c hc
  obtain ⟨i, hi, rfl⟩ := List.getElem_of_mem ha
  obtain ⟨j, hj, rfl⟩ := List.getElem_of_mem hc
  have := (hk (j + ρ.length - i)).1
  rw [List.formPerm_pow_apply_getElem ρ hnd _ i hi] at this
  have e : (i + (j + ρ.length - i)) % ρ.length = j := by
    have : i + (j + ρ.length - i) = j + ρ.length := by omega
    rw [this, Nat.add_mod_right, Nat.mod_eq_of_lt hj]
  simpa [e] using this

/-- for stable `μ`, `ν` and a pair `(a, b)` of `ν`: `a` and `b` cannot BOTH strictly prefer their `μ`-partners -/
theorem both_prefer_false {P1 P2 : Fin n → Fin n → ℕ} (h1 : ∀ a, Function.Injective (P1 a))
    (h2 : ∀ b, Function.Injective (P2 b)) {μ ν : Equiv.Perm (Fin n)} (hμ : StableSM P1 P2 μ)
    (hν : StableSM P1 P2 ν) {a b : Fin n} (hab : ν a = b) (hm : P1 a (μ a) < P1 a b)
    (hw : P2 b (μ.symm b) < P2 b a) : False := by
  obtain ⟨κ, _, hκ1, hκ2⟩ := stable_join h1 h2 hμ hν
  have e1 : κ a = b := by
    rw [hκ1]; unfold worse; rw [if_pos (by rw [hab]; omega), hab]
  have e2 : κ.symm b = μ.symm b := by
    rw [hκ2]; unfold better
    have : ν.symm b = a := by rw [← hab]; simp
    rw [this, if_pos (by omega)]
  have : μ.symm b = a := by rw [← e2, ← e1]; simp
  rw [this] at hw
  exact Nat.lt_irrefl _ hw

/-- **dichotomy**: `ρ` exposed in `μ`, `μ ≼ ν` stable: either `ν` contains all pairs of `ρ`, or `μ/ρ ≼ ν` -/
theorem exposed_dichotomy {P1 P2 : Fin n → Fin n → ℕ} (h1 : ∀ a, Function.Injective (P1 a))
    (h2 : ∀ b, Function.Injective (P2 b)) {μ ν : Equiv.Perm (Fin n)} (hν : StableSM P1 P2 ν)
    (hle : MLe P1 μ ν) {ρ : List (Fin n)} (hex : ExposedRot P1 P2 μ ρ) :
    (∀ a ∈ ρ, ν a = μ a) ∨ MLe P1 (elim μ ρ) ν := by
  by_cases hall : ∀ a ∈ ρ, ν a = μ a
  · exact Or.inl hall
  · right
    push Not at hall
    obtain ⟨a0, ha0, hne0⟩ := hall
    have hD : ∀ c ∈ ρ, μ c ≠ ν c := by
      refine formPerm_closure hex.1 (fun c => μ c ≠ ν c) ?_ ha0 (Ne.symm hne0)
      intro c hc hcD
      obtain ⟨b, hb, _, hb3⟩ := succ_of_ne h1 h2 hν hle hcD
      have := isSucc_unique h1 (hex.2.2 c hc) hb
      rw [← this] at hb3
      simpa using hb3
    intro a
    by_cases ha : a ∈ ρ
    · obtain ⟨b, hb, hbl, _⟩ := succ_of_ne h1 h2 hν hle (hD a ha)
      rw [elim_apply, isSucc_unique h1 (hex.2.2 a ha) hb]
      exact hbl
    · rw [elim_apply_of_notMem μ ha]; exact hle a

/-- a rotation exposed in `μ` is exposed in every stable `ν ≽ μ` that contains its pairs -/
theorem exposed_of_agree {P1 P2 : Fin n → Fin n → ℕ} (h1 : ∀ a, Function.Injective (P1 a))
    {μ ν : Equiv.Perm (Fin n)} (hν : StableSM P1 P2 ν) (hle : MLe P1 μ ν) {ρ : List (Fin n)}
    (hex : ExposedRot P1 P2 μ ρ) (hag : ∀ a ∈ ρ, ν a = μ a) : ExposedRot P1 P2 ν ρ := by
  have hw := women_le h1 hν hle
  refine ⟨hex.1, hex.2.1, ?_⟩
  intro a ha
  have ha' : ρ.formPerm a ∈ ρ := List.formPerm_apply_mem_of_mem ha
  obtain ⟨⟨c1, c2⟩, hmin⟩ := hex.2.2 a ha
  have e1 : ν.symm (μ (ρ.formPerm a)) = ρ.formPerm a := by
    rw [← hag _ ha']; simp
  refine ⟨⟨?_, ?_⟩, ?_⟩
  · rw [hag a ha, hag _ ha']; exact c1
  · rw [hag _ ha', e1]; simpa using c2
  · intro b' ⟨d1, d2⟩
    rw [hag _ ha']
    refine hmin b' ⟨by rw [← hag a ha]; exact d1, ?_⟩
    exact Nat.lt_of_lt_of_le d2 (hw b')

/-- two rotations exposed in the same matching that share a man are the same cycle -/
theorem exposed_same_cycle {P1 P2 : Fin n → Fin n → ℕ} (h1 : ∀ a, Function.Injective (P1 a))
    {μ : Equiv.Perm (Fin n)} {ρ ρ' : List (Fin n)} (hex : ExposedRot P1 P2 μ ρ) (hex' : ExposedRot P1 P2 μ ρ')
    {a : Fin n} (ha : a ∈ ρ) (ha' : a ∈ ρ') : ρ ~r ρ' := by
  have hagree : ∀ c, c ∈ ρ → c ∈ ρ' → ρ.formPerm c = ρ'.formPerm c := by
    intro c hc hc'
    exact μ.injective (isSucc_unique h1 (hex.2.2 c hc) (hex'.2.2 c hc'))
  have hsub : ∀ c ∈ ρ, c ∈ ρ' := by
    refine formPerm_closure hex.1 (fun c => c ∈ ρ') ?_ ha ha'
    intro c hc hc'
    rw [hagree c hc hc']
    exact List.formPerm_apply_mem_of_mem hc'
  have hsub' : ∀ c ∈ ρ', c ∈ ρ := by
    refine formPerm_closure hex'.1 (fun c => c ∈ ρ) ?_ ha' ha
    intro c hc' hc
    rw [← hagree c hc hc']
    exact List.formPerm_apply_mem_of_mem hc
  have heq : ρ.formPerm = ρ'.formPerm := by
    ext c
    by_cases hc : c ∈ ρ
    · rw [hagree c hc (hsub c hc)]
    · rw [List.formPerm_apply_of_notMem hc, List.formPerm_apply_of_notMem (fun h => hc (hsub' c h))]
  rcases (List.formPerm_eq_formPerm_iff hex.1 hex'.1).mp heq with h | ⟨hl, _⟩
  · exact h
  · exfalso
    have hmv := exposedRot_move hex a ha
    have : ρ = [a] := by
      match ρ, ha, hl with
      | [x], ha, _ => simp at ha; rw [ha]
      | [], ha, _ => simp at ha
      | _ :: _ :: _, _, hl => simp at hl
    rw [this] at hmv
    simp at hmv

/-- **a pair belongs to at most one rotation**: rotations exposed in two stable matchings that share a man with
the same wife are the same cycle with the same wives -/
theorem rotation_unique {P1 P2 : Fin n → Fin n → ℕ} (h1 : ∀ a, Function.Injective (P1 a))
    (h2 : ∀ b, Function.Injective (P2 b)) {μ ν : Equiv.Perm (Fin n)} (hμ : StableSM P1 P2 μ)
    (hν : StableSM P1 P2 ν) {ρ ρ' : List (Fin n)} (hex : ExposedRot P1 P2 μ ρ) (hex' : ExposedRot P1 P2 ν ρ')
    {a : Fin n} (ha : a ∈ ρ) (ha' : a ∈ ρ') (hsame : μ a = ν a) :
    ρ ~r ρ' ∧ ∀ c ∈ ρ, μ c = ν c := by
  obtain ⟨κ, hκ, hκ1, _⟩ := stable_join h1 h2 hμ hν
  have hle1 : MLe P1 μ κ := fun c => by rw [hκ1]; exact (worse_ge P1 μ ν c).1
  have hle2 : MLe P1 ν κ := fun c => by rw [hκ1]; exact (worse_ge P1 μ ν c).2
  have hκa : κ a = μ a := by rw [hκ1]; unfold worse; split <;> simp [hsame]
  have ag1 : ∀ c ∈ ρ, κ c = μ c := by
    rcases exposed_dichotomy h1 h2 hκ hle1 hex with h | h
    · exact h
    · exfalso
      have := h a
      rw [hκa] at this
      have := (hex.2.2 a ha).1.1
      rw [elim_apply] at *
      omega
  have ag2 : ∀ c ∈ ρ', κ c = ν c := by
    rcases exposed_dichotomy h1 h2 hκ hle2 hex' with h | h
    · exact h
    · exfalso
      have := h a
      rw [hκa, hsame] at this
      have := (hex'.2.2 a ha').1.1
      rw [elim_apply] at *
      omega
  have hr := exposed_same_cycle h1 (exposed_of_agree h1 hκ hle1 hex ag1) (exposed_of_agree h1 hκ hle2 hex' ag2) ha ha'
  exact ⟨hr, fun c hc => (ag1 c hc).symm.trans (ag2 c (hr.mem_iff.mp hc))⟩

/-- **no elimination jumps over a stable pair**: if `ρ` is exposed in `μ` and moves `a` from `μ a` to `(μ/ρ) a`, no
stable matching gives `a` a wife strictly between the two -/
theorem no_jump {P1 P2 : Fin n → Fin n → ℕ} (h1 : ∀ a, Function.Injective (P1 a))
    (h2 : ∀ b, Function.Injective (P2 b)) {μ ν : Equiv.Perm (Fin n)} (hμ : StableSM P1 P2 μ)
    (hν : StableSM P1 P2 ν) {ρ : List (Fin n)} (hex : ExposedRot P1 P2 μ ρ) {a : Fin n} (ha : a ∈ ρ)
    (hlo : P1 a (μ a) < P1 a (ν a)) (hhi : P1 a (ν a) < P1 a (elim μ ρ a)) : False := by
  obtain ⟨_, hmin⟩ := hex.2.2 a ha
  rw [elim_apply] at hhi
  have hnc : ¬ P2 (ν a) a < P2 (ν a) (μ.symm (ν a)) := fun hc => by
    have := hmin (ν a) ⟨hlo, hc⟩
    omega
  have hne : μ.symm (ν a) ≠ a := by
    intro h
    have : ν a = μ a := (Equiv.symm_apply_eq μ).mp h
    rw [this] at hlo; exact Nat.lt_irrefl _ hlo
  have : P2 (ν a) (μ.symm (ν a)) ≠ P2 (ν a) a := fun h => hne (h2 _ h)
  exact both_prefer_false h1 h2 hμ hν rfl hlo (by omega)

/-! ### rotations of a path -/

/-- every rotation of a path is exposed in a stable matching of the path -/
theorem mem_pathPairs {P1 P2 : Fin n → Fin n → ℕ} (h1 : ∀ a, Function.Injective (P1 a)) :
    ∀ (A : List (List (Fin n))) (μ ν : Equiv.Perm (Fin n)), StableSM P1 P2 μ → ElimPath P1 P2 μ A ν →
      ∀ r ∈ pathPairs μ A, ∃ N σ, StableSM P1 P2 N ∧ ExposedRot P1 P2 N σ ∧ r = rotPairs N σ := by
  intro A
  induction A with
  | nil => intro μ ν _ _ r hr; simp [pathPairs] at hr
  | cons ρ rest ih =>
    intro μ ν hμ hp r hr
    simp only [pathPairs, List.mem_cons] at hr
    rcases hr with rfl | hr
    · exact ⟨μ, ρ, hμ, hp.1, rfl⟩
    · exact ih _ _ (exposed_elim_stable h1 hμ hp.1).1 hp.2 r hr

theorem mem_rotPairs {μ : Equiv.Perm (Fin n)} {ρ : List (Fin n)} {N : Equiv.Perm (Fin n)} {c : Fin n}
    (h : pr N c ∈ rotPairs μ ρ) : c ∈ ρ ∧ N c = μ c := by
  obtain ⟨a, ha, he⟩ := List.mem_map.mp h
  have hac : a = c := pr_fst_inj (congrArg Prod.fst he)
  subst hac
  exact ⟨ha, (Fin.ext (congrArg Prod.snd he)).symm⟩

/-- **characterisation by the end points**: the rotation `σ` (exposed in the stable matching `N`, `c` one of its men)
is eliminated on the path `μ → … → ν` iff `rank(μ c) ≤ rank(N c) < rank(ν c)` on `c`'s list -/
theorem mem_path_iff {P1 P2 : Fin n → Fin n → ℕ} (h1 : ∀ a, Function.Injective (P1 a))
    (h2 : ∀ b, Function.Injective (P2 b)) {N : Equiv.Perm (Fin n)} (hN : StableSM P1 P2 N) {σ : List (Fin n)}
    (hσ : ExposedRot P1 P2 N σ) {c : Fin n} (hc : c ∈ σ) :
    ∀ (A : List (List (Fin n))) (μ ν : Equiv.Perm (Fin n)), StableSM P1 P2 μ → ElimPath P1 P2 μ A ν →
      ((∃ r ∈ pathPairs μ A, r ~r rotPairs N σ) ↔ P1 c (μ c) ≤ P1 c (N c) ∧ P1 c (N c) < P1 c (ν c)) := by
  intro A
  induction A with
  | nil =>
    intro μ ν _ hp
    cases hp
    simp only [pathPairs, List.not_mem_nil, false_and, exists_false, false_iff]
    omega
  | cons ρ rest ih =>
    intro μ ν hμ hp
    obtain ⟨hex, hp'⟩ := hp
    obtain ⟨hst', hle', hlt'⟩ := exposed_elim_stable h1 hμ hex
    have hle'' := (elimPath_stable h1 rest _ _ hst' hp').2
    have IH := ih (elim μ ρ) ν hst' hp'
    simp only [pathPairs, List.exists_mem_cons_iff]
    constructor
    · rintro (hr | hr)
      · have : pr N c ∈ rotPairs μ ρ := hr.mem_iff.mpr (List.mem_map.mpr ⟨c, hc, rfl⟩)
        obtain ⟨hcρ, hNc⟩ := mem_rotPairs this
        rw [hNc]
        exact ⟨Nat.le_refl _, Nat.lt_of_lt_of_le (hlt' c hcρ) (hle'' c)⟩
      · obtain ⟨a, b⟩ := IH.mp hr
        exact ⟨Nat.le_trans (hle' c) a, b⟩
    · rintro ⟨hlo, hhi⟩
      by_cases hcase : P1 c (elim μ ρ c) ≤ P1 c (N c)
      · exact Or.inr (IH.mpr ⟨hcase, hhi⟩)
      · left
        have hcase : P1 c (N c) < P1 c (elim μ ρ c) := by omega
        have hcρ : c ∈ ρ := by
          by_contra hno
          rw [elim_apply_of_notMem μ hno] at hcase
          omega
        have hsame : μ c = N c := by
          by_contra hne
          have : P1 c (μ c) ≠ P1 c (N c) := fun h => hne (h1 c h)
          exact no_jump h1 h2 hμ hN hex hcρ (by omega) hcase
        obtain ⟨hr, hag⟩ := rotation_unique h1 h2 hμ hN hex hσ hcρ hc hsame
        have e : rotPairs μ ρ = rotPairs N ρ := by
          unfold rotPairs
          apply List.map_congr_left
          intro a ha
          unfold pr; rw [hag a ha]
        rw [e]
        exact hr.map _

/-- **(f), inclusion form**: along two paths from the same stable matching `μ`, if the end point of the first
dominates the end point of the second (`ν ≼ ν'`), every rotation of the first is a rotation of the second -/
theorem path_rotations_subset {P1 P2 : Fin n → Fin n → ℕ} (h1 : ∀ a, Function.Injective (P1 a))
    (h2 : ∀ b, Function.Injective (P2 b)) {μ ν ν' : Equiv.Perm (Fin n)} (hμ : StableSM P1 P2 μ)
    {A B : List (List (Fin n))} (hA : ElimPath P1 P2 μ A ν) (hB : ElimPath P1 P2 μ B ν') (hle : MLe P1 ν ν') :
    ∀ r ∈ pathPairs μ A, ∃ r' ∈ pathPairs μ B, r' ~r r := by
  intro r hr
  obtain ⟨N, σ, hN, hσ, rfl⟩ := mem_pathPairs h1 A μ ν hμ hA r hr
  obtain ⟨c, hc⟩ := List.exists_mem_of_ne_nil _ hσ.2.1
  obtain ⟨a, b⟩ := (mem_path_iff h1 h2 hN hσ hc A μ ν hμ hA).mp ⟨_, hr, List.IsRotated.refl _⟩
  exact (mem_path_iff h1 h2 hN hσ hc B μ ν' hμ hB).mpr ⟨a, Nat.lt_of_lt_of_le b (hle c)⟩

/-- no rotation occurs twice on a path (not even up to cyclic shift) -/
theorem pathPairs_pairwise {P1 P2 : Fin n → Fin n → ℕ} (h1 : ∀ a, Function.Injective (P1 a))
    (h2 : ∀ b, Function.Injective (P2 b)) :
    ∀ (A : List (List (Fin n))) (μ ν : Equiv.Perm (Fin n)), StableSM P1 P2 μ → ElimPath P1 P2 μ A ν →
      (pathPairs μ A).Pairwise (fun r r' => ¬ r ~r r') := by
  intro A
  induction A with
  | nil => intro μ ν _ _; exact List.Pairwise.nil
  | cons ρ rest ih =>
    intro μ ν hμ hp
    obtain ⟨hex, hp'⟩ := hp
    obtain ⟨hst', _, hlt'⟩ := exposed_elim_stable h1 hμ hex
    simp only [pathPairs, List.pairwise_cons]
    refine ⟨?_, ih _ _ hst' hp'⟩
    intro r' hr' hrot
    obtain ⟨c, hc⟩ := List.exists_mem_of_ne_nil _ hex.2.1
    have := (mem_path_iff h1 h2 hμ hex hc rest _ ν hst' hp').mp ⟨r', hr', hrot.symm⟩
    have := hlt' c hc
    omega

/-- **(f)**: the rotations eliminated on ANY two paths between the same two stable matchings are the same, as a
multiset of cyclic sequences of pairs (`rotations_of` is well defined): the two lists of `Cycle`s are permutations of
each other, and neither has a repetition -/
theorem path_rotations_unique {P1 P2 : Fin n → Fin n → ℕ} (h1 : ∀ a, Function.Injective (P1 a))
    (h2 : ∀ b, Function.Injective (P2 b)) {μ ν : Equiv.Perm (Fin n)} (hμ : StableSM P1 P2 μ)
    {A B : List (List (Fin n))} (hA : ElimPath P1 P2 μ A ν) (hB : ElimPath P1 P2 μ B ν) :
    ((pathPairs μ A).map (fun r : List Pair => (r : Cycle Pair))).Nodup ∧
    ((pathPairs μ A).map (fun r : List Pair => (r : Cycle Pair))).Perm
      ((pathPairs μ B).map (fun r : List Pair => (r : Cycle Pair))) := by
  have nd : ∀ (A : List (List (Fin n))), ElimPath P1 P2 μ A ν →
      ((pathPairs μ A).map (fun r : List Pair => (r : Cycle Pair))).Nodup := by
    intro A hA
    rw [List.nodup_iff_pairwise_ne, List.pairwise_map]
    refine (pathPairs_pairwise h1 h2 A μ ν hμ hA).imp ?_
    intro r r' hne he
    exact hne (Cycle.coe_eq_coe.mp he)
  refine ⟨nd A hA, ?_⟩
  rw [List.perm_ext_iff_of_nodup (nd A hA) (nd B hB)]
  intro x
  simp only [List.mem_map]
  constructor
  · rintro ⟨r, hr, rfl⟩
    obtain ⟨r', hr', hrot⟩ := path_rotations_subset h1 h2 hμ hA hB (MLe.refl _ _) r hr
    exact ⟨r', hr', Cycle.coe_eq_coe.mpr hrot⟩
  · rintro ⟨r, hr, rfl⟩
    obtain ⟨r', hr', hrot⟩ := path_rotations_subset h1 h2 hμ hB hA (MLe.refl _ _) r hr
    exact ⟨r', hr', Cycle.coe_eq_coe.mpr hrot⟩

end SMLattice

#print axioms SMLattice.mem_path_iff
#print axioms SMLattice.path_rotations_unique
