import Sck.Proofs.LatticeI6
import Sck.Proofs.Lattice10

/-! # C03, package L8a, part 7: the invariant spelled out; what obligation (i) gives with the reductions of package L7 -/

namespace SMLattice

open Irving IrvingAlgo

variable {n : ℕ}

theorem winv_iff (P2 : List (List Nat)) (l2 : List (List Nat)) (pm2 : List (List Bool)) (hus : Fin n → Fin n) :
    WInv n P2 l2 pm2 hus ↔
      l2.length = n ∧
      (∀ w : Fin n, (l2.getD w []).Pairwise (fun a b => rankOf P2 w a < rankOf P2 w b)) ∧
      (∀ (w : Fin n) (m : Nat), m ∈ l2.getD w [] ↔ m < n ∧ rankOf P2 w m ≤ rankOf P2 w (hus w)) ∧
      (∀ w m : Nat, (pm2.getD w []).getD m false = (l2.getD w []).contains m) :=
  ⟨fun h => ⟨h.len, h.sorted, h.mem, h.pm⟩, fun ⟨a, b, c, d⟩ => ⟨a, b, c, d⟩⟩

theorem minv_iff (P1 : List (List Nat)) (l1 l2 : List (List Nat)) :
    MInv n P1 l1 l2 ↔
      l1.length = n ∧
      (∀ m : Fin n, (l1.getD m []).Pairwise (fun a b => rankOf P1 m a < rankOf P1 m b)) ∧
      (∀ m : Fin n, ∀ w ∈ l1.getD m [], w < n) ∧
      (∀ (m : Fin n) (w : Nat), (m : Nat) ∈ l2.getD w [] → w ∈ l1.getD m []) ∧
      (∀ (m : Fin n) (a : Nat) (t : List Nat), l1.getD m [] = a :: t → (m : Nat) ∈ l2.getD a []) ∧
      (∀ (m : Fin n) (a b : Nat) (t : List Nat), l1.getD m [] = a :: b :: t → (m : Nat) ∈ l2.getD b []) :=
  ⟨fun h => ⟨h.len, h.sorted, h.lt, h.sup, h.valid1, h.valid2⟩, fun ⟨a, b, c, d, e, f⟩ => ⟨a, b, c, d, e, f⟩⟩

theorem levelInv_iff (P1 P2 : List (List Nat)) (st : LvSt) (μ : Equiv.Perm (Fin n)) :
    LevelInv n P1 P2 st μ ↔
      WInv n P2 st.l2 st.pm2 μ.symm ∧ MInv n P1 st.l1 st.l2 ∧ StableSM (rk n P1) (rk n P2) μ :=
  ⟨fun h => ⟨h.women, h.men, h.stable⟩, fun ⟨a, b, c⟩ => ⟨a, b, c⟩⟩

/-- under the invariant, the first entry of every man's list is his partner, and the second one (if any) is his successor
woman `s_μ(m)`; a list of length one means that he has no successor -/
theorem levelInv_lists {P1 P2 : List (List Nat)} (h2 : ∀ b, Function.Injective (rk n P2 b)) {st : LvSt}
    {μ : Equiv.Perm (Fin n)} (inv : LevelInv n P1 P2 st μ) (m : Fin n) :
    (∃ t, st.l1.getD m [] = ((μ m : Fin n) : Nat) :: t) ∧
    (∀ a b t, st.l1.getD m [] = a :: b :: t → ∃ hb : b < n, IsSucc (rk n P1) (rk n P2) μ m ⟨b, hb⟩) ∧
    (∀ a, st.l1.getD m [] = [a] → ∀ b, ¬ Cand (rk n P1) (rk n P2) μ m b) ∧
    (∀ w : Fin n, (st.l2.getD w []).getLast? = some ((μ.symm w : Fin n) : Nat)) :=
  ⟨l1_head inv.women inv.men h2 inv.stable m,
   fun _ _ _ hl => l1_second inv.women inv.men h2 inv.stable m hl,
   fun _ hl => l1_single inv.women inv.men h2 inv.stable m hl,
   fun w => inv.women.last w⟩

end SMLattice

open IrvingAlgo SMLattice in
/-- the mirror finds exactly the rotations of the instance, each once (unconditional form of
`allRotations_exact_of_remaining_i`) -/
theorem allRotations_exact {n : Nat} {P1 P2 : List (List Nat)} {V1 V2 : List (List Int)}
    (hwf : wfB n P1 P2 V1 V2 = true) {M0 : List Irving.Pair} {all : List (List Irving.Pair)}
    {elim : List (Irving.Pair × Nat)} (hmo : maleOptimal n P1 P2 = some M0)
    (hall : allRotations (shortlists n P1 P2 (muOf n M0)).1 (shortlists n P1 P2 (muOf n M0)).2 = some (all, elim)) :
    all.Pairwise (fun r r' => ¬ r ~r r') ∧
    ∀ B, Irving.exposedAllB P1 P2 M0 B = true → (∀ r ∈ B, r ≠ []) →
      B.Pairwise (fun r r' => ¬ r ~r r') ∧ ∀ r ∈ B, ∃ r' ∈ all, r' ~r r :=
  allRotations_exact_of_remaining_i hwf (remaining_i_at hwf) hmo hall

open IrvingAlgo SMLattice in
/-- optimality of the mirror, reduced to obligation (j) alone -/
theorem irving_optimal_of_j (hj : Remaining_j) {n : Nat} {P1 P2 : List (List Nat)} {V1 V2 : List (List Int)}
    (hbig : WeightBound n P1 P2 V1 V2) {M : List Irving.Pair} (h : irving n P1 P2 V1 V2 = .ok M) :
    Brute.optStable n P1 P2 V1 V2 = some (Irving.matchingValue V1 V2 M) :=
  irving_optimal_of_remaining' remaining_i hj hbig h

open IrvingAlgo SMLattice in
/-- optimality and totality of the mirror, reduced to obligation (j) in the task's form alone -/
theorem irving_optimal_of_j_task (hj : Remaining_j_task) {n : Nat} {P1 P2 : List (List Nat)} {V1 V2 : List (List Int)}
    (hbig : WeightBound n P1 P2 V1 V2) :
    (∀ M, irving n P1 P2 V1 V2 = .ok M →
      Brute.optStable n P1 P2 V1 V2 = some (Irving.matchingValue V1 V2 M)) ∧
    (wfB n P1 P2 V1 V2 = true →
      irving n P1 P2 V1 V2 ≠ .error "check-exposed" ∧ irving n P1 P2 V1 V2 ≠ .error "not-exposed") :=
  irving_optimal_of_remaining_task remaining_i hj hbig

open IrvingAlgo SMLattice in
/-- the index-order form of (j) suffices (unconditional form of `remaining_j_of_index`) -/
theorem remaining_j_of_index' {n : Nat} {P1 P2 : List (List Nat)} {V1 V2 : List (List Int)}
    (hwf : wfB n P1 P2 V1 V2 = true) (hx : Remaining_j_index_at n P1 P2) : Remaining_j_at n P1 P2 :=
  remaining_j_of_index hwf (remaining_i_at hwf) hx
