import Sck.Proofs.Lattice5
import Sck.Proofs.IrvingAlgoClosure

/-! # C03, package L7, part 6: utilities for the reduction of optimality of the mirror

`rotation_weight` is invariant under cyclic shifts; the poset graph has one adjacency list per rotation; the chosen
closed set is duplicate-free; `sorted(…)` is a permutation. -/

namespace Irving

theorem rotAt_rotate_one (rho : List Pair) (j : Nat) (hj : j < rho.length) :
    rotAt (rho.rotate 1) j = rotAt rho ((j + 1) % rho.length) := by
  have hj' : (j + 1) % rho.length < rho.length := Nat.mod_lt _ (by omega)
  unfold rotAt
  rw [List.getD_eq_getElem?_getD, List.getD_eq_getElem?_getD,
    List.getElem?_eq_getElem (by rw [List.length_rotate]; exact hj), List.getElem?_eq_getElem hj',
    List.getElem_rotate]

/-- one summand of `rotation_weight` -/
def wTerm (V1 V2 : List (List Int)) (rho : List Pair) (i : Nat) : Int :=
  (intOf V1 (rotAt rho i).1 (rotAt rho i).2 - intOf V1 (rotAt rho i).1 (rotAt rho ((i + 1) % rho.length)).2)
    + (intOf V2 (rotAt rho i).2 (rotAt rho i).1
        - intOf V2 (rotAt rho i).2 (rotAt rho ((i + rho.length - 1) % rho.length)).1)

theorem rotationWeight_eq' (V1 V2 : List (List Int)) (rho : List Pair) :
    rotationWeight V1 V2 rho = -(∑ i ∈ Finset.range rho.length, wTerm V1 V2 rho i) :=
  rotationWeight_eq V1 V2 rho

theorem mod_aux1 (i len : Nat) (hi : i < len) : ((i + len - 1) % len + 1) % len = i := by
  rcases Nat.eq_zero_or_pos i with rfl | hpos
  · have e1 : (0 + len - 1) % len = len - 1 := by
      rw [Nat.zero_add]; exact Nat.mod_eq_of_lt (by omega)
    rw [e1]
    have e2 : len - 1 + 1 = len := by omega
    rw [e2, Nat.mod_self]
  · have e1 : i + len - 1 = (i - 1) + len := by omega
    have e2 : (i - 1) % len = i - 1 := Nat.mod_eq_of_lt (by omega)
    have e3 : i - 1 + 1 = i := by omega
    rw [e1, Nat.add_mod_right, e2, e3, Nat.mod_eq_of_lt hi]

theorem mod_aux2 (i len : Nat) (hi : i < len) : ((i + 1) % len + len - 1) % len = i := by
  rcases Nat.lt_or_ge (i + 1) len with h | h
  · rw [Nat.mod_eq_of_lt h]
    have e1 : i + 1 + len - 1 = i + len := by omega
    rw [e1, Nat.add_mod_right, Nat.mod_eq_of_lt hi]
  · have e1 : i + 1 = len := by omega
    have e2 : (len - 1) % len = len - 1 := Nat.mod_eq_of_lt (by omega)
    rw [e1, Nat.mod_self, Nat.zero_add, e2]
    omega

theorem wTerm_rotate_one (V1 V2 : List (List Int)) (rho : List Pair) (i : Nat) (hi : i < rho.length) :
    wTerm V1 V2 (rho.rotate 1) i = wTerm V1 V2 rho ((i + 1) % rho.length) := by
  have h1 : (i + 1) % rho.length < rho.length := Nat.mod_lt _ (by omega)
  have h2 : (i + rho.length - 1) % rho.length < rho.length := Nat.mod_lt _ (by omega)
  unfold wTerm
  rw [List.length_rotate, rotAt_rotate_one rho i hi, rotAt_rotate_one rho _ h1, rotAt_rotate_one rho _ h2,
    mod_aux1 i _ hi, mod_aux2 i _ hi]

theorem rotationWeight_rotate_one (V1 V2 : List (List Int)) (rho : List Pair) :
    rotationWeight V1 V2 (rho.rotate 1) = rotationWeight V1 V2 rho := by
  rw [rotationWeight_eq', rotationWeight_eq', List.length_rotate]
  congr 1
  rw [Finset.sum_congr rfl (fun i hi => wTerm_rotate_one V1 V2 rho i (Finset.mem_range.mp hi))]
  have := sum_cyclic (fun x _ => wTerm V1 V2 rho x) rho.length
  simpa using this

theorem rotationWeight_rotate (V1 V2 : List (List Int)) (rho : List Pair) (k : Nat) :
    rotationWeight V1 V2 (rho.rotate k) = rotationWeight V1 V2 rho := by
  induction k with
  | zero => simp
  | succ k ih => rw [← List.rotate_rotate, rotationWeight_rotate_one, ih]

/-- **`rotation_weight` does not depend on where the cyclic sequence is started** -/
theorem rotationWeight_isRotated (V1 V2 : List (List Int)) {rho rho' : List Pair} (h : rho ~r rho') :
    rotationWeight V1 V2 rho = rotationWeight V1 V2 rho' := by
  obtain ⟨k, rfl⟩ := h
  exact (rotationWeight_rotate V1 V2 rho k).symm

/-! ### the closure is duplicate-free -/

theorem closurePass_nodup (succs : List (List Nat)) :
    ∀ (keys S : List Nat) (ch : Bool), S.Nodup → (closurePass succs keys S ch).1.Nodup := by
  intro keys
  induction keys with
  | nil => intro S ch h; exact h
  | cons rho keys ih =>
    intro S ch h
    simp only [closurePass]
    split
    · exact ih S ch h
    · rename_i hc
      split
      · exact ih _ _ (List.nodup_cons.mpr ⟨fun hm => hc (List.contains_iff_mem.mpr hm), h⟩)
      · exact ih S ch h

theorem closureLoop_nodup (succs : List (List Nat)) :
    ∀ (fuel : Nat) (S : List Nat), S.Nodup → (closureLoop succs fuel S).Nodup := by
  intro fuel
  induction fuel with
  | zero => intro S h; exact h
  | succ fuel ih =>
    intro S h
    simp only [closureLoop]
    split
    · exact ih _ (closurePass_nodup succs _ S false h)
    · exact closurePass_nodup succs _ S false h

theorem closureOf_nodup (succs : List (List Nat)) (S : List Nat) (h : S.Nodup) : (closureOf succs S).Nodup :=
  closureLoop_nodup succs _ S h

end Irving

namespace IrvingAlgo

open Irving

theorem closedSubset_nodup (succs : List (List Nat)) (rots : List (List Pair)) (V1 V2 : List (List Int))
    (C : List Nat) (h : closedSubset succs rots V1 V2 = .ok C) : C.Nodup := by
  obtain ⟨f, S, _, rfl⟩ := closedSubset_ok succs rots V1 V2 C h
  exact closureOf_nodup _ _ (List.nodup_range.filter _)

theorem insNat_perm (a : Nat) (l : List Nat) : (insNat a l).Perm (a :: l) := by
  induction l with
  | nil => exact List.Perm.refl _
  | cons b bs ih =>
    simp only [insNat]
    split
    · exact List.Perm.refl _
    · exact (List.Perm.cons b ih).trans (List.Perm.swap a b bs)

theorem sortNat_perm (l : List Nat) : (sortNat l).Perm l := by
  induction l with
  | nil => exact List.Perm.refl _
  | cons a l ih =>
    show (insNat a (sortNat l)).Perm (a :: l)
    exact (insNat_perm a _).trans (List.Perm.cons a ih)

/-! ### the poset graph has one adjacency list per rotation -/

theorem addEdge_length (G : List (List Nat)) (pi rho : Nat) : (addEdge G pi rho).length = G.length := by
  unfold addEdge; split <;> simp

theorem scanMan_length (rots : List (List Pair)) (rop elim : List (Pair × Nat)) (m : Nat) (L : List Nat) :
    ∀ (rest : List Nat) (cur : Option (Nat × Nat)) (G : List (List Nat)),
      (scanMan rots rop elim m L cur rest G).length = G.length := by
  intro rest
  induction rest with
  | nil => intro cur G; cases cur <;> simp [scanMan]
  | cons w rest ih =>
    intro cur G
    cases cur with
    | none =>
      simp only [scanMan]
      split <;> exact ih _ _
    | some c =>
      obtain ⟨w0, rho⟩ := c
      simp only [scanMan]
      split
      · rw [ih, addEdge_length]
      · split
        · split
          · rw [ih, addEdge_length]
          · exact ih _ _
        · exact ih _ _

theorem posetGraph_length (rots : List (List Pair)) (l1 : List (List Nat)) (elim : List (Pair × Nat)) :
    (posetGraph rots l1 elim).length = rots.length := by
  unfold posetGraph
  have : ∀ (ms : List Nat) (G : List (List Nat)),
      (ms.foldl (fun G m => scanMan rots (rotOfPair rots) elim m (l1.getD m []) none (l1.getD m []) G) G).length
        = G.length := by
    intro ms
    induction ms with
    | nil => intro G; rfl
    | cons m ms ih => intro G; rw [List.foldl_cons, ih, scanMan_length]
  rw [this]; simp

end IrvingAlgo
