import Sck.Model.Preflib

/-! Proofs for property C19 (`preflib_*_to_profile`), part 1: the loop over the orders, the generic
"list of writes" lemmas and the characterisation of the writes of one order. -/

/-! ## 1. Wrong data type -/

theorem conv_wrong_type (kind : PrefKind) (mode : TieMode) (inst : PrefInst) (t : String)
    (hk : kind.expected = some t) (ht : inst.dataType ≠ t) :
    ∃ e, convRows kind mode inst = .error e := by
  refine ⟨"ValueError: wrong data type", ?_⟩
  unfold convRows
  rw [hk]
  simp [ht]

/-- the `data_type` string of each of the five converters -/
def PrefKind.typeName : PrefKind → String
  | .soc => "soc"
  | .soi => "soi"
  | .toc => "toc"
  | .toi => "toi"
  | .cat => "cat"

/-- all five converters (the categorical one included) insist on their own data type -/
theorem expected_eq_typeName (kind : PrefKind) : kind.expected = some kind.typeName := by
  cases kind <;> rfl

/-- any of the five converters rejects an instance of another data type, with the `ValueError` -/
theorem conv_wrong_type_all (kind : PrefKind) (mode : TieMode) (inst : PrefInst)
    (ht : inst.dataType ≠ kind.typeName) :
    convRows kind mode inst = .error "ValueError: wrong data type" := by
  unfold convRows
  rw [expected_eq_typeName]
  simp [ht]

/-- with the right data type the check is passed and the loop over the orders decides -/
theorem conv_right_type (kind : PrefKind) (mode : TieMode) (inst : PrefInst)
    (ht : inst.dataType = kind.typeName) :
    convRows kind mode inst = convLoop kind mode inst.m 0 inst.orders := by
  unfold convRows
  rw [expected_eq_typeName]
  simp [ht]

/-! ## 2. The loop over the orders -/

theorem convLoop_ok (kind : PrefKind) (mode : TieMode) (m : Nat) :
    ∀ (os : List (List (List Nat) × Nat)) (i : Nat) (rows : List (List (Option Nat))),
      convLoop kind mode m i os = .ok rows →
      ∃ rs : List (List (Option Nat)), rs.length = os.length ∧
        (∀ k (h : k < os.length) (h' : k < rs.length),
          prefRowE kind mode m (i + k) (os[k]).1 = .ok rs[k]) ∧
        rows = (List.zipWith (fun r om => List.replicate om.2 r) rs os).flatten ∧
        rows.length = (os.map (·.2)).sum := by
  intro os
  induction os with
  | nil =>
    intro i rows h
    simp only [convLoop, Except.ok.injEq] at h
    subst h
    exact ⟨[], rfl, by simp, by simp, by simp⟩
  | cons om rest ih =>
    intro i rows h
    simp only [convLoop] at h
    split at h
    · exact absurd h (by simp)
    · rename_i row hrow
      split at h
      · exact absurd h (by simp)
      · rename_i rows' hrows'
        simp only [Except.ok.injEq] at h
        subst h
        obtain ⟨rs, hlen, hk, heq, hsum⟩ := ih (i + 1) rows' hrows'
        refine ⟨row :: rs, by simp [hlen], ?_, ?_, ?_⟩
        · intro k h1 h2
          cases k with
          | zero => simpa using hrow
          | succ k =>
            have := hk k (by simpa using h1) (by simpa using h2)
            simp only [List.getElem_cons_succ]
            rw [show i + (k + 1) = i + 1 + k by omega]
            exact this
        · simp [heq]
        · simp [hsum]

theorem conv_rows (kind : PrefKind) (mode : TieMode) (inst : PrefInst)
    (rows : List (List (Option Nat))) (h : convRows kind mode inst = .ok rows) :
    ∃ rs : List (List (Option Nat)), rs.length = inst.orders.length ∧
      (∀ i (h : i < inst.orders.length) (h' : i < rs.length),
        prefRowE kind mode inst.m i (inst.orders[i]).1 = .ok rs[i]) ∧
      rows = (List.zipWith (fun r om => List.replicate om.2 r) rs inst.orders).flatten ∧
      rows.length = (inst.orders.map (·.2)).sum := by
  have hl : convLoop kind mode inst.m 0 inst.orders = .ok rows := by
    unfold convRows at h
    split at h
    · split at h
      · exact absurd h (by simp)
      · exact h
    · exact h
  obtain ⟨rs, h1, h2, h3, h4⟩ := convLoop_ok kind mode inst.m inst.orders 0 rows hl
  refine ⟨rs, h1, ?_, h3, h4⟩
  intro i hi hi'
  have := h2 i hi hi'
  simpa using this

/-! ## 3. Generic lemmas on a list of writes -/

theorem applyAssigns_length (ws : List (Nat × Nat)) :
    ∀ row : List (Option Nat), (applyAssigns row ws).length = row.length := by
  induction ws with
  | nil => intro row; rfl
  | cons w ws ih =>
    intro row
    simp only [applyAssigns, List.foldl_cons] at ih ⊢
    rw [ih]; simp

theorem applyAssigns_not_mem (ws : List (Nat × Nat)) (j : Nat) :
    ∀ row : List (Option Nat), j ∉ ws.map (·.1) → (applyAssigns row ws)[j]? = row[j]? := by
  induction ws with
  | nil => intro row _; rfl
  | cons w ws ih =>
    intro row hj
    simp only [List.map_cons, List.mem_cons, not_or] at hj
    simp only [applyAssigns, List.foldl_cons] at ih ⊢
    rw [ih _ hj.2, List.getElem?_set_ne (Ne.symm hj.1)]

theorem applyAssigns_mem (ws : List (Nat × Nat)) (j v : Nat) :
    ∀ row : List (Option Nat), (ws.map (·.1)).Nodup → (j, v) ∈ ws → j < row.length →
      (applyAssigns row ws)[j]? = some (some v) := by
  induction ws with
  | nil => intro row _ h; simp at h
  | cons w ws ih =>
    intro row hnd hmem hj
    simp only [List.map_cons, List.nodup_cons] at hnd
    rcases List.mem_cons.1 hmem with h | h
    · subst h
      have := applyAssigns_not_mem ws j (row.set j (some v)) hnd.1
      simp only [applyAssigns, List.foldl_cons] at this ⊢
      rw [this]
      simp [hj]
    · have := ih (row.set w.1 (some w.2)) hnd.2 h (by simpa using hj)
      simpa only [applyAssigns, List.foldl_cons] using this

/-! ## 4. The writes of one order -/

/-- the class as it is written: unchanged for `accept`, otherwise `np.sort` / the shuffle -/
def arrOf (acc : Bool) (arr : Nat → List Nat → List Nat) (c : Nat) (cls : List Nat) : List Nat :=
  if acc then cls else arr c cls

theorem prefAssigns_cons (m : Nat) (acc : Bool) (arr : Nat → List Nat → List Nat) (ci cur : Nat)
    (cls : List Nat) (rest : List (List Nat)) :
    prefAssigns m acc arr ci cur (cls :: rest) =
      classAssigns m acc cur (arrOf acc arr ci cls) ++
        prefAssigns m acc arr (ci + 1) (cur + (arrOf acc arr ci cls).length) rest := rfl

theorem classAssigns_idx (m : Nat) (acc : Bool) (cur : Nat) (l : List Nat) :
    (classAssigns m acc cur l).map (·.1) = l.map (altIdx m) := by
  unfold classAssigns
  split
  · simp [List.map_map, Function.comp_def]
  · rw [List.map_map]
    apply List.ext_getElem
    · simp
    · intro k h1 h2
      simp

theorem classAssigns_mem (m : Nat) (acc : Bool) (cur : Nat) (l : List Nat) (t : Nat) (ht : t < l.length) :
    (altIdx m l[t], cur + (if acc then 0 else t)) ∈ classAssigns m acc cur l := by
  unfold classAssigns
  cases acc with
  | true =>
    simp only [if_true, Nat.add_zero, List.mem_map]
    exact ⟨l[t], List.getElem_mem ht, rfl⟩
  | false =>
    simp only [Bool.false_eq_true, if_false, List.mem_map]
    refine ⟨(l[t], t), ?_, rfl⟩
    rw [List.mem_iff_getElem]
    exact ⟨t, by simpa using ht, by simp⟩

/-- sum of the sizes of the first `k` classes -/
def sizeBefore (order : List (List Nat)) (k : Nat) : Nat := ((order.take k).map List.length).sum

theorem classBase_eq (order : List (List Nat)) (k : Nat) : classBase order k = 1 + sizeBefore order k := rfl

/-- every class is written as a permutation of itself -/
def ArrPerm (acc : Bool) (arr : Nat → List Nat → List Nat) (ci : Nat) (order : List (List Nat)) : Prop :=
  ∀ k (h : k < order.length), (arrOf acc arr (ci + k) order[k]).Perm order[k]

theorem ArrPerm.head {acc arr ci cls rest} (h : ArrPerm acc arr ci (cls :: rest)) :
    (arrOf acc arr ci cls).Perm cls := by
  have := h 0 (by simp)
  simpa using this

theorem ArrPerm.tail {acc arr ci cls rest} (h : ArrPerm acc arr ci (cls :: rest)) :
    ArrPerm acc arr (ci + 1) rest := by
  intro k hk
  have := h (k + 1) (by simpa using hk)
  rw [show ci + (k + 1) = ci + 1 + k by omega] at this
  simpa using this

theorem prefAssigns_idx_perm (m : Nat) (acc : Bool) (arr : Nat → List Nat → List Nat) :
    ∀ (order : List (List Nat)) (ci cur : Nat), ArrPerm acc arr ci order →
      ((prefAssigns m acc arr ci cur order).map (·.1)).Perm (order.flatten.map (altIdx m)) := by
  intro order
  induction order with
  | nil => intro ci cur _; simp [prefAssigns]
  | cons cls rest ih =>
    intro ci cur h
    rw [prefAssigns_cons, List.map_append, classAssigns_idx, List.flatten_cons, List.map_append]
    exact List.Perm.append (h.head.map _) (ih _ _ h.tail)

theorem prefAssigns_mem (m : Nat) (acc : Bool) (arr : Nat → List Nat → List Nat) :
    ∀ (order : List (List Nat)) (ci cur : Nat), ArrPerm acc arr ci order →
      ∀ k (hk : k < order.length) t (ht : t < (arrOf acc arr (ci + k) order[k]).length),
        (altIdx m (arrOf acc arr (ci + k) order[k])[t],
          cur + sizeBefore order k + (if acc then 0 else t)) ∈ prefAssigns m acc arr ci cur order := by
  intro order
  induction order with
  | nil => intro ci cur _ k hk; simp at hk
  | cons cls rest ih =>
    intro ci cur h k hk t ht
    rw [prefAssigns_cons, List.mem_append]
    cases k with
    | zero =>
      left
      simp only [sizeBefore, List.take_zero, List.map_nil, List.sum_nil, Nat.add_zero]
      exact classAssigns_mem m acc cur _ t (by simpa using ht)
    | succ k =>
      right
      have hk' : k < rest.length := by simpa using hk
      have ht' : t < (arrOf acc arr (ci + 1 + k) rest[k]).length := by
        rw [show ci + 1 + k = ci + (k + 1) by omega]; simpa using ht
      have := ih (ci + 1) (cur + (arrOf acc arr ci cls).length) h.tail k hk' t ht'
      rw [h.head.length_eq] at this
      have e : cur + sizeBefore (cls :: rest) (k + 1) = cur + cls.length + sizeBefore rest k := by
        simp only [sizeBefore, List.take_succ_cons, List.map_cons, List.sum_cons]; omega
      rw [e]
      simp only [List.getElem_cons_succ]
      have e2 : ci + (k + 1) = ci + 1 + k := by omega
      simp only [e2]
      rw [h.head.length_eq]
      exact this

/-! ## 5. Well-formed orders -/

theorem pf_allPairsB_iff {α : Type} (r : α → α → Bool) (l : List α) :
    allPairsB r l = true ↔ l.Pairwise (fun a b => r a b = true) := by
  induction l with
  | nil => simp [allPairsB]
  | cons a l ih => simp [allPairsB, ih]

theorem orderWFB_iff (m : Nat) (order : List (List Nat)) :
    orderWFB m order = true ↔ (∀ a ∈ order.flatten, 1 ≤ a ∧ a ≤ m) ∧ order.flatten.Nodup := by
  unfold orderWFB
  rw [Bool.and_eq_true, pf_allPairsB_iff, List.all_eq_true]
  simp [List.Nodup]

theorem altIdx_pos (m a : Nat) (h : 1 ≤ a) : altIdx m a = a - 1 := by
  unfold altIdx
  have : (a == 0) = false := by simp; omega
  simp [this]

theorem orderWFB_idx_nodup (m : Nat) (order : List (List Nat)) (h : orderWFB m order = true) :
    (order.flatten.map (altIdx m)).Nodup := by
  obtain ⟨hr, hn⟩ := (orderWFB_iff m order).1 h
  unfold List.Nodup at hn ⊢
  rw [List.pairwise_map]
  refine hn.imp_of_mem ?_
  intro a b ha hb hab
  rw [altIdx_pos m a (hr a ha).1, altIdx_pos m b (hr b hb).1]
  have := (hr a ha).1; have := (hr b hb).1
  omega

/-- the arrangement of every class is a permutation of the class -/
def ModePerm (mode : TieMode) (i : Nat) (order : List (List Nat)) : Prop :=
  ∀ k (h : k < order.length), (mode.arr i k order[k]).Perm order[k]

theorem arrOf_mode (mode : TieMode) (i c : Nat) (cls : List Nat) :
    arrOf mode.isAccept (mode.arr i) c cls = mode.arr i c cls := by
  cases mode <;> simp [arrOf, TieMode.isAccept, TieMode.arr]

theorem ModePerm.arrPerm {mode i order} (h : ModePerm mode i order) :
    ArrPerm mode.isAccept (mode.arr i) 0 order := by
  intro k hk
  rw [arrOf_mode, Nat.zero_add]
  exact h k hk

theorem sortAsc_perm (l : List Nat) : (sortAsc l).Perm l := List.mergeSort_perm _ _

theorem modePerm_accept (i : Nat) (order : List (List Nat)) : ModePerm .accept i order :=
  fun _ _ => List.Perm.refl _

theorem modePerm_first (i : Nat) (order : List (List Nat)) : ModePerm .first i order :=
  fun _ _ => sortAsc_perm _

theorem modePerm_random (sh : Nat → Nat → List Nat → List Nat) (i : Nat) (order : List (List Nat))
    (h : ∀ ci (hc : ci < order.length), (sh i ci order[ci]).Perm order[ci]) :
    ModePerm (.random sh) i order := h

/-! ## 6. The row of one order (no error checks) -/

theorem prefRow_length (init : Option Nat) (m : Nat) (mode : TieMode) (i : Nat) (order : List (List Nat)) :
    (prefRow init m mode i order).length = m := by
  simp [prefRow, applyAssigns_length]

/-- master lemma: the `t`-th member of the arranged class `k` receives `classBase order k`
(accept) resp. `classBase order k + t` (first / random) -/
theorem prefRow_get (init : Option Nat) (m : Nat) (mode : TieMode) (i : Nat) (order : List (List Nat))
    (hwf : orderWFB m order = true) (hp : ModePerm mode i order)
    (k : Nat) (hk : k < order.length) (t : Nat) (ht : t < (mode.arr i k order[k]).length) :
    (prefRow init m mode i order)[(mode.arr i k order[k])[t] - 1]? =
      some (some (classBase order k + (if mode.isAccept then 0 else t))) := by
  have hA := hp.arrPerm
  obtain ⟨hr, hn⟩ := (orderWFB_iff m order).1 hwf
  have hmem : (mode.arr i k order[k])[t] ∈ order.flatten := by
    rw [List.mem_flatten]
    exact ⟨order[k], List.getElem_mem hk, (hp k hk).subset (List.getElem_mem ht)⟩
  have hra := hr _ hmem
  have ht' : t < (arrOf mode.isAccept (mode.arr i) (0 + k) order[k]).length := by
    rw [arrOf_mode, Nat.zero_add]; exact ht
  have h1 := prefAssigns_mem m mode.isAccept (mode.arr i) order 0 1 hA k hk t ht'
  have e : (arrOf mode.isAccept (mode.arr i) (0 + k) order[k])[t] = (mode.arr i k order[k])[t] := by
    simp only [arrOf_mode, Nat.zero_add]
  rw [e, altIdx_pos m _ hra.1, ← classBase_eq] at h1
  unfold prefRow
  apply applyAssigns_mem _ _ _ _ _ h1
  · simp only [List.length_replicate]; omega
  · exact ((prefAssigns_idx_perm m _ _ order 0 1 hA).nodup_iff).2 (orderWFB_idx_nodup m order hwf)

theorem prefRow_unlisted (init : Option Nat) (m : Nat) (mode : TieMode) (i : Nat) (order : List (List Nat))
    (hwf : orderWFB m order = true) (hp : ModePerm mode i order)
    (a : Nat) (h1 : 1 ≤ a) (hm : a ≤ m) (ha : a ∉ order.flatten) :
    (prefRow init m mode i order)[a - 1]? = some init := by
  obtain ⟨hr, hn⟩ := (orderWFB_iff m order).1 hwf
  unfold prefRow
  rw [applyAssigns_not_mem]
  · rw [List.getElem?_replicate]; simp; omega
  · intro hmem
    have := (prefAssigns_idx_perm m _ _ order 0 1 hp.arrPerm).subset hmem
    rw [List.mem_map] at this
    obtain ⟨b, hb, hba⟩ := this
    rw [altIdx_pos m b (hr b hb).1] at hba
    have := (hr b hb).1
    have : a = b := by omega
    exact ha (this ▸ hb)

/-! ## 7. `np.sort` of a class -/

theorem sortAsc_sorted (l : List Nat) : (sortAsc l).Pairwise (· ≤ ·) := by
  have := List.pairwise_mergeSort (le := fun a b : Nat => decide (a ≤ b))
    (by intro a b c; simp; omega) (by intro a b; simp; omega) l
  simpa [sortAsc] using this

theorem sortAsc_lt (l : List Nat) (hn : l.Nodup) : (sortAsc l).Pairwise (· < ·) := by
  have h1 := sortAsc_sorted l
  have h2 : (sortAsc l).Nodup := (sortAsc_perm l).nodup_iff.2 hn
  exact (h1.and h2).imp (by intro a b h; omega)

theorem pf_countP_lt_sorted : ∀ (s : List Nat), s.Pairwise (· < ·) →
    ∀ t (h : t < s.length), s.countP (· < s[t]) = t := by
  intro s
  induction s with
  | nil => intro _ t h; simp at h
  | cons x xs ih =>
    intro hp t ht
    rw [List.pairwise_cons] at hp
    cases t with
    | zero =>
      simp only [List.getElem_cons_zero]
      rw [List.countP_eq_zero]
      intro y hy
      rcases List.mem_cons.1 hy with rfl | hy
      · simp
      · have := hp.1 y hy; simp; omega
    | succ t =>
      have ht' : t < xs.length := by simpa using ht
      simp only [List.getElem_cons_succ]
      have hx : x < xs[t] := hp.1 _ (List.getElem_mem ht')
      rw [List.countP_cons, ih hp.2 t ht']
      simp [hx]

theorem sortAsc_countP (l : List Nat) (hn : l.Nodup) (t : Nat) (ht : t < (sortAsc l).length) :
    l.countP (· < (sortAsc l)[t]) = t := by
  rw [← (sortAsc_perm l).countP_eq]
  exact pf_countP_lt_sorted _ (sortAsc_lt l hn) t ht

/-! ## 8. From `prefRowE` to `prefRow` -/

/-- the order seen by soc/soi: one singleton class per first member of an indifference class -/
def strictOrder (order : List (List Nat)) : List (List Nat) := (flattenStrict order).map (fun a => [a])

/-- the classes that are actually written by toc/toi/categorical: the categorical converter skips
empty classes (this does not change `classBase` of the other classes) -/
def PrefKind.listed (kind : PrefKind) (order : List (List Nat)) : List (List Nat) :=
  if kind = .cat then order.filter (fun c => !c.isEmpty) else order

def PrefKind.isStrict : PrefKind → Bool
  | .soc | .soi => true
  | _ => false

theorem prefRowE_strict (kind : PrefKind) (mode : TieMode) (m i : Nat) (order : List (List Nat))
    (row : List (Option Nat)) (hk : kind.isStrict = true) (h : prefRowE kind mode m i order = .ok row) :
    row = prefRow kind.init m .accept i (strictOrder order) ∧
      (∀ c ∈ order, c ≠ []) ∧ (kind = .soc → (flattenStrict order).length = m) ∧
      flattenStrict order ≠ [] ∧ (∀ a ∈ flattenStrict order, a ≤ m) := by
  have key : ∀ k : PrefKind, (k = .soc ∨ k = .soi) → prefRowE k mode m i order = .ok row →
      row = prefRow k.init m .accept i (strictOrder order) ∧
      (∀ c ∈ order, c ≠ []) ∧ (k = .soc → (flattenStrict order).length = m) ∧
      flattenStrict order ≠ [] ∧ (∀ a ∈ flattenStrict order, a ≤ m) := by
    intro k hk h
    have h' : (if order.any List.isEmpty then (.error "IndexError: tuple index out of range" : Except String _)
        else if (k == .soc && (flattenStrict order).length != m) then .error "ValueError: shape mismatch"
        else if (flattenStrict order).isEmpty then .error "IndexError: arrays used as indices must be of integer type"
        else if !((flattenStrict order).all (altInRange m)) then .error "IndexError: index out of bounds"
        else .ok (prefRow k.init m .accept i ((flattenStrict order).map fun a => [a]))) = .ok row := by
      rcases hk with rfl | rfl <;> exact h
    split at h'
    · exact absurd h' (by simp)
    rename_i h1
    split at h'
    · exact absurd h' (by simp)
    rename_i h2
    split at h'
    · exact absurd h' (by simp)
    rename_i h3
    split at h'
    · exact absurd h' (by simp)
    rename_i h4
    simp only [Except.ok.injEq] at h'
    refine ⟨h'.symm, ?_, ?_, ?_, ?_⟩
    · intro c hc hce
      apply h1
      rw [List.any_eq_true]
      exact ⟨c, hc, by simp [hce]⟩
    · intro hs
      subst hs
      simpa using h2
    · simpa using h3
    · intro a ha
      have h4' : (flattenStrict order).all (altInRange m) = true := by simpa using h4
      have := List.all_eq_true.1 h4' a ha
      simp only [altInRange, Bool.and_eq_true, decide_eq_true_eq] at this
      exact this.1
  apply key kind _ h
  cases kind <;> simp [PrefKind.isStrict] at hk ⊢

theorem prefRowE_tied (kind : PrefKind) (mode : TieMode) (m i : Nat) (order : List (List Nat))
    (row : List (Option Nat)) (hk : kind.isStrict = false) (h : prefRowE kind mode m i order = .ok row) :
    row = prefRow kind.init m mode i (kind.listed order) := by
  cases kind with
  | soc => simp [PrefKind.isStrict] at hk
  | soi => simp [PrefKind.isStrict] at hk
  | toc =>
    simp only [prefRowE] at h
    split at h
    · exact absurd h (by simp)
    split at h
    · exact absurd h (by simp)
    simp only [Except.ok.injEq] at h
    simp [PrefKind.listed, ← h]
  | toi =>
    simp only [prefRowE] at h
    split at h
    · exact absurd h (by simp)
    split at h
    · exact absurd h (by simp)
    simp only [Except.ok.injEq] at h
    simp [PrefKind.listed, ← h]
  | cat =>
    simp only [prefRowE] at h
    split at h
    · exact absurd h (by simp)
    simp only [Except.ok.injEq] at h
    simp [PrefKind.listed, ← h]
