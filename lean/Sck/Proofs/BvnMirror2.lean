import Sck.Proofs.BvnMirror1

/-! C06, the faithful mirror of `birkhoff_von_neumann`, part 2: the mirrored loop IS the loop `bvnWith` of the abstract
model run with the mirrored matching routine as its oracle (same successful results), hence the end-to-end
specification `bvnWith_spec` applies to it. -/

namespace Mirror

open FH (BGraph keysB posGraph)
open Validate (checkBipartite)

/-- one round of the mirrored loop on a square matrix, with the dict-level steps (`positivity_graph`,
`check_bipartite_graph`) replaced by their matrix-level meaning -/
theorem bvnMirrorAux_succ (n k : Nat) (X : List (List Rat)) (hsq : isSquareB n X = true) :
    bvnMirrorAux n (k + 1) X =
      if isZeroB X then .ok []
      else if !posKeysOkB n X then .error "ValueError"
      else
        match mcmMirror (posGraph n X) (rowVerts n) (colVerts n) with
        | .error e => .error e
        | .ok M =>
          match minList (pairVals n X M) with
          | none => .error "inf"
          | some z =>
            match bvnMirrorAux n k (subPerm X (sigmaOfPairs n M) z) with
            | .ok out => .ok ((z, sigmaOfPairs n M) :: out)
            | .error e => .error e := by
  rw [bvnMirrorAux]
  by_cases hz : isZeroB X = true
  · rw [if_pos hz, if_pos hz]
  · rw [if_neg hz, if_neg hz, FH.positivityGraph_eq n X hsq]
    simp only
    have hn : 0 < n := by
      rcases Nat.eq_zero_or_pos n with rfl | h
      · exact absurd (isZeroB_of_zero X hsq) hz
      · exact h
    by_cases hk : posKeysOkB n X = true
    · have hc := (check_posGraph_iff n X hn).mpr hk
      rw [mcmFull_of_check _ _ _ hc, hk]
      simp only [Bool.not_true, Bool.false_eq_true, if_false]
      rfl
    · have hk' : posKeysOkB n X = false := by simpa using hk
      cases hc : checkBipartite (toGArg (posGraph n X)) (rowVerts n) (colVerts n) with
      | ok u => exact absurd ((check_posGraph_iff n X hn).mp hc) hk
      | error e =>
        rw [mcmFull_of_check_error _ _ _ e hc, hk']
        simp only [Bool.not_false, if_true]

/-- one round of the abstract loop with the mirrored oracle, on a square matrix -/
theorem bvnWithAux_succ (n k : Nat) (X : List (List Rat)) (hsq : isSquareB n X = true) :
    bvnWithAux (mirrorPairs n) n (k + 1) X =
      if isZeroB X then .ok []
      else if !posKeysOkB n X then .error "ValueError: X and/or Y not consistent with the keys of the dictionary"
      else
        match mcmMirror (posGraph n X) (rowVerts n) (colVerts n) with
        | .error _ => .error "max-flow failure"
        | .ok M =>
          match minList (pairVals n X M) with
          | none => .error "empty matching: z = inf"
          | some z =>
            match bvnWithAux (mirrorPairs n) n k (subPerm X (sigmaOfPairs n M) z) with
            | .ok out => .ok ((z, sigmaOfPairs n M) :: out)
            | .error e => .error e := by
  rw [bvnWithAux, mirrorPairs_eq n X hsq]
  cases mcmMirror (posGraph n X) (rowVerts n) (colVerts n) <;> rfl

/-- **the mirrored loop and the abstract loop with the mirrored oracle have the same successful results** -/
theorem bvnMirrorAux_iff_with (n : Nat) :
    ∀ (k : Nat) (X : List (List Rat)), isSquareB n X = true → ∀ out,
      bvnMirrorAux n k X = .ok out ↔ bvnWithAux (mirrorPairs n) n k X = .ok out := by
  intro k
  induction k with
  | zero => intro X _ out; simp [bvnMirrorAux, bvnWithAux]
  | succ k ih =>
    intro X hsq out
    rw [bvnMirrorAux_succ n k X hsq, bvnWithAux_succ n k X hsq]
    by_cases hz : isZeroB X = true
    · rw [if_pos hz, if_pos hz]
    · rw [if_neg hz, if_neg hz]
      by_cases hk : posKeysOkB n X = true
      · rw [hk]
        simp only [Bool.not_true, Bool.false_eq_true, if_false]
        cases hM : mcmMirror (posGraph n X) (rowVerts n) (colVerts n) with
        | error e => simp
        | ok M =>
          simp only
          cases hzm : minList (pairVals n X M) with
          | none => simp
          | some z =>
            simp only
            have hsq' := subPerm_square n X (sigmaOfPairs n M) z hsq (sigmaOfPairs_length n M)
            have ih' := ih (subPerm X (sigmaOfPairs n M) z) hsq'
            cases h1 : bvnMirrorAux n k (subPerm X (sigmaOfPairs n M) z) with
            | error e1 =>
              cases h2 : bvnWithAux (mirrorPairs n) n k (subPerm X (sigmaOfPairs n M) z) with
              | error e2 => simp
              | ok o2 =>
                have := (ih' o2).mpr h2
                rw [h1] at this
                simp at this
            | ok o1 =>
              rw [(ih' o1).mp h1]
      · have hk' : posKeysOkB n X = false := by simpa using hk
        rw [hk']
        simp

/-- the same for the top-level functions -/
theorem bvnMirror_iff_with (n : Nat) (X : List (List Rat)) (out : List (Rat × List Nat)) :
    bvnMirror n X = .ok out ↔ bvnWith (mirrorPairs n) n X = .ok out := by
  unfold bvnMirror bvnWith
  by_cases hsq : isSquareB n X = true
  · rw [if_pos hsq, if_pos hsq]
    exact bvnMirrorAux_iff_with n _ X hsq out
  · rw [if_neg hsq, if_neg hsq]
    simp

/-- **`bvnMirror_spec`.**  On a balanced matrix the mirror of `birkhoff_von_neumann` returns — no exception, within its
`n² + 1` rounds — at most `n²` pairs `(z, σ)` with `z > 0`, `σ` a permutation inside the support of `X`, `Σ z = s` and
`Σ z · P_σ = X` exactly. -/
theorem bvnMirror_spec (n : Nat) (X : List (List Rat)) (s : Rat) (hbal : isBalancedB n X = some s) :
    ∃ out, bvnMirror n X = .ok out ∧ out.length ≤ n * n ∧ (∀ e ∈ out, 0 < e.1) ∧
      (∀ e ∈ out, isPermB n e.2 = true ∧ ∀ i, i < n → 0 < matGet X i (e.2.getD i n)) ∧
      sumList (out.map (·.1)) = s ∧
      ∀ i j, i < n → j < n → reconEntry n (out.map (·.1)) (out.map (·.2)) i j = matGet X i j := by
  obtain ⟨out, hrun, h⟩ := bvnWith_spec n (mirrorPairs n) (mirrorPairs_ok n) X s hbal
  exact ⟨out, (bvnMirror_iff_with n X out).mpr hrun, h⟩

end Mirror

#print axioms Mirror.bvnMirror_spec
