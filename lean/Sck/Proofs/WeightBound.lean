import Sck.Model.WeightBound
import Sck.Proofs.LatticeI8
import Sck.Proofs.LatticeJ18
import Mathlib.Tactic.Ring

/-! # C03, package L9: the numeric side condition `WeightBound` of the optimality theorem is checkable

* `weightBoundB_iff`: the executable `weightBoundB` decides `WeightBound`;
* `weightBound_of_bounded`: on strict complete input, if every entry of `V1`, `V2` has absolute value `≤ B` and
  `4 * n * n * B < sys.maxsize` then `WeightBound` holds.  Proof: `rotation_weight(ρ)` is a sum of `4 |ρ|` entries, and along
  any elimination path every rotation moves each of its men strictly down his list, so the total number of pairs of the
  rotations of a path is at most the total rank `Σ_a rank_a(ν a) ≤ n²` of its end point. -/

namespace IrvingAlgo

open Irving SMLattice

/-! ### part 1: `weightBoundB` decides `WeightBound` -/

theorem maxsize_eq : maxsize = 2 ^ 63 - 1 := by decide

theorem foldl_add_map_sum {α : Type} (f : α → Int) (l : List α) (s : Int) :
    l.foldl (fun s r => s + f r) s = s + (l.map f).sum := by
  induction l generalizing s with
  | nil => simp
  | cons x xs ih => simp only [List.foldl_cons, ih, List.map_cons, List.sum_cons]; omega

theorem sum_range_getD {α : Type} (f : α → Int) (d : α) (l : List α) :
    ∑ i ∈ Finset.range l.length, f (l.getD i d) = (l.map f).sum := by
  induction l with
  | nil => simp
  | cons x xs ih =>
    rw [List.length_cons, Finset.sum_range_succ', List.map_cons, List.sum_cons]
    simp only [List.getD_cons_succ, List.getD_cons_zero]
    rw [ih]; omega

theorem negPartSum_eq (V1 V2 : List (List Int)) (all : List (List Pair)) :
    negPartSum V1 V2 all
      = ∑ i ∈ Finset.range all.length, max (-(rotationWeight V1 V2 (all.getD i []))) 0 := by
  unfold negPartSum
  rw [foldl_add_map_sum (fun r => max (-(rotationWeight V1 V2 r)) 0),
    sum_range_getD (fun r => max (-(rotationWeight V1 V2 r)) 0)]
  omega

/-- the executable check is the ∀-statement -/
theorem weightBoundB_iff (n : Nat) (P1 P2 : List (List Nat)) (V1 V2 : List (List Int)) :
    weightBoundB n P1 P2 V1 V2 = true ↔ WeightBound n P1 P2 V1 V2 := by
  unfold weightBoundB weightBoundSum WeightBound
  cases hmo : maleOptimal n P1 P2 with
  | none => simp
  | some M0 =>
    dsimp only
    cases hall : allRotations (shortlists n P1 P2 (muOf n M0)).1 (shortlists n P1 P2 (muOf n M0)).2 with
    | none =>
      simp only [true_iff]
      intro M0' all elim h1 h2
      cases h1
      rw [hall] at h2
      exact absurd h2 (by simp)
    | some r =>
      obtain ⟨all, elim⟩ := r
      simp only [decide_eq_true_eq]
      rw [negPartSum_eq]
      constructor
      · intro h M0' all' elim' h1 h2
        cases h1
        rw [hall] at h2
        cases h2
        exact h
      · intro h
        exact h M0 all elim rfl hall

/-- what the sum is when it can be computed -/
theorem weightBoundSum_ok {n : Nat} {P1 P2 : List (List Nat)} {V1 V2 : List (List Int)} {M0 : List Pair}
    {all : List (List Pair)} {elim : List (Pair × Nat)} (hmo : maleOptimal n P1 P2 = some M0)
    (hall : allRotations (shortlists n P1 P2 (muOf n M0)).1 (shortlists n P1 P2 (muOf n M0)).2 = some (all, elim)) :
    weightBoundSum n P1 P2 V1 V2
      = .ok (∑ i ∈ Finset.range all.length, max (-(rotationWeight V1 V2 (all.getD i []))) 0) := by
  unfold weightBoundSum
  rw [hmo]
  dsimp only
  simp only [hall, negPartSum_eq]

/-! ### part 2: an input-only sufficient condition -/

theorem entriesBoundedB_iff (B : Nat) (V : List (List Int)) :
    entriesBoundedB B V = true ↔ ∀ row ∈ V, ∀ x ∈ row, x.natAbs ≤ B := by
  simp [entriesBoundedB]

theorem intOf_le {B : Nat} {V : List (List Int)} (hV : ∀ row ∈ V, ∀ x ∈ row, x.natAbs ≤ B) (i j : Nat) :
    -(B : Int) ≤ intOf V i j ∧ intOf V i j ≤ B := by
  unfold intOf
  rw [List.getD_eq_getElem?_getD (l := V)]
  cases hi : V[i]? with
  | none => simp
  | some row =>
    have hrow : row ∈ V := List.mem_of_getElem? hi
    simp only [Option.getD_some]
    rw [List.getD_eq_getElem?_getD]
    cases hj : row[j]? with
    | none => simp
    | some x =>
      have := hV row hrow x (List.mem_of_getElem? hj)
      simp only [Option.getD_some]
      omega

theorem wTerm_le {B : Nat} {V1 V2 : List (List Int)} (hV1 : ∀ row ∈ V1, ∀ x ∈ row, x.natAbs ≤ B)
    (hV2 : ∀ row ∈ V2, ∀ x ∈ row, x.natAbs ≤ B) (rho : List Pair) (i : Nat) :
    wTerm V1 V2 rho i ≤ 4 * (B : Int) := by
  unfold wTerm
  have a := intOf_le hV1 (rotAt rho i).1 (rotAt rho i).2
  have b := intOf_le hV1 (rotAt rho i).1 (rotAt rho ((i + 1) % rho.length)).2
  have c := intOf_le hV2 (rotAt rho i).2 (rotAt rho i).1
  have d := intOf_le hV2 (rotAt rho i).2 (rotAt rho ((i + rho.length - 1) % rho.length)).1
  omega

/-- the negative part of `rotation_weight(ρ)` is at most `4 |ρ| B` -/
theorem negPart_le {B : Nat} {V1 V2 : List (List Int)} (hV1 : ∀ row ∈ V1, ∀ x ∈ row, x.natAbs ≤ B)
    (hV2 : ∀ row ∈ V2, ∀ x ∈ row, x.natAbs ≤ B) (rho : List Pair) :
    max (-(rotationWeight V1 V2 rho)) 0 ≤ 4 * (rho.length : Int) * B := by
  rw [rotationWeight_eq', neg_neg]
  have h : ∑ i ∈ Finset.range rho.length, wTerm V1 V2 rho i ≤ ∑ _i ∈ Finset.range rho.length, 4 * (B : Int) :=
    Finset.sum_le_sum (fun i _ => wTerm_le hV1 hV2 rho i)
  rw [Finset.sum_const, Finset.card_range, nsmul_eq_mul] at h
  have h0 : (0 : Int) ≤ (rho.length : Int) * (4 * (B : Int)) := by positivity
  have e : 4 * (rho.length : Int) * B = (rho.length : Int) * (4 * (B : Int)) := by ring
  rw [e]
  exact max_le h h0

/-- eliminating an exposed rotation costs every one of its men at least one rank -/
theorem menCost_elim_add {n : ℕ} {P1 P2 : Fin n → Fin n → ℕ} {μ : Equiv.Perm (Fin n)} {ρ : List (Fin n)}
    (hex : ExposedRot P1 P2 μ ρ) : menCost P1 μ + ρ.length ≤ menCost P1 (elim μ ρ) := by
  classical
  have hlen : ρ.length = ∑ a : Fin n, if a ∈ ρ then 1 else 0 := by
    rw [← List.toFinset_card_of_nodup hex.1, Finset.card_eq_sum_ones, ← Finset.sum_filter]
    congr 1
    ext a; simp
  unfold menCost
  rw [hlen, ← Finset.sum_add_distrib]
  apply Finset.sum_le_sum
  intro a _
  by_cases ha : a ∈ ρ
  · simp only [ha, if_true]
    exact (hex.2.2 a ha).1.1
  · simp only [ha, if_false, Nat.add_zero]
    rw [elim_apply_of_notMem μ ha]

/-- the rotations of an elimination path have at most `Σ_a rank_a(ν a) - Σ_a rank_a(μ a)` pairs altogether -/
theorem elimPath_sum_length {n : ℕ} {P1 P2 : Fin n → Fin n → ℕ} :
    ∀ (ρs : List (List (Fin n))) (μ ν : Equiv.Perm (Fin n)), ElimPath P1 P2 μ ρs ν →
      menCost P1 μ + (ρs.map List.length).sum ≤ menCost P1 ν := by
  intro ρs
  induction ρs with
  | nil => intro μ ν hp; cases hp; simp
  | cons ρ rest ih =>
    intro μ ν hp
    have c1 := menCost_elim_add hp.1
    have c2 := ih _ _ hp.2
    simp only [List.map_cons, List.sum_cons]
    omega

theorem pathPairs_map_length {n : ℕ} : ∀ (ρs : List (List (Fin n))) (μ : Equiv.Perm (Fin n)),
    (pathPairs μ ρs).map List.length = ρs.map List.length := by
  intro ρs
  induction ρs with
  | nil => intro _; rfl
  | cons ρ rest ih => intro μ; simp [pathPairs, ih, rotPairs_length]

theorem sum_map_four_mul (B : Nat) (l : List (List Pair)) :
    (l.map (fun r => 4 * (r.length : Int) * B)).sum = 4 * (((l.map List.length).sum : Nat) : Int) * B := by
  induction l with
  | nil => simp
  | cons x xs ih => simp only [List.map_cons, List.sum_cons, ih]; push_cast; ring

/-- the mirror's rotations have at most `n²` pairs altogether -/
theorem allRotations_sum_length {n : Nat} {P1 P2 : List (List Nat)} {V1 V2 : List (List Int)}
    (hwf : wfB n P1 P2 V1 V2 = true) {M0 : List Pair} {all : List (List Pair)} {elm : List (Pair × Nat)}
    (hmo : maleOptimal n P1 P2 = some M0)
    (hall : allRotations (shortlists n P1 P2 (muOf n M0)).1 (shortlists n P1 P2 (muOf n M0)).2 = some (all, elm)) :
    (all.map List.length).sum ≤ n * n := by
  obtain ⟨μ0, ρs, _, hp, rfl, _, _⟩ := allRotations_elim_spec hwf hmo hall
  rw [pathPairs_map_length]
  have c1 := elimPath_sum_length ρs μ0 _ hp
  have c2 := menCost_le_sq hwf (pathAt μ0 ρs ρs.length)
  omega

/-- **the input-only sufficient condition**: entries bounded by `B` and `4 n² B < sys.maxsize` -/
theorem weightBound_of_bounded {n B : Nat} {P1 P2 : List (List Nat)} {V1 V2 : List (List Int)}
    (hwf : wfB n P1 P2 V1 V2 = true) (hV1 : ∀ row ∈ V1, ∀ x ∈ row, x.natAbs ≤ B)
    (hV2 : ∀ row ∈ V2, ∀ x ∈ row, x.natAbs ≤ B) (hnum : 4 * n * n * B < maxsize) :
    WeightBound n P1 P2 V1 V2 := by
  intro M0 all elm hmo hall
  have hlen := allRotations_sum_length hwf hmo hall
  rw [sum_range_getD (fun r => max (-(rotationWeight V1 V2 r)) 0)]
  have h1 : (all.map (fun r => max (-(rotationWeight V1 V2 r)) 0)).sum
      ≤ (all.map (fun r => 4 * (r.length : Int) * B)).sum :=
    List.sum_le_sum (fun r _ => negPart_le hV1 hV2 r)
  rw [sum_map_four_mul] at h1
  have h2 : 4 * (all.map List.length).sum * B ≤ 4 * n * n * B := by
    have : 4 * (all.map List.length).sum ≤ 4 * (n * n) := Nat.mul_le_mul_left 4 hlen
    calc 4 * (all.map List.length).sum * B ≤ 4 * (n * n) * B := Nat.mul_le_mul_right B this
      _ = 4 * n * n * B := by rw [Nat.mul_assoc 4 n n]
  have h3 : (4 * (((all.map List.length).sum : Nat) : Int) * B) < (maxsize : Int) := by
    exact_mod_cast Nat.lt_of_le_of_lt h2 hnum
  omega

theorem weightBound_of_inputBoundB {n B : Nat} {P1 P2 : List (List Nat)} {V1 V2 : List (List Int)}
    (hwf : wfB n P1 P2 V1 V2 = true) (h : inputBoundB n B V1 V2 = true) : WeightBound n P1 P2 V1 V2 := by
  unfold inputBoundB at h
  simp only [Bool.and_eq_true, decide_eq_true_eq] at h
  exact weightBound_of_bounded hwf ((entriesBoundedB_iff B V1).mp h.1.1) ((entriesBoundedB_iff B V2).mp h.1.2) h.2

/-! ### the sharp form: ranks are at least 1, so the rotations have at most `n² - n` pairs altogether -/

theorem rk_pos {n : Nat} {P1 P2 : List (List Nat)} {V1 V2 : List (List Int)} (hwf : wfB n P1 P2 V1 V2 = true)
    (a b : Fin n) : 1 ≤ rk n P1 a b := by
  obtain ⟨hP1, _⟩ := permRow_of_wfB hwf
  obtain ⟨hlen, hrng, _⟩ := (permRowB_iff n _).mp (hP1 a a.2)
  show 1 ≤ (P1.getD a []).getD b 0
  rw [List.getD_eq_getElem?_getD (l := P1.getD a []), List.getElem?_eq_getElem (by rw [hlen]; exact b.2)]
  exact (hrng _ (List.getElem_mem _)).1

theorem menCost_ge {n : Nat} {P1 P2 : List (List Nat)} {V1 V2 : List (List Int)} (hwf : wfB n P1 P2 V1 V2 = true)
    (μ : Equiv.Perm (Fin n)) : n ≤ menCost (rk n P1) μ := by
  unfold menCost
  calc n = ∑ _a : Fin n, 1 := by simp
    _ ≤ ∑ a, rk n P1 a (μ a) := Finset.sum_le_sum (fun a _ => rk_pos hwf a (μ a))

/-- the mirror's rotations have at most `n² - n` pairs altogether (attained by the Latin-square instances) -/
theorem allRotations_sum_length_sharp {n : Nat} {P1 P2 : List (List Nat)} {V1 V2 : List (List Int)}
    (hwf : wfB n P1 P2 V1 V2 = true) {M0 : List Pair} {all : List (List Pair)} {elm : List (Pair × Nat)}
    (hmo : maleOptimal n P1 P2 = some M0)
    (hall : allRotations (shortlists n P1 P2 (muOf n M0)).1 (shortlists n P1 P2 (muOf n M0)).2 = some (all, elm)) :
    (all.map List.length).sum ≤ n * n - n := by
  obtain ⟨μ0, ρs, _, hp, rfl, _, _⟩ := allRotations_elim_spec hwf hmo hall
  rw [pathPairs_map_length]
  have c1 := elimPath_sum_length ρs μ0 _ hp
  have c2 := menCost_le_sq hwf (pathAt μ0 ρs ρs.length)
  have c3 := menCost_ge hwf μ0
  omega

/-- the sum itself is at most `4 (n² - n) B` -/
theorem negPart_total_le {n B : Nat} {P1 P2 : List (List Nat)} {V1 V2 : List (List Int)}
    (hwf : wfB n P1 P2 V1 V2 = true) (hV1 : ∀ row ∈ V1, ∀ x ∈ row, x.natAbs ≤ B)
    (hV2 : ∀ row ∈ V2, ∀ x ∈ row, x.natAbs ≤ B) {M0 : List Pair} {all : List (List Pair)} {elm : List (Pair × Nat)}
    (hmo : maleOptimal n P1 P2 = some M0)
    (hall : allRotations (shortlists n P1 P2 (muOf n M0)).1 (shortlists n P1 P2 (muOf n M0)).2 = some (all, elm)) :
    ∑ i ∈ Finset.range all.length, max (-(rotationWeight V1 V2 (all.getD i []))) 0
      ≤ ((4 * (n * n - n) * B : Nat) : Int) := by
  have hlen := allRotations_sum_length_sharp hwf hmo hall
  rw [sum_range_getD (fun r => max (-(rotationWeight V1 V2 r)) 0)]
  have h1 : (all.map (fun r => max (-(rotationWeight V1 V2 r)) 0)).sum
      ≤ (all.map (fun r => 4 * (r.length : Int) * B)).sum :=
    List.sum_le_sum (fun r _ => negPart_le hV1 hV2 r)
  rw [sum_map_four_mul] at h1
  have h2 : 4 * (all.map List.length).sum * B ≤ 4 * (n * n - n) * B :=
    Nat.mul_le_mul_right B (Nat.mul_le_mul_left 4 hlen)
  have h3 : (4 * (((all.map List.length).sum : Nat) : Int) * B) ≤ ((4 * (n * n - n) * B : Nat) : Int) := by
    exact_mod_cast h2
  omega

theorem weightBound_of_bounded_sharp {n B : Nat} {P1 P2 : List (List Nat)} {V1 V2 : List (List Int)}
    (hwf : wfB n P1 P2 V1 V2 = true) (hV1 : ∀ row ∈ V1, ∀ x ∈ row, x.natAbs ≤ B)
    (hV2 : ∀ row ∈ V2, ∀ x ∈ row, x.natAbs ≤ B) (hnum : 4 * (n * n - n) * B < maxsize) :
    WeightBound n P1 P2 V1 V2 := by
  intro M0 all elm hmo hall
  have h := negPart_total_le hwf hV1 hV2 hmo hall
  have h3 : ((4 * (n * n - n) * B : Nat) : Int) < (maxsize : Int) := by exact_mod_cast hnum
  omega

/-! ### the corollaries: optimality of the mirror without a `WeightBound` hypothesis -/

theorem irving_ok_wfB {n : Nat} {P1 P2 : List (List Nat)} {V1 V2 : List (List Int)} {M : List Pair}
    (h : irving n P1 P2 V1 V2 = .ok M) : wfB n P1 P2 V1 V2 = true := by
  obtain ⟨M0, rots, hplan, _⟩ := irving_ok n P1 P2 V1 V2 M h
  exact (irvingPlan_ok n P1 P2 V1 V2 M0 rots hplan).1

/-- every `ok` answer on input with bounded entries is optimal (strict completeness follows from the `ok`) -/
theorem irving_optimal_of_bounded_ok {n B : Nat} {P1 P2 : List (List Nat)} {V1 V2 : List (List Int)}
    (hV1 : ∀ row ∈ V1, ∀ x ∈ row, x.natAbs ≤ B) (hV2 : ∀ row ∈ V2, ∀ x ∈ row, x.natAbs ≤ B)
    (hnum : 4 * n * n * B < maxsize) {M : List Pair} (h : irving n P1 P2 V1 V2 = .ok M) :
    Brute.optStable n P1 P2 V1 V2 = some (matchingValue V1 V2 M) :=
  (L8b.irving_optimal (weightBound_of_bounded (irving_ok_wfB h) hV1 hV2 hnum)).1 M h

theorem irving_optimal_of_bounded {n B : Nat} {P1 P2 : List (List Nat)} {V1 V2 : List (List Int)}
    (hwf : wfB n P1 P2 V1 V2 = true) (hV1 : ∀ row ∈ V1, ∀ x ∈ row, x.natAbs ≤ B)
    (hV2 : ∀ row ∈ V2, ∀ x ∈ row, x.natAbs ≤ B) (hnum : 4 * n * n * B < maxsize) :
    (∀ M, irving n P1 P2 V1 V2 = .ok M → Brute.optStable n P1 P2 V1 V2 = some (matchingValue V1 V2 M)) ∧
      irving n P1 P2 V1 V2 ≠ .error "check-exposed" ∧ irving n P1 P2 V1 V2 ≠ .error "not-exposed" := by
  have h := L8b.irving_optimal (weightBound_of_bounded hwf hV1 hV2 hnum)
  exact ⟨h.1, h.2 hwf⟩

theorem irving_optimal_of_weightBoundB {n : Nat} {P1 P2 : List (List Nat)} {V1 V2 : List (List Int)}
    (hb : weightBoundB n P1 P2 V1 V2 = true) :
    (∀ M, irving n P1 P2 V1 V2 = .ok M → Brute.optStable n P1 P2 V1 V2 = some (matchingValue V1 V2 M)) ∧
      (wfB n P1 P2 V1 V2 = true →
        irving n P1 P2 V1 V2 ≠ .error "check-exposed" ∧ irving n P1 P2 V1 V2 ≠ .error "not-exposed") :=
  L8b.irving_optimal ((weightBoundB_iff n P1 P2 V1 V2).mp hb)

/-! ### examples: the 3×3 Latin-square instance -/

theorem exLatin_weightBoundSum (V1 V2 : List (List Int)) :
    weightBoundSum 3 exL1 exL2 V1 V2 = .ok (negPartSum V1 V2 exAll) := by
  unfold weightBoundSum
  rw [exLatin_maleOptimal]
  dsimp only
  rw [show ([(0, 0), (1, 1), (2, 2)] : List Pair) = exM0 from rfl, exLatin_allRotations]

/-- rotation weights `+15`, `-12`: the sum of the negative parts is 12 -/
theorem exLatin_weightBoundSum_small :
    weightBoundSum 3 exL1 exL2 [[0,0,0],[0,0,0],[0,0,0]] [[0,1,5],[5,0,1],[1,5,0]] = .ok 12 := by
  rw [exLatin_weightBoundSum]; decide +kernel

theorem exLatin_weightBoundB_small :
    weightBoundB 3 exL1 exL2 [[0,0,0],[0,0,0],[0,0,0]] [[0,1,5],[5,0,1],[1,5,0]] = true := by
  unfold weightBoundB; rw [exLatin_weightBoundSum_small]; decide +kernel

/-- the same instance scaled by `2^60`: the sum `12 * 2^60` exceeds `sys.maxsize = 2^63 - 1`, `WeightBound` FAILS -/
theorem exLatin_weightBoundB_big :
    weightBoundB 3 exL1 exL2 [[0,0,0],[0,0,0],[0,0,0]]
      [[0,1152921504606846976,5764607523034234880],[5764607523034234880,0,1152921504606846976],
       [1152921504606846976,5764607523034234880,0]] = false := by
  unfold weightBoundB; rw [exLatin_weightBoundSum]; decide +kernel

/-- the bound `n² - n` on the number of pairs is attained -/
theorem exLatin_pairs : (exAll.map List.length).sum = 3 * 3 - 3 := by decide

end IrvingAlgo

#print axioms IrvingAlgo.weightBoundB_iff
#print axioms IrvingAlgo.weightBound_of_bounded
