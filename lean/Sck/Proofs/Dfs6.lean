import Sck.Proofs.Dfs5

/-! C08, mirror of the implementation's `ford_fulkerson` (B3, part 4): termination.  `reachable_vertices`
never runs out of its fuel, and the `while` loop ends within `ffFuel N` rounds (every round raises the value by
at least one and the value is bounded by the capacity of the cut `{s}`), without any `KeyError`. -/

open Finset

namespace Dfs

/-! ### `reachable_vertices` terminates within `reachFuel` -/

/-- total weight `deg + 1` of the keys not yet in `ans` -/
def wt (ans : List Int) : Graph → Nat
  | [] => 0
  | e :: G => (if e.1 ∈ ans then 0 else e.2.length + 1) + wt ans G

theorem wt_nil (G : Graph) : wt [] G = (G.map (fun e => e.2.length + 1)).sum := by
  induction G with
  | nil => rfl
  | cons e G ih => simp [wt, ih]

theorem wt_mono (x : Int) (ans : List Int) (G : Graph) : wt (x :: ans) G ≤ wt ans G := by
  induction G with
  | nil => simp [wt]
  | cons e G ih =>
    simp only [wt, List.mem_cons]
    by_cases h1 : e.1 ∈ ans
    · simp [h1]; exact ih
    · by_cases h2 : e.1 = x
      · simp [h2]; omega
      · simp [h1, h2]; exact ih

theorem wt_drop (x : Int) (ans : List Int) (G : Graph) (hx : x ∈ keys G) (hxa : x ∉ ans) :
    wt (x :: ans) G + (adj G x).length + 1 ≤ wt ans G := by
  induction G with
  | nil => simp [keys] at hx
  | cons e G ih =>
    simp only [wt, List.mem_cons]
    by_cases h2 : e.1 = x
    · have hadj : adj (e :: G) x = e.2 := by
        unfold adj; rw [adj?_cons, if_pos h2]
      have := wt_mono x ans G
      rw [hadj]
      simp [h2, hxa]; omega
    · have hadj : adj (e :: G) x = adj G x := by
        unfold adj; rw [adj?_cons, if_neg h2]
      have hx' : x ∈ keys G := by
        simp only [keys, List.map_cons, List.mem_cons] at hx
        rcases hx with h | h
        · exact absurd h.symm h2
        · exact h
      have := ih hx'
      rw [hadj]
      by_cases h1 : e.1 ∈ ans
      · simp [h1]; omega
      · simp [h1, h2]; omega

theorem reachLoop_total (Gf : Graph) (hk : NbrsKeys Gf) :
    ∀ (k : Nat) (fr ans : List Int), (∀ x ∈ fr, x ∈ keys Gf) → fr.length + wt ans Gf < k →
      ∃ S, reachLoop Gf k fr ans = some S := by
  intro k
  induction k with
  | zero => intro fr ans _ h; exact absurd h (Nat.not_lt_zero _)
  | succ k ih =>
    intro fr ans hfr hlt
    cases fr with
    | nil => exact ⟨ans, rfl⟩
    | cons x fr =>
      simp only [reachLoop]
      have hfr' : ∀ y ∈ fr, y ∈ keys Gf := fun y hy => hfr y (List.mem_cons_of_mem _ hy)
      simp only [List.length_cons] at hlt
      by_cases hx : ans.contains x = true
      · rw [if_pos hx]
        exact ih fr ans hfr' (by omega)
      · rw [if_neg hx]
        have hxa : x ∉ ans := fun h => hx (List.contains_iff_mem.mpr h)
        have hdrop := wt_drop x ans Gf (hfr x List.mem_cons_self) hxa
        have hlen : (((adj Gf x).filter (fun e => decide (0 < e.2))).map (·.1)).length ≤ (adj Gf x).length := by
          rw [List.length_map]; exact List.length_filter_le _ _
        apply ih
        · intro y hy
          rcases List.mem_append.mp hy with hy | hy
          · obtain ⟨e, he, rfl⟩ := List.mem_map.mp hy
            exact hk x e.1 e.2 (List.mem_filter.mp he).1
          · exact hfr' y hy
        · rw [List.length_append]; omega

theorem reachable_total (Gf : Graph) (hk : NbrsKeys Gf) (s : Int) (hs : s ∈ keys Gf) :
    ∃ S, reachable Gf s = some S := by
  apply reachLoop_total Gf hk
  · intro x hx
    simp only [List.mem_singleton] at hx
    subst hx; exact hs
  · rw [wt_nil]; simp [reachFuel]

/-! ### the `while` loop ends within the fuel -/

theorem ffLoop_total (N : Net) (hwf : N.WF') :
    ∀ (k : Nat) (Gf : Graph) (fl : FlowDict) (acc : List (List Int × Int)) (f : Flow),
      Repr N Gf fl f → IsFlow N.verts.toFinset N.cap N.s N.t f →
      cutCap N.verts.toFinset N.cap {N.s} - flowValue N.verts.toFinset N.s f < (k : Int) →
      ∃ r, ffLoop (netToG N) N.s N.t k (Gf, fl) acc = .ok r := by
  intro k
  induction k with
  | zero =>
    intro Gf fl acc f _ hf hlt
    have := FlowTotal.value_le_cutS N hwf.toWF f hf
    simp only [Nat.cast_zero] at hlt
    omega
  | succ k ih =>
    intro Gf fl acc f hrep hf hlt
    have hsk : N.s ∈ keys Gf := by rw [hrep.keys]; exact hwf.s_mem
    have hguard : ¬ ((N.s != N.t && (adj? Gf N.s).isNone) = true) := by
      rw [adj?_of_mem_keys hsk]; simp
    simp only [ffLoop]
    rw [if_neg hguard]
    rcases hd : (dfsPath Gf N.t (Gf.length + 1) N.s (vis0 Gf N.s)).1 with _ | ⟨path, c⟩
    · simp only
      have hE := finalFlow_ok fl hrep.flNodup f hrep.flVal (edgePairs (netToG N)) []
        (by
          intro k hk
          obtain ⟨c, hc⟩ := (mem_edgePairs_netToG N hwf k.1 k.2).mp hk
          exact hrep.flEdge _ hc)
        (by simpa using nodup_edgePairs_netToG N hwf)
      rw [hE]
      obtain ⟨S, hS⟩ := reachable_total Gf hrep.nbrsKeys N.s hsk
      simp only [hS]
      exact ⟨_, rfl⟩
    · simp only
      obtain ⟨_, hc1, g, fl', haug, _, hrep', hf', hval'⟩ := round_step N hwf Gf fl f hrep hf _ path c hd
      rw [haug]
      simp only
      apply ih g fl' _ _ hrep' hf'
      rw [hval']
      push_cast at hlt
      omega

/-- **B3, termination.**  On a well-formed network `ffDfs` with at least `ffFuel N = 1 + Σ_{v ≠ s} cap s v`
rounds never fails: no `KeyError`, no search or worklist runs out of fuel, and the `while` loop ends. -/
theorem ffDfs_terminates (N : Net) (hwf : N.WF') (rounds : Nat) (hfuel : ffFuel N ≤ rounds) :
    ∃ r, ffDfs (netToG N) N.s N.t rounds = .ok r := by
  obtain ⟨Gf, fl, hres, _, hrep⟩ := mkResidual_ok N hwf
  simp only [ffDfs, hres]
  apply ffLoop_total N hwf rounds Gf fl [] _ hrep (zero_isFlow N)
  have hB := FlowTotal.ffFuel_eq N hwf.nodup
  have h0 : flowValue N.verts.toFinset N.s (fun _ _ => (0 : Int)) = 0 := by simp [flowValue]
  rw [h0]
  have : (ffFuel N : Int) ≤ (rounds : Int) := by exact_mod_cast hfuel
  omega

end Dfs
