import Sck.Proofs.McmMirror1
import Sck.Proofs.Validate2

/-! C09, the faithful mirror of `maximum_cardinality_matching_bipartite`, part 2: the property-level statements
(maximum matching, same size as the abstract model, order of the pairs) and the argument check in front. -/

namespace Mirror

open Dfs (FlowDict dget? toTriples)
open FH (BGraph keysB)
open Validate (GArg checkBipartite)

/-- **`mcmMirror_correct`.**  On a valid bipartite graph the mirror does not fail and returns a maximum matching. -/
theorem mcmMirror_correct (G : BGraph) (X Y : List Int) (hwf : bipWfB X Y (adjOf G) = true)
    (hkeys : ∀ x ∈ X, x ∈ keysB G) :
    ∃ M, mcmMirror G X Y = .ok M ∧ IsMatching X (adjOf G) M ∧
      ∀ M', IsMatching X (adjOf G) M' → M'.length ≤ M.length := by
  have w := (bipWfB_iff X Y (adjOf G)).mp hwf
  obtain ⟨f, S, hrun, hf, hs, ht, hval⟩ := mcmMirror_run G X Y hwf hkeys
  exact ⟨_, hrun, mcmOfFlow_isMatching w hf,
    mcmOfFlow_maximum w hf S.toFinset (List.mem_toFinset.mpr hs) (fun hm => ht (List.mem_toFinset.mp hm)) hval⟩

/-- the mirror and the abstract model return matchings of the same size -/
theorem mcmMirror_size_eq (G : BGraph) (X Y : List Int) (hwf : bipWfB X Y (adjOf G) = true)
    (hkeys : ∀ x ∈ X, x ∈ keysB G) (M : List (Int × Int)) (h : mcmMirror G X Y = .ok M)
    (fuel : Nat) (M' : List (Int × Int)) (h' : mcm X Y (adjOf G) fuel = .ok M') : M.length = M'.length := by
  obtain ⟨M₀, h₀, hm, hmax⟩ := mcmMirror_correct G X Y hwf hkeys
  rw [h₀] at h
  cases h
  have hm' := mcm_is_matching X Y (adjOf G) fuel M' hwf h'
  have hmax' := mcm_maximum X Y (adjOf G) fuel M' hwf h'
  exact Nat.le_antisymm (hmax' _ hm) (hmax _ hm')

/-- the pairs come in the order of `X`: the list of matched left vertices is a sublist of `X` -/
theorem mcmMirror_order (G : BGraph) (X Y : List Int) (hwf : bipWfB X Y (adjOf G) = true)
    (hkeys : ∀ x ∈ X, x ∈ keysB G) (M : List (Int × Int)) (h : mcmMirror G X Y = .ok M) :
    (M.map (·.1)).Sublist X := by
  obtain ⟨f, S, hrun, _⟩ := mcmMirror_run G X Y hwf hkeys
  rw [hrun] at h
  cases h
  unfold mcmOfFlow
  generalize X = L
  induction L with
  | nil => simp
  | cons x xs ih =>
    rw [List.filterMap_cons]
    cases he : mcmEmit (adjOf G) f x with
    | none => exact ih.cons x
    | some p =>
      simp only [List.map_cons]
      rw [(mcmEmit_spec he).1]
      exact ih.cons_cons x

/-! ### `check_bipartite_graph` in front -/

theorem keys_toGArg_items (G : BGraph) : GArg.keys (G.map (fun e => (some e.1, some e.2))) = keysB G := by
  unfold GArg.keys keysB
  induction G with
  | nil => rfl
  | cons e G ih => simp only [List.map_cons, List.filterMap_cons, ih]

theorem lookup_toGArg_items (G : BGraph) (x : Int) :
    GArg.lookup (G.map (fun e => (some e.1, some e.2))) x = lookup? G x := by
  unfold GArg.lookup lookup?
  induction G with
  | nil => rfl
  | cons e G ih =>
    simp only [List.map_cons, List.find?_cons]
    by_cases h : e.1 = x
    · have h1 : ((some e.1 : Option Int) == some x) = true := by simp [h]
      have h2 : (e.1 == x) = true := by simp [h]
      simp only [h1, h2]
    · have h1 : ((some e.1 : Option Int) == some x) = false := by simpa using h
      have h2 : (e.1 == x) = false := by simpa using h
      simp only [h1, h2]
      exact ih

/-- a passed check says (among other things) that the keys of the dict are exactly the vertices `X ∪ Y` -/
theorem check_keys (G : BGraph) (X Y : List Int) (h : checkBipartite (toGArg G) X Y = .ok ()) :
    ∀ v, v ∈ X ++ Y ↔ v ∈ keysB G := by
  obtain ⟨items, hit, _, hb⟩ := (Validate.checkBipartite_iff _ X Y).mp h
  simp only [toGArg, GArg.dict.injEq] at hit
  subst hit
  intro v
  rw [← keys_toGArg_items]
  exact hb.1 v

/-- **the check accepts every valid bipartite-graph dict** with a non-empty left side: keys = `X ∪ Y`, sides disjoint,
left lists inside `Y`, every listed vertex a key -/
theorem check_ok_of (G : BGraph) (X Y : List Int) (hX : X ≠ [])
    (hk : ∀ v, v ∈ X ++ Y ↔ v ∈ keysB G) (hdis : ∀ x ∈ X, x ∉ Y) (hadj : ∀ x ∈ X, ∀ y ∈ adjOf G x, y ∈ Y)
    (hlink : ∀ e ∈ G, ∀ v ∈ e.2, v ∈ keysB G) :
    checkBipartite (toGArg G) X Y = .ok () := by
  rw [Validate.checkBipartite_iff]
  refine ⟨_, rfl, ⟨?_, ?_, ?_⟩, ?_, ?_⟩
  · intro it hit
    obtain ⟨e, _, rfl⟩ := List.mem_map.mp hit
    rfl
  · intro it hit
    obtain ⟨e, _, rfl⟩ := List.mem_map.mp hit
    rfl
  · cases G with
    | nil =>
      exfalso
      cases X with
      | nil => exact hX rfl
      | cons x xs => simpa [keysB] using (hk x).mp (by simp)
    | cons e G =>
      refine ⟨some e.1, e.2, G.map (fun e => (some e.1, some e.2)), rfl, ?_⟩
      intro i hi
      rw [keys_toGArg_items (e :: G)]
      exact hlink e (by simp) i hi
  · intro v
    rw [keys_toGArg_items]
    exact hk v
  · left
    cases X with
    | nil => exact absurd rfl hX
    | cons x xs =>
      have hxk : x ∈ keysB G := (hk x).mp (by simp)
      refine ⟨x, xs, rfl, hdis x (by simp), adjOf G x, ?_, hadj x (by simp)⟩
      rw [lookup_toGArg_items, lookup?_eq_adjOf G x hxk]

/-- after a passed check the full routine is the mirror of its body -/
theorem mcmFull_of_check (G : BGraph) (X Y : List Int) (h : checkBipartite (toGArg G) X Y = .ok ()) :
    mcmFull G X Y = mcmMirror G X Y := by
  unfold mcmFull
  rw [h]

/-- a failed check is an exception of the routine -/
theorem mcmFull_of_check_error (G : BGraph) (X Y : List Int) (e : Validate.VErr)
    (h : checkBipartite (toGArg G) X Y = .error e) : mcmFull G X Y = .error "ValueError" := by
  unfold mcmFull
  rw [h]
  cases e <;> first | rfl | exact absurd h (Validate.checkBipartite_ne_keyerror _ X Y)

/-- `maximum_cardinality_matching_bipartite` end to end: when its own argument check passes on a valid bipartite
graph, it returns a maximum matching -/
theorem mcmFull_correct (G : BGraph) (X Y : List Int) (hwf : bipWfB X Y (adjOf G) = true)
    (hc : checkBipartite (toGArg G) X Y = .ok ()) :
    ∃ M, mcmFull G X Y = .ok M ∧ IsMatching X (adjOf G) M ∧
      ∀ M', IsMatching X (adjOf G) M' → M'.length ≤ M.length := by
  rw [mcmFull_of_check G X Y hc]
  exact mcmMirror_correct G X Y hwf (fun x hx => (check_keys G X Y hc x).mp (List.mem_append_left _ hx))

end Mirror

#print axioms Mirror.mcmMirror_correct
#print axioms Mirror.mcmFull_correct
