import Sck.Proofs.BvnFull1
import Sck.Model.FlowHelpers

/-! C09 helpers, part 2: `positivity_graph` (`FH.positivityGraph`).  On an `n × n` matrix the loops raise
nothing and the returned dict is the undirected positivity graph: row vertex `i`, column vertex `j + n`,
`i — (j + n)` iff `X[i][j] > 0` (exact comparison), adjacency lists by increasing index; a vertex is a key iff
it has an edge.  The left adjacency lists are the `positivityAdj` of `Sck/Model/BvnFull.lean`. -/

namespace FH

/-! ### generic list lemmas -/

theorem flatMap_ite_singleton {α β : Type} (p : α → Bool) (g : α → β) (l : List α) :
    l.flatMap (fun a => if p a then [g a] else []) = (l.filter p).map g := by
  induction l with
  | nil => rfl
  | cons a l ih =>
    rw [List.flatMap_cons, ih]
    by_cases h : p a = true
    · simp [h]
    · simp [h]

theorem flatMap_ite_eq_of_not_mem {β : Type} (a0 : Nat) (R : Nat → List β) (l : List Nat) (h : a0 ∉ l) :
    l.flatMap (fun a => if a = a0 then R a else []) = [] := by
  rw [List.flatMap_eq_nil_iff]
  intro a ha
  rw [if_neg]
  intro h'; subst h'; exact h ha

theorem flatMap_ite_eq {β : Type} (a0 : Nat) (R : Nat → List β) : ∀ (l : List Nat), l.Nodup → a0 ∈ l →
    l.flatMap (fun a => if a = a0 then R a else []) = R a0 := by
  intro l
  induction l with
  | nil => intro _ h; simp at h
  | cons a l ih =>
    intro hnd hm
    rw [List.nodup_cons] at hnd
    rw [List.flatMap_cons]
    by_cases h : a = a0
    · subst h
      rw [if_pos rfl, flatMap_ite_eq_of_not_mem a R l hnd.1, List.append_nil]
    · rw [if_neg h, List.nil_append]
      apply ih hnd.2
      rcases List.mem_cons.mp hm with h' | h'
      · exact absurd h'.symm h
      · exact h'

/-! ### the dict operations -/

def keysB (d : BGraph) : List Int := d.map (·.1)

/-- the entries appended under the key `k` by a list of events `(key, value)` -/
def sel (k : Int) (E : List (Int × Int)) : List Int := (E.filter (fun e => e.1 == k)).map (·.2)

theorem sel_append (k : Int) (E1 E2 : List (Int × Int)) : sel k (E1 ++ E2) = sel k E1 ++ sel k E2 := by
  simp [sel]

theorem sel_flatMap {α : Type} (k : Int) (f : α → List (Int × Int)) (l : List α) :
    sel k (l.flatMap f) = l.flatMap (fun a => sel k (f a)) := by
  induction l with
  | nil => rfl
  | cons a l ih => rw [List.flatMap_cons, sel_append, ih, List.flatMap_cons]

/-- `d[e.1] = d.get(e.1, []) + [e.2]` for every event in turn -/
def applyEvents (d : BGraph) (E : List (Int × Int)) : BGraph := E.foldl (fun d e => bappend d e.1 e.2) d

theorem applyEvents_append (d : BGraph) (E1 E2 : List (Int × Int)) :
    applyEvents d (E1 ++ E2) = applyEvents (applyEvents d E1) E2 := by
  simp [applyEvents, List.foldl_append]

theorem adjOf_cons (e : Int × List Int) (d : BGraph) (k : Int) :
    adjOf (e :: d) k = if e.1 = k then e.2 else adjOf d k := by
  unfold adjOf
  rw [List.find?_cons]
  by_cases h : e.1 = k
  · simp [h]
  · have : (e.1 == k) = false := by simpa using h
    rw [this, if_neg h]

theorem mem_keysB_iff_any (d : BGraph) (k : Int) : d.any (fun e => e.1 == k) = true ↔ k ∈ keysB d := by
  simp only [List.any_eq_true, beq_iff_eq, keysB, List.mem_map]

theorem adjOf_of_not_mem (d : BGraph) (k : Int) (h : k ∉ keysB d) : adjOf d k = [] := by
  induction d with
  | nil => rfl
  | cons e d ih =>
    simp only [keysB, List.map_cons, List.mem_cons, not_or] at h
    rw [adjOf_cons, if_neg (fun h' => h.1 h'.symm)]
    exact ih h.2

theorem adjOf_map_append (d : BGraph) (k x k' : Int) :
    adjOf (d.map (fun e => if e.1 == k then (e.1, e.2 ++ [x]) else e)) k' =
      if k' = k ∧ k ∈ keysB d then adjOf d k' ++ [x] else adjOf d k' := by
  induction d with
  | nil => simp [adjOf, keysB]
  | cons e d ih =>
    rw [List.map_cons]
    by_cases hek : e.1 = k
    · have h1 : (e.1 == k) = true := by simpa using hek
      simp only [h1, if_true]
      rw [adjOf_cons, adjOf_cons]
      simp only
      by_cases hk' : e.1 = k'
      · rw [if_pos hk', if_pos hk', if_pos]
        exact ⟨hk'.symm.trans hek, by simp [keysB, hek]⟩
      · rw [if_neg hk', if_neg hk', ih]
        have hne : ¬ k' = k := fun h => hk' (hek.trans h.symm)
        rw [if_neg (fun h => hne h.1), if_neg (fun h => hne h.1)]
    · have h1 : (e.1 == k) = false := by simpa using hek
      simp only [h1, Bool.false_eq_true, if_false]
      rw [adjOf_cons, adjOf_cons]
      by_cases hk' : e.1 = k'
      · rw [if_pos hk', if_pos hk']
        have hne : ¬ k' = k := fun h => hek (hk'.trans h)
        rw [if_neg (fun h => hne h.1)]
      · rw [if_neg hk', if_neg hk', ih]
        have : k ∈ keysB (e :: d) ↔ k ∈ keysB d := by
          simp only [keysB, List.map_cons, List.mem_cons]
          constructor
          · rintro (h | h)
            · exact absurd h.symm hek
            · exact h
          · exact Or.inr
        simp only [this]

theorem adjOf_append_single (d : BGraph) (k : Int) (l : List Int) (k' : Int) (h : k ∉ keysB d) :
    adjOf (d ++ [(k, l)]) k' = if k' = k then l else adjOf d k' := by
  induction d with
  | nil =>
    rw [List.nil_append, adjOf_cons]
    by_cases hk : k = k'
    · rw [if_pos hk, if_pos hk.symm]
    · rw [if_neg hk, if_neg (fun h' => hk h'.symm)]
  | cons e d ih =>
    simp only [keysB, List.map_cons, List.mem_cons, not_or] at h
    rw [List.cons_append, adjOf_cons, adjOf_cons]
    by_cases hk' : e.1 = k'
    · rw [if_pos hk', if_pos hk', if_neg]
      intro h'; exact h.1 (h'.symm.trans hk'.symm)
    · rw [if_neg hk', if_neg hk']
      exact ih h.2

/-- `G_X[k] = G_X.get(k, []) + [x]`, read through `adjOf` -/
theorem adjOf_bappend (d : BGraph) (k x k' : Int) :
    adjOf (bappend d k x) k' = if k' = k then adjOf d k' ++ [x] else adjOf d k' := by
  unfold bappend
  by_cases hk : k ∈ keysB d
  · rw [if_pos ((mem_keysB_iff_any d k).mpr hk), adjOf_map_append]
    by_cases h : k' = k
    · rw [if_pos ⟨h, hk⟩, if_pos h]
    · rw [if_neg (fun h' => h h'.1), if_neg h]
  · rw [if_neg (fun h => hk ((mem_keysB_iff_any d k).mp h)), adjOf_append_single d k [x] k' hk]
    by_cases h : k' = k
    · rw [if_pos h, if_pos h, h, adjOf_of_not_mem d k hk, List.nil_append]
    · rw [if_neg h, if_neg h]

theorem adjOf_applyEvents : ∀ (E : List (Int × Int)) (d : BGraph) (k : Int),
    adjOf (applyEvents d E) k = adjOf d k ++ sel k E := by
  intro E
  induction E with
  | nil => intro d k; simp [applyEvents, sel]
  | cons e E ih =>
    intro d k
    have : applyEvents d (e :: E) = applyEvents (bappend d e.1 e.2) E := rfl
    rw [this, ih, adjOf_bappend]
    by_cases h : k = e.1
    · have h1 : (e.1 == k) = true := by simp [h]
      rw [if_pos h]
      simp [sel, h1]
    · have h1 : (e.1 == k) = false := by simpa using fun h' => h h'.symm
      rw [if_neg h]
      simp [sel, h1]

/-- dict invariant: distinct keys, every key has a non-empty list -/
structure GoodB (d : BGraph) : Prop where
  nodup : (keysB d).Nodup
  nonempty : ∀ e ∈ d, e.2 ≠ []

theorem keysB_bappend (d : BGraph) (k x : Int) :
    keysB (bappend d k x) = if k ∈ keysB d then keysB d else keysB d ++ [k] := by
  unfold bappend
  by_cases hk : k ∈ keysB d
  · rw [if_pos ((mem_keysB_iff_any d k).mpr hk), if_pos hk]
    simp only [keysB, List.map_map]
    apply List.map_congr_left
    intro e _
    simp only [Function.comp_apply]
    split <;> rfl
  · rw [if_neg (fun h => hk ((mem_keysB_iff_any d k).mp h)), if_neg hk]
    simp [keysB]

theorem GoodB.bappend {d : BGraph} (h : GoodB d) (k x : Int) : GoodB (bappend d k x) := by
  refine ⟨?_, ?_⟩
  · rw [keysB_bappend]
    by_cases hk : k ∈ keysB d
    · rw [if_pos hk]; exact h.nodup
    · rw [if_neg hk]
      exact List.nodup_append.mpr ⟨h.nodup, by simp, by
        intro a ha b hb hab
        simp only [List.mem_singleton] at hb
        subst hb; subst hab; exact hk ha⟩
  · intro e he
    unfold FH.bappend at he
    split at he
    · obtain ⟨e', he', rfl⟩ := List.mem_map.mp he
      split
      · simp
      · exact h.nonempty e' he'
    · rcases List.mem_append.mp he with he | he
      · exact h.nonempty e he
      · simp only [List.mem_singleton] at he
        subst he; simp

theorem GoodB.applyEvents : ∀ (E : List (Int × Int)) {d : BGraph}, GoodB d → GoodB (applyEvents d E) := by
  intro E
  induction E with
  | nil => intro d h; exact h
  | cons e E ih => intro d h; exact ih (h.bappend e.1 e.2)

/-- in such a dict a vertex is a key iff its list is non-empty -/
theorem GoodB.mem_keys_iff {d : BGraph} (h : GoodB d) (k : Int) : k ∈ keysB d ↔ adjOf d k ≠ [] := by
  constructor
  · intro hk
    unfold adjOf
    cases hf : d.find? (fun e => e.1 == k) with
    | none =>
      obtain ⟨e, he, hek⟩ := List.mem_map.mp hk
      have := List.find?_eq_none.mp hf e he
      simp [hek] at this
    | some e => exact h.nonempty e (List.mem_of_find?_eq_some hf)
  · intro hne
    by_contra hk
    exact hne (adjOf_of_not_mem d k hk)

/-! ### the loops are a fold of dict appends over the positive entries in row-major order -/

/-- what the entry `(i, j)` does to the dict -/
def ev (n : Nat) (X : List (List Rat)) (i j : Nat) : List (Int × Int) :=
  if 0 < matGet X i j then [(Int.ofNat i, Int.ofNat (j + n)), (Int.ofNat (j + n), Int.ofNat i)] else []

/-- all dict appends of `positivity_graph`, in order -/
def posEvents (n : Nat) (X : List (List Rat)) : List (Int × Int) :=
  (List.range n).flatMap (fun i => (List.range n).flatMap (fun j => ev n X i j))

theorem entry?_eq (n : Nat) (X : List (List Rat)) (hsq : isSquareB n X = true) (i j : Nat) (hi : i < n)
    (hj : j < n) : entry? X i j = some (matGet X i j) := by
  simp only [isSquareB, Bool.and_eq_true, beq_iff_eq, List.all_eq_true] at hsq
  obtain ⟨hlen, hrows⟩ := hsq
  have hi' : i < X.length := by omega
  have hrow : (X[i]).length = n := hrows _ (List.getElem_mem hi')
  unfold entry? matGet
  rw [List.getElem?_eq_getElem hi']
  simp only
  have hj' : j < (X[i]).length := by omega
  rw [List.getElem?_eq_getElem hj']
  simp [List.getD, List.getElem?_eq_getElem hi', List.getElem?_eq_getElem hj']

theorem posStep_eq (n : Nat) (X : List (List Rat)) (d : BGraph) (i j : Nat) :
    posStep n d i j (matGet X i j) = applyEvents d (ev n X i j) := by
  unfold posStep ev
  split <;> rfl

theorem posRow_eq (n : Nat) (X : List (List Rat)) (hsq : isSquareB n X = true) (i : Nat) (hi : i < n) :
    ∀ (js : List Nat) (d : BGraph), (∀ j ∈ js, j < n) →
      posRow X n i js d = .ok (applyEvents d (js.flatMap (fun j => ev n X i j))) := by
  intro js
  induction js with
  | nil => intro d _; rfl
  | cons j js ih =>
    intro d hjs
    simp only [posRow]
    rw [entry?_eq n X hsq i j hi (hjs j List.mem_cons_self)]
    simp only
    rw [ih _ (fun j' hj' => hjs j' (List.mem_cons_of_mem _ hj')), posStep_eq, List.flatMap_cons,
      applyEvents_append]

theorem posRows_eq (n : Nat) (X : List (List Rat)) (hsq : isSquareB n X = true) :
    ∀ (is : List Nat) (d : BGraph), (∀ i ∈ is, i < n) →
      posRows X n is d =
        .ok (applyEvents d (is.flatMap (fun i => (List.range n).flatMap (fun j => ev n X i j)))) := by
  intro is
  induction is with
  | nil => intro d _; rfl
  | cons i is ih =>
    intro d his
    simp only [posRows]
    rw [posRow_eq n X hsq i (his i List.mem_cons_self) (List.range n) d (fun j hj => List.mem_range.mp hj)]
    simp only
    rw [ih _ (fun i' hi' => his i' (List.mem_cons_of_mem _ hi')), List.flatMap_cons, applyEvents_append]

/-- the graph `positivity_graph` returns for an `n × n` matrix -/
def posGraph (n : Nat) (X : List (List Rat)) : BGraph := applyEvents [] (posEvents n X)

theorem positivityGraph_eq (n : Nat) (X : List (List Rat)) (hsq : isSquareB n X = true) :
    positivityGraph X = .ok (posGraph n X) := by
  have hlen : X.length = n := by
    simp only [isSquareB, Bool.and_eq_true, beq_iff_eq] at hsq
    exact hsq.1
  unfold positivityGraph
  rw [hlen]
  exact posRows_eq n X hsq (List.range n) [] (fun i hi => List.mem_range.mp hi)

/-! ### the adjacency lists -/

theorem sel_ev_row (n : Nat) (X : List (List Rat)) (i j i0 : Nat) (hi0 : i0 < n) :
    sel (Int.ofNat i0) (ev n X i j) =
      if i = i0 then (if decide (0 < matGet X i0 j) then [Int.ofNat (j + n)] else []) else [] := by
  unfold ev
  simp only [Int.ofNat_eq_natCast, Nat.cast_add]
  have hne : ¬ (j : Int) + (n : Int) = (i0 : Int) := by omega
  by_cases hpos : 0 < matGet X i j
  · rw [if_pos hpos]
    by_cases hi : i = i0
    · subst hi
      simp [sel, hne, hpos]
    · have : ¬ (i : Int) = (i0 : Int) := by omega
      simp [sel, hne, hi, this]
  · rw [if_neg hpos]
    by_cases hi : i = i0
    · subst hi; simp [sel, hpos]
    · simp [sel, hi]

theorem sel_ev_col (n : Nat) (X : List (List Rat)) (i j j0 : Nat) (hi : i < n) :
    sel (Int.ofNat (j0 + n)) (ev n X i j) =
      if j = j0 then (if decide (0 < matGet X i j0) then [Int.ofNat i] else []) else [] := by
  unfold ev
  simp only [Int.ofNat_eq_natCast, Nat.cast_add]
  have hne : ¬ (i : Int) = (j0 : Int) + (n : Int) := by omega
  by_cases hpos : 0 < matGet X i j
  · rw [if_pos hpos]
    by_cases hj : j = j0
    · subst hj
      simp [sel, hne, hpos]
    · have : ¬ (j : Int) = (j0 : Int) := by omega
      simp [sel, hne, hj, this]
  · rw [if_neg hpos]
    by_cases hj : j = j0
    · subst hj; simp [sel, hpos]
    · simp [sel, hj]

/-- the list stored under the row vertex `i0` -/
theorem adjOf_posGraph_row (n : Nat) (X : List (List Rat)) (i0 : Nat) (hi0 : i0 < n) :
    adjOf (posGraph n X) (Int.ofNat i0) =
      ((List.range n).filter (fun j => decide (0 < matGet X i0 j))).map (fun j => Int.ofNat (j + n)) := by
  unfold posGraph
  rw [adjOf_applyEvents]
  have h0 : adjOf [] (Int.ofNat i0) = [] := rfl
  rw [h0, List.nil_append]
  unfold posEvents
  rw [sel_flatMap]
  have hinner : ∀ i, sel (Int.ofNat i0) ((List.range n).flatMap (fun j => ev n X i j)) =
      if i = i0 then
        ((List.range n).filter (fun j => decide (0 < matGet X i0 j))).map (fun j => Int.ofNat (j + n))
      else [] := by
    intro i
    rw [sel_flatMap]
    simp only [sel_ev_row n X i _ i0 hi0]
    by_cases hi : i = i0
    · simp only [hi, if_true]
      exact flatMap_ite_singleton _ _ _
    · simp [hi]
  simp only [hinner]
  exact flatMap_ite_eq i0 _ (List.range n) List.nodup_range (List.mem_range.mpr hi0)

/-- the list stored under the column vertex `j0 + n` -/
theorem adjOf_posGraph_col (n : Nat) (X : List (List Rat)) (j0 : Nat) (hj0 : j0 < n) :
    adjOf (posGraph n X) (Int.ofNat (j0 + n)) =
      ((List.range n).filter (fun i => decide (0 < matGet X i j0))).map (fun i => Int.ofNat i) := by
  unfold posGraph
  rw [adjOf_applyEvents]
  have h0 : adjOf [] (Int.ofNat (j0 + n)) = [] := rfl
  rw [h0, List.nil_append]
  unfold posEvents
  rw [sel_flatMap]
  have hinner : ∀ i ∈ List.range n, sel (Int.ofNat (j0 + n)) ((List.range n).flatMap (fun j => ev n X i j)) =
      if decide (0 < matGet X i j0) then [Int.ofNat i] else [] := by
    intro i hi
    rw [sel_flatMap]
    simp only [sel_ev_col n X i _ j0 (List.mem_range.mp hi)]
    exact flatMap_ite_eq j0 (fun _ => if decide (0 < matGet X i j0) then [Int.ofNat i] else [])
      (List.range n) List.nodup_range (List.mem_range.mpr hj0)
  rw [List.flatMap_congr hinner]
  exact flatMap_ite_singleton _ _ _

theorem goodB_posGraph (n : Nat) (X : List (List Rat)) : GoodB (posGraph n X) :=
  GoodB.applyEvents _ ⟨by simp [keysB], by simp⟩

theorem sel_posEvents_out (n : Nat) (X : List (List Rat)) (k : Int) (hk : k < 0 ∨ (2 * n : Int) ≤ k) :
    sel k (posEvents n X) = [] := by
  unfold sel
  rw [List.map_eq_nil_iff, List.filter_eq_nil_iff]
  intro e he
  unfold posEvents at he
  obtain ⟨i, hi, he⟩ := List.mem_flatMap.mp he
  obtain ⟨j, hj, he⟩ := List.mem_flatMap.mp he
  have hi' := List.mem_range.mp hi
  have hj' := List.mem_range.mp hj
  unfold ev at he
  split at he
  · simp only [List.mem_cons, List.not_mem_nil, or_false, Int.ofNat_eq_natCast] at he
    rcases he with rfl | rfl
    · simp only [beq_iff_eq]; omega
    · simp only [beq_iff_eq]; push_cast; omega
  · simp at he

/-- every key is a row vertex `0 … n-1` or a column vertex `n … 2n-1` -/
theorem keys_posGraph_range (n : Nat) (X : List (List Rat)) (k : Int) (hk : k ∈ keysB (posGraph n X)) :
    0 ≤ k ∧ k < 2 * (n : Int) := by
  by_contra hcon
  have hout : k < 0 ∨ (2 * n : Int) ≤ k := by omega
  have := ((goodB_posGraph n X).mem_keys_iff k).mp hk
  apply this
  unfold posGraph
  rw [adjOf_applyEvents, sel_posEvents_out n X k hout]
  rfl

/-- `check_bipartite_graph(G_X, range(n), range(n, 2n))` finds the keys consistent iff `posKeysOkB` -/
theorem posKeysOkB_iff (n : Nat) (X : List (List Rat)) :
    posKeysOkB n X = true ↔ ∀ k : Int, 0 ≤ k → k < 2 * (n : Int) → k ∈ keysB (posGraph n X) := by
  have hg := goodB_posGraph n X
  simp only [posKeysOkB, Bool.and_eq_true, allLt_iff, List.any_eq_true, List.mem_range, decide_eq_true_eq]
  constructor
  · rintro ⟨hrow, hcol⟩ k hk0 hk2
    rw [hg.mem_keys_iff]
    by_cases hkn : k < (n : Int)
    · obtain ⟨i, rfl⟩ : ∃ i : Nat, k = (i : Int) := ⟨k.toNat, by omega⟩
      have hi : i < n := by omega
      obtain ⟨j, hj, hpos⟩ := hrow i hi
      have := adjOf_posGraph_row n X i hi
      simp only [Int.ofNat_eq_natCast] at this
      rw [this]
      intro hnil
      rw [List.map_eq_nil_iff, List.filter_eq_nil_iff] at hnil
      exact hnil j (List.mem_range.mpr hj) (by simpa using hpos)
    · obtain ⟨j, rfl⟩ : ∃ j : Nat, k = ((j + n : Nat) : Int) := ⟨(k - n).toNat, by omega⟩
      have hj : j < n := by omega
      obtain ⟨i, hi, hpos⟩ := hcol j hj
      have := adjOf_posGraph_col n X j hj
      simp only [Int.ofNat_eq_natCast] at this
      rw [this]
      intro hnil
      rw [List.map_eq_nil_iff, List.filter_eq_nil_iff] at hnil
      exact hnil i (List.mem_range.mpr hi) (by simpa using hpos)
  · intro hall
    constructor
    · intro i hi
      have hk := (hg.mem_keys_iff (i : Int)).mp (hall (i : Int) (by omega) (by omega))
      have := adjOf_posGraph_row n X i hi
      simp only [Int.ofNat_eq_natCast] at this
      rw [this] at hk
      obtain ⟨y, hy⟩ := List.exists_mem_of_ne_nil _ hk
      obtain ⟨j, hj, _⟩ := List.mem_map.mp hy
      obtain ⟨hj1, hj2⟩ := List.mem_filter.mp hj
      exact ⟨j, List.mem_range.mp hj1, by simpa using hj2⟩
    · intro j hj
      have hk := (hg.mem_keys_iff ((j + n : Nat) : Int)).mp
        (hall ((j + n : Nat) : Int) (by omega) (by push_cast; omega))
      have := adjOf_posGraph_col n X j hj
      simp only [Int.ofNat_eq_natCast] at this
      rw [this] at hk
      obtain ⟨y, hy⟩ := List.exists_mem_of_ne_nil _ hk
      obtain ⟨i, hi, _⟩ := List.mem_map.mp hy
      obtain ⟨hi1, hi2⟩ := List.mem_filter.mp hi
      exact ⟨i, List.mem_range.mp hi1, by simpa using hi2⟩

/-- **specification of `positivity_graph` on an `n × n` matrix** -/
theorem positivity_spec (n : Nat) (X : List (List Rat)) (hsq : isSquareB n X = true) :
    ∃ g, positivityGraph X = .ok g ∧
      (keysB g).Nodup ∧
      (∀ k, k ∈ keysB g ↔ adjOf g k ≠ []) ∧
      (∀ k ∈ keysB g, 0 ≤ k ∧ k < 2 * (n : Int)) ∧
      (∀ i, i < n → adjOf g (i : Int) =
        ((List.range n).filter (fun j => decide (0 < matGet X i j))).map (fun j => ((j + n : Nat) : Int))) ∧
      (∀ j, j < n → adjOf g ((j + n : Nat) : Int) =
        ((List.range n).filter (fun i => decide (0 < matGet X i j))).map (fun i : Nat => (i : Int))) ∧
      (∀ i j, i < n → j < n → (((j + n : Nat) : Int) ∈ adjOf g (i : Int) ↔ 0 < matGet X i j) ∧
        ((i : Int) ∈ adjOf g ((j + n : Nat) : Int) ↔ 0 < matGet X i j)) := by
  refine ⟨posGraph n X, positivityGraph_eq n X hsq, (goodB_posGraph n X).nodup,
    (goodB_posGraph n X).mem_keys_iff, keys_posGraph_range n X, ?_, ?_, ?_⟩
  · intro i hi; exact adjOf_posGraph_row n X i hi
  · intro j hj; exact adjOf_posGraph_col n X j hj
  · intro i j hi hj
    have h1 := adjOf_posGraph_row n X i hi
    have h2 := adjOf_posGraph_col n X j hj
    simp only [Int.ofNat_eq_natCast] at h1 h2
    rw [h1, h2]
    simp only [List.mem_map, List.mem_filter, List.mem_range, decide_eq_true_eq]
    constructor
    · constructor
      · rintro ⟨j', ⟨_, hp⟩, heq⟩
        have : j' = j := by omega
        subst this; exact hp
      · intro hp; exact ⟨j, ⟨hj, hp⟩, rfl⟩
    · constructor
      · rintro ⟨i', ⟨_, hp⟩, heq⟩
        have : i' = i := by omega
        subst this; exact hp
      · intro hp; exact ⟨i, ⟨hi, hp⟩, rfl⟩

/-- the left adjacency lists are those of the model of `birkhoff_von_neumann` (`positivityAdj`), for EVERY
vertex name `v` handed to `mcm` as a left vertex -/
theorem adjOf_posGraph_eq_positivityAdj (n : Nat) (X : List (List Rat)) (v : Int) (hv : v ∈ rowVerts n) :
    adjOf (posGraph n X) v = positivityAdj n X v := by
  obtain ⟨i, hi, rfl⟩ := (mem_rowVerts n v).mp hv
  rw [positivityAdj_row n X i hi]
  exact adjOf_posGraph_row n X i hi

end FH
