import Sck.Proofs.GsBridge

/-! C01: termination within the model's fuel, feasibility and stability of the result, for both
orientations and for the public `galeShapley`. -/

theorem sum_map_le_mul (l : List Nat) (f : Nat → Nat) (c : Nat) (h : ∀ x ∈ l, f x ≤ c) :
    (l.map f).sum ≤ l.length * c := by
  induction l with
  | nil => simp
  | cons a l ih =>
    simp only [List.map_cons, List.sum_cons, List.length_cons]
    have h1 := h a (by simp)
    have h2 := ih (fun x hx => h x (by simp [hx]))
    rw [Nat.add_mul, Nat.one_mul]; omega

theorem potential_init_le (I : DA) (np c : Nat) (h : ∀ p, (I.plist p).length ≤ c) :
    potential I np St.init ≤ np * c := by
  unfold potential
  have := sum_map_le_mul (List.range np) (fun p => (I.plist p).length - St.init.ptr p) c
    (fun p _ => Nat.le_trans (Nat.sub_le _ _) (h p))
  simpa using this

/-- the resident-oriented loop finishes within the model's fuel `n * m + 1` -/
theorem gsRes_terminates (I : HR) (hwf : I.WF2) : ∃ mu, gsRes I = some mu := by
  have hpot : potential (daRes I) I.n St.init ≤ I.n * I.m :=
    potential_init_le (daRes I) I.n I.m (fun r => plistM_length_le I.R I.n I.m hwf.rowR r)
  obtain ⟨st, hst⟩ := gsLoop_terminates (daRes I) (daRes_wf2 I hwf) I.n (I.n * I.m + 1) St.init
    (init_inv _) (by omega)
  exact ⟨st.mu, by simp [gsRes, hst]⟩

/-- the hospital-oriented loop finishes within the model's fuel `n * m + 1` -/
theorem gsHosp_terminates (I : HR) (hwf : I.WF2) : ∃ mu, gsHosp I = some mu := by
  have hpot : potential (daHosp I) I.m St.init ≤ I.m * I.n :=
    potential_init_le (daHosp I) I.m I.n (fun h => plistM_length_le I.H I.m I.n hwf.rowH h)
  have hcomm : I.m * I.n = I.n * I.m := Nat.mul_comm _ _
  obtain ⟨st, hst⟩ := gsLoop_terminates (daHosp I) (daHosp_wf2 I hwf) I.m (I.n * I.m + 1) St.init
    (init_inv _) (by omega)
  exact ⟨swapL st.mu, by simp [gsHosp, hst, swapL]⟩

/-- resident-oriented result: feasible and without blocking pair -/
theorem gsRes_stable (I : HR) (hwf : I.WF2) (mu : List (Nat × Nat)) (h : gsRes I = some mu) :
    StableHR I mu := by
  simp only [gsRes, Option.map_eq_some_iff] at h
  obtain ⟨st, hst, rfl⟩ := h
  exact (stableDA_res_iff I hwf st.mu).mp
    (gs_output_stable (daRes I) (daRes_wf2 I hwf) I.n (daRes_out I) _ st hst)

theorem gsHosp_eq_some (I : HR) (mu : List (Nat × Nat)) (h : gsHosp I = some mu) :
    ∃ st, gsLoop (daHosp I) I.m (I.n * I.m + 1) St.init = some st ∧ st.mu = swapL mu := by
  simp only [gsHosp, Option.map_eq_some_iff] at h
  obtain ⟨st, hst, rfl⟩ := h
  exact ⟨st, hst, (swapL_swapL st.mu).symm⟩

/-- hospital-oriented result: feasible and without blocking pair -/
theorem gsHosp_stable (I : HR) (hwf : I.WF2) (mu : List (Nat × Nat)) (h : gsHosp I = some mu) :
    StableHR I mu := by
  obtain ⟨st, hst, hmu⟩ := gsHosp_eq_some I mu h
  have := gs_output_stable (daHosp I) (daHosp_wf2 I hwf) I.m (daHosp_out I) _ st hst
  rw [hmu] at this
  exact (stableDA_hosp_iff I hwf mu).mp this

theorem gsRes_feasible (I : HR) (hwf : I.WF2) (mu : List (Nat × Nat)) (h : gsRes I = some mu) :
    FeasibleHR I mu := (gsRes_stable I hwf mu h).1

theorem gsHosp_feasible (I : HR) (hwf : I.WF2) (mu : List (Nat × Nat)) (h : gsHosp I = some mu) :
    FeasibleHR I mu := (gsHosp_stable I hwf mu h).1

theorem gsHosp_no_blocking (I : HR) (hwf : I.WF2) (mu : List (Nat × Nat)) (h : gsHosp I = some mu) :
    ∀ r hh, ¬ BlockingHR I mu r hh := (gsHosp_stable I hwf mu h).2

/-- the label shift applied by the public rule -/
def shiftL (fixer : Nat) (mu : List (Nat × Nat)) : List (Nat × Nat) :=
  mu.map (fun e => (e.1 + fixer, e.2 + fixer))

theorem galeShapley_eq (ro : Bool) (fixer : Nat) (I : HR) :
    galeShapley ro fixer I = (if ro then gsRes I else gsHosp I).map (shiftL fixer) := rfl

/-- **C01 for the public rule**, either orientation and either index convention: it returns, and
what it returns is the label shift of a stable matching of the instance. -/
theorem galeShapley_spec (ro : Bool) (fixer : Nat) (I : HR) (hwf : I.WF2) :
    ∃ mu, galeShapley ro fixer I = some (shiftL fixer mu) ∧ StableHR I mu := by
  rw [galeShapley_eq]
  cases ro
  · obtain ⟨mu, hmu⟩ := gsHosp_terminates I hwf
    exact ⟨mu, by simp [hmu], gsHosp_stable I hwf mu hmu⟩
  · obtain ⟨mu, hmu⟩ := gsRes_terminates I hwf
    exact ⟨mu, by simp [hmu], gsRes_stable I hwf mu hmu⟩

/-- the shift is injective, so the un-shifted matching is determined by the output -/
theorem shiftL_injective (fixer : Nat) : Function.Injective (shiftL fixer) := by
  intro a b h
  unfold shiftL at h
  refine List.map_injective_iff.mpr ?_ h
  intro ⟨x1, x2⟩ ⟨y1, y2⟩ he
  simp only [Prod.mk.injEq] at he
  obtain ⟨h1, h2⟩ := he
  have : x1 = y1 := by omega
  have : x2 = y2 := by omega
  simp [*]

theorem mem_shiftL {fixer : Nat} {mu : List (Nat × Nat)} {r h : Nat} :
    (r + fixer, h + fixer) ∈ shiftL fixer mu ↔ (r, h) ∈ mu := by
  simp only [shiftL, List.mem_map, Prod.mk.injEq]
  constructor
  · rintro ⟨⟨a, b⟩, hm, h1, h2⟩
    simp only at h1 h2
    have : a = r := by omega
    have : b = h := by omega
    subst_vars; exact hm
  · intro hm; exact ⟨(r, h), hm, rfl, rfl⟩

#print axioms galeShapley_spec
