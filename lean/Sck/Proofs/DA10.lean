import Sck.Proofs.DA9

/-! C02 prototype: quotas and the optimality invariant survive the concrete loop. -/

structure Good (I : DA) (st : St) : Prop where
  inv : DAInv I st
  cap : CapP I st
  opt : Opt I st

theorem init_good (I : DA) : Good I St.init :=
  ⟨init_inv I, by intro q; simp [St.init, matchesOf], init_opt I⟩

theorem matches_len_other (I : DA) (hwf : WF I) (st : St) (hinv : DAInv I st) (p q : Nat) (h : q ≠ p) :
    (matchesOf (step I st p).mu q).length ≤ (matchesOf st.mu q).length := by
  apply List.Nodup.length_le_of_subset
  · exact matchesOf_nodup (step_inv I hwf st p hinv).nodup q
  · intro r hr; exact step_matches_other I st p q h r hr

theorem fold_good (I : DA) (hwf : WF I) (g : Nat → Bool) (ps : List Nat) (hnd : ps.Nodup) (s : St)
    (hs : Good I s) (hact : ∀ p ∈ ps, g p = true → (matchesOf s.mu p).length < I.qp p) :
    Good I (ps.foldl (fun s p => if g p then step I s p else s) s) := by
  induction ps generalizing s with
  | nil => exact hs
  | cons p ps ih =>
    simp only [List.foldl_cons]
    have hp : p ∉ ps := (List.nodup_cons.mp hnd).1
    have hnd' : ps.Nodup := (List.nodup_cons.mp hnd).2
    by_cases hg : g p = true
    · simp only [hg, if_true]
      have ha := hact p (by simp) hg
      apply ih hnd'
      · exact ⟨step_inv I hwf s p hs.inv, step_capP I s p hs.cap ha,
          step_opt I hwf s p hs.inv hs.cap ha hs.opt⟩
      · intro q hq hgq
        have hqp : q ≠ p := fun h => hp (h ▸ hq)
        have := matches_len_other I hwf s hs.inv p q hqp
        have := hact q (by simp [hq]) hgq
        omega
    · simp only [hg]
      apply ih hnd' _ hs
      intro q hq hgq; exact hact q (by simp [hq]) hgq

theorem round_good (I : DA) (hwf : WF I) (np : Nat) (st : St) (h : Good I st) : Good I (gsRound I np st) := by
  unfold gsRound
  apply fold_good I hwf (active I st) (List.range np) List.nodup_range st h
  intro p _ hact
  simp only [active, Bool.and_eq_true, decide_eq_true_eq] at hact
  exact hact.1

theorem gsLoop_good (I : DA) (hwf : WF I) (np : Nat) :
    ∀ fuel st st', Good I st → gsLoop I np fuel st = some st' → Good I st' := by
  intro fuel
  induction fuel with
  | zero => intro st st' _ h; simp [gsLoop] at h
  | succ fuel ih =>
    intro st st' hg h
    simp only [gsLoop] at h
    split at h
    · exact ih _ _ (round_good I hwf np st hg) h
    · simp at h; subst h; exact hg

/-- Headline for the proposing side: every pair of every stable matching is held, or the proposer
is full with strictly better receivers. -/
theorem gs_proposer_optimal (I : DA) (hwf : WF I) (np : Nat) (hout : ∀ p, np ≤ p → I.plist p = [])
    (fuel : Nat) (st' : St) (h : gsLoop I np fuel St.init = some st')
    (nu : List (Nat × Nat)) (hst : StableDA I nu) (p r : Nat) (hnu : (p, r) ∈ nu) :
    (p, r) ∈ st'.mu ∨
    ((matchesOf st'.mu p).length = I.qp p ∧ ∀ r' ∈ matchesOf st'.mu p, prefersP I p r' r) := by
  have hg := gsLoop_good I hwf np fuel St.init st' (init_good I) h
  have hf := (gsLoop_sound I hwf np hout fuel St.init st' (init_inv I) h).2
  exact proposer_optimal I hwf st' hg.inv hg.cap hf hg.opt nu hst p r hnu

/-- Headline for the receiving side. -/
theorem gs_receiver_pessimal (I : DA) (hwf : WF I) (np : Nat)
    (fuel : Nat) (st' : St) (h : gsLoop I np fuel St.init = some st')
    (nu : List (Nat × Nat)) (hst : StableDA I nu) (p r : Nat) (hmu : (p, r) ∈ st'.mu) (hnu : (p, r) ∉ nu) :
    ∃ a, I.rrank r p = some a ∧ (heldBy nu r).length = I.qr r ∧
      ∀ p' ∈ heldBy nu r, ∃ b, I.rrank r p' = some b ∧ b < a := by
  have hg := gsLoop_good I hwf np fuel St.init st' (init_good I) h
  exact receiver_pessimal I hwf st' hg.inv hg.cap hg.opt nu hst p r hmu hnu

/-- and the output itself is a stable matching in the same sense -/
theorem gs_output_stable (I : DA) (hwf : WF I) (np : Nat) (hout : ∀ p, np ≤ p → I.plist p = [])
    (fuel : Nat) (st' : St) (h : gsLoop I np fuel St.init = some st') : StableDA I st'.mu := by
  have hg := gsLoop_good I hwf np fuel St.init st' (init_good I) h
  refine ⟨⟨hg.inv.nodup, ?_, hg.inv.capR, hg.cap⟩, gsLoop_stable I hwf np hout fuel st' h⟩
  intro p r hm
  exact ⟨(hg.inv.before p r hm).imp (fun _ hh => hh.2), hg.inv.acc p r hm⟩

#print axioms gs_proposer_optimal
#print axioms gs_receiver_pessimal
#print axioms gs_output_stable
