import Sck.Proofs.LatticeI5

/-! # C03, package L8a, part 6: the level loop terminates within its fuel (`levels-fuel` never occurs)

Every level with a rotation strictly increases the total rank the men give their partners, which is at most `n * n`. -/

namespace SMLattice

open Irving IrvingAlgo

variable {n : ℕ}

theorem rk_le {P1 P2 : List (List Nat)} {V1 V2 : List (List Int)} (hwf : wfB n P1 P2 V1 V2 = true) (a b : Fin n) :
    rk n P1 a b ≤ n := by
  obtain ⟨hP1, _⟩ := permRow_of_wfB hwf
  obtain ⟨hlen, hrng, _⟩ := (permRowB_iff n _).mp (hP1 a a.2)
  show (P1.getD a []).getD b 0 ≤ n
  rw [List.getD_eq_getElem?_getD (l := P1.getD a []), List.getElem?_eq_getElem (by rw [hlen]; exact b.2)]
  exact (hrng _ (List.getElem_mem _)).2

theorem menCost_le_sq {P1 P2 : List (List Nat)} {V1 V2 : List (List Int)} (hwf : wfB n P1 P2 V1 V2 = true)
    (μ : Equiv.Perm (Fin n)) : menCost (rk n P1) μ ≤ n * n := by
  unfold menCost
  calc ∑ a, rk n P1 a (μ a) ≤ ∑ _a : Fin n, n := Finset.sum_le_sum (fun a _ => rk_le hwf a (μ a))
    _ = n * n := by simp

/-- the level loop does not run out of fuel -/
theorem levelLoop_isSome {P1 P2 : List (List Nat)} {V1 V2 : List (List Int)} (hwf : wfB n P1 P2 V1 V2 = true) :
    ∀ (fuel : Nat) (st : LvSt) (ans : List (List Pair)) (μ : Equiv.Perm (Fin n)), LevelInv n P1 P2 st μ →
      n * n - menCost (rk n P1) μ < fuel → ∃ r, levelLoop fuel st ans = some r := by
  obtain ⟨h1, h2⟩ := rk_injective hwf
  intro fuel
  induction fuel with
  | zero => intro st ans μ _ h; omega
  | succ fuel ih =>
    intro st ans μ inv hf
    rw [levelLoop_succ]
    split
    · exact ⟨_, rfl⟩
    · rename_i hne
      obtain ⟨ρs0, μ', hrots, _, _, hp0, _, inv'⟩ := levelInv_step h1 h2 inv
      apply ih _ _ μ' inv'
      cases ρs0 with
      | nil => rw [hrots] at hne; simp at hne
      | cons ρ rest =>
        obtain ⟨hst1, hle1, hlt1⟩ := exposed_elim_stable h1 inv.stable hp0.1
        obtain ⟨a, ha⟩ := List.exists_mem_of_ne_nil _ hp0.1.2.1
        have c1 := menCost_lt hle1 a (hlt1 a ha)
        have c2 := menCost_le (elimPath_stable h1 rest _ μ' hst1 hp0.2).2
        have c3 := menCost_le_sq hwf μ'
        omega

/-- **`find_all_rotations_and_eliminations` terminates within the mirror's fuel** -/
theorem allRotations_isSome {P1 P2 : List (List Nat)} {V1 V2 : List (List Int)} (hwf : wfB n P1 P2 V1 V2 = true)
    {M0 : List Pair} (hmo : maleOptimal n P1 P2 = some M0) :
    ∃ r, allRotations (shortlists n P1 P2 (muOf n M0)).1 (shortlists n P1 P2 (muOf n M0)).2 = some r := by
  obtain ⟨μ0, _, _, inv⟩ := levelInv_init hwf hmo
  rw [allRotations_eq, (shortlists_length n P1 P2 _).1]
  exact levelLoop_isSome hwf _ _ [] μ0 inv (by omega)

end SMLattice

namespace IrvingAlgo

open Irving SMLattice

theorem irvingPlan_no_levels_fuel (n : Nat) (P1 P2 : List (List Nat)) (V1 V2 : List (List Int)) :
    irvingPlan n P1 P2 V1 V2 ≠ .error "levels-fuel" := by
  intro h
  unfold irvingPlan at h
  split at h
  · exact absurd h (by simp)
  · rename_i hwf
    simp only [Bool.not_eq_true, Bool.not_eq_false'] at hwf
    split at h
    · exact absurd h (by simp)
    · rename_i M0 hmo
      split at h
      · exact absurd h (by simp)
      · obtain ⟨r, hr⟩ := allRotations_isSome hwf hmo
        dsimp only at h
        rw [hr] at h
        obtain ⟨rots, elm⟩ := r
        dsimp only at h
        split at h <;> exact absurd h (by simp)

/-- the checked mirror never answers `levels-fuel` -/
theorem irving_no_levels_fuel (n : Nat) (P1 P2 : List (List Nat)) (V1 V2 : List (List Int)) :
    irving n P1 P2 V1 V2 ≠ .error "levels-fuel" := by
  intro h
  unfold irving at h
  split at h
  · rename_i e hplan
    simp only [Except.error.injEq] at h
    subst h
    exact irvingPlan_no_levels_fuel n P1 P2 V1 V2 hplan
  · split at h
    · exact absurd h (by simp)
    · split at h
      · exact absurd h (by simp)
      · split at h <;> exact absurd h (by simp)

end IrvingAlgo

#print axioms IrvingAlgo.irving_no_levels_fuel
