import Sck.Proofs.VotingBasic
import Mathlib.Tactic.FieldSimp

/-! Voting model: the probability vector of the randomized scoring rules (C13). -/

namespace Vote

theorem sum_map_div (l : List Rat) (c : Rat) : (l.map (· / c)).sum = l.sum / c := by
  induction l with
  | nil => simp
  | cons a as ih => simp [ih, add_div]

theorem randProbs_none_iff (s : List Rat) : randProbs s = none ↔ s.sum = 0 := by
  unfold randProbs
  simp only [sumQ_eq_sum]
  split <;> simp_all

theorem randProbs_eq {s p : List Rat} (h : randProbs s = some p) :
    s.sum ≠ 0 ∧ p = s.map (· / s.sum) := by
  unfold randProbs at h
  simp only [sumQ_eq_sum] at h
  split at h
  · simp at h
  · rename_i hne
    exact ⟨hne, by simpa using h.symm⟩

/-- the vector handed to the generator is the score vector divided by its total, and sums to one -/
theorem randProbs_spec {s p : List Rat} (h : randProbs s = some p) :
    p.length = s.length ∧ (∀ j (hj : j < s.length), p[j]? = some (s[j] / s.sum)) ∧ p.sum = 1 := by
  obtain ⟨hne, rfl⟩ := randProbs_eq h
  refine ⟨by simp, fun j hj => by simp [hj], ?_⟩
  rw [sum_map_div]; exact div_self hne

theorem randProbs_zero_iff {s p : List Rat} (h : randProbs s = some p) (j : Nat) (hj : j < s.length) :
    p[j]? = some 0 ↔ s[j] = 0 := by
  obtain ⟨hne, rfl⟩ := randProbs_eq h
  simp [hj, hne]

theorem sum_nonneg_of {s : List Rat} (h : ∀ x ∈ s, 0 ≤ x) : 0 ≤ s.sum := by
  induction s with
  | nil => simp
  | cons a as ih =>
    simp only [List.sum_cons]
    exact add_nonneg (h a List.mem_cons_self) (ih (fun x hx => h x (List.mem_cons_of_mem _ hx)))

/-- for non-negative scores every probability is non-negative, and it is positive exactly for the
alternatives of positive score: an alternative that can be drawn has positive score -/
theorem randProbs_pos_iff {s p : List Rat} (hs : ∀ x ∈ s, 0 ≤ x) (h : randProbs s = some p)
    (j : Nat) (hj : j < s.length) :
    ∃ q, p[j]? = some q ∧ 0 ≤ q ∧ (0 < q ↔ 0 < s[j]) := by
  obtain ⟨hne, rfl⟩ := randProbs_eq h
  have hpos : 0 < s.sum := lt_of_le_of_ne (sum_nonneg_of hs) (Ne.symm hne)
  refine ⟨s[j] / s.sum, by simp [hj], div_nonneg (hs _ (List.getElem_mem hj)) hpos.le, ?_⟩
  constructor
  · intro hq
    by_contra hn
    have h0 : s[j] = 0 := le_antisymm (not_lt.1 hn) (hs _ (List.getElem_mem hj))
    rw [h0] at hq; simp at hq
  · intro hq; exact div_pos hq hpos

end Vote
