import Sck.Proofs.Dfs2
import Sck.Proofs.FlowCert

/-! C08, mirror of the implementation's `ford_fulkerson` (B3, part 1): lemmas about the dict operations, the
representation invariant `Repr` between the code's state (`G_f`, `flow`) and a net flow function, and its
preservation by the update along an augmenting path (`augment` refines `augPath`). -/

namespace Dfs

/-! ### graph dict -/

theorem adj?_cons (e : Int × List (Int × Int)) (G : Graph) (u : Int) :
    adj? (e :: G) u = if e.1 = u then some e.2 else adj? G u := by
  unfold adj?
  rw [List.find?_cons]
  by_cases h : e.1 = u
  · simp [h]
  · have : (e.1 == u) = false := by simpa using h
    rw [this, if_neg h]

theorem adj?_isSome_iff (G : Graph) (u : Int) : (adj? G u).isSome ↔ u ∈ keys G := by
  induction G with
  | nil => simp [adj?, keys]
  | cons e G ih =>
    rw [adj?_cons]
    by_cases h : e.1 = u
    · simp [h, keys]
    · rw [if_neg h, ih]
      simp only [keys, List.map_cons, List.mem_cons]
      constructor
      · exact Or.inr
      · rintro (h' | h')
        · exact absurd h'.symm h
        · exact h'

theorem keys_setKey (G : Graph) (u : Int) (l : List (Int × Int)) : keys (setKey G u l) = keys G := by
  unfold keys setKey
  rw [List.map_map]
  apply List.map_congr_left
  intro e _
  simp only [Function.comp]
  split <;> rfl

theorem length_setKey (G : Graph) (u : Int) (l : List (Int × Int)) : (setKey G u l).length = G.length := by
  simp [setKey]

theorem adj?_setKey_self (G : Graph) (u : Int) (l : List (Int × Int)) (h : u ∈ keys G) :
    adj? (setKey G u l) u = some l := by
  induction G with
  | nil => simp [keys] at h
  | cons e G ih =>
    simp only [setKey, List.map_cons]
    by_cases he : e.1 = u
    · have : (e.1 == u) = true := by simpa using he
      rw [this, if_pos rfl, adj?_cons, if_pos he]
    · have hb : (e.1 == u) = false := by simpa using he
      rw [hb]
      simp only [Bool.false_eq_true, if_false]
      rw [adj?_cons, if_neg he]
      apply ih
      simp only [keys, List.map_cons, List.mem_cons] at h
      rcases h with h | h
      · exact absurd h.symm he
      · exact h

theorem adj?_setKey_ne (G : Graph) (u w : Int) (l : List (Int × Int)) (h : w ≠ u) :
    adj? (setKey G u l) w = adj? G w := by
  induction G with
  | nil => rfl
  | cons e G ih =>
    simp only [setKey, List.map_cons]
    by_cases he : e.1 = u
    · have : (e.1 == u) = true := by simpa using he
      rw [this, if_pos rfl, adj?_cons, adj?_cons]
      have h1 : ¬ e.1 = w := fun h' => h (h' ▸ he)
      rw [if_neg h1, if_neg h1]
      exact ih
    · have hb : (e.1 == u) = false := by simpa using he
      rw [hb]
      simp only [Bool.false_eq_true, if_false]
      rw [adj?_cons, adj?_cons]
      split
      · rfl
      · exact ih

theorem adj_of_adj? {G : Graph} {u : Int} {l : List (Int × Int)} (h : adj? G u = some l) : adj G u = l := by
  simp [adj, h]

theorem adj?_of_mem_keys {G : Graph} {u : Int} (h : u ∈ keys G) : adj? G u = some (adj G u) := by
  have := (adj?_isSome_iff G u).mpr h
  cases h' : adj? G u with
  | none => rw [h'] at this; simp at this
  | some l => simp [adj, h']

theorem adj_eq_nil_of_not_mem {G : Graph} {u : Int} (h : u ∉ keys G) : adj G u = [] := by
  cases h' : adj? G u with
  | none => simp [adj, h']
  | some l =>
    have : (adj? G u).isSome := by rw [h']; rfl
    exact absurd ((adj?_isSome_iff G u).mp this) h

theorem mem_keys_of_mem_adj {G : Graph} {u : Int} {e : Int × Int} (h : e ∈ adj G u) : u ∈ keys G := by
  by_contra hn
  rw [adj_eq_nil_of_not_mem hn] at h
  simp at h

/-- `bump` succeeds on a key and adds `x` to the capacities of the entries for `v` in `G_f[u]` -/
theorem bump_ok (Gf : Graph) (u v x : Int) (hu : u ∈ keys Gf) :
    ∃ g, bump Gf u v x = .ok g ∧ keys g = keys Gf ∧ g.length = Gf.length ∧
      ∀ a, adj g a = (adj Gf a).map (fun e => (e.1, e.2 + (if a = u ∧ e.1 = v then x else 0))) := by
  have hl := adj?_of_mem_keys hu
  refine ⟨setKey Gf u ((adj Gf u).map (fun e => if e.1 == v then (e.1, e.2 + x) else e)),
    by simp only [bump, hl], keys_setKey _ _ _, length_setKey _ _ _, ?_⟩
  intro a
  by_cases ha : a = u
  · subst ha
    rw [adj_of_adj? (adj?_setKey_self Gf a _ hu)]
    apply List.map_congr_left
    intro e _
    by_cases hev : e.1 = v
    · simp [hev]
    · have : (e.1 == v) = false := by simpa using hev
      simp [hev]
  · have h1 : adj (setKey Gf u (List.map (fun e => if (e.1 == v) = true then (e.1, e.2 + x) else e) (adj Gf u))) a
        = adj Gf a := by
      unfold adj
      rw [adj?_setKey_ne Gf u a _ ha]
    rw [h1]
    have : (fun e : Int × Int => (e.1, e.2 + (if a = u ∧ e.1 = v then x else 0))) = id := by
      funext e
      simp [ha]
    rw [this, List.map_id]

/-! ### flow dict -/

theorem dget?_some {d : FlowDict} {k : Int × Int} {x : Int} (h : dget? d k = some x) : (k, x) ∈ d := by
  unfold dget? at h
  split at h
  · rename_i e he
    have hm := List.mem_of_find?_eq_some he
    have hp := List.find?_some he
    simp only [beq_iff_eq] at hp
    simp only [Option.some.injEq] at h
    rw [← hp, ← h]; exact hm
  · simp at h

theorem dget?_of_mem {d : FlowDict} (hnd : (d.map (·.1)).Nodup) {k : Int × Int} {x : Int} (h : (k, x) ∈ d) :
    dget? d k = some x := by
  induction d with
  | nil => simp at h
  | cons e d ih =>
    simp only [List.map_cons, List.nodup_cons] at hnd
    unfold dget?
    rw [List.find?_cons]
    rcases List.mem_cons.mp h with rfl | h'
    · simp
    · have hne : e.1 ≠ k := by
        intro he
        apply hnd.1
        rw [he]
        exact List.mem_map.mpr ⟨(k, x), h', rfl⟩
      have : (e.1 == k) = false := by simpa using hne
      rw [this]
      have := ih hnd.2 h'
      unfold dget? at this
      exact this

theorem dset_of_mem (d : FlowDict) (k : Int × Int) (x : Int) (h : k ∈ d.map (·.1)) :
    dset d k x = d.map (fun e => if e.1 == k then (e.1, x) else e) := by
  unfold dset
  rw [if_pos]
  simp only [List.any_eq_true, beq_iff_eq]
  obtain ⟨e, he, hk⟩ := List.mem_map.mp h
  exact ⟨e, he, hk⟩

theorem dset_of_not_mem (d : FlowDict) (k : Int × Int) (x : Int) (h : k ∉ d.map (·.1)) :
    dset d k x = d ++ [(k, x)] := by
  unfold dset
  rw [if_neg]
  simp only [List.any_eq_true, beq_iff_eq, not_exists, not_and]
  intro e he hk
  exact h (List.mem_map.mpr ⟨e, he, hk⟩)

theorem keys_dset (d : FlowDict) (k : Int × Int) (x : Int) :
    (dset d k x).map (·.1) = if k ∈ d.map (·.1) then d.map (·.1) else d.map (·.1) ++ [k] := by
  by_cases h : k ∈ d.map (·.1)
  · rw [if_pos h, dset_of_mem d k x h, List.map_map]
    apply List.map_congr_left
    intro e _
    simp only [Function.comp]
    split <;> rfl
  · rw [if_neg h, dset_of_not_mem d k x h]
    simp

theorem nodup_keys_dset (d : FlowDict) (k : Int × Int) (x : Int) (h : (d.map (·.1)).Nodup) :
    ((dset d k x).map (·.1)).Nodup := by
  rw [keys_dset]
  split
  · exact h
  · rename_i hk
    rw [List.nodup_append]
    refine ⟨h, by simp, ?_⟩
    intro a ha b hb
    simp only [List.mem_singleton] at hb
    subst hb
    exact fun hab => hk (hab ▸ ha)

theorem mem_keys_dset (d : FlowDict) (k : Int × Int) (x : Int) : k ∈ (dset d k x).map (·.1) := by
  rw [keys_dset]; split
  · assumption
  · simp

theorem keys_subset_dset (d : FlowDict) (k k' : Int × Int) (x : Int) (h : k' ∈ d.map (·.1)) :
    k' ∈ (dset d k x).map (·.1) := by
  rw [keys_dset]; split
  · exact h
  · exact List.mem_append_left _ h

theorem mem_dset {d : FlowDict} {k : Int × Int} {x : Int} {e : (Int × Int) × Int} (h : e ∈ dset d k x) :
    e ∈ d ∨ e = (k, x) := by
  by_cases hk : k ∈ d.map (·.1)
  · rw [dset_of_mem d k x hk] at h
    obtain ⟨e0, he0, rfl⟩ := List.mem_map.mp h
    by_cases hb : e0.1 = k
    · right; simp [hb]
    · left
      have : (e0.1 == k) = false := by simpa using hb
      simp [this, he0]
  · rw [dset_of_not_mem d k x hk] at h
    simpa using h

/-- `d[k] += x` on an existing key of a dict: every entry with key `k` gets `x` added -/
theorem dadd_ok (d : FlowDict) (hnd : (d.map (·.1)).Nodup) (k : Int × Int) (x : Int) (hk : k ∈ d.map (·.1)) :
    dadd d k x = .ok (d.map (fun e => (e.1, e.2 + (if e.1 = k then x else 0)))) := by
  obtain ⟨e, he, hek⟩ := List.mem_map.mp hk
  have hmem : (k, e.2) ∈ d := by rw [← hek]; exact he
  unfold dadd
  rw [dget?_of_mem hnd hmem]
  simp only
  rw [dset_of_mem d k _ hk]
  congr 1
  apply List.map_congr_left
  intro e' he'
  by_cases hb : e'.1 = k
  · have h2 : e'.2 = e.2 := by
      have h1 := dget?_of_mem hnd (show (k, e'.2) ∈ d by rw [← hb]; exact he')
      have h0 := dget?_of_mem hnd hmem
      rw [h1] at h0
      exact Option.some.inj h0
    simp [hb, h2]
  · have : (e'.1 == k) = false := by simpa using hb
    simp [hb]

/-! ### the representation invariant -/

/-- The code's state (`G_f`, `flow`) represents the net flow `f` on the network `N`:
the keys are the vertices, each `G_f[u]` has at most one entry per neighbour, an entry `(v, c)` of `G_f[u]`
carries the residual capacity `c = cap u v - f u v` and joins the endpoints of an edge of `N` (in one
direction or the other), a missing entry means "no capacity and no flow", entries come in opposite pairs,
and the `flow` dict has distinct keys, holds `f u v` under the key `(u, v)`, and has a key for every entry of
`G_f` and for every edge of `N`. -/
structure Repr (N : Net) (Gf : Graph) (fl : FlowDict) (f : Flow) : Prop where
  keys : keys Gf = N.verts
  entNodup : ∀ u, ((adj Gf u).map (·.1)).Nodup
  ent : ∀ u v c, (v, c) ∈ adj Gf u → v ∈ N.verts ∧ c = N.cap u v - f u v
  entEdge : ∀ u v c, (v, c) ∈ adj Gf u → (∃ k, (u, v, k) ∈ N.edges) ∨ (∃ k, (v, u, k) ∈ N.edges)
  noEnt : ∀ u v, (∀ c, (v, c) ∉ adj Gf u) → N.cap u v = 0 ∧ f u v = 0
  sym : ∀ u v c, (v, c) ∈ adj Gf u → ∃ d, (u, d) ∈ adj Gf v
  flNodup : (fl.map (·.1)).Nodup
  flHas : ∀ u v c, (v, c) ∈ adj Gf u → (u, v) ∈ fl.map (·.1)
  flVal : ∀ u v x, ((u, v), x) ∈ fl → x = f u v
  flEdge : ∀ e ∈ N.edges, (e.1, e.2.1) ∈ fl.map (·.1)

theorem Repr.nbrsKeys {N : Net} {Gf : Graph} {fl : FlowDict} {f : Flow} (h : Repr N Gf fl f) : NbrsKeys Gf :=
  fun u v c hm => by rw [h.keys]; exact (h.ent u v c hm).1

/-- the change of the entry for `w` in `G_f[a]` when the edge `(u, v)` of the path is processed -/
def delta (u v c a w : Int) : Int := (if a = u ∧ w = v then -c else 0) + (if a = v ∧ w = u then c else 0)

/-- the flow after pushing `c` along the single edge `(u, v)` -/
def augEdge (f : Flow) (u v c : Int) : Flow := fun a b => f a b - delta u v c a b

theorem augStep_ok (N : Net) (Gf : Graph) (fl : FlowDict) (f : Flow) (h : Repr N Gf fl f) (u v c d : Int)
    (hne : u ≠ v) (hent : (v, d) ∈ adj Gf u) :
    ∃ g fl', augStep (Gf, fl) u v c = .ok (g, fl') ∧ g.length = Gf.length ∧
      (∀ a, (adj g a).map (·.1) = (adj Gf a).map (·.1)) ∧ Repr N g fl' (augEdge f u v c) := by
  have hu : u ∈ keys Gf := mem_keys_of_mem_adj hent
  obtain ⟨d', hent'⟩ := h.sym u v d hent
  have hv : v ∈ keys Gf := mem_keys_of_mem_adj hent'
  have hk1 : (u, v) ∈ fl.map (·.1) := h.flHas u v d hent
  have hk2 : (v, u) ∈ fl.map (·.1) := h.flHas v u d' hent'
  -- the two dict updates
  have hd1 := dadd_ok fl h.flNodup (u, v) c hk1
  set fl1 := fl.map (fun e => (e.1, e.2 + (if e.1 = (u, v) then c else 0))) with hfl1
  have hkeys1 : fl1.map (·.1) = fl.map (·.1) := by
    rw [hfl1, List.map_map]; rfl
  have hd2 := dadd_ok fl1 (by rw [hkeys1]; exact h.flNodup) (v, u) (-c) (by rw [hkeys1]; exact hk2)
  set fl2 := fl1.map (fun e => (e.1, e.2 + (if e.1 = (v, u) then -c else 0))) with hfl2
  have hkeys2 : fl2.map (·.1) = fl.map (·.1) := by
    rw [hfl2, List.map_map, ← hkeys1]; rfl
  -- the two graph updates
  obtain ⟨g1, hg1, hk1', hlen1, hadj1⟩ := bump_ok Gf u v (-c) hu
  obtain ⟨g2, hg2, hk2', hlen2, hadj2⟩ := bump_ok g1 v u c (by rw [hk1']; exact hv)
  have hadj : ∀ a, adj g2 a = (adj Gf a).map (fun e => (e.1, e.2 + delta u v c a e.1)) := by
    intro a
    rw [hadj2 a, hadj1 a, List.map_map]
    apply List.map_congr_left
    intro e _
    simp only [Function.comp, delta]
    rw [Int.add_assoc]
  have hfst : ∀ a, (adj g2 a).map (·.1) = (adj Gf a).map (·.1) := by
    intro a; rw [hadj a, List.map_map]; rfl
  have hmem : ∀ a w x, (w, x) ∈ adj g2 a ↔ ∃ x0, (w, x0) ∈ adj Gf a ∧ x = x0 + delta u v c a w := by
    intro a w x
    rw [hadj a, List.mem_map]
    constructor
    · rintro ⟨e, he, heq⟩
      simp only [Prod.mk.injEq] at heq
      obtain ⟨rfl, rfl⟩ := heq
      exact ⟨e.2, he, rfl⟩
    · rintro ⟨x0, he, rfl⟩
      exact ⟨(w, x0), he, rfl⟩
  refine ⟨g2, fl2, ?_, by rw [hlen2, hlen1], hfst, ?_⟩
  · simp only [augStep, hd1, hd2, hg1, hg2]
  · refine ⟨by rw [hk2', hk1']; exact h.keys, fun a => by rw [hfst a]; exact h.entNodup a, ?_, ?_, ?_, ?_,
      by rw [hkeys2]; exact h.flNodup, ?_, ?_, by rw [hkeys2]; exact h.flEdge⟩
    · intro a w x hm
      obtain ⟨x0, hm0, rfl⟩ := (hmem a w x).mp hm
      obtain ⟨h1, h2⟩ := h.ent a w x0 hm0
      refine ⟨h1, ?_⟩
      simp only [augEdge]
      omega
    · intro a w x hm
      obtain ⟨x0, hm0, _⟩ := (hmem a w x).mp hm
      exact h.entEdge a w x0 hm0
    · intro a w hno
      have hno0 : ∀ x0, (w, x0) ∉ adj Gf a := fun x0 hm0 => hno _ ((hmem a w _).mpr ⟨x0, hm0, rfl⟩)
      obtain ⟨h1, h2⟩ := h.noEnt a w hno0
      refine ⟨h1, ?_⟩
      have hd0 : delta u v c a w = 0 := by
        unfold delta
        have n1 : ¬ (a = u ∧ w = v) := by
          rintro ⟨rfl, rfl⟩; exact hno0 d hent
        have n2 : ¬ (a = v ∧ w = u) := by
          rintro ⟨rfl, rfl⟩; exact hno0 d' hent'
        rw [if_neg n1, if_neg n2]; rfl
      simp only [augEdge, hd0, h2]; rfl
    · intro a w x hm
      obtain ⟨x0, hm0, _⟩ := (hmem a w x).mp hm
      obtain ⟨y0, hy0⟩ := h.sym a w x0 hm0
      exact ⟨_, (hmem w a _).mpr ⟨y0, hy0, rfl⟩⟩
    · intro a w x hm
      obtain ⟨x0, hm0, _⟩ := (hmem a w x).mp hm
      rw [hkeys2]
      exact h.flHas a w x0 hm0
    · intro a w x hm
      rw [hfl2, hfl1, List.map_map] at hm
      obtain ⟨e, he, heq⟩ := List.mem_map.mp hm
      simp only [Function.comp, Prod.mk.injEq] at heq
      obtain ⟨hk, hx⟩ := heq
      have hv0 : e.2 = f a w := h.flVal a w e.2 (by rw [← hk]; exact he)
      rw [← hx, hk, hv0]
      simp only [augEdge, delta, Prod.mk.injEq]
      omega

/-! ### `augment` refines `augPath` -/

theorem augPath_cons (f : Flow) (u v : Int) (rest : List Int) (c : Int) (hnd : (u :: v :: rest).Nodup) :
    augPath f (u :: v :: rest) c = augPath (augEdge f u v c) (v :: rest) c := by
  have hu : u ∉ v :: rest := (List.nodup_cons.mp hnd).1
  funext a b
  simp only [augPath, pairs, List.mem_cons, Prod.mk.injEq, augEdge, delta]
  have huv : u ≠ v := fun h => hu (by simp [h])
  have n1 : ∀ x, (u, x) ∉ pairs (v :: rest) := fun x hm => hu (pairs_fst_mem hm).1
  have n2 : ∀ x, (x, u) ∉ pairs (v :: rest) := fun x hm => hu (pairs_fst_mem hm).2
  by_cases hab : a = u ∧ b = v
  · obtain ⟨rfl, rfl⟩ := hab
    have e1 : ¬ (b = a ∧ a = b) := fun h => huv h.2
    have e2 : ¬ (a = b ∧ b = a) := fun h => huv h.1
    simp only [n1, n2, e1, e2, and_self, or_false, if_true, if_false]
    omega
  · by_cases hba : a = v ∧ b = u
    · obtain ⟨rfl, rfl⟩ := hba
      have e1 : ¬ (a = b ∧ b = a) := fun h => huv h.2
      simp only [n1, n2, e1, and_self, or_false, if_true, if_false]
      omega
    · have hba' : ¬ (b = u ∧ a = v) := fun h => hba ⟨h.2, h.1⟩
      simp only [hab, hba, hba', false_or, if_false]
      omega

theorem augment_ok (N : Net) (c : Int) :
    ∀ (path : List Int) (Gf : Graph) (fl : FlowDict) (f : Flow), Repr N Gf fl f → path.Nodup →
      (∀ e ∈ pairs path, ∃ d, (e.2, d) ∈ adj Gf e.1) →
      ∃ g fl', augment path c (Gf, fl) = .ok (g, fl') ∧ g.length = Gf.length ∧
        Repr N g fl' (augPath f path c) := by
  intro path
  induction path with
  | nil =>
    intro Gf fl f h _ _
    refine ⟨Gf, fl, rfl, rfl, ?_⟩
    have : augPath f [] c = f := by funext a b; simp [augPath, pairs]
    rw [this]; exact h
  | cons u rest ih =>
    intro Gf fl f h hnd hp
    cases rest with
    | nil =>
      refine ⟨Gf, fl, rfl, rfl, ?_⟩
      have : augPath f [u] c = f := by funext a b; simp [augPath, pairs]
      rw [this]; exact h
    | cons v rest' =>
      obtain ⟨d, hd⟩ := hp (u, v) (by simp [pairs])
      have hne : u ≠ v := fun h' => (List.nodup_cons.mp hnd).1 (by simp [h'])
      obtain ⟨g, fl', hstep, hlen, hfst, hrep⟩ := augStep_ok N Gf fl f h u v c d hne hd
      have hp' : ∀ e ∈ pairs (v :: rest'), ∃ d, (e.2, d) ∈ adj g e.1 := by
        intro e he
        obtain ⟨d0, hd0⟩ := hp e (by simp only [pairs, List.mem_cons]; exact Or.inr he)
        have : e.2 ∈ (adj g e.1).map (·.1) := by
          rw [hfst e.1]; exact List.mem_map.mpr ⟨_, hd0, rfl⟩
        obtain ⟨e', he', heq⟩ := List.mem_map.mp this
        exact ⟨e'.2, by rw [← heq]; exact he'⟩
      obtain ⟨g', fl'', haug, hlen', hrep'⟩ := ih g fl' _ hrep (List.nodup_cons.mp hnd).2 hp'
      refine ⟨g', fl'', ?_, by rw [hlen', hlen], ?_⟩
      · simp only [augment, hstep]; exact haug
      · rw [augPath_cons f u v rest' c hnd]; exact hrep'

end Dfs
